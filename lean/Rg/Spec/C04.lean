import Rg.Model.QSrc
/-!
# Executable statement of C04 — what a function of the accepted subset means in Go

`SpecC04.callFn` is a fuelled big-step reference semantics of the source tree (`Rg.Model.QSrc`) with
Go's meaning: left-to-right evaluation, short-circuit `&&`/`||`, 64-bit wrap-around `int`,
byte-indexed string slicing that panics out of range, block scoping (an inner `:=` shadows a
parameter), `break`, calls by value.  It is written against the source tree only — it does not
mention bytecode, stacks or the compiler — and it is what `go run` of the same source is compared
with by the harness.

The `ty` annotations of the tree are go/types' answers; the semantics checks them against the run-time
values and is `stuck` on a tree whose annotations are inconsistent (such a tree is not a type-checked
Go program), as it is on the forms outside the subset.  Natives are a parameter (`NatSem`).
-/
namespace SpecC04
open Q

inductive Val
  | int (i : Int64)
  | str (b : Bytes)
  | bool (b : Bool)
  | nil                          -- nil error / pointer / interface
  | err (kind : Nat) (s : Bytes) -- a non-nil error made by a native
deriving DecidableEq, Repr, Inhabited

inductive Out (α : Type)
  | ok (a : α)
  | panic (p : Panic)            -- a Go run-time panic
  | fuel                         -- not finished within the fuel
  | stuck                        -- not a well-typed program of the subset
  | unsup                        -- a native without a reference meaning was called
deriving DecidableEq, Repr

namespace Out
def bind {α β} (x : Out α) (f : α → Out β) : Out β :=
  match x with
  | .ok a => f a | .panic p => .panic p | .fuel => .fuel | .stuck => .stuck | .unsup => .unsup
instance : Monad Out where
  pure := .ok
  bind := Out.bind
@[simp] theorem bind_ok {α β} (a : α) (f : α → Out β) : (Out.ok a >>= f) = f a := rfl
@[simp] theorem bind_panic {α β} (p : Panic) (f : α → Out β) : ((Out.panic p : Out α) >>= f) = .panic p := rfl
@[simp] theorem bind_fuel {α β} (f : α → Out β) : ((Out.fuel : Out α) >>= f) = .fuel := rfl
@[simp] theorem bind_stuck {α β} (f : α → Out β) : ((Out.stuck : Out α) >>= f) = .stuck := rfl
@[simp] theorem bind_unsup {α β} (f : α → Out β) : ((Out.unsup : Out α) >>= f) = .unsup := rfl
@[simp] theorem pure_eq {α} (a : α) : (pure a : Out α) = .ok a := rfl
end Out

def ofRes {α} : Res α → Out α
  | .ok a => .ok a
  | .panic p => .panic p

/-- the go/types class of a run-time value -/
def tagOf : Val → Ty
  | .int _ => .int | .str _ => .str | .bool _ => .bool | .nil => .obj | .err _ _ => .obj

/-- meaning of the natives: key ↦ arguments (receiver first) ↦ results; `none` = no reference meaning -/
abbrev NatSem := Nat → Option (List Val → Out (List Val))

structure Prog where
  funcs : List FuncDecl
  nat : NatSem

/-- variables in scope, innermost first -/
abbrev Env := List (Nat × Val)

def lookup (env : Env) (x : Nat) : Option Val := (env.find? (·.1 == x)).map (·.2)

def update : Env → Nat → Val → Option Env
  | [], _, _ => none
  | (y, w) :: rest, x, v =>
    if y == x then some ((y, v) :: rest) else (update rest x v).map ((y, w) :: ·)

/-- leave a block: the variables declared in it disappear, assignments to outer ones stay -/
def leave (outer : Env) (inner : Env) : Env := inner.drop (inner.length - outer.length)

inductive Flow
  | next                -- fell through
  | brk                 -- `break` looking for its loop
  | ret (v : Option Val) -- `return` (with a value or without)
deriving DecidableEq, Repr

def cmpOp (op : BinOp) (x y : Int64) : Option Bool :=
  match op with
  | .eql => some (x == y) | .neq => some (x != y)
  | .lss => some (decide (x < y)) | .leq => some (decide (x ≤ y))
  | .gtr => some (decide (x > y)) | .geq => some (decide (x ≥ y))
  | _ => none

/-- a binary operator other than `&&`/`||` on two values -/
def binVal (op : BinOp) : Val → Val → Out Val
  | .int x, .int y =>
    match op with
    | .add => .ok (.int (x + y))
    | .sub => .ok (.int (x - y))
    | op => match cmpOp op x y with | some b => .ok (.bool b) | none => .stuck
  | .str x, .str y =>
    match op with
    | .add => .ok (.str (x ++ y))
    | .eql => .ok (.bool (x == y))
    | .neq => .ok (.bool (x != y))
    | _ => .stuck
  | _, _ => .stuck

def isNilE : Expr → Bool
  | .nil => true
  | _ => false

def nilCmp (op : BinOp) : Val → Out Val
  | .nil => if op == .eql then .ok (.bool true) else if op == .neq then .ok (.bool false) else .stuck
  | .err _ _ => if op == .eql then .ok (.bool false) else if op == .neq then .ok (.bool true) else .stuck
  | _ => .stuck

def sliceVal (s : Bytes) (lo hi : Int64) : Out Val :=
  match goSlice s lo.toInt hi.toInt with
  | .ok r => .ok (.str r)
  | .panic p => .panic p

/-- bind the parameters of a call (declared types must agree with the values) -/
def bindParams : List (Nat × Ty) → List Val → Option Env
  | [], [] => some []
  | (x, t) :: ps, v :: vs =>
    if tagOf v == t then (bindParams ps vs).map ((x, v) :: ·) else none
  | _, _ => none

def assignAll : List (Nat × Ty) → List Val → Env → Option Env
  | [], [], env => some env
  | (x, t) :: ls, v :: vs, env =>
    if tagOf v == t then (update env x v).bind (assignAll ls vs) else none
  | _, _, _ => none

def defineAll : List (Nat × Ty) → List Val → Env → Option Env
  | [], [], env => some env
  | (x, t) :: ls, v :: vs, env =>
    if tagOf v == t then defineAll ls vs ((x, v) :: env) else none
  | _, _, _ => none

/-- the body of an `if` or a loop is a scope of its own: what it declares is gone afterwards -/
def inScope (outer : Env) (r : Out (Flow × Env)) : Out (Flow × Env) :=
  match r with
  | .ok (fl, inner) => .ok (fl, leave outer inner)
  | o => o

def one : List Val → Out Val
  | [v] => .ok v
  | _ => .stuck

mutual
def evalExpr (P : Prog) : Nat → Env → Expr → Out Val
  | 0, _, _ => .fuel
  | n + 1, env, e =>
    match e with
    | .cint v => .ok (.int v)
    | .cstr v => .ok (.str v)
    | .cbool v _ => .ok (.bool v)
    | .cbad => .stuck
    | .nil => .stuck
    | .bad => .stuck
    | .ident x ty =>
      match lookup env x with
      | some v => if tagOf v == ty then .ok v else .stuck
      | none => .stuck
    | .not x => do
      match ← evalExpr P n env x with
      | .bool b => pure (.bool (!b))
      | _ => .stuck
    | .bin .lor _ x y => do
      match ← evalExpr P n env x with
      | .bool true => pure (.bool true)
      | .bool false =>
        match ← evalExpr P n env y with
        | .bool b => pure (.bool b)
        | _ => .stuck
      | _ => .stuck
    | .bin .land _ x y => do
      match ← evalExpr P n env x with
      | .bool false => pure (.bool false)
      | .bool true =>
        match ← evalExpr P n env y with
        | .bool b => pure (.bool b)
        | _ => .stuck
      | _ => .stuck
    | .bin op ty x y =>
      if isNilE x then do
        let v ← evalExpr P n env y
        nilCmp op v
      else if isNilE y then do
        let v ← evalExpr P n env x
        nilCmp op v
      else do
        let a ← evalExpr P n env x
        let b ← evalExpr P n env y
        if tagOf a == ty then binVal op a b else .stuck
    | .sliceAll x => do
      match ← evalExpr P n env x with
      | .str s => pure (.str s)
      | _ => .stuck
    | .sliceTo _ x hi => do
      match ← evalExpr P n env x, ← evalExpr P n env hi with
      | .str s, .int h => sliceVal s 0 h
      | _, _ => .stuck
    | .sliceFrom _ x lo => do
      match ← evalExpr P n env x, ← evalExpr P n env lo with
      | .str s, .int l => sliceVal s l (Int64.ofNat s.length)
      | _, _ => .stuck
    | .slice _ x lo hi => do
      match ← evalExpr P n env x, ← evalExpr P n env lo, ← evalExpr P n env hi with
      | .str s, .int l, .int h => sliceVal s l h
      | _, _, _ => .stuck
    | .len _ x => do
      match ← evalExpr P n env x with
      | .str s => pure (.int (Int64.ofNat s.length))
      | _ => .stuck
    | .call ci recv args => do
      let vs ← evalCall P n env ci recv args
      one vs

/-- a call: receiver and arguments left to right, then the callee; the result list is empty for a
function without results -/
def evalCall (P : Prog) : Nat → Env → CallInfo → List Expr → List Expr → Out (List Val)
  | 0, _, _, _, _ => .fuel
  | n + 1, env, ci, recv, args => do
    let rv ← evalArgs P n env recv
    let av ← evalArgs P n env args
    match P.nat ci.key with
    | some f => f (rv ++ av)
    | none =>
      if !recv.isEmpty then .stuck else
      match P.funcs.find? (·.key == ci.key) with
      | none => .stuck
      | some g =>
        match g.results with
        | [] =>
          if ci.res != .void then .stuck else
          match callFn P n g av with
          | .ok _ => .ok []
          | .panic p => .panic p
          | .fuel => .fuel
          | .stuck => .stuck
          | .unsup => .unsup
        | [t] =>
          if ci.res != t then .stuck else
          match callFn P n g av with
          | .ok (some v) => .ok [v]
          | .ok none => .stuck
          | .panic p => .panic p
          | .fuel => .fuel
          | .stuck => .stuck
          | .unsup => .unsup
        | _ => .stuck

def evalArgs (P : Prog) : Nat → Env → List Expr → Out (List Val)
  | 0, _, _ => .fuel
  | _ + 1, _, [] => .ok []
  | n + 1, env, e :: es => do
    let v ← evalExpr P n env e
    let vs ← evalArgs P n env es
    pure (v :: vs)

/-- run a function on argument values; `none` = it returned without a value -/
def callFn (P : Prog) : Nat → FuncDecl → List Val → Out (Option Val)
  | 0, _, _ => .fuel
  | n + 1, g, args =>
    match bindParams g.params args with
    | none => .stuck
    | some env => do
      match ← execStmt P g.results.isEmpty n env g.body with
      | (.ret (some v), _) =>
        match g.results with
        | [t] => if tagOf v == t then pure (some v) else .stuck
        | _ => .stuck
      | (.ret none, _) => if g.results.isEmpty then pure none else .stuck
      | (.next, _) => if g.results.isEmpty then pure none else .stuck   -- Go: missing return
      | (.brk, _) => .stuck

/-- `vd`: the enclosing function has no results (`return e` is then not Go, and neither is a bare `return` otherwise) -/
def execStmt (P : Prog) (vd : Bool) : Nat → Env → Stmt → Out (Flow × Env)
  | 0, _, _ => .fuel
  | n + 1, env, s =>
    match s with
    | .ret ty e =>
      if vd then .stuck else do
        let v ← evalExpr P n env e
        if tagOf v == ty then pure (.ret (some v), env) else .stuck
    | .retNone => if vd then pure (.ret none, env) else .stuck
    | .assign define lhs rhs => do
      let vs ← (match rhs with
                | .call ci recv args => evalCall P n env ci recv args
                | e => do let v ← evalExpr P n env e; pure [v])
      match (if define then defineAll lhs vs env else assignAll lhs vs env) with
      | some env' => pure (.next, env')
      | none => .stuck
    | .assignOp op x ty rhs => do
      let b ← evalExpr P n env rhs
      match lookup env x with
      | none => .stuck
      | some a =>
        if tagOf a != ty then .stuck
        else if op != .add && op != .sub then .stuck
        else do
          let v ← binVal op a b
          match update env x v with
          | some env' => pure (.next, env')
          | none => .stuck
    | .incdec inc x =>
      match lookup env x with
      | some (.int i) =>
        match update env x (.int (if inc then i + 1 else i - 1)) with
        | some env' => pure (.next, env')
        | none => .stuck
      | _ => .stuck
    | .ifThen c body => do
      match ← evalExpr P n env c with
      | .bool true => inScope env (execStmt P vd n env body)
      | .bool false => pure (.next, env)
      | _ => .stuck
    | .ifElse c body els => do
      match ← evalExpr P n env c with
      | .bool true => inScope env (execStmt P vd n env body)
      | .bool false => inScope env (execStmt P vd n env els)
      | _ => .stuck
    | .ifInit init rest => do
      match ← execStmt P vd n env init with
      | (.next, env1) => do
        let (fl, env2) ← execStmt P vd n env1 rest
        pure (fl, leave env env2)
      | _ => .stuck
    | .forCond c body => loop P vd n env true c (.block []) body
    | .forEver body => loop P vd n env false (.cbool true false) (.block []) body
    | .forClause hasInit hasCond hasPost init c post body => do
      match ← (if hasInit then execStmt P vd n env init else pure (.next, env)) with
      | (.next, env1) => do
        let (fl, env2) ← loop P vd n env1 hasCond c (if hasPost then post else .block []) body
        pure (fl, leave env env2)
      | _ => .stuck
    | .brk => pure (.brk, env)
    | .exprCall e =>
      match e with
      | .call ci recv args => do
        -- the tree form `exprCall` stands for a call of a function without results only
        match ← evalCall P n env ci recv args with
        | [] => pure (.next, env)
        | _ => .stuck
      | _ => .stuck
    | .block ss => do
      let (fl, env') ← execBlock P vd n env ss
      pure (fl, leave env env')
    | .assignBad => .stuck
    | .incdecBad => .stuck
    | .exprBad => .stuck
    | .bad => .stuck

def execBlock (P : Prog) (vd : Bool) : Nat → Env → List Stmt → Out (Flow × Env)
  | 0, _, _ => .fuel
  | _ + 1, env, [] => .ok (.next, env)
  | n + 1, env, s :: ss => do
    match ← execStmt P vd n env s with
    | (.next, env') => execBlock P vd n env' ss
    | r => pure r

/-- `for [cond] { body; post }` -/
def loop (P : Prog) (vd : Bool) : Nat → Env → Bool → Expr → Stmt → Stmt → Out (Flow × Env)
  | 0, _, _, _, _, _ => .fuel
  | n + 1, env, hasCond, c, post, body => do
    let go ← (if hasCond then do
                match ← evalExpr P n env c with
                | .bool b => pure b
                | _ => .stuck
              else pure true)
    if !go then pure (.next, env) else
    match ← inScope env (execStmt P vd n env body) with
    | (.brk, env') => pure (.next, env')
    | (.ret v, env') => pure (.ret v, env')
    | (.next, env') =>
      match ← execStmt P vd n env' post with
      | (.next, env'') => loop P vd n env'' hasCond c post body
      | _ => .stuck
end

/-- the observable outcome of calling function number `idx` of the file on `args` -/
def run (P : Prog) (fuel : Nat) (idx : Nat) (args : List Val) : Out (Option Val) :=
  match P.funcs[idx]? with
  | none => .stuck
  | some g => callFn P fuel g args

end SpecC04
