import Rg.Model.TypeMatch
import Rg.Spec.C14
/-!
# Executable statement of C10 (independent of the model's matcher; shares only the data types)

A pattern *denotes* a type under an assignment of its variables: types for `$T`, lengths for `[$n]`, any
run of fields / parameters for each `$*_`.  `specM I R st p t` lists the assignments (extensions of `st`,
first occurrence binds) under which `p` denotes `t`; it explores **every** way of splitting a
field / parameter list among the `$*_` of a pattern (complete backtracking).  `specMatch` asks whether the
list is non-empty when starting from the empty assignment.

`I` is the identity relation on types (the property: `SpecC14.goIdentical`, Go-spec identity).
`R : Rules` are the remaining clauses of "identical in the sense of the Go specification"; the property is
`Rules.strict`.  The relaxed settings exist only so that the driver can name *which* clause an
implementation violates (signature of a violation); no theorem is stated about them.

* a type is looked at through its aliases (`unaliasTarget`);
* a qualified pattern name `pkg.T` denotes the named type `T` declared in the package whose import path,
  with everything up to the **last** `/vendor/` (or a leading `vendor/`) removed, is the path the import
  table gives for `pkg` — and only a non-instantiated type;
* a function pattern denotes non-variadic, non-generic signatures only (a pattern cannot spell `...T`).
-/
namespace SpecC10
open TypeMatch (Pat MState)

structure Rules where
  throughAlias : Bool := true     -- look through aliases of the matched type
  lastVendor : Bool := true       -- strip up to the last `/vendor/` (false: the first one, no leading `vendor/`)
  variadicDiffers : Bool := true  -- a variadic signature is not denoted by a function pattern
  instDiffers : Bool := true      -- an instantiated generic type is not denoted by `pkg.T`
  genericDiffers : Bool := true   -- the type of a generic function is not denoted by a function pattern
  localDiffers : Bool := true     -- a function-local type is not denoted by `pkg.T` (which names a package-level one)

def Rules.strict : Rules := {}
/-- the reading of types the code applied before the repairs `fixes/c10-*.diff` (every clause relaxed) -/
def Rules.code : Rules :=
  { throughAlias := false, lastVendor := true, variadicDiffers := false, instDiffers := false, genericDiffers := false,
    localDiffers := false }

/-- the reading of types the code applies now (after `fixes/c10-*.diff`): everything as in the property
except that `pkg.T` still matches every instantiation of a generic `T` (open finding) -/
def Rules.repaired : Rules := { instDiffers := false }

def unaliasTarget (R : Rules) : Ty → Ty
  | .alias u o t => if R.throughAlias then unaliasTarget R t else .alias u o t
  | t => t

open TypeMatch (afterOccurrences)

/-- the import path a (possibly vendored) package path stands for -/
def stripVendor (R : Rules) (path : String) : String :=
  let occ := afterOccurrences "/vendor/".toList path.toList
  if R.lastVendor then
    match occ.getLast? with
    | some s => String.ofList s
    | none => if "vendor/".toList.isPrefixOf path.toList then String.ofList (path.toList.drop 7) else path
  else
    match occ.head? with
    | some s => String.ofList s
    | none => path

def lookupT (st : MState) (n : String) : Option Ty := (st.tm.find? (·.1 == n)).map (·.2)
def lookupI (st : MState) (n : String) : Option Int := (st.im.find? (·.1 == n)).map (·.2)

def fieldTypes : List Ty → List Ty
  | [] => []
  | .field _ _ _ _ _ ty :: fs => ty :: fieldTypes fs
  | t :: fs => t :: fieldTypes fs

def tupleElems : Ty → List Ty
  | .tuple es => es
  | _ => []

/-- every way of choosing a run: the suffixes of a list -/
def suffixes : List Ty → List (List Ty)
  | [] => [[]]
  | t :: ts => (t :: ts) :: suffixes ts

mutual
def specM (I : Ty → Ty → Bool) (R : Rules) (st : MState) (p : Pat) (t : Ty) : List MState :=
  match p, unaliasTarget R t with
  | .var name, _ =>
      if name == "_" then [st]
      else match lookupT st name with
        | none => [{ st with tm := (name, t) :: st.tm }]
        | some y => if I t y then [st] else []
  | .builtin b, _ => if I t b then [st] else []
  | .ptr e, .ptr a => specM I R st e a
  | .slice e, .slice a => specM I R st e a
  | .arrayVar v e, .array n a =>
      if v == "_" then specM I R st e a
      else match lookupI st v with
        | some len => if len == n then specM I R st e a else []
        | none => specM I R { st with im := (v, n) :: st.im } e a
  | .arrayLit len e, .array n a => if len == n then specM I R st e a else []
  | .map k v, .map tk tv => (specM I R st k tk).flatMap fun st' => specM I R st' v tv
  | .chan dir e, .chan d a => if dir == d then specM I R st e a else []
  | .named pkgPath typeName, .named _ _ (some objPath) name _ loc targs =>
      if typeName == name && stripVendor R objPath == pkgPath && (!R.instDiffers || targs.isEmpty) &&
          (!R.localDiffers || !loc) then [st] else []
  | .funcNoSeq pps prs, .sig variadic tps params results =>
      if (R.variadicDiffers && variadic) || (R.genericDiffers && !tps.isEmpty) then []
      else (specSeq I R st pps (tupleElems params)).flatMap fun st' => specSeq I R st' prs (tupleElems results)
  | .func pps prs, .sig variadic tps params results =>
      if (R.variadicDiffers && variadic) || (R.genericDiffers && !tps.isEmpty) then []
      else (specSeq I R st pps (tupleElems params)).flatMap fun st' => specSeq I R st' prs (tupleElems results)
  | .structNoSeq subs, .struct fs => specSeq I R st subs (fieldTypes fs)
  | .struct subs, .struct fs => specSeq I R st subs (fieldTypes fs)
  | .anyIface, .iface .. => [st]
  | _, _ => []
termination_by structural p

/-- a list of patterns against a list of types; `$*_` takes any run -/
def specSeq (I : Ty → Ty → Bool) (R : Rules) (st : MState) (ps : List Pat) (ts : List Ty) : List MState :=
  match ps, ts with
  | [], [] => [st]
  | [], _ :: _ => []
  | .varSeq :: ps, ts => (suffixes ts).flatMap fun ts' => specSeq I R st ps ts'
  | p :: ps, t :: ts => (specM I R st p t).flatMap fun st' => specSeq I R st' ps ts
  | _ :: _, [] => []
termination_by structural ps

end

/-- "some consistent assignment of its `$`-variables makes the pattern identical to the type" -/
def specMatch (I : Ty → Ty → Bool) (R : Rules) (p : Pat) (t : Ty) : Bool :=
  !(specM I R MState.empty p t).isEmpty

/-! ## The same notion, declaratively: `Denotes I R σ p t` — under the assignment `σ` the pattern `p` denotes `t` -/

mutual
inductive Denotes (I : Ty → Ty → Bool) (R : Rules) (σ : MState) : Pat → Ty → Prop
  | wild (t : Ty) : Denotes I R σ (.var "_") t
  | var (x : String) (y t : Ty) : lookupT σ x = some y → I t y = true → Denotes I R σ (.var x) t
  | builtin (b t : Ty) : I t b = true → Denotes I R σ (.builtin b) t
  | ptr (e : Pat) (t a : Ty) : unaliasTarget R t = .ptr a → Denotes I R σ e a → Denotes I R σ (.ptr e) t
  | slice (e : Pat) (t a : Ty) : unaliasTarget R t = .slice a → Denotes I R σ e a → Denotes I R σ (.slice e) t
  | arrayWild (e : Pat) (t : Ty) (n : Int) (a : Ty) :
      unaliasTarget R t = .array n a → Denotes I R σ e a → Denotes I R σ (.arrayVar "_" e) t
  | arrayVar (v : String) (e : Pat) (t : Ty) (n : Int) (a : Ty) :
      unaliasTarget R t = .array n a → lookupI σ v = some n → Denotes I R σ e a → Denotes I R σ (.arrayVar v e) t
  | arrayLit (e : Pat) (t : Ty) (n : Int) (a : Ty) :
      unaliasTarget R t = .array n a → Denotes I R σ e a → Denotes I R σ (.arrayLit n e) t
  | map (k v : Pat) (t tk tv : Ty) :
      unaliasTarget R t = .map tk tv → Denotes I R σ k tk → Denotes I R σ v tv → Denotes I R σ (.map k v) t
  | chan (d : Nat) (e : Pat) (t a : Ty) :
      unaliasTarget R t = .chan d a → Denotes I R σ e a → Denotes I R σ (.chan d e) t
  | named (pkg name : String) (t : Ty) (u o : Nat) (path : String) (x l : Bool) (targs : List Ty) :
      unaliasTarget R t = .named u o (some path) name x l targs → stripVendor R path = pkg →
      (R.instDiffers = true → targs = []) → (R.localDiffers = true → l = false) → Denotes I R σ (.named pkg name) t
  | funcNoSeq (pps prs : List Pat) (t : Ty) (v : Bool) (tps : List Ty) (params results : Ty) :
      unaliasTarget R t = .sig v tps params results → (R.variadicDiffers = true → v = false) →
      (R.genericDiffers = true → tps = []) →
      DenotesSeq I R σ pps (tupleElems params) → DenotesSeq I R σ prs (tupleElems results) →
      Denotes I R σ (.funcNoSeq pps prs) t
  | func (pps prs : List Pat) (t : Ty) (v : Bool) (tps : List Ty) (params results : Ty) :
      unaliasTarget R t = .sig v tps params results → (R.variadicDiffers = true → v = false) →
      (R.genericDiffers = true → tps = []) →
      DenotesSeq I R σ pps (tupleElems params) → DenotesSeq I R σ prs (tupleElems results) →
      Denotes I R σ (.func pps prs) t
  | structNoSeq (subs : List Pat) (t : Ty) (fs : List Ty) :
      unaliasTarget R t = .struct fs → DenotesSeq I R σ subs (fieldTypes fs) → Denotes I R σ (.structNoSeq subs) t
  | struct (subs : List Pat) (t : Ty) (fs : List Ty) :
      unaliasTarget R t = .struct fs → DenotesSeq I R σ subs (fieldTypes fs) → Denotes I R σ (.struct subs) t
  | anyIface (t : Ty) (a c : Bool) (ms es : List Ty) :
      unaliasTarget R t = .iface a c ms es → Denotes I R σ .anyIface t
/-- a list of patterns denotes a list of types; each `$*_` stands for any run -/
inductive DenotesSeq (I : Ty → Ty → Bool) (R : Rules) (σ : MState) : List Pat → List Ty → Prop
  | nil : DenotesSeq I R σ [] []
  | run (ps : List Pat) (ts : List Ty) (k : Nat) : DenotesSeq I R σ ps (ts.drop k) → DenotesSeq I R σ (.varSeq :: ps) ts
  | cons (p : Pat) (ps : List Pat) (t : Ty) (ts : List Ty) :
      Denotes I R σ p t → DenotesSeq I R σ ps ts → DenotesSeq I R σ (p :: ps) (t :: ts)
end

/-- the statement evaluated on an implementation's answer `r`; `none` outside the fragment on which
`SpecC14.goIdentical` restates go/types -/
def specHolds (p : Pat) (t : Ty) (r : Bool) : Option Bool :=
  if SpecC14.plain t then some (r == specMatch SpecC14.goIdentical Rules.strict p t) else none

end SpecC10
