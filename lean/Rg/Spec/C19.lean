import Rg.Model.AdapterC19
/-!
# Executable statement of C19 (independent of the adapter model; shares the report/diagnostic types)

* one diagnostic per engine report, in order, at the report's position, with the message (prefixed by group
  and rule location unless `-e` is used) and, for suggestions, a single fix with a single text edit equal
  to the engine's suggestion;
* `-enable` / `-disable` select exactly the named groups (names separated by commas, surrounding white
  space ignored, `<all>` = everything);
* the rule set is loaded once per process; a load failure is reported once, later passes report nothing.
-/
namespace SpecC19
open AdM

def names (s : Bytes) : List Bytes :=
  let pieces := s.foldr (fun c acc =>
    match acc with
    | [] => [[c]]
    | h :: t => if c == 44 then [] :: h :: t else (c :: h) :: t) [[]]
  pieces.map fun p => ((p.dropWhile isSpace).reverse.dropWhile isSpace).reverse

/-- the groups the flags ask for -/
def wanted (enable disable name : Bytes) : Bool :=
  (enable == allLit || (names enable).contains name) && !(names disable).contains name

def expectedMessage (printLoc : Bool) (r : Report) : Bytes :=
  if printLoc then
    -- "%s: %s (%s:%d)"
    r.group ++ [58, 32] ++ r.message ++ [32, 40] ++ baseName r.filename ++ [58] ++ decimal r.line ++ [41]
  else r.message

def diagOK (printLoc : Bool) (r : Report) (d : Diag) : Bool :=
  d.pos == r.pos && d.message == expectedMessage printLoc r &&
  (match r.suggestion, d.fixes with
   | none, [] => true
   | some s, [f] => (match f.edits with
      | [e] => e.pos == s.from_ && e.end_ == s.to && e.newText == s.replacement
      | _ => false)
   | _, _ => false)

def passOK (printLoc : Bool) : List Report → List Diag → Bool
  | [], [] => true
  | r :: rs, d :: ds => diagOK printLoc r d && passOK printLoc rs ds
  | _, _ => false

/-- `results` = what the successive passes got from the engine cache, `created` = number of loads -/
def onceOK {E : Type} [DecidableEq E] (mk : Option E) (results : List (Prep E)) (created : Nat) : Bool :=
  match results with
  | [] => created == 0
  | first :: rest =>
    created == 1 &&
    (match mk with
     | some e => first == .engine e && rest.all (· == .engine e)
     | none => first == .failed && rest.all (· == .nothing))

end SpecC19
