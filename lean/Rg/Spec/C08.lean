import Rg.Model.Locks
/-!
# Statement of C08 over the lock/event vocabulary (independent of the proofs)

* declarative: `Conflict`, `RaceFree`, `DeadlockFree`, `Confined`;
* the hand-written *expectations* the regenerated tables are compared with: which mutex guards which
  variable and how (`varPolicies`), which struct types are per-run state (`perRunTypes`), which fields
  are the two guarded caches (`guardedCaches`);
* executable: `siteOK` (classification of a write site), `cacheSpecHolds` (what any execution of
  N concurrent `FindType` call sequences must have delivered; evaluated by the driver on the
  *implementation's* outputs).
-/
namespace SpecC08
open Locks

/-! ## Expectations about the lock table -/

inductive PKind | guarded | writeGuarded
deriving DecidableEq, Repr

/-- variable ↦ (mutex, kind).  `writeGuarded`: written only under the lock, read after publication
(the analyzer's once-only engine: readers have passed `prepareEngine`, which took the lock after the
single write) — the read side is the subject of `Adapter` / C19, not of the lock discipline. -/
def varPolicies : List (String × String × PKind) := [
  ("ruleguard.engineState.typeByFQN", "ruleguard.engineState.typeByFQNMu", .guarded),
  ("ruleguard.engineState.pkgCache", "ruleguard.engineState.pkgCacheMu", .guarded),
  ("analyzer.globalEngineErrored", "analyzer.globalEngineMu", .guarded),
  ("analyzer.globalEngine", "analyzer.globalEngineMu", .writeGuarded),
  ("analyzer.runnerStatePool", "analyzer.globalEngineMu", .writeGuarded)
]

def indexOf (l : List String) (s : String) : Option Nat :=
  match l with
  | [] => none
  | x :: xs => if x == s then some 0 else (indexOf xs s).map (· + 1)

def lookupPolicy (l : List (String × String × PKind)) (s : String) : Option (String × PKind) :=
  match l with
  | [] => none
  | (v, m, k) :: xs => if v == s then some (m, k) else lookupPolicy xs s

/-- The policy of variable `v` of a table whose names are `mutexNames` / `varNames`: the expectation
above if the variable is listed, otherwise the naming convention (strict). -/
def policyOf (mutexNames varNames : List String) (t : Table) (v : Var) : Policy :=
  match varNames[v]? with
  | none => conventionPolicy t v
  | some nm =>
    match lookupPolicy varPolicies nm with
    | none => conventionPolicy t v
    | some (mn, k) =>
      match indexOf mutexNames mn with
      | none => .guarded t.nMutex          -- the expected mutex is gone: nothing can satisfy this
      | some m => match k with
        | .guarded => .guarded m
        | .writeGuarded => .writeGuarded m

/-- every variable the specification talks about is still there and still guarded by convention by
the expected mutex (or by none for the pool) -/
def expectedVarsPresent (mutexNames varNames : List String) (t : Table) : Bool :=
  varPolicies.all fun (vn, mn, _) =>
    match indexOf varNames vn, indexOf mutexNames mn with
    | some v, some m => t.guard[v]? == some (some m) || t.guard[v]? == some none
    | _, _ => false

/-! ## Declarative statements -/

/-- two steps conflict: same variable, at least one write -/
def Conflict : Step → Step → Prop
  | .write v, .write w => v = w
  | .write v, .read w => v = w
  | .read v, .write w => v = w
  | _, _ => False

def headOf (t : Thread) : Option Step := t.rest.head?

/-- In state `st` no two distinct threads are about to perform conflicting accesses (same variable, at
least one of them a write) to a variable that `sel` selects.  Accesses never block, so "about to
perform" is "simultaneously enabled". -/
def RaceFreeAt (sel : Var → Bool) (st : State) : Prop :=
  ∀ i j v, i < st.n → j < st.n → i ≠ j → sel v = true →
    headOf (st.th i) = some (.write v) →
    ¬ (headOf (st.th j) = some (.write v) ∨ headOf (st.th j) = some (.read v))

/-- Some thread can move whenever some thread is unfinished. -/
def DeadlockFreeAt (wp : Bool) (st : State) : Prop :=
  (∃ i, i < st.n ∧ (st.th i).rest ≠ []) → ∃ i, enabled wp st i = true

/-! ## Expectations about write sites reachable from `(*Engine).Run` -/

/-- struct types whose objects are confined to one Run call (allocated per call, or owned by the
`RunnerState` the caller must not share) -/
def perRunTypes : List String := [
  "ruleguard.rulesRunner", "ruleguard.filterParams", "ruleguard.RunnerState", "ruleguard.nodePath",
  "ruleguard.astWalker", "ruleguard.matchData", "ruleguard.ReportData", "ruleguard.goImporter",
  "ruleguard.dslDoVarRepr", "xsrcimporter.srcImporter",
  "quasigo.EvalEnv", "quasigo.ValueStack", "typematch.MatcherState",
  "gogrep.MatcherState", "gogrep.MatchData"
]

/-- the two engine-wide caches: (type, field, mutex that must be write-held) -/
def guardedCaches : List (String × String) := [
  ("ruleguard.engineState", "typeByFQN"), ("ruleguard.engineState", "pkgCache")
]

/-- the mutexes of the two caches (kept by value in the engine state) and the only library methods that may
be called on them; whether they are called in the right order on every path is the lock table's business
(`tableOK`) -/
def guardMutexes : List (String × String) := [
  ("ruleguard.engineState", "typeByFQNMu"), ("ruleguard.engineState", "pkgCacheMu")
]

def lockCalls : List String := [
  "call (*sync.RWMutex).Lock", "call (*sync.RWMutex).Unlock",
  "call (*sync.RWMutex).RLock", "call (*sync.RWMutex).RUnlock"
]

inductive Cls | guardedCache | guardMutex | perRun | perRunCaptured | other
deriving DecidableEq, Repr

/-- A site whose `how` is `call <method>` is a library method with a pointer receiver called on an object
kept *by value* in a field / captured variable / package-level variable (a `sync.Map`, a `sync.Once`, an
atomic value, a buffer …): mutable state like any other, so it falls under the same rules — per-run
owner or nothing — except for lock operations on the two guard mutexes. -/
def classify (w : WriteSite) : Cls :=
  match w.kind with
  | .field =>
    if perRunTypes.contains w.typ then .perRun
    else if guardMutexes.contains (w.typ, w.field) && lockCalls.contains w.how then .guardMutex
    else .other
  | .elem =>
    if guardedCaches.contains (w.typ, w.field) then .guardedCache
    else if perRunTypes.contains w.typ then .perRun else .other
  | .captured => if w.fromRun then .perRunCaptured else .other
  | .global => .other
  | .param => .other
  | .unknown => .other

def siteOK (w : WriteSite) : Bool := classify w != .other

/-- `Confined sites`: every Run-reachable write targets a guarded cache or per-run state. -/
def Confined (sites : List WriteSite) : Prop := ∀ w ∈ sites, classify w ≠ .other

/-! ## Executable statement about the type cache (evaluated on implementation outputs)

An observation is: the keys cached before, the calls made (by any thread, any order) with their
outcomes, and the keys cached afterwards.  `resolvable` is the oracle (does the name denote a type).
Outcome: `some k` = a type whose fully qualified name is `k`; `none` = an error. -/

structure CallObs where
  fqn : Nat
  out : Option Nat
deriving DecidableEq, Repr

def cacheSpecHolds (resolvable : Nat → Bool) (before : List Nat) (calls : List CallObs) (after : List Nat) : Bool :=
  -- every call answers with the type of that name, or fails exactly when the name does not resolve
  calls.all (fun c => if resolvable c.fqn || before.contains c.fqn then c.out == some c.fqn else c.out == none) &&
  -- nothing is ever dropped from the cache
  before.all (fun k => after.contains k) &&
  -- successful look-ups are cached, failed ones are not, nothing else appears
  calls.all (fun c => (resolvable c.fqn || before.contains c.fqn) == after.contains c.fqn) &&
  after.all (fun k => before.contains k || calls.any (fun c => c.fqn == k))

end SpecC08
