import Rg.Model.Loader
/-!
# Reference notions for C06

* `wfFE` — the shape `irconv` promises for a filter expression (arity and value kinds per op);
  the harness asserts it on every IR the real `irconv` produces.
* `sound` — an accepted rule alternative is structurally sound: every variable its Where clause and
  its At() clause mention is bound by the alternative's pattern (or is `$$`).
-/
namespace Loader
open Gen.Op

def valIsStr : Val → Bool | .str _ => true | _ => false
def valIsInt : Val → Bool | .int _ => true | _ => false

/-- an operand of a comparison: a literal with the matching value kind, or a node that, if it has a
variable, carries it as a string (the operands are not loaded with `newFilter`; any other node — a
nested connective, `Deadcode`, … — is "unsupported binary expr", a located error) -/
def wfOperand (a : FE) : Bool :=
  if a.op = fString then valIsStr a.value
  else if a.op = fInt then valIsInt a.value
  else (!hasVar a.op || valIsStr a.value)

def wfLeaf (e : FE) : Bool :=
  match leafKind e.op with
  | .strArg _ needVar _ =>
    (match e.args[0]? with
     | some a => (a.op != fString || valIsStr a.value)
     | none => false) && (!needVar || valIsStr e.value)
  | .varOnly => valIsStr e.value
  | .noArgs => true
  | .valueStr _ => valIsStr e.value
  | .varAndArgValue _ =>
    valIsStr e.value && (match e.args[0]? with | some a => valIsStr a.value | none => false)
  | .unsupported => true

/-- well-formed filter expression, by the recursion of `newFilter` (fuel = `feSize e + 1`) -/
def wfFE : Nat → FE → Bool
  | 0, _ => true
  | fuel + 1, e =>
    (!hasVar e.op || valIsStr e.value) &&
    (if isBinaryExpr e.op then
      (match e.args[0]?, e.args[1]? with
       | some a0, some a1 =>
         if e.op = fAnd ∨ e.op = fOr then wfFE fuel a0 && wfFE fuel a1
         else wfOperand a0 && wfOperand a1
       | _, _ => false)
    else if e.op = fNot then
      (match e.args[0]? with | some a0 => wfFE fuel a0 | none => false)
    else wfLeaf e)

def wfRule (r : Rule) : Bool :=
  r.whereExpr.op = fInvalid || wfFE (feSize r.whereExpr + 1) r.whereExpr

def wfFile (f : File) : Bool := f.groups.all fun g => g.rules.all wfRule

/-- gogrep never answers a root tag outside the known range -/
def tagsInRange (o : Oracles) (tc : TagCfg) : Prop :=
  ∀ s tag vars, o.gogrep s = some (tag, vars) →
    tag = tc.unknown ∨ tag = tc.node ∨ tag = tc.stmtList ∨ tag = tc.exprList ∨ tag = tc.declList ∨ tag < tc.numBuckets

/-- structural soundness of an accepted alternative -/
def sound (a : Accepted) : Bool :=
  a.whereVars.all (fun v => v == "$$" || a.patternVars.contains v) &&
  (a.locationVar == "" || a.locationVar == "$$" || a.patternVars.contains a.locationVar)

/-- every line number a located error may legitimately carry -/
def feLines : Nat → FE → List Nat
  | 0, e => [e.line]
  | fuel + 1, e => e.line :: (e.args.map (feLines fuel)).flatten

/-- every variable a filter expression mentions, independently of the loader's control flow -/
def feVars : Nat → FE → List String
  | 0, _ => []
  | fuel + 1, e =>
    (if hasVar e.op then (match e.value with | .str s => [s] | _ => []) else []) ++
    (if e.op = fVarTypeIdenticalTo then      -- `m[x].Type.IdenticalTo(m[y])`: y travels as a string argument
      (match e.args[0]? with | some a => (match a.value with | .str s => [s] | _ => []) | none => [])
     else []) ++
    (e.args.map (feVars fuel)).flatten

/-- every alternative of every accepted group of a file, as the record the property talks about
(used to judge what an *implementation* accepted) -/
def alternatives (o : Oracles) (f : File) : List Accepted :=
  (f.groups.filter (fun g => o.groupAccepted g.name)).flatMap fun g =>
    g.rules.flatMap fun r =>
      let wv := if r.whereExpr.op = fInvalid then [] else feVars (feSize r.whereExpr + 1) r.whereExpr
      (r.syntaxPatterns.map fun p =>
        { group := g.name, line := p.line, comment := false, buckets := [],
          patternVars := ((o.gogrep p.value).map (·.2)).getD [], whereVars := wv, locationVar := r.locationVar }) ++
      (r.commentPatterns.map fun p =>
        { group := g.name, line := p.line, comment := true, buckets := [],
          patternVars := o.regexpGroups p.value, whereVars := wv, locationVar := r.locationVar })

def ruleLines (r : Rule) : List Nat := r.line :: feLines (feSize r.whereExpr + 1) r.whereExpr
def fileLines (f : File) : List Nat := (f.groups.map fun g => (g.rules.map ruleLines).flatten).flatten

end Loader
