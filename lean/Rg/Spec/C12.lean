import Rg.Base
import Rg.Model.Trunc
/-!
# Executable statement of C12 (independent of the model of the runner)

For one comment (`text` = its `ast.Comment.Text`, at byte offset `off` of the file `src`) and the ordered
list of comment rules, each with what Go's regexp answers on `text` (`sub` = the submatch index vector,
`names` = the group names), `verdict … observed` lists the clauses of the property the observed
outcome (no report / one report) violates.  The empty list means the property holds.

* the reporting rule is the first whose regexp matches and whose `Where` accepts the group texts;
* the report's node is the span of the file that the whole match (the `At` group if given) stands for: from the
  file offset of its first byte to just after the file offset of its last byte (`fileSpan`).  The comment text
  is the file's bytes at `off` with some carriage returns removed (go/scanner does that in files with CRLF line
  endings), so the file offset of `text[i]` is `off + i` plus the number of carriage returns removed before it
  (`origins`); the file's bytes at the span are the matched text, again up to removed carriage returns, and
  begin and end with the match's first and last byte (`spanBytesOK`);
* `$$` / `$name` interpolate the whole match / the leftmost group of that name (empty when it did not
  participate), longest name first, shortened as C15 says in messages and never in suggestions;
* the suggestion replaces exactly the node's span;
* the reported rule line is the line of the matching alternative.
-/
namespace SpecC12

/-- `(isEq, variable, literal)`: `m[variable].Text == literal` / `!=` -/
abbrev Atom := Bool × Bytes × Bytes

structure Rule where
  names : List Bytes
  sub : Option (List Int)
  filter : Option (List Atom)
  msg : Bytes
  location : Bytes
  suggestion : Bytes
  line : Int          -- line of the rule (statement)
  altLine : Int       -- line of this alternative
deriving Repr

structure Observed where
  line : Int
  node : Option (Nat × Nat)              -- Pos, End as file offsets
  msg : Bytes
  sugg : Option (Nat × Nat × Bytes)
deriving Repr

def slice (b : Bytes) (lo hi : Nat) : Bytes := (b.drop lo).take (hi - lo)

/-- index pair of group `i` in the vector; `none` when the group did not participate -/
def groupIdx (v : List Int) (i : Nat) : Option (Nat × Nat) :=
  match v[2 * i]?, v[2 * i + 1]? with
  | some lo, some hi => if lo < 0 ∨ hi < 0 then none else some (lo.toNat, hi.toNat)
  | _, _ => none

/-- index of the leftmost group (≥ 1) called `name`, scanning `names` from index `i` -/
def firstNamed (name : Bytes) : Nat → List Bytes → Option Nat
  | _, [] => none
  | i, n :: rest => if i ≠ 0 ∧ n = name then some i else firstNamed name (i + 1) rest

/-- the group a variable denotes: `$$` is group 0, otherwise the leftmost group of that name -/
def groupOf (names : List Bytes) (name : Bytes) : Option Nat :=
  if name = [36, 36] then some 0 else
  if name = [] then none else firstNamed name 0 names

/-- text of a variable: the submatch, empty if the group did not participate -/
def varText (text : Bytes) (names : List Bytes) (v : List Int) (name : Bytes) : Option Bytes :=
  (groupOf names name).map fun i =>
    match groupIdx v i with
    | some (lo, hi) => slice text lo hi
    | none => []

/-- the file offsets of the bytes of `t`, where `s` is the file from offset `pos` on: every byte of the text is
the next byte of the file after the carriage returns the text does not have; `none` when `t` is not a prefix of
`s` with carriage returns removed -/
def origins : Bytes → Bytes → Nat → Option (List Nat)
  | _, [], _ => some []
  | [], _ :: _, _ => none
  | b :: s, c :: t, pos =>
    if b = c then (origins s t (pos + 1)).map (pos :: ·)
    else if b = 13 then origins s (c :: t) (pos + 1)
    else none

/-- the span of the file that `text[lo:hi]` stands for: from the offset of `text[lo]` to just after the offset
of `text[hi-1]`; an empty piece sits just after `text[lo-1]` (at the comment's start when `lo = 0`) -/
def fileSpan (src : Bytes) (off : Nat) (text : Bytes) (lo hi : Nat) : Nat × Nat :=
  match origins (src.drop off) text off with
  | none => (off + lo, off + hi)
  | some os =>
    let after (i : Nat) : Nat := if i = 0 then off else os.getD (i - 1) 0 + 1
    if lo < hi then (os.getD lo 0, after hi) else (after lo, after lo)

/-- span of a variable as file offsets; a group that did not participate sits, empty, at the comment's start -/
def varSpan (src : Bytes) (off : Nat) (text : Bytes) (names : List Bytes) (v : List Int) (name : Bytes) : Option (Nat × Nat) :=
  (groupOf names name).map fun i =>
    match groupIdx v i with
    | some (lo, hi) => fileSpan src off text lo hi
    | none => (off, off)

/-- `want` is `bs` with some carriage returns removed -/
def delCR : Bytes → Bytes → Bool
  | [], [] => true
  | [], _ :: _ => false
  | b :: bs, [] => b == 13 && delCR bs []
  | b :: bs, w :: ws => if b = w then delCR bs ws else b == 13 && delCR bs (w :: ws)

/-- the bytes `bs` of a reported span are exactly the bytes of the match `want`: equal up to carriage returns the
scanner removed, none of them at either end of the span -/
def spanBytesOK (bs want : Bytes) : Bool :=
  delCR bs want && bs.head? == want.head? && bs.getLast? == want.getLast?

def accepts (text : Bytes) (r : Rule) (v : List Int) : Bool :=
  match r.filter with
  | none => true
  | some atoms => atoms.all fun (isEq, var, lit) =>
      match varText text r.names v var with
      | some t => (t == lit) == isEq
      | none => false

/-- the longest (non-empty) group name that is a prefix of `rest` -/
def longestName : List Bytes → Bytes → Option Bytes
  | [], _ => none
  | n :: ns, rest =>
    if n ≠ [] ∧ n.isPrefixOf rest = true then
      match longestName ns rest with
      | some b => if n.length < b.length then some b else some n
      | none => some n
    else longestName ns rest

/-- template interpolation; `subst name` is the text put for `$name` (`$$` for the whole match) -/
def interpolate (names : List Bytes) (subst : Bytes → Bytes) : Nat → Bytes → Bytes
  | _, [] => []
  | skip + 1, _ :: rest => interpolate names subst skip rest
  | 0, b :: rest =>
    if b = 36 then
      if rest.head? = some 36 then subst [36, 36] ++ interpolate names subst 1 rest
      else
        match longestName names.tail rest with
        | some n => subst n ++ interpolate names subst n.length rest
        | none => 36 :: interpolate names subst 0 rest
    else b :: interpolate names subst 0 rest

def okBytes : Res Bytes → Bytes
  | .ok b => b
  | .panic _ => []

/-- the text for a variable in a message (`truncate`) or a suggestion -/
def substFor (text : Bytes) (r : Rule) (v : List Int) (truncate : Bool) (cfg : Int) (name : Bytes) : Bytes :=
  okBytes (interp truncate ((varText text r.names v name).getD []) cfg)

def firstAccepting (text : Bytes) : List Rule → Option (Rule × List Int)
  | [] => none
  | r :: rest =>
    match r.sub with
    | some v => if accepts text r v then some (r, v) else firstAccepting text rest
    | none => firstAccepting text rest

/-- the clauses of the property that `observed` violates -/
def verdict (cfg : Int) (src : Bytes) (off : Nat) (text : Bytes) (rules : List Rule) (observed : Option Observed) :
    List String :=
  if (origins (src.drop off) text off).isNone then ["comment-text-not-in-file"] else
  match firstAccepting text rules, observed with
  | none, none => []
  | none, some _ => ["unexpected-report"]
  | some _, none => ["expected-report-missing"]
  | some (r, v), some o =>
    if o.line ≠ r.line ∧ o.line ≠ r.altLine then ["not-the-first-accepting-rule"] else
    let span := varSpan src off text r.names v (if r.location = [] then [36, 36] else r.location)
    let want := (varText text r.names v (if r.location = [] then [36, 36] else r.location)).getD []
    (if o.node = span then [] else ["span"]) ++
    (match o.node with
      | some (p, e) => if spanBytesOK (slice src p e) want then [] else ["span-bytes"]
      | none => []) ++
    (if o.msg = interpolate r.names (substFor text r v true cfg) 0 r.msg then [] else ["message"]) ++
    (if r.suggestion = [] then (if o.sugg.isNone then [] else ["suggestion-unexpected"]) else
      match o.sugg with
      | none => ["suggestion-missing"]
      | some (f, t, repl) =>
        (if some (f, t) = o.node then [] else ["suggest-span"]) ++
        (if repl = interpolate r.names (substFor text r v false cfg) 0 r.suggestion then [] else ["suggest-text"])) ++
    (if o.line = r.altLine then [] else ["rule-line"])

def specHolds (cfg : Int) (src : Bytes) (off : Nat) (text : Bytes) (rules : List Rule) (observed : Option Observed) : Bool :=
  (verdict cfg src off text rules observed).isEmpty

end SpecC12
