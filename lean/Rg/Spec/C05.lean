import Rg.Model.IR
import Rg.Model.GoTok
/-!
# Executable statement of C05, IR half (independent of the printer model)

"Printing an IR value and evaluating the printed composite literal gives back an equal IR value."

* `parseLit` — a parser for the composite-literal subset of Go expressions (token level):
  string and integer literals, `-n`, conversions `T(n)`, qualified identifiers, composite
  literals with an explicit or elided type, keyed or positional elements, optional last comma.
* `interpFile` — the typed reading of such a literal as an `ir.File`, following the Go rules for
  struct literals (keys in any order, each at most once, only declared fields, missing fields are
  zero), slice literals (`[]T{…}`, element type may be elided inside), `ir.Filter<X>Op` constants,
  `int64(n)` in the `interface{}` field.
* `evalLit` = parse, then interpret; `none` = "this text does not evaluate to an `ir.File` value".
* `specHolds f toks` — the property for one IR value and the tokens some printer produced for it.

The driver evaluates `specHolds` on the tokens of the **real** `irprint.File` output (search
oracle); the harness separately checks `evalLit` against a reflection-based evaluator of the parsed
text (go/parser), so that `evalLit` itself is tied to Go's reading of the literal.
-/

namespace SpecC05
open IR

inductive Ty
  | named (pkg : String) (name : String)     -- `pkg.name`, or `name` when `pkg = ""`
  | slice (t : Ty)
deriving DecidableEq, Repr

/-- syntax tree of the literal subset (a single inductive, nested only through `List`) -/
inductive Lit
  | str (b : Bytes)
  | int (n : Int)                            -- `n` or `-n`
  | conv (ty : String) (n : Int)             -- `ty(n)`, `ty(-n)`
  | sel (pkg name : String)                  -- `pkg.name` used as a value
  | comp (ty : Option Ty) (elems : List Lit) (tc : Bool) -- `T{…}` or `{…}`; `tc`: the last element is followed by a comma (`true` when empty)
  | keyed (k : String) (v : Lit)             -- element `k: v`
deriving Repr

/-! ## Parser -/

def parseTy : List GTok → Option (Ty × List GTok)
  | .lbrack :: .rbrack :: r =>
    match parseTy r with
    | some (t, r') => some (.slice t, r')
    | none => none
  | .ident p :: .dot :: .ident n :: r => some (.named p n, r)
  | .ident n :: r => some (.named "" n, r)
  | _ => none

/-- `( n )` or `( - n )` after a type name -/
def parseConvArg (t : String) : List GTok → Option (Lit × List GTok)
  | .int n :: .rparen :: r => some (.conv t (n : Int), r)
  | .sub :: .int n :: .rparen :: r => some (.conv t (-(n : Int)), r)
  | _ => none

mutual
/-- one operand; fuel bounds the nesting (any fuel ≥ the number of tokens suffices) -/
def parseLit : Nat → List GTok → Option (Lit × List GTok)
  | 0, _ => none
  | _ + 1, .str b :: r => some (.str b, r)
  | _ + 1, .int n :: r => some (.int (n : Int), r)
  | _ + 1, .sub :: .int n :: r => some (.int (-(n : Int)), r)
  | f + 1, .lbrace :: r =>
    match parseElems f r with
    | some (es, tc, r') => some (.comp none es tc, r')
    | none => none
  | _ + 1, .ident t :: .lparen :: r => parseConvArg t r
  | f + 1, ts =>
    match parseTy ts with
    | some (ty, .lbrace :: r) =>
      match parseElems f r with
      | some (es, tc, r') => some (.comp (some ty) es tc, r')
      | none => none
    | some (.named p n, r) => if p == "" then none else some (.sel p n, r)
    | _ => none
/-- elements up to and including the closing brace -/
def parseElems : Nat → List GTok → Option (List Lit × Bool × List GTok)
  | 0, _ => none
  | _ + 1, .rbrace :: r => some ([], true, r)
  | f + 1, .ident k :: .colon :: r =>
    match parseLit f r with
    | some (v, .comma :: r') =>
      (match parseElems f r' with
       | some (es, tc, r'') => some (.keyed k v :: es, tc, r'')
       | none => none)
    | some (v, .rbrace :: r') => some ([.keyed k v], false, r')
    | _ => none
  | f + 1, ts =>
    match parseLit f ts with
    | some (v, .comma :: r') =>
      (match parseElems f r' with
       | some (es, tc, r'') => some (v :: es, tc, r'')
       | none => none)
    | some (v, .rbrace :: r') => some ([v], false, r')
    | _ => none
end

/-! ## Typed interpretation -/

def asStr : Lit → Option Bytes
  | .str b => some b
  | _ => none

/-- an untyped integer constant in an `int` field -/
def asInt : Lit → Option Int
  | .int n => some n
  | _ => none

/-- the constant `ir.Filter<name>Op` -/
def opOfIdent (id : String) : Option Nat :=
  (Gen.irOpNames.find? (fun p => "Filter" ++ p.2 ++ "Op" == id)).map (·.1)

def asOp : Lit → Option Nat
  | .sel "ir" id => opOfIdent id
  | _ => none

/-- the `interface{}` field: a string constant becomes a `string`, `int64(n)` an `int64`
(anything else — a bare `3` would be an `int` — is outside the mirror) -/
def asVal : Lit → Option Val
  | .str b => some (.str b)
  | .conv "int64" n => some (.int64 n)
  | _ => none

def tyIs (ty : Option Ty) (name : String) (elided : Bool) : Bool :=
  ty == some (.named "ir" name) || (ty == none && elided)

def kvsOf : List Lit → Option (List (String × Lit))
  | [] => some []
  | .keyed k v :: r =>
    match kvsOf r with
    | some kvs => some ((k, v) :: kvs)
    | none => none
  | _ :: _ => none

def nodupKeys : List (String × Lit) → Bool
  | [] => true
  | (k, _) :: r => !(r.any (fun kv => kv.1 == k)) && nodupKeys r

/-- key/value pairs of a struct literal of type `ir.<name>` with the declared `fields` -/
def structKVs (name : String) (elided : Bool) (fields : List String) : Lit → Option (List (String × Lit))
  | .comp ty es _ =>
    if tyIs ty name elided then
      match kvsOf es with
      | some kvs => if nodupKeys kvs && kvs.all (fun kv => fields.contains kv.1) then some kvs else none
      | none => none
    else none
  | _ => none

/-- a field: its zero value when the key is absent -/
def field {α} (conv : Lit → Option α) (zero : α) (k : String) (kvs : List (String × Lit)) : Option α :=
  match kvs.lookup k with
  | none => some zero
  | some l => conv l

def mapAll {α} (conv : Lit → Option α) : List Lit → Option (List α)
  | [] => some []
  | l :: ls =>
    match conv l, mapAll conv ls with
    | some a, some as => some (a :: as)
    | _, _ => none

/-- `[]T{…}` with positional elements -/
def sliceOf {α} (elemTy : Ty) (conv : Lit → Option α) : Lit → Option (Sl α)
  | .comp (some (.slice t)) es _ =>
    if t == elemTy then
      match mapAll conv es with
      | some xs => some ⟨xs, false⟩
      | none => none
    else none
  | _ => none

def irTy (name : String) : Ty := .named "ir" name
def stringTy : Ty := .named "" "string"

mutual
def interpFilter (elided : Bool) : Lit → Option FilterExpr
  | .comp ty es _ =>
    if tyIs ty "FilterExpr" elided then interpFilterFields es [] FilterExpr.zero else none
  | _ => none
/-- the fields of a `FilterExpr` literal, left to right (`seen` = keys so far) -/
def interpFilterFields : List Lit → List String → FilterExpr → Option FilterExpr
  | [], _, acc => some acc
  | .keyed k v :: rest, seen, .mk l o s vl as nn =>
    if seen.contains k then none
    else if k == "Line" then
      match asInt v with
      | some n => interpFilterFields rest (k :: seen) (.mk n o s vl as nn)
      | none => none
    else if k == "Op" then
      match asOp v with
      | some n => interpFilterFields rest (k :: seen) (.mk l n s vl as nn)
      | none => none
    else if k == "Src" then
      match asStr v with
      | some b => interpFilterFields rest (k :: seen) (.mk l o b vl as nn)
      | none => none
    else if k == "Value" then
      match asVal v with
      | some x => interpFilterFields rest (k :: seen) (.mk l o s x as nn)
      | none => none
    else if k == "Args" then
      match v with
      | .comp (some (.slice (.named "ir" "FilterExpr"))) es' _ =>
        (match interpFilterList es' with
         | some as' => interpFilterFields rest (k :: seen) (.mk l o s vl as' false)
         | none => none)
      | _ => none
    else none
  | _ :: _, _, _ => none
def interpFilterList : List Lit → Option (List FilterExpr)
  | [] => some []
  | e :: es =>
    match interpFilter true e, interpFilterList es with
    | some a, some as => some (a :: as)
    | _, _ => none
end

def interpPattern (elided : Bool) (l : Lit) : Option PatternString :=
  match structKVs "PatternString" elided ["Line", "Value"] l with
  | none => none
  | some kvs =>
    match field asInt 0 "Line" kvs, field asStr [] "Value" kvs with
    | some line, some value => some ⟨line, value⟩
    | _, _ => none

def interpImport (elided : Bool) (l : Lit) : Option PackageImport :=
  match structKVs "PackageImport" elided ["Path", "Name"] l with
  | none => none
  | some kvs =>
    match field asStr [] "Path" kvs, field asStr [] "Name" kvs with
    | some path, some name => some ⟨path, name⟩
    | _, _ => none

def interpBundle (elided : Bool) (l : Lit) : Option BundleImport :=
  match structKVs "BundleImport" elided ["Line", "PkgPath", "Prefix"] l with
  | none => none
  | some kvs =>
    match field asInt 0 "Line" kvs, field asStr [] "PkgPath" kvs, field asStr [] "Prefix" kvs with
    | some line, some p, some x => some ⟨line, p, x⟩
    | _, _, _ => none

def ruleFields : List String :=
  ["Line", "SyntaxPatterns", "CommentPatterns", "ReportTemplate", "SuggestTemplate", "DoFuncName",
   "WhereExpr", "LocationVar"]

def interpRule (elided : Bool) (l : Lit) : Option Rule :=
  match structKVs "Rule" elided ruleFields l with
  | none => none
  | some kvs =>
    match field asInt 0 "Line" kvs,
          field (sliceOf (irTy "PatternString") (interpPattern true)) Sl.nil "SyntaxPatterns" kvs,
          field (sliceOf (irTy "PatternString") (interpPattern true)) Sl.nil "CommentPatterns" kvs,
          field asStr [] "ReportTemplate" kvs,
          field asStr [] "SuggestTemplate" kvs,
          field asStr [] "DoFuncName" kvs,
          field (interpFilter false) FilterExpr.zero "WhereExpr" kvs,
          field asStr [] "LocationVar" kvs with
    | some line, some sp, some cp, some rt, some st, some dfn, some w, some lv =>
      some ⟨line, sp, cp, rt, st, dfn, w, lv⟩
    | _, _, _, _, _, _, _, _ => none

def groupFields : List String :=
  ["Line", "Name", "MatcherName", "DocTags", "DocSummary", "DocBefore", "DocAfter", "DocNote", "Imports", "Rules"]

def interpGroup (elided : Bool) (l : Lit) : Option RuleGroup :=
  match structKVs "RuleGroup" elided groupFields l with
  | none => none
  | some kvs =>
    match field asInt 0 "Line" kvs,
          field asStr [] "Name" kvs,
          field asStr [] "MatcherName" kvs,
          field (sliceOf stringTy asStr) Sl.nil "DocTags" kvs,
          field asStr [] "DocSummary" kvs,
          field asStr [] "DocBefore" kvs,
          field asStr [] "DocAfter" kvs,
          field asStr [] "DocNote" kvs,
          field (sliceOf (irTy "PackageImport") (interpImport true)) Sl.nil "Imports" kvs,
          field (sliceOf (irTy "Rule") (interpRule true)) Sl.nil "Rules" kvs with
    | some line, some name, some mn, some tags, some ds, some db, some da, some dn, some imps, some rules =>
      some ⟨line, name, mn, tags, ds, db, da, dn, imps, rules⟩
    | _, _, _, _, _, _, _, _, _, _ => none

def fileFields : List String := ["PkgPath", "RuleGroups", "CustomDecls", "BundleImports"]

def interpFile (l : Lit) : Option File :=
  match structKVs "File" false fileFields l with
  | none => none
  | some kvs =>
    match field asStr [] "PkgPath" kvs,
          field (sliceOf (irTy "RuleGroup") (interpGroup true)) Sl.nil "RuleGroups" kvs,
          field (sliceOf stringTy asStr) Sl.nil "CustomDecls" kvs,
          field (sliceOf (irTy "BundleImport") (interpBundle true)) Sl.nil "BundleImports" kvs with
    | some p, some gs, some ds, some bs => some ⟨p, gs, ds, bs⟩
    | _, _, _, _ => none

/-- evaluate a printed literal: the whole token list must be one `ir.File{…}` operand -/
def evalLit (ts : List GTok) : Option File :=
  match parseLit (ts.length + 1) ts with
  | some (l, []) => interpFile l
  | _ => none

/-- the property for one IR value: what was printed for `f` evaluates to `f` (nil = empty) -/
def specHolds (f : File) : Res (List GTok) → Bool
  | .panic _ => false
  | .ok ts => evalLit ts == some (normalize f)

end SpecC05
