import Rg.Model.Preds
/-!
# Executable statement of C02 (independent of the model's functions)

What each predicate *means* according to dsl/dsl.go, over the same facts the model reads.
Type aliases are transparent (`types.Unalias`): a predicate means the same on `type A = T` as on `T`.
-/
namespace SpecC02
open PR

/-- `types.Unalias` -/
def unalias : Ty → Ty
  | .alias a => unalias a
  | t => t

/-- the underlying type in the sense of the Go spec -/
def under (t : Ty) : Ty :=
  match unalias t with
  | .named u => unalias u
  | t' => t'

/-- dsl.go, `OfKind`: the documented kinds.  `IsInteger = 2, IsUnsigned = 4, IsFloat = 8,
IsComplex = 16, IsUntyped = 64, IsNumeric = IsInteger|IsFloat|IsComplex`;
"int" = int, int8 … int64 (kinds 2 … 6), "uint" = uint, uint8 … uint64 (kinds 7 … 11). -/
def kindHolds (kind : KindName) (k info : Nat) : Option Bool :=
  match kind with
  | .integer => some (info &&& 2 != 0)
  | .unsigned => some (info &&& 4 != 0)
  | .float => some (info &&& 8 != 0)
  | .complex => some (info &&& 16 != 0)
  | .untyped => some (info &&& 64 != 0)
  | .numeric => some (info &&& (2 ||| 8 ||| 16) != 0)
  | .signed => some ((info &&& 2 != 0) && !(info &&& 4 != 0))
  | .int => some (2 ≤ k && k ≤ 6)
  | .uint => some (7 ≤ k && k ≤ 11)
  | .empty | .unknown => none

/-- `m[x].Type.OfKind(kind)` / `m[x].Type.Underlying().OfKind(kind)`; `none`: not a documented kind -/
def ofKindK (underlying : Bool) (kind : KindName) (t : Ty) : Option Bool :=
  match kindHolds kind 0 0 with
  | none => none
  | some _ =>
    match (if underlying then under t else unalias t) with
    | .basic k i => kindHolds kind k i
    | _ => some false

def ofKind (underlying : Bool) (kind : String) (t : Ty) : Option Bool := ofKindK underlying (kindOfString kind) t

mutual
/-- `HasPointers`: the memory layout of a value of the type contains a pointer word (string headers,
unsafe.Pointer, pointers, slices, maps, channels, functions, interfaces do); for a type parameter
the layout is unknown and the documented conservative answer is `true` -/
def containsPointer : Ty → Bool
  | .basic k _ => k == 17 || k == 18 || k == 24 || k == 25
  | .named u => containsPointer u
  | .alias a => containsPointer a
  | .strct fs => anyContainsPointer fs
  | .array e => containsPointer e
  | .tparam => true
  | .other => true
def anyContainsPointer : List Ty → Bool
  | [] => false
  | f :: fs => containsPointer f || anyContainsPointer fs
end

def isTypeNameObj : Option Obj → Bool
  | some o => o.kind == .typeName
  | none => false

/-- an expression that denotes a type: the operand of a conversion -/
def denotesType : Ex → Bool
  | .star x => denotesType x
  | .paren x => denotesType x
  | .selector _ sel => isTypeNameObj sel
  | .ident o => isTypeNameObj o
  | .typeLit => true
  | _ => false

mutual
/-- `Pure`: evaluating the expression has no side effect — it contains no call other than a type
conversion and no channel receive (indexing, dereferencing, slicing and type assertions may
panic but do not change state) -/
def pure : Ex → Bool
  | .star x => pure x
  | .binary x y => pure x && pure y
  | .unary arrow x => !arrow && pure x
  | .basicLit _ | .ident _ | .funcLit | .typeLit => true
  | .index x i => pure x && pure i
  | .selector x _ => pure x
  | .paren x => pure x
  | .composite elts _ _ => pureAll elts
  | .call fn args _ => denotesType fn && pureAll args
  | .keyValue k v => pure k && pure v
  | .slice x idx => pure x && pureAll idx
  | .typeAssert x => pure x
  | .other => false
def pureAll : List Ex → Bool
  | [] => true
  | e :: es => pure e && pureAll es
end

/-- `ConstSlice`: a slice (or array) literal whose elements are all constants, or `[]byte("literal")`;
`isSlice` = the literal's type is a slice or an array -/
def constSlice : Ex → Bool
  | .call _ [.basicLit true] funIsByteSlice => funIsByteSlice
  | .composite _ eltsConst isSlice => isSlice && eltsConst.all id
  | _ => false

/-- the identifier an object predicate is about: the expression itself up to parentheses, or the
selected name of a selector expression -/
def identOfExpr : Ex → Option (Option Obj)
  | .paren x => identOfExpr x
  | .ident o => some o
  | .selector _ sel => some sel
  | _ => none

def objectOf (e : Option Ex) : Option Obj :=
  match e with
  | some e => (match identOfExpr e with | some o => o | none => none)
  | none => none

/-- `Object.Is(kind)` -/
def objectIs (k : ObjKind) (e : Option Ex) : Bool :=
  match objectOf e with | some o => o.kind == k | none => false

/-- `Object.IsGlobal()`: there is an object and it is declared in the package scope -/
def objectIsGlobal (e : Option Ex) : Bool :=
  match objectOf e with | some o => o.parentIsPkgScope | none => false

/-- `Object.IsVariadicParam()`: the object is the variadic parameter of a function -/
def objectIsVariadicParam (e : Option Ex) : Bool :=
  match objectOf e with | some o => o.variadicParam | none => false

/-- `Node.Is(tag)`: the node's go/ast type is `tag`, or `tag` is the interface ("Expr", "Stmt", "Node") it implements -/
def nodeIs (n : Option NodeF) (tag : String) : Bool :=
  match n with
  | none => tag == "Node"
  | some f =>
    if tag == "Node" then true
    else if tag == "Expr" then f.isExpr
    else if tag == "Stmt" then f.isStmt
    else f.tag == tag

/-- Go versions are ordered lexicographically by (major, minor) -/
def versionRel (t : FIR.Tok) (x y : GoVersion) : Bool :=
  match t with
  | .eql => decide (x.major = y.major ∧ x.minor = y.minor)
  | .neq => decide (¬ (x.major = y.major ∧ x.minor = y.minor))
  | .lss => decide (x.major < y.major ∨ (x.major = y.major ∧ x.minor < y.minor))
  | .leq => decide (x.major < y.major ∨ (x.major = y.major ∧ x.minor ≤ y.minor))
  | .gtr => decide (y.major < x.major ∨ (x.major = y.major ∧ y.minor < x.minor))
  | .geq => decide (y.major < x.major ∨ (x.major = y.major ∧ y.minor ≤ x.minor))

/-- `GoVersion().<Op>(v)`: holds when the target version is unknown, else compares -/
def goVersion (target : GoVersion) (t : FIR.Tok) (v : GoVersion) : Bool :=
  target.major == 0 || versionRel t target v

/-- a delegated relation holds for the captured expression's type — for every element of a `$*xs` capture -/
def relHolds (o : Oracle) : Bool :=
  match o.onElems with
  | some l => l.all id
  | none => o.onSubExpr

/-- the predicates that are about the captured node as a whole (its sink, its source text), not about the type
of an expression: a `$*xs` capture is one node there (its text is the source text its elements span) -/
def aboutNode : Rel → Bool
  | .sinkTypeIs | .textMatches | .textCmp => true
  | _ => false

/-- what a delegated relation means on a capture -/
def relSpec (r : Rel) (o : Oracle) : Bool := if aboutNode r then o.onSubNode else relHolds o

/-- an expression predicate on a capture: every element of a `$*xs` capture -/
def onCap (p : Option Ex → Bool) : ExCap → Bool
  | .one e => p e
  | .list es => es.all fun e => p (some e)

def pureOpt : Option Ex → Bool | some e => pure e | none => false
def constSliceOpt : Option Ex → Bool | some e => constSlice e | none => false

/-- a type predicate on a capture: every element of a `$*xs` capture -/
def onTyCap (p : Ty → Bool) : TyCap → Bool
  | .one t => p t
  | .list ts => ts.all p

/-- `OfKind` on a capture (`none`: not a documented kind): every element of a `$*xs` capture -/
def ofKindCap (underlying : Bool) (kind : String) : TyCap → Option Bool
  | .one t => ofKind underlying kind t
  | .list ts => (ts.mapM (ofKind underlying kind)).map (·.all id)

/-- What the property prescribes for a predicate at a site; `none`: the property does not constrain this
predicate/argument there (undocumented argument, or no go/types answer supplied for a delegated relation). -/
def specPred : Pred → Site → Option Bool
  | .ofKind u kind, s => ofKindCap u kind s.ty
  | .hasPointers, s => some (onTyCap containsPointer s.ty)
  | .pure, s => some (onCap pureOpt s.ex)
  | .constSlice, s => some (onCap constSliceOpt s.ex)
  | .objectIs name, s => (objKindOfString name).map fun k => onCap (objectIs k) s.ex
  | .isGlobal, s => some (onCap objectIsGlobal s.ex)
  | .isVariadic, s => some (onCap objectIsVariadicParam s.ex)
  | .nodeIs known tag, s => if known then some (nodeIs s.node tag) else none
  | .parentIs known tag, s => if known then some (nodeIs s.parent tag) else none
  | .rel r, s => s.oracle.map (relSpec r)

end SpecC02
