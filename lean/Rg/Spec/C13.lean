import Rg.Model.Loads
/-!
# Executable statement of C13 (independent of the load model; shares only the request/observation types)

A history is a list of load requests, each with what was observed after the call: its outcome, `LoadedGroups()`,
and the reports of a run over a probe file.  The property: the engine is the *ordered union* of the
filter-accepted groups of the calls that returned nil, each rule behaving as its own file says
(calls between custom functions resolved inside that file, the Go way); a call that fails changes nothing;
a call whose accepted names collide with earlier ones (or among themselves) must fail; no call panics.

`violations probe hist` lists `(step, aspect)` for every place where the observations depart from that.
-/
namespace SpecC13
open LoadM

/-- Go semantics of a call to `name` inside a file declaring `ds`: (kind, trace, boolean). -/
def intended (ds : List FuncDecl) : Nat → Nat → Option (FKind × List Nat × Bool)
  | 0, _ => none
  | fuel + 1, name =>
    match ds.find? (fun d => d.name == name) with
    | none => none
    | some d =>
      match d.callee with
      | none => some (d.kind, [d.tag], d.lit)
      | some c =>
        match intended ds fuel c with
        | none => none
        | some (_, t, b) => some (d.kind, d.tag :: t, b)

/-- a rule as the property sees it: where it matches, whether its filter accepts, what it says -/
structure SRule where
  group : Nat × Nat
  line : Nat
  bucket : Nat
  key : Nat
  wild : Bool
  accepts : Bool
  msg : Msg
deriving DecidableEq, Repr

def intendedAccepts (ds : List FuncDecl) : Option Nat → Option Bool
  | none => some true
  | some n =>
    match intended ds (ds.length + 1) n with
    | some (.bool, _, b) => some b
    | some (.filt, _, b) => some b
    | _ => none

def intendedMsg (ds : List FuncDecl) (r : RuleDecl) : Option Msg :=
  if r.bucket == 2 then some (.text r.msg) else
  match r.doFn with
  | none => some (.text r.msg)
  | some n =>
    match intended ds (ds.length + 1) n with
    | some (.doF, t, _) => some (.trace t)
    | _ => none

def intendedRule (ds : List FuncDecl) (g : Nat × Nat) (r : RuleDecl) : Option SRule :=
  match intendedAccepts ds r.filtFn, intendedMsg ds r with
  | some a, some m => some ⟨g, r.line, r.bucket, r.key, r.wild, a, m⟩
  | _, _ => none

/-- an accepted group: its identity, the rules its file gives it, and the custom functions of that file -/
structure SGroup where
  info : GroupInfo
  funcs : List FuncDecl
  decls : List RuleDecl
deriving DecidableEq, Repr

def SGroup.rules (g : SGroup) : List (Option SRule) := g.decls.map (intendedRule g.funcs g.info.name)

/-- the groups of one file that the GroupFilter lets through, under their (prefixed) names -/
def acceptedOfUnit (pfx : Nat) (rejected : List (Nat × Nat)) (u : FileUnit) : List SGroup :=
  (u.groups.filter fun g => !rejected.contains (pfx, g.name)).map fun g =>
    ⟨⟨(pfx, g.name), u.file, g.line⟩, u.funcs, g.rules⟩

/-- … of one call: the file's own groups first, then those of its bundles in import order -/
def accepted (r : Req) : List SGroup :=
  acceptedOfUnit 0 r.rejected r.unit ++
    r.bundles.flatMap fun b => b.files.flatMap (acceptedOfUnit b.pfx r.rejected)

def names (gs : List SGroup) : List (Nat × Nat) := gs.map (·.info.name)

def nodupNames : List (Nat × Nat) → Bool
  | [] => true
  | a :: as => !as.contains a && nodupNames as

/-- no two accepted groups of the call share a name, and none is already loaded -/
def collisionFree (u a : List SGroup) : Bool :=
  nodupNames (names a) && (names a).all fun n => !(names u).contains n

def closed (a : List SGroup) : Bool := a.all fun g => g.rules.all Option.isSome

def rulesOf (u : List SGroup) : List SRule := u.flatMap fun g => g.rules.filterMap id

def sortedGroups (u : List SGroup) : List GroupInfo := sortGroups (u.map (·.info))

def specNode (node : Nat × Nat) : List SRule → Option Report
  | [] => none
  | r :: rs =>
    if r.bucket == node.1 && (r.wild || r.key == node.2) && r.accepts then
      some ⟨node.1, node.2, r.group, r.line, r.msg⟩
    else specNode node rs

def specRun (rules : List SRule) (probe : List (Nat × Nat)) : List Report :=
  probe.filterMap fun n => specNode n rules

inductive Aspect
  | loadPanic | collisionAccepted | unresolvedAccepted | spuriousRedef | groups | reports
deriving DecidableEq, Repr

def runOK (anyLoaded : Bool) (u : List SGroup) (probe : List (Nat × Nat)) : RunOut → Bool
  | .noRules => !anyLoaded
  | .reports rs p => p.isNone && rs == specRun (rulesOf u) probe

/-- walk the history; `u` = union so far, `anyLoaded` = some call has returned nil, `i` = step index -/
def check (probe : List (Nat × Nat)) : List SGroup → Bool → Nat → List (Req × StepObs) → List (Nat × Aspect)
  | _, _, _, [] => []
  | u, anyLoaded, i, (r, o) :: rest =>
    let a := accepted r
    let free := collisionFree u a
    let vOut : List Aspect :=
      match o.out with
      | .panic _ => [.loadPanic]
      | .ok () => (if free then [] else [.collisionAccepted]) ++ (if closed a then [] else [.unresolvedAccepted])
      | .err .redef => if free then [.spuriousRedef] else []
      | .err _ => []
    let ok := match o.out with | .ok () => true | _ => false
    let u' := if ok then u ++ a else u
    let anyLoaded' := anyLoaded || ok
    let vGroups : List Aspect := if o.groups == .ok (sortedGroups u') then [] else [.groups]
    let vRun : List Aspect := if runOK anyLoaded' u' probe o.run then [] else [.reports]
    (vOut ++ vGroups ++ vRun).map (fun x => (i, x)) ++ check probe u' anyLoaded' (i + 1) rest

def violations (probe : List (Nat × Nat)) (hist : List (Req × StepObs)) : List (Nat × Aspect) :=
  check probe [] false 0 hist

def specHolds (probe : List (Nat × Nat)) (hist : List (Req × StepObs)) : Bool :=
  (violations probe hist).isEmpty

end SpecC13
