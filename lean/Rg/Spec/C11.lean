import Rg.Base
import Rg.Model.Utf8
import Rg.Model.Regex
/-!
# Statement of C11: what Go's `regexp` finds, as a positional denotational semantics

`M fold re s i j` : the syntax tree `re` (what `syntax.Parse(p, syntax.Perl)` returned) matches the
bytes of `s` from byte position `i` to byte position `j`, reading the input the way the regexp
machines do: one `utf8.DecodeRune` per step (an ill-formed byte is the rune U+FFFD of width 1).
`search fold re s` : `regexp.MustCompile(p).Match(s)` — an unanchored search, i.e. some `i ≤ j` match.

`fold r` is an oracle parameter: the orbit of `r` under `unicode.SimpleFold` (only consulted for
literals carrying the `FoldCase` flag; the harness supplies it from package unicode).

Nothing here mentions textmatch.  `ends`/`searchB` is the executable form (`Rg/Proofs/Regex.lean`
proves `searchB = true ↔ search`); `specHolds` is what the driver evaluates on the implementation's
answers.
-/
namespace SpecC11
open Rx Utf8

/-- one input step: the rune at byte position `i` and the position after it (`none` at the end) -/
def stepAt (s : Bytes) (i : Nat) : Option (Nat × Nat) :=
  if i < s.length then some ((decodeRune (s.drop i)).1, i + (decodeRune (s.drop i)).2) else none

/-- `syntax.Inst.MatchRune` for a one-rune literal: equal, or (FoldCase) in the same fold orbit -/
def runeEq (fold : Nat → List Nat) (fc : Bool) (r c : Nat) : Bool :=
  c == r || (fc && (fold r).contains c)

/-- membership in a char class given as `lo₀ hi₀ lo₁ hi₁ …` -/
def inClass : List Nat → Nat → Bool
  | lo :: hi :: rest, c => (lo ≤ c && c ≤ hi) || inClass rest c
  | _, _ => false

def isWordByte (b : UInt8) : Bool :=
  let n := b.toNat
  (48 ≤ n && n ≤ 57) || (65 ≤ n && n ≤ 90) || (97 ≤ n && n ≤ 122) || n == 95

/-- `syntax.IsWordChar` of the rune before / after position `i` (only ASCII runes are word characters) -/
def wordBefore (s : Bytes) (i : Nat) : Bool :=
  match i with
  | 0 => false
  | k + 1 => match s[k]? with | some b => isWordByte b | none => false
def wordAfter (s : Bytes) (i : Nat) : Bool :=
  match s[i]? with | some b => isWordByte b | none => false

def atBOL (s : Bytes) (i : Nat) : Bool :=
  match i with
  | 0 => true
  | k + 1 => s[k]? == some 10
def atEOL (s : Bytes) (i : Nat) : Bool := i == s.length || s[i]? == some 10

/-- a literal: its runes one after the other -/
def LitAt (fold : Nat → List Nat) (fc : Bool) : List Nat → Bytes → Nat → Nat → Prop
  | [], _, i, j => i = j
  | r :: rs, s, i, j => ∃ c k, stepAt s i = some (c, k) ∧ runeEq fold fc r c = true ∧ LitAt fold fc rs s k j

/-- `m`-fold composition of a step relation -/
def Pow (R : Nat → Nat → Prop) : Nat → Nat → Nat → Prop
  | 0, i, j => i = j
  | m + 1, i, j => ∃ k, R i k ∧ Pow R m k j

mutual
/-- the semantics of a tree -/
def M (fold : Nat → List Nat) : Re → Bytes → Nat → Nat → Prop
  | .mk op flags runes subs mn mx, s, i, j =>
    match op with
    | .noMatch => False
    | .emptyMatch => i = j
    | .literal => LitAt fold (foldCase flags) runes s i j
    | .charClass => ∃ c, stepAt s i = some (c, j) ∧ inClass runes c = true
    | .anyCharNotNL => ∃ c, stepAt s i = some (c, j) ∧ c ≠ 10
    | .anyChar => ∃ c, stepAt s i = some (c, j)
    | .beginLine => i = j ∧ atBOL s i = true
    | .endLine => i = j ∧ atEOL s i = true
    | .beginText => i = j ∧ i = 0
    | .endText => i = j ∧ i = s.length
    | .wordBoundary => i = j ∧ wordBefore s i ≠ wordAfter s i
    | .noWordBoundary => i = j ∧ wordBefore s i = wordAfter s i
    | .capture => MHead fold subs s i j
    | .star => ∃ m, Pow (MHead fold subs s) m i j
    | .plus => ∃ m, 1 ≤ m ∧ Pow (MHead fold subs s) m i j
    | .quest => ∃ m, m ≤ 1 ∧ Pow (MHead fold subs s) m i j
    | .repeat => ∃ m : Nat, mn ≤ (m : Int) ∧ (mx < 0 ∨ (m : Int) ≤ mx) ∧ Pow (MHead fold subs s) m i j
    | .concat => MSeq fold subs s i j
    | .alternate => MAlt fold subs s i j
    | .other => False
/-- `Sub[0]` -/
def MHead (fold : Nat → List Nat) : List Re → Bytes → Nat → Nat → Prop
  | [], _, _, _ => False
  | r :: _, s, i, j => M fold r s i j
/-- concatenation of the subs -/
def MSeq (fold : Nat → List Nat) : List Re → Bytes → Nat → Nat → Prop
  | [], _, i, j => i = j
  | r :: rs, s, i, j => ∃ k, M fold r s i k ∧ MSeq fold rs s k j
/-- alternation of the subs -/
def MAlt (fold : Nat → List Nat) : List Re → Bytes → Nat → Nat → Prop
  | [], _, _, _ => False
  | r :: rs, s, i, j => M fold r s i j ∨ MAlt fold rs s i j
end

/-- the byte positions the machines can be at: reachable from 0 by whole decoding steps (an unanchored
search advances rune by rune, it never starts inside a well-formed multi-byte sequence) -/
def Boundary (s : Bytes) (i : Nat) : Prop :=
  ∃ m, Pow (fun a b => ∃ c, stepAt s a = some (c, b)) m 0 i

/-- `regexp.MustCompile(p).Match(s)`: the pattern matches somewhere -/
def search (fold : Nat → List Nat) (re : Re) (s : Bytes) : Prop :=
  ∃ i j, Boundary s i ∧ M fold re s i j

/-! ## executable form -/

def dedup (l : List Nat) : List Nat := l.eraseDups

/-- end position of a literal starting at `i` (a literal is deterministic) -/
def litEnd (fold : Nat → List Nat) (fc : Bool) : List Nat → Bytes → Nat → Option Nat
  | [], _, i => some i
  | r :: rs, s, i =>
    match stepAt s i with
    | some (c, k) => if runeEq fold fc r c then litEnd fold fc rs s k else none
    | none => none

/-- positions reachable from `cur` in at most `n` steps of `f` -/
def bfs (f : Nat → List Nat) : Nat → List Nat → List Nat
  | 0, cur => cur
  | n + 1, cur => bfs f n (dedup (cur ++ cur.flatMap f))

/-- positions reachable from `cur` in exactly `n` steps of `f` -/
def powL (f : Nat → List Nat) : Nat → List Nat → List Nat
  | 0, cur => cur
  | n + 1, cur => powL f n (dedup (cur.flatMap f))

def stepEnds (s : Bytes) (i : Nat) (ok : Nat → Bool) : List Nat :=
  match stepAt s i with
  | some (c, k) => if ok c then [k] else []
  | none => []

mutual
/-- all `j` with `M fold re s i j` -/
def ends (fold : Nat → List Nat) : Re → Bytes → Nat → List Nat
  | .mk op flags runes subs mn mx, s, i =>
    match op with
    | .noMatch => []
    | .emptyMatch => [i]
    | .literal => (litEnd fold (foldCase flags) runes s i).toList
    | .charClass => stepEnds s i (inClass runes)
    | .anyCharNotNL => stepEnds s i (· != 10)
    | .anyChar => stepEnds s i (fun _ => true)
    | .beginLine => if atBOL s i then [i] else []
    | .endLine => if atEOL s i then [i] else []
    | .beginText => if i = 0 then [i] else []
    | .endText => if i = s.length then [i] else []
    | .wordBoundary => if wordBefore s i != wordAfter s i then [i] else []
    | .noWordBoundary => if wordBefore s i == wordAfter s i then [i] else []
    | .capture => endsHead fold subs s i
    | .star => bfs (endsHead fold subs s) (s.length + 1) [i]
    | .plus => bfs (endsHead fold subs s) (s.length + 1) (endsHead fold subs s i)
    | .quest => bfs (endsHead fold subs s) 1 [i]
    | .repeat =>
      bfs (endsHead fold subs s) (if mx < 0 then s.length + 1 else mx.toNat - mn.toNat)
        (if mx < 0 ∨ mn ≤ mx then powL (endsHead fold subs s) mn.toNat [i] else [])
    | .concat => endsSeq fold subs s [i]
    | .alternate => endsAlt fold subs s i
    | .other => []
def endsHead (fold : Nat → List Nat) : List Re → Bytes → Nat → List Nat
  | [], _, _ => []
  | r :: _, s, i => ends fold r s i
def endsSeq (fold : Nat → List Nat) : List Re → Bytes → List Nat → List Nat
  | [], _, cur => cur
  | r :: rs, s, cur => endsSeq fold rs s (dedup (cur.flatMap (ends fold r s)))
def endsAlt (fold : Nat → List Nat) : List Re → Bytes → Nat → List Nat
  | [], _, _ => []
  | r :: rs, s, i => ends fold r s i ++ endsAlt fold rs s i
end

def boundaries (s : Bytes) : List Nat :=
  bfs (fun a => stepEnds s a (fun _ => true)) (s.length + 1) [0]

/-- decision of `search` -/
def searchB (fold : Nat → List Nat) (re : Re) (s : Bytes) : Bool :=
  (boundaries s).any fun i => !(ends fold re s i).isEmpty

/-- the property, for one pattern and one input: the implementation's answer is regexp's answer -/
def specHolds (fold : Nat → List Nat) (re : Re) (s : Bytes) (answer : Bool) : Bool :=
  searchB fold re s == answer

end SpecC11
