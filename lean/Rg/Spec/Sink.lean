import Rg.Model.Sink
/-!
# What the sink type of an expression *is* (C02, `SinkType.Is`)

The **sink type** of an expression occurrence is the type its context expects for it: the type of the
place its value is assigned to, passed as, stored into, sent to or converted to.  The Go specification
names these contexts where it requires *assignability* ("x is assignable to T"):

* **Variable declarations** — `var x T = e`: "each variable is given the type T", e must be assignable to T.
* **Assignments** — `lhs = e`: "each value must be assignable to the type of the operand to which it is assigned"
  (n values, n operands; `:=` declares, op-assignments `x op= e` are binary operations: neither expects a type).
* **Return statements** — `return e1, …, en`: "each expression must be assignable to the corresponding element of the
  function's result type"; the function is the innermost enclosing function literal or declaration.
* **Calls** — `f(a1, …, an)`: "arguments must be assignable to the parameter types"; for a variadic `p ...T` the
  arguments bound to `p` must be assignable to `T`; in the spread form `f(…, s...)` the final argument is passed
  unchanged as the `[]T` value (and for `append([]byte, s...)` with a string `s`, the recorded parameter type is
  that of `s`).
* **Conversions** — `T(e)` stores `e` as a `T`.
* **Index expressions** on a map — `m[k]`: "k must be assignable to the key type".
* **Composite literals** — elements of slices and arrays (keyed or not) must be assignable to the element type (their
  keys are constant *indices*, not elements); map keys and values to the key and element type; struct fields, named
  (`F: e`) or positional (the i-th field).  Within a literal of `[]T`, `[n]T`, `map[K]T` an element or key that is
  itself a literal may elide its type, and `&T{…}` may be written `{…}` when the element type is `*T`: the inner
  literal then is a literal of `T`.
* **Send statements** — `ch <- e`: "the value to be sent must be assignable to the channel's element type".

Parentheses do not matter: "(x)" denotes x.  Every other position — operand of an operator, selector, slice or
type assertion, the function of a call, a left-hand side, a type expression, a declared name, a struct-literal
field name, a constant index key — has no sink type.

Written over the abstract syntax of `Rg/Model/Sink.lean` (frames with explicit child slots), by structural
description of the innermost context; nothing here follows the code's traversal (no node path indices, no pointer
comparisons, no loops over children).
-/
namespace SpecSink
open Sink

/-- a type, as opposed to "no type" -/
def tyId : Ty → Option Nat
  | .id n => some n
  | _ => none

/-- parentheses around the expression do not change its context -/
def context : List Frame → List Frame
  | .paren :: fs => context fs
  | fs => fs

/-- the function a statement belongs to: the innermost enclosing function literal or declaration
(`some none`: go/types has no signature for it) -/
def enclosingFunc : List Frame → Option (Option Sig)
  | [] => none
  | .funcLit s :: _ => some s
  | .funcDecl s :: _ => some s
  | _ :: up => enclosingFunc up

/-- the type whose elements a literal lists: `{…}` standing for `&T{…}` is a literal of `T` -/
def litUnder (under : Under) (elided : Bool) : Under :=
  match under, elided with
  | .pointer base, true => base
  | u, _ => u

/-- an element written without a key: i-th element of a slice or array, i-th field of a struct -/
def elemExpects (u : Under) (i : Nat) : Option Nat :=
  match u with
  | .slice el => tyId el
  | .array el => tyId el
  | .strct fields => (fields[i]?).bind fun f => tyId f.2
  | _ => none

/-- the key of `key: value`: only map keys are values of a type (array indices are constants, field names are names) -/
def keyExpects (u : Under) : Option Nat :=
  match u with
  | .map k _ => tyId k
  | _ => none

/-- the value of `key: value`; `field`: the key is an identifier (the field name, for a struct) -/
def valueExpects (u : Under) (field : Option Nat) : Option Nat :=
  match u with
  | .slice el => tyId el
  | .array el => tyId el
  | .map _ el => tyId el
  | .strct fields => field.bind fun name => (fields.lookup name).bind tyId
  | _ => none

/-- the i-th of `nArgs` arguments of a call of a function with signature `s` -/
def argExpects (s : Sig) (ellipsis : Bool) (nArgs i : Nat) : Option Nat :=
  let n := s.params.length
  if s.variadic then
    if ellipsis then
      -- f(a1, …, s...): as many arguments as parameters, each bound to its parameter as it is
      if nArgs = n then (s.params[i]?).bind fun p => tyId p.ty else none
    else if n ≤ nArgs + 1 then
      if i + 1 < n then (s.params[i]?).bind fun p => tyId p.ty
      else (s.params.getLast?).bind fun p => p.sliceElem.bind tyId      -- bound to `p ...T`: T
    else none
  else if nArgs = n then (s.params[i]?).bind fun p => tyId p.ty
  else none

/-- the type the innermost context (parentheses removed) expects -/
def expectedAt : List Frame → Option Nat
  | .valueSpec .value (some t) :: _ => tyId t
  | .ret before after :: up =>
    match enclosingFunc up with
    | some (some s) => if s.results.length = before + 1 + after then (s.results[before]?).bind tyId else none
    | _ => none
  | .index true _ (.map k _) :: _ => tyId k
  | .assign .assign true pos lhs nRhs :: _ => if lhs.length = nRhs then (lhs[pos]?).bind tyId else none
  | .composite (some i) _ _ under elided :: _ => elemExpects (litUnder under elided) i
  | .keyValue inKey field :: .composite (some _) _ _ under elided :: _ =>
    if inKey then keyExpects (litUnder under elided) else valueExpects (litUnder under elided) field
  | .call (some i) nArgs (.sig s) ellipsis :: _ => argExpects s ellipsis nArgs i
  | .call (some _) _ (.notSig t true) _ :: _ => tyId t
  | .send true _ (.chan el) :: _ => tyId el
  | _ => none

/-- the sink type of the match (`none`: it has none) -/
def specSink (c : Ctx) : Option Nat := expectedAt (context c.frames)

/-- `m["$$"].SinkType.Is(T)`: the match is an expression whose sink type is (identical to) `T` -/
def specSinkTypeIs (c : Ctx) (isT : Nat → Bool) : Bool :=
  c.matchIsExpr && (match specSink c with | some n => isT n | none => false)

/-! ## The same, as a relation: one rule per context of the Go specification -/

/-- `Expects fs n`: the expression whose ancestors are `fs` (innermost first) is expected to be of type `n` -/
inductive Expects : List Frame → Nat → Prop
  /-- "(x)" denotes x -/
  | paren {fs n} : Expects fs n → Expects (.paren :: fs) n
  /-- `var x T = e` -/
  | varInit {n up} : Expects (.valueSpec .value (some (.id n)) :: up) n
  /-- `return …, e, …` -/
  | retOperand {before after up s n} : enclosingFunc up = some (some s) → s.results.length = before + 1 + after →
      s.results[before]? = some (.id n) → Expects (.ret before after :: up) n
  /-- `m[e]` on a map -/
  | mapIndex {xt el up n} : Expects (.index true xt (.map (.id n) el) :: up) n
  /-- `…, lhs, … = …, e, …` -/
  | assignOperand {pos lhs nRhs up n} : lhs.length = nRhs → lhs[pos]? = some (.id n) →
      Expects (.assign .assign true pos lhs nRhs :: up) n
  /-- `[]T{…, e, …}`, `[n]T{…, e, …}`, `S{…, e, …}` -/
  | litElem {i k lt under elided up n} : elemExpects (litUnder under elided) i = some n →
      Expects (.composite (some i) k lt under elided :: up) n
  /-- `map[K]V{e: …}` -/
  | litKey {field i k lt under elided up n} : keyExpects (litUnder under elided) = some n →
      Expects (.keyValue true field :: .composite (some i) k lt under elided :: up) n
  /-- `[]T{i: e}`, `map[K]V{k: e}`, `S{F: e}` -/
  | litValue {field i k lt under elided up n} : valueExpects (litUnder under elided) field = some n →
      Expects (.keyValue false field :: .composite (some i) k lt under elided :: up) n
  /-- `f(…, e, …)`, `f(…, e...)` -/
  | callArg {i nArgs s ellipsis up n} : argExpects s ellipsis nArgs i = some n →
      Expects (.call (some i) nArgs (.sig s) ellipsis :: up) n
  /-- `T(e)` -/
  | conversion {i k ellipsis up n} : Expects (.call (some i) k (.notSig (.id n) true) ellipsis :: up) n
  /-- `ch <- e` -/
  | sendOperand {ct up n} : Expects (.send true ct (.chan (.id n)) :: up) n

/-! ## The contract of the facts (what go/parser and go/types guarantee for a type-checked file)

Asserted by the harness on every site it serialises (driver op `c02sink`, field `wf`). -/

/-- a variadic signature has a final parameter, of slice type — except the `append([]byte, s...)` form,
which go/types records with the string type of `s` and which always has the ellipsis -/
def sigOk (s : Sig) (ellipsis : Bool) : Bool :=
  !s.variadic || (match s.params.getLast? with
                  | some p => ellipsis || p.sliceElem.isSome
                  | none => false)

/-- facts of one frame that go/types guarantees -/
def frameOk : Frame → Bool
  | .index _ xType _ => xType != .nil                              -- every operand has a recorded type
  | .composite slot nElts litType _ _ =>
    litType != .nil && (match slot with | some i => decide (i < nElts) | none => true)
  | .assign _ onRhs pos lhs nRhs => if onRhs then decide (pos < nRhs) else decide (pos < lhs.length)
  | .call slot nArgs fn ellipsis =>
    (match slot with | some i => decide (i < nArgs) | none => true) &&
    (match fn with
     | .sig s => sigOk s ellipsis
     | .notSig _ _ => true)
  | .send _ chanType _ => chanType != .nil
  | .funcLit s => s.isSome
  | .funcDecl s => s.isSome
  | _ => true

/-- facts that relate a frame to the frames above it -/
def adjOk : Frame → List Frame → Bool
  | .keyValue _ _, up =>                                           -- `k: v` is an element of a composite literal
    (match up with | .composite (some _) _ _ _ _ :: _ => true | _ => false)
  | .ret before _, up =>                                           -- a return statement is inside a function with that many results (or returns a call's results)
    (match enclosingFunc up with | some (some s) => decide (before < s.results.length) | _ => false)
  | _, _ => true

def wfFrames : List Frame → Bool
  | [] => true
  | f :: up => frameOk f && adjOk f up && wfFrames up

def wf (c : Ctx) : Bool := wfFrames c.frames

/-! ## Where the code is known not to compute the sink type (the hypotheses of `C02.sink_eq_spec_partial`) -/

inductive Gap
  | parenMatch      -- the match is itself a parenthesised expression
  | typeSlot        -- the match is not a value operand: a declared name or the type of a `var`, the type of a literal, the type of a conversion
  | keySlot         -- the match is the index key of a slice / array literal element or the field name of a struct literal element
  | unkeyedMap      -- an element of a map literal without a key (not Go)
  | elidedPointer   -- an element of `{…}` standing for `&T{…}`
  | send            -- the operand of a send statement
  | arity           -- `f(g())` / `return g()` with a multi-valued `g()`: the operand counts differ
  | calleeNotSig    -- the callee is neither of signature type nor a type (a type-parameter typed function value)
deriving DecidableEq, Repr, Inhabited

def Gap.name : Gap → String
  | .parenMatch => "paren-match" | .typeSlot => "type-slot" | .keySlot => "key-slot" | .unkeyedMap => "unkeyed-map"
  | .elidedPointer => "elided-pointer" | .send => "send" | .arity => "arity" | .calleeNotSig => "callee-not-signature"

/-- the operand counts of a call agree with the signature -/
def arityOk (s : Sig) (ellipsis : Bool) (nArgs : Nat) : Bool :=
  if s.variadic then (if ellipsis then nArgs == s.params.length else decide (s.params.length ≤ nArgs + 1))
  else nArgs == s.params.length

def gapAt : List Frame → Option Gap
  | .valueSpec slot (some _) :: _ => if slot = .value then none else some .typeSlot
  | .ret before after :: up =>
    (match enclosingFunc up with
     | some (some s) => if s.results.length = before + 1 + after then none else some .arity
     | _ => none)
  | .composite none _ _ under _ :: _ =>
    (match under with
     | .slice _ | .array _ | .map _ _ => some .typeSlot
     | _ => none)
  | .composite (some _) _ _ under elided :: _ =>
    (match under, elided with
     | .pointer _, true => some .elidedPointer
     | .map _ _, _ => some .unkeyedMap
     | _, _ => none)
  | .keyValue inKey _ :: .composite (some _) _ _ under elided :: _ =>
    (match under, elided with
     | .pointer _, true => some .elidedPointer
     | .slice _, _ | .array _, _ | .strct _, _ => if inKey then some .keySlot else none
     | _, _ => none)
  | .call none _ (.notSig _ _) _ :: _ => some .typeSlot
  | .call (some _) nArgs (.sig s) ellipsis :: _ => if arityOk s ellipsis nArgs then none else some .arity
  | .call (some _) _ (.notSig _ false) _ :: _ => some .calleeNotSig
  | .send true _ (.chan _) :: _ => some .send
  | _ => none

def gap (c : Ctx) : Option Gap := if c.matchIsParen then some .parenMatch else gapAt (context c.frames)

end SpecSink
