import Rg.Base
/-!
# Executable statement of C15 (independent of the model)

`specHolds truncate s cfg out` decides whether `out` — the text some implementation substituted
for a capture whose source text is `s` under `RunContext.TruncateLen = cfg` — is allowed by the
property.  It is run by the driver against the *implementation's* outputs when the search for a
failing input is on, and `C15.model_meets_spec` proves the model always satisfies it.
-/
namespace SpecC15

def marker : Bytes := [60, 46, 46, 46, 62]

def limit (cfg : Int) : Int := if cfg = 0 then 60 else cfg

/-- `r = p ++ marker ++ q` with `|p| = i`, `p` a prefix and `q` a suffix of `s` -/
def splitAt (s r : Bytes) (i : Nat) : Bool :=
  (r.take i).isPrefixOf s && ((r.drop i).take 5 == marker) && (r.drop (i + 5)).isSuffixOf s

def specHolds (truncate : Bool) (s : Bytes) (cfg : Int) : Res Bytes → Bool
  | .panic _ => false                        -- "no TruncateLen value makes a run fail"
  | .ok r =>
    if !truncate then r == s                 -- suggestion text is never shortened
    else
      let L := limit cfg
      if (s.length : Int) ≤ L then r == s    -- unchanged when it does not exceed the limit
      else if 5 ≤ L then
        (r.length : Int) == L && (List.range (r.length + 1)).any (splitAt s r)
      else true                              -- below the marker size only totality is demanded
end SpecC15
