import Rg.Model.Ty
/-!
# Executable statement of C14 (independent of the model of `xtypes`)

`goIdentical` is type identity as the Go specification / `go/types.Identical` define it, over the
trees of `Rg/Model/Ty.lean`: declarations (named types, type parameters) are compared by *pointer*,
i.e. by `(universe, declaration)`.  `counterpart` is the same relation with declarations compared
by their place in the sources only (`declaration`), i.e. "the same construction, seen by an
independent type-check of the same sources".  Both are `specId cross`.

Fragment (`Plain`): trees without generic signatures, without interfaces that are not plain method
sets (`comparable`, type-set terms) and without union/term nodes.  Outside it identity needs
go/types' type-set normalisation and type-parameter substitution, which are not restated here; the
harness then uses `go/types.Identical` itself as the oracle (and validates `specId` against it inside
the fragment on every run).

`specImplements`: `go/types.Implements` for a method-set interface, given the answers of
`LookupFieldOrMethod` (the same oracle inputs as the model).

`lawViolation`: reflexivity / symmetry / transitivity of a relation given as an n×n matrix (evaluated
on the implementation's answers over the types of two universes).
-/
namespace SpecC14

def unalias : Ty → Ty
  | .alias _ _ t => unalias t
  | t => t

/-- same declaration: same place in the sources and, unless comparing across universes, same universe -/
def declEq (cross : Bool) (u o u' o' : Nat) : Bool := o == o' && (cross || u == u')

/-- Go spec: "Two identifiers are different if they are spelled differently, or if they appear in
different packages and are not exported."  (`pkg = none`: no package.) -/
def sameIdent (n : String) (ex : Bool) (p : Option String) (n' : String) (p' : Option String) : Bool :=
  n == n' && (ex || p == p')

/-- `types.Id` -/
def methodId (n : String) (ex : Bool) (p : Option String) : String :=
  if ex then n else (match p with | some q => if q == "" then "_" else q | none => "_") ++ "." ++ n

mutual
def specId (cross : Bool) (x y : Ty) : Bool :=
  match x, unalias y with
  | .alias _ _ t, _ => specId cross t y
  | .nil, .nil => true
  | .basic k, .basic k' => k == k'
  | .array n e, .array n' e' => (decide (n < 0) || decide (n' < 0) || n == n') && specId cross e e'
  | .slice e, .slice e' => specId cross e e'
  | .ptr e, .ptr e' => specId cross e e'
  | .map k e, .map k' e' => specId cross k k' && specId cross e e'
  | .chan d e, .chan d' e' => d == d' && specId cross e e'
  | .tuple es, .tuple es' => specList cross es es'
  | .sig v tps p r, .sig v' tps' p' r' =>
      tps.isEmpty && tps'.isEmpty && v == v' && specId cross p p' && specId cross r r'
  | .struct fs, .struct gs => specFields cross fs gs
  | .iface ms _ mths _, .iface ms' _ mths' _ => ms && ms' && specMethods cross mths mths'
  | .named u o _ _ _ _ ts, .named u' o' _ _ _ _ ts' => declEq cross u o u' o' && specList cross ts ts'
  | .tparam u o, .tparam u' o' => declEq cross u o u' o'
  | .union i ts, .union i' ts' => i == i' || specList cross ts ts'   -- outside `Plain`; approximation
  | .term a t, .term a' t' => a == a' && specId cross t t'          -- outside `Plain`
  | _, _ => false
termination_by structural x

def specList (cross : Bool) (as bs : List Ty) : Bool :=
  match as, bs with
  | [], [] => true
  | a :: as, b :: bs => specId cross a b && specList cross as bs
  | _, _ => false
termination_by structural as

def specFields (cross : Bool) (fs gs : List Ty) : Bool :=
  match fs, gs with
  | [], [] => true
  | .field n p ex em tg ty :: fs, .field n' p' _ em' tg' ty' :: gs =>
      (em == em' && tg == tg' && sameIdent n ex p n' p' && specId cross ty ty') && specFields cross fs gs
  | _, _ => false
termination_by structural fs

def specMethods (cross : Bool) (fs gs : List Ty) : Bool :=
  match fs, gs with
  | [], [] => true
  | .method n p ex ty :: fs, .method n' p' ex' ty' :: gs =>
      (methodId n ex p == methodId n' ex' p' && specId cross ty ty') && specMethods cross fs gs
  | _, _ => false
termination_by structural fs
end

/-- `go/types.Identical` inside one universe -/
abbrev goIdentical : Ty → Ty → Bool := specId false
/-- the same construction in an independent type-check of the same sources -/
abbrev counterpart : Ty → Ty → Bool := specId true

mutual
/-- the fragment on which `specId` restates go/types completely (`field` / `method` nodes are
admitted only as elements of a `struct` / `iface`) -/
def plain : Ty → Bool
  | .nil => true
  | .basic _ => true
  | .array _ e => plain e
  | .slice e => plain e
  | .ptr e => plain e
  | .map k e => plain k && plain e
  | .chan _ e => plain e
  | .tuple es => plainList es
  | .sig _ tps p r => tps.isEmpty && plain p && plain r
  | .struct fs => plainFields fs
  | .iface ms _ mths _ => ms && plainMethods mths
  | .named _ _ _ _ _ _ ts => plainList ts
  | .alias _ _ t => plain t
  | .tparam _ _ => true
  | .field .. => false
  | .method .. => false
  | .term _ _ => false
  | .union _ _ => false
def plainList : List Ty → Bool
  | [] => true
  | a :: as => plain a && plainList as
def plainFields : List Ty → Bool
  | [] => true
  | .field _ _ _ _ _ ty :: fs => plain ty && plainFields fs
  | _ :: _ => false
def plainMethods : List Ty → Bool
  | [] => true
  | .method _ _ _ ty :: fs => plain ty && plainMethods fs
  | _ :: _ => false
end

/-- The statement evaluated on an implementation's answer `r` for `Identical(x, y)`:
`none` outside the fragment. -/
def specHolds (cross : Bool) (x y : Ty) (r : Bool) : Option Bool :=
  if plain x && plain y then some (r == specId cross x y) else none

/-- one `LookupFieldOrMethod` answer (mirrors the model's oracle input, restated here so that the
spec does not import the model) -/
inductive Found | none | field | func
deriving DecidableEq, Repr

/-- `go/types.Implements(v, iface)` for a method-set interface -/
def specImplements (cross : Bool) (ifaceEmpty : Bool) (ps : List (Found × Ty × Ty)) : Bool :=
  ifaceEmpty || ps.all fun p => p.1 == .func && specId cross p.2.1 p.2.2

/-- first violation of reflexivity / symmetry / transitivity in the n×n matrix `m` (row-major) -/
def lawViolation (n : Nat) (m : Array Bool) : Option String := Id.run do
  let cell (i j : Nat) : Bool := m.getD (i * n + j) false
  for i in [0:n] do
    if !cell i i then return some s!"refl {i}"
  for i in [0:n] do
    for j in [0:n] do
      if cell i j && !cell j i then return some s!"symm {i} {j}"
  for i in [0:n] do
    for j in [0:n] do
      if cell i j then
        for k in [0:n] do
          if cell j k && !cell i k then return some s!"trans {i} {j} {k}"
  return none

end SpecC14
