import Rg.Model.FilterIR
/-!
# Executable statement of C17 (independent of the model)

`sem c e` is the verdict the property prescribes for the filter expression `e` at a match whose
facts are `c`:

* `!F` is the complement of `F`; `F && G` / `F || G` are Go's short-circuit conjunction and
  disjunction (a panicking right operand is not consulted when the left one decides);
* a comparison is the Go operator of the same spelling applied to the *underlying values* of its two
  operands (the line of a capture, the size of its type, its constant integer value, its source
  text, an integer or string literal), whichever side the literal is written on;
  an unknown value (no constant value, size of a type parameter) makes every comparison false;
  `$*xs` captures under `Type.Size` / `Value.Int()` compare every element.

`sem` is `none` where the property says nothing (ill-typed comparison, unbound variable, operand
that is not a value, malformed tree).  `specHolds` is what the driver evaluates on the
implementation's own verdicts.
-/
namespace SpecC17
open FIR

/-- the underlying value of an operand -/
inductive V | int (i : Int) | str (s : Bytes) | unknown
deriving DecidableEq, Repr

inductive Operand | one (v : V) | each (vs : List V)
deriving DecidableEq, Repr

def sizeOf (e : EF) : Option V :=
  if e.tparam then some .unknown else match e.size with | some s => some (.int s) | none => none
def intOf (e : EF) : V := match e.ival with | some i => .int i | none => .unknown

def operand (c : Ctx) : FE → Option Operand
  | .mk .int (.int i) _ => some (.one (.int i))
  | .mk .string (.str s) _ => some (.one (.str s))
  | .mk .varLine (.str v) _ =>
    match c.lookup v with
    | some (.node l _ _) => some (.one (.int l))
    | some (.list l _ (_ :: _)) => some (.one (.int l))
    | _ => none
  | .mk .varText (.str v) _ =>
    match c.lookup v with
    | some (.node _ t _) => some (.one (.str t))
    | some (.list _ t (_ :: _)) => some (.one (.str t))
    | some (.list _ _ []) => some (.one (.str []))
    | none => none
  | .mk .varTypeSize (.str v) _ =>
    match c.lookup v with
    | some (.node _ _ (some e)) => (sizeOf e).map .one
    | some (.list _ _ es) => (es.mapM sizeOf).map .each
    | _ => none
  | .mk .varValueInt (.str v) _ =>
    match c.lookup v with
    | some (.node _ _ (some e)) => some (.one (intOf e))
    | some (.list _ _ es) => some (.each (es.map intOf))
    | _ => none
  | _ => none

/-- the Go comparison operators on integers -/
def relInt : Op → Int → Int → Option Bool
  | .eq, a, b => some (decide (a = b))
  | .neq, a, b => some (decide (a ≠ b))
  | .lt, a, b => some (decide (a < b))
  | .ltEq, a, b => some (decide (a ≤ b))
  | .gt, a, b => some (decide (b < a))
  | .gtEq, a, b => some (decide (b ≤ a))
  | _, _, _ => none

/-- the Go comparison operators on strings: bytewise lexicographic order (core `List` order) -/
def relStr : Op → Bytes → Bytes → Option Bool
  | .eq, a, b => some (decide (a = b))
  | .neq, a, b => some (decide (a ≠ b))
  | .lt, a, b => some (decide (a < b))
  | .ltEq, a, b => some (decide (a ≤ b))
  | .gt, a, b => some (decide (b < a))
  | .gtEq, a, b => some (decide (b ≤ a))
  | _, _, _ => none

def rel (op : Op) : V → V → Option Bool
  | .int a, .int b => relInt op a b
  | .str a, .str b => relStr op a b
  | .unknown, .int _ | .int _, .unknown | .unknown, .unknown => if op.isCmp then some false else none
  | _, _ => none

def allSome : List (Option Bool) → Option Bool
  | [] => some true
  | none :: _ => none
  | some b :: rest => match allSome rest with | some r => some (b && r) | none => none

def semCmp (c : Ctx) (op : Op) (a b : FE) : Option Bool :=
  match operand c a, operand c b with
  | some (.one u), some (.one v) => rel op u v
  | some (.each us), some (.one v) => if b.op.isBasicLit then allSome (us.map fun u => rel op u v) else none
  | some (.one u), some (.each vs) => if a.op.isBasicLit then allSome (vs.map fun v => rel op u v) else none
  | _, _ => none

def notR : Res Bool → Res Bool
  | .ok b => .ok (!b)
  | .panic p => .panic p

def andR (x y : Res Bool) : Res Bool :=
  match x with
  | .ok true => y
  | .ok false => .ok false
  | .panic p => .panic p

def orR (x y : Res Bool) : Res Bool :=
  match x with
  | .ok true => .ok true
  | .ok false => y
  | .panic p => .panic p

def sem (c : Ctx) : FE → Option (Res Bool)
  | .mk (.pred id true) _ _ => c.atoms[id]?
  | .mk .not _ [a] => match sem c a with | some r => some (notR r) | none => none
  | .mk .and _ [a, b] =>
    match sem c a, sem c b with | some x, some y => some (andR x y) | _, _ => none
  | .mk .or _ [a, b] =>
    match sem c a, sem c b with | some x, some y => some (orR x y) | _, _ => none
  | .mk op _ [a, b] => if op.isCmp then (match semCmp c op a b with | some r => some (.ok r) | none => none) else none
  | _ => none
termination_by structural e => e

/-- a value operand that cannot fail: a literal, or a value of a variable the pattern binds -/
def quietV (c : Ctx) : FE → Bool
  | .mk .varLine (.str v) _ | .mk .varText (.str v) _ | .mk .varTypeSize (.str v) _ | .mk .varValueInt (.str v) _ =>
    (c.lookup v).isSome
  | .mk .int (.int _) _ | .mk .string (.str _) _ => true
  | _ => false

/-- the Go type of a value operand in the DSL: `Text` and string literals are strings, the rest `int` -/
def isStringOperand : FE → Bool
  | .mk .varText _ _ | .mk .string _ _ => true
  | _ => false

/-- Nothing in the (well-shaped, well-typed) expression `e` can fail at this match: every predicate it mentions
answers, every comparison is between literals and values of bound variables.  Then the verdict
itself must be an answer. -/
def quiet (c : Ctx) : FE → Bool
  | .mk (.pred id _) _ _ => match c.atoms[id]? with | some (.ok _) => true | _ => false
  | .mk .not _ [a] => quiet c a
  | .mk .and _ [a, b] => quiet c a && quiet c b
  | .mk .or _ [a, b] => quiet c a && quiet c b
  | .mk op _ [a, b] => op.isCmp && quietV c a && quietV c b && (isStringOperand a == isStringOperand b)
  | _ => false
termination_by structural e => e

inductive Outcome | holds | na | wrong (want : Res Bool) | panics
deriving DecidableEq, Repr

/-- the property at one match, given the verdict some implementation produced -/
def judge (c : Ctx) (e : FE) (got : Res Bool) : Outcome :=
  match sem c e with
  | some want => if got = want then .holds else .wrong want
  | none => if quiet c e && !got.isOk then .panics else .na

def specHolds (c : Ctx) (e : FE) (got : Res Bool) : Bool :=
  match judge c e got with
  | .holds | .na => true
  | _ => false

end SpecC17
