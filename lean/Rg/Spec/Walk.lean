import Rg.Model.Walk
/-!
# Declarative reference for the walk (C01 order/once, C16 dead code, C09 context non-leak)

`specFull` is the property-level statement: every node of the tree, in `ast.Inspect` order (the node,
then its fields in `ast.Inspect`'s field order, list fields in list order), is offered once with the tag `nodetag.FromNode` gives its kind, and
the context it is offered with is a function of its ancestor chain only:

* dead      ⇔ some enclosing `if` has a false constant condition and the node is in its Body, or a
              true constant condition and the node is in its Else;
* func      = the innermost enclosing FuncDecl;
* pathLen   = depth; parent = the enclosing node.

`specT` is the same shape but follows the walker's table (which fields it descends into, in which
order, which kinds it visits); `Props/C01` proves `walk = specT` for every table and
`specT = specFull` for every table that passes the decidable `TableOK` check.
-/
namespace Walk

/-- one ancestor on the way down: its kind, id, attr and the slot of the child the path goes through -/
structure Anc where
  kind : Nat
  id   : Nat
  attr : Nat
  slot : Nat
deriving Repr, DecidableEq

/-- the child in field `s` of an `if` with attribute `attr` is in a statically dead branch -/
def deadBranch (C : Cfg) (k attr s : Nat) : Bool :=
  k == C.ifKind && ((attr == 2 && s == C.ifBody) || (attr != 0 && attr != 2 && s == C.ifElse))

/-- C16's statement: inside the body of an `if` whose condition is a false constant, or the else-part
of an `if` whose condition is a true constant, for *some* enclosing `if`. -/
def Dead (C : Cfg) (chain : List Anc) : Bool :=
  chain.any (fun a => deadBranch C a.kind a.attr a.slot)

/-- innermost enclosing function declaration -/
def enclosingFunc (C : Cfg) : List Anc → Option Nat
  | [] => none
  | a :: rest => if a.kind = C.funcKind then some a.id else enclosingFunc C rest

/-- context of the walk when it starts (non-trivial only in the induction) -/
structure Ctx0 where
  path : List Nat
  dead : Bool
  func : Option Nat

def visitAt (C : Cfg) (c0 : Ctx0) (chain : List Anc) (id tag : Nat) : Visit :=
  { id := id, tag := tag,
    dead := c0.dead || Dead C chain,
    func := (enclosingFunc C chain).or c0.func,
    pathLen := chain.length + 1 + c0.path.length,
    parent := (chain.head?.map (·.id)).or c0.path.head? }

/-- property-level reference: source order (`ast.Inspect`: the node, then its fields in the order
`A k`, the children of one field in list order), reference tags `G` (`nodetag.FromNode`), context
from the ancestor chain -/
def specFull (C : Cfg) (A : Nat → List Nat) (G : Nat → Option Nat) (c0 : Ctx0) (chain : List Anc) :
    Tree → List Visit
  | .node k id _ attr kids =>
    (match G k with | some t => [visitAt C c0 chain id t] | none => []) ++
    (orderedKids (fun c : { c // c ∈ kids } => c.1.slot) (A k) kids.attach).flatMap
      (fun c => specFull C A G c0 ({ kind := k, id := id, attr := attr, slot := c.1.slot } :: chain) c.1)
termination_by t => sizeOf t
decreasing_by
  simp_wf; have := List.sizeOf_lt_of_mem c.2; omega

/-- the fields the walker descends into for kind `k`, in order (the `if` case is hand-written) -/
def effOrder (C : Cfg) (T : Nat → Row) (k : Nat) : List Nat :=
  if k = C.ifKind then [C.ifInit, C.ifCond, C.ifBody, C.ifElse] else (T k).order

/-- walker-shaped reference: the table's tags and descent order, declarative contexts -/
def specT (C : Cfg) (T : Nat → Row) (c0 : Ctx0) (chain : List Anc) : Tree → List Visit
  | .node k id _ attr kids =>
    (match (T k).tag with | some t => [visitAt C c0 chain id t] | none => []) ++
    (orderedKids (fun c : { c // c ∈ kids } => c.1.slot) (effOrder C T k) kids.attach).flatMap
      (fun c => specT C T c0 ({ kind := k, id := id, attr := attr, slot := c.1.slot } :: chain) c.1)
termination_by t => sizeOf t
decreasing_by
  simp_wf; have := List.sizeOf_lt_of_mem c.2; omega

/-- the slots of the `if` case are pairwise distinct (true of go/ast; `decide`d on the generated cfg) -/
def CfgOK (C : Cfg) : Prop :=
  C.ifInit ≠ C.ifCond ∧ C.ifInit ≠ C.ifBody ∧ C.ifInit ≠ C.ifElse ∧
  C.ifCond ≠ C.ifBody ∧ C.ifCond ≠ C.ifElse ∧ C.ifBody ≠ C.ifElse ∧ C.ifKind ≠ C.funcKind

instance (C : Cfg) : Decidable (CfgOK C) := by unfold CfgOK; infer_instance

/-! ## Conditions under which the walker-shaped reference is the property-level one -/

/-- no node of the subtree has a reference tag -/
def tagFree (G : Nat → Option Nat) : Tree → Bool
  | .node k _ _ _ kids => (G k).isNone && kids.attach.all (fun c => tagFree G c.1)
termination_by t => sizeOf t
decreasing_by
  simp_wf; have := List.sizeOf_lt_of_mem c.2; omega

/-- children are grouped by field in `ast.Inspect`'s field order `A k` (true of every serialised file;
a sanity check of the serialiser run by the driver, not a hypothesis of any theorem) -/
def sorted (A : Nat → List Nat) : Tree → Bool
  | .node k _ _ _ kids =>
    (orderedKids Tree.slot (A k) kids).map Tree.id == kids.map Tree.id &&
    kids.attach.all (fun c => sorted A c.1)
termination_by t => sizeOf t
decreasing_by
  simp_wf; have := List.sizeOf_lt_of_mem c.2; omega

/-- per-tree condition: visited kinds carry the reference tag, skipped fields hold nothing taggable -/
def clean (C : Cfg) (T : Nat → Row) (G : Nat → Option Nat) : Tree → Bool
  | .node k _ _ _ kids =>
    ((T k).tag == G k) &&
    kids.attach.all (fun c =>
      if (effOrder C T k).contains c.1.slot then clean C T G c.1 else tagFree G c.1)
termination_by t => sizeOf t
decreasing_by
  all_goals simp_wf
  all_goals (have := List.sizeOf_lt_of_mem c.2; omega)


/-! ## Table-level conditions (decidable; instance obligations on the regenerated tables) -/

structure Tables where
  rows : List Row                          -- the walker, probed
  insp : List (List Nat)                   -- ast.Inspect field order, probed
  tags : List (Option Nat)                 -- nodetag.FromNode
  kinds : List (List (Nat × List Nat))     -- static child kinds per field
  tagFreeKinds : List Nat                  -- certificate: kinds below which nothing is tagged

namespace Tables
def T (tb : Tables) (k : Nat) : Row := tb.rows.getD k { tag := none, order := [] }
def A (tb : Tables) (k : Nat) : List Nat := tb.insp.getD k []
def G (tb : Tables) (k : Nat) : Option Nat := tb.tags.getD k none
def K (tb : Tables) (k s : Nat) : List Nat := ((tb.kinds.getD k []).lookup s).getD []
def n (tb : Tables) : Nat := tb.rows.length
end Tables

/-- the certificate is closed: a tag-free kind has no tag and only tag-free child kinds -/
def certOK (tb : Tables) : Bool :=
  tb.tagFreeKinds.all fun k =>
    (tb.G k).isNone && (tb.A k).all fun s => (tb.K k s).all fun c => tb.tagFreeKinds.contains c

/-- row `k` of the walker agrees with the references -/
def rowOK (C : Cfg) (tb : Tables) (k : Nat) : Bool :=
  ((tb.T k).tag == tb.G k) &&
  (effOrder C tb.T k).isSublist (tb.A k) &&
  (tb.A k).all (fun s => (tb.A k).count s == 1) &&
  (tb.A k).all fun s =>
    (effOrder C tb.T k).contains s || (tb.K k s).all fun c => tb.tagFreeKinds.contains c

/-- C01's instance obligation: every kind is visited with its own tag, fields are descended in
source order, and a field that is not descended cannot hold a taggable node -/
def tableOK (C : Cfg) (tb : Tables) : Bool :=
  certOK tb && (List.range tb.n).all (rowOK C tb)

/-- the rows that fail, for diagnostics -/
def badRows (C : Cfg) (tb : Tables) : List Nat :=
  (List.range tb.n).filter (fun k => !rowOK C tb k)

/-- every child sits in a field `ast.Inspect` knows and has a kind that field admits -/
def wellTyped (tb : Tables) : Tree → Bool
  | .node k _ _ _ kids =>
    decide (k < tb.n) &&
    kids.attach.all (fun c =>
      (tb.A k).contains c.1.slot && (tb.K k c.1.slot).contains c.1.kind && wellTyped tb c.1)
termination_by t => sizeOf t
decreasing_by
  simp_wf; have := List.sizeOf_lt_of_mem c.2; omega

end Walk
