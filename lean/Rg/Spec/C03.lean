import Rg.Model.Render
/-!
# Reference for C03: interpolation by *longest bound name*

Scan the template left to right; at `$`: `$$` ↦ the whole match; otherwise the **longest** live
capture name that is a prefix of what follows ↦ that capture's source text (with the documented
`&x.` adjustment, shortened per C15 only when `truncate`); otherwise a literal `$`.
No sorting, no "first match": the choice is stated directly.
-/
namespace SpecC03
open Render

/-- the longest live capture whose name is a prefix of `rest` (first such among equals) -/
def pickLongest (live : List Cap) (rest : Bytes) : Option Cap :=
  live.foldl (fun best k =>
    if k.name.isPrefixOf rest then
      match best with
      | none => some k
      | some b => if b.name.length < k.name.length then some k else some b
    else best) none

def specLoop (truncate : Bool) (limit : Int) (whole : Cap) (live : List Cap) : Nat → Bytes → Res Bytes
  | 0, _ => .ok []
  | _ + 1, [] => .ok []
  | fuel + 1, c :: rest =>
    if c != dollar then do
      let r ← specLoop truncate limit whole live fuel rest
      pure (c :: r)
    else if rest.head? == some dollar then do
      let t ← subst truncate limit whole rest.tail
      let r ← specLoop truncate limit whole live fuel rest.tail
      pure (t ++ r)
    else
      match pickLongest live rest with
      | some k => do
        let t ← subst truncate limit k (rest.drop k.name.length)
        let r ← specLoop truncate limit whole live fuel (rest.drop k.name.length)
        pure (t ++ r)
      | none => do
        let r ← specLoop truncate limit whole live fuel rest
        pure (dollar :: r)

def specRender (msg : Bytes) (whole : Cap) (caps : List Cap) (truncate : Bool) (limit : Int) : Res Bytes :=
  specLoop truncate limit whole (caps.filter (fun c => !c.typedNil)) (msg.length + 1) msg

/-- replacing `[from,to)` of `src` by `repl` -/
def applyEdit (src : Bytes) (fromOff toOff : Nat) (repl : Bytes) : Bytes :=
  src.take fromOff ++ repl ++ src.drop toOff

end SpecC03
