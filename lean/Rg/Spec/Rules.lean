import Rg.Model.Rules
/-! Reference for rule selection: the first rule (in load order, among those whose root tag is filed
under the node's tag) that matches and is accepted; all of them for multi-match tags. -/
namespace Rules

/-- all rules of a history in load order -/
def allRules (hist : List (List Rule)) : List Rule := hist.flatten

/-- the rules offered to a node with tag `t`, in load order -/
def rulesFor (dst : Nat → List Nat) (hist : List (List Rule)) (t : Nat) : List Rule :=
  (allRules hist).filter (fun r => (dst r.rootTag).contains t)

/-- a rule accepts a node iff gogrep calls back with an accepted match -/
def accepts (cb : Rule → List Bool) (r : Rule) : Bool := (cb r).any id

/-- the reports a rule delivers for a node: one per accepted sub-match (a list pattern can match several
sub-slices of one statement / argument list) -/
def reportsOf (cb : Rule → List Bool) (r : Rule) : List Nat := ((cb r).filter id).map (fun _ => r.id)

/-- per node: the reports of the first accepting rule (of every accepting rule for multi-match tags) -/
def pick (multi : Bool) (cb : Rule → List Bool) (rules : List Rule) : List Nat :=
  if multi then (rules.filter (accepts cb)).flatMap (reportsOf cb)
  else match rules.find? (accepts cb) with
    | some r => reportsOf cb r
    | none => []

/-- the property's right-hand side over the visits of a file -/
def specOver (dst : Nat → List Nat) (multi : Nat → Bool) (hist : List (List Rule))
    (cb : Nat → Rule → List Bool) (visits : List (Nat × Nat)) : List (Nat × Nat) :=
  visits.flatMap fun v => (pick (multi v.2) (cb v.1) (rulesFor dst hist v.2)).map fun r => (v.1, r)

end Rules
