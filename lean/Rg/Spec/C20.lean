import Rg.Model.Imports
/-!
# Executable statement of C20 (independent of the resolution model; shares the request/world types)

`pkg.T` denotes T of the package the group's own Import() calls bind to `pkg` (the last one wins), else of
the standard-library default for that name; `path/to/pkg.T` denotes that package's T whatever the imports;
other groups never matter; a vendored copy (`…/vendor/<path>` or `vendor/<path>`) is the package `<path>`;
a name that does not resolve to an existing object (of the right kind) must be a load error.
-/
namespace SpecC20
open ImpM

def lastDot (s : Bytes) : Option (Bytes × Bytes) :=
  match (s.reverse.span (· != dot)) with
  | (revName, _ :: revQual) => some (revQual.reverse, revName.reverse)
  | (_, []) => none

/-- where a qualifier points: a path (contains '/') is taken literally, a name goes through the group's
imports (latest first) and then the defaults -/
def qualPath (imports : List (Bytes × Bytes)) (base : Scope) (q : Bytes) : Option Bytes :=
  if q.contains slash then some q else
  match imports.reverse.find? (fun x => x.1 == q) with
  | some x => some x.2
  | none => scopeGet base q

/-- the package a vendored path is a copy of: what follows the last "/vendor/" (or a leading "vendor/") -/
def identity (p : Bytes) : Bytes :=
  match (List.range p.length).reverse.find? (fun i => vendorSep.isPrefixOf (p.drop i)) with
  | some i => p.drop (i + vendorSep.length)
  | none => if vendorPfx.isPrefixOf p then p.drop vendorPfx.length else p

/-- wrappers of a type string: leading `*` and `[]` -/
def unwrap : Nat → Bytes → List Bool × Bytes      -- true = pointer, false = slice
  | 0, s => ([], s)
  | fuel + 1, s =>
    match s with
    | 42 :: rest => let (w, r) := unwrap fuel rest; (true :: w, r)
    | 91 :: 93 :: rest => let (w, r) := unwrap fuel rest; (false :: w, r)
    | _ => ([], s)

def typeDenotes (ws : List Bool) (path name : Bytes) : TType → Bool
  | t =>
    match ws, t with
    | [], .named p n => n == name && identity p == path
    | true :: ws', .ptr t' => typeDenotes ws' path name t'
    | false :: ws', .slice t' => typeDenotes ws' path name t'
    | _, _ => false

inductive Expect
  | mustFail
  | accepts (targets : List Nat)
deriving DecidableEq, Repr

def expectRule (w : World) (imports : List (Bytes × Bytes)) (base : Scope) (r : RuleReq) : Expect :=
  match r.kind with
  | .typeIs | .underlyingIs =>
    let (ws, core) := unwrap r.arg.length r.arg
    (match lastDot core with
     | none => .mustFail
     | some (q, name) =>
       match qualPath imports base q with
       | none => .mustFail
       | some path =>
         match (w.pkg path).bind (·.obj name) with
         | none => .mustFail
         | some _ =>
           let ts := if r.kind == .typeIs then w.targets else w.underlying
           .accepts (indicesWhere (typeDenotes ws path name) ts))
  | .implements =>
    (match lastDot r.arg with
     | none => .mustFail
     | some (q, name) =>
       match qualPath imports base q with
       | none => .mustFail
       | some path =>
         match (w.pkg path).bind (·.obj name) with
         | some o => if o.kind == .iface then .accepts o.impls else .mustFail
         | none => .mustFail)
  | .hasMethod =>
    (match lastDot r.arg with
     | none => .mustFail
     | some (recv, meth) =>
       match lastDot recv with
       | none => .mustFail
       | some (q, name) =>
         match qualPath imports base q with
         | none => .mustFail
         | some path =>
           match (w.pkg path).bind (·.obj name) with
           | some o =>
             if o.kind == .iface && o.methods.contains meth then
               .accepts (match o.methImpls.find? (fun x => x.1 == meth) with | some x => x.2 | none => [])
             else .mustFail
           | none => .mustFail)

/-- what was observed for a file: a load error, or per group `none` (skipped) / the accepted targets per rule -/
inductive Observed
  | failed
  | loaded (groups : List (Option (List (List Nat))))
deriving DecidableEq, Repr

inductive Aspect | acceptedUnresolvable | rejectedResolvable | wrongMatches | shape
deriving DecidableEq, Repr

def sameSet (a b : List Nat) : Bool := a.all b.contains && b.all a.contains

/-- violations as (group index, rule index, aspect) -/
def violations (w : World) (base : Scope) (gs : List GroupReq) (o : Observed) : List (Nat × Nat × Aspect) :=
  let expected : List (Nat × Nat × Expect) :=
    (gs.zipIdx.filter (fun x => !x.1.rejected)).flatMap fun (g, gi) =>
      g.rules.zipIdx.map fun (r, ri) => (gi, ri, expectRule w g.imports base r)
  let mustFail := expected.filter fun x => x.2.2 == .mustFail
  match o with
  | .failed =>
    (match mustFail with
     | [] =>
       -- every name resolves: the file had to load; blame the first rule of the first accepted group
       (match expected with
        | (gi, ri, _) :: _ => [(gi, ri, .rejectedResolvable)]
        | [] => [(0, 0, .rejectedResolvable)])
     | _ => [])
  | .loaded groups =>
    if groups.length != gs.length then [(0, 0, .shape)] else
    mustFail.map (fun x => (x.1, x.2.1, Aspect.acceptedUnresolvable)) ++
    expected.filterMap fun (gi, ri, e) =>
      match e, groups[gi]? with
      | .accepts ts, some (some ms) =>
        (match ms[ri]? with
         | some m => if sameSet m ts then none else some (gi, ri, .wrongMatches)
         | none => some (gi, ri, .shape))
      | .accepts _, _ => some (gi, ri, .shape)
      | .mustFail, _ => none

def specHolds (w : World) (base : Scope) (gs : List GroupReq) (o : Observed) : Bool :=
  (violations w base gs o).isEmpty

/-! ## fully-qualified names: dependency-first package resolution -/

/-- `k` is reached from `i` through at most `n` import edges -/
inductive ReachN (g : DGraph) : Nat → Nat → Nat → Prop
  | here (n i : Nat) (p : DPkg) : g[i]? = some p → ReachN g n i i
  | step (n i j k : Nat) (p : DPkg) : g[i]? = some p → j ∈ p.imports → ReachN g n j k → ReachN g (n + 1) i k

/-- the packages the analysed program uses: everything reachable from the analysed package through imports -/
def Uses (g : DGraph) (root d : Nat) : Prop := ∃ n, ReachN g n root d

/-- executable: the indices reachable within `fuel` edges, in depth-first order -/
def reach (g : DGraph) : Nat → Nat → List Nat
  | 0, i => if (g[i]?).isSome then [i] else []
  | fuel + 1, i =>
    match g[i]? with
    | none => []
    | some p => i :: p.imports.flatMap (reach g fuel)

/-- the statement on one lookup: a fully-qualified name whose package the analysed program uses (a complete
package of that path is among the packages reachable from the analysed one) is resolved to a package of
that path of the program itself, never through the engine's own importer -/
def depHolds (g : DGraph) (root : Nat) (path : Bytes) (o : PkgSource) : Bool :=
  let used := (reach g g.length root).filter fun d =>
    match g[d]? with
    | some p => p.path == path && (p.complete || d == root)
    | none => false
  match o with
  | .graph d => used.contains d
  | .importer => used.isEmpty

end SpecC20
