import Rg.Proto
import Rg.Model.Trunc
import Rg.Spec.C15
namespace Drv.Trunc
open Proto

def showRes : Res Bytes → String
  | .ok b => "ok " ++ hexOfBytes b
  | .panic p => "panic " ++ panicName p

/-- ops: `spec15 <0|1> <hex s> <cfg> (panic | ok <hex out>)` (the executable statement of C15),
 `trunc <hex> <maxLen>` (the function itself), `interp <0|1> <hex> <cfg>` (with the default),
`truncasis <hex> <maxLen>` (pre-fix variant, used only to label a disagreement) -/
def handle : List String → Option String
  | ["trunc", h, n] => do
    let b ← bytesOfHex h; let n ← n.toInt?
    pure (showRes (trunc b n))
  | ["truncasis", h, n] => do
    let b ← bytesOfHex h; let n ← n.toInt?
    pure (showRes (truncAsIs b n))
  | ["interp", t, h, n] => do
    let b ← bytesOfHex h; let n ← n.toInt?
    pure (showRes (interp (t == "1") b n))
  | ["spec15", t, h, n, "panic"] => do
    let b ← bytesOfHex h; let n ← n.toInt?
    pure (if SpecC15.specHolds (t == "1") b n (.panic .explicit) then "holds" else "violates")
  | ["spec15", t, h, n, "ok", r] => do
    let b ← bytesOfHex h; let n ← n.toInt?; let r ← bytesOfHex r
    pure (if SpecC15.specHolds (t == "1") b n (.ok r) then "holds" else "violates")
  | _ => none
end Drv.Trunc
