import Rg.Proto
import Rg.Model.AdapterC19
import Rg.Spec.C19
/-!
Driver ops of the go/analysis adapter (C19).  Strings are hex atoms.

```
c19filter <enable> <disable> <name>                      → 1 | 0
spec19filter <enable> <disable> <name> <observed 0|1>    → holds | violates
c19pass <printLoc 0|1> <versionOK 0|1> <e|f|n> (files (file <err 0|1> rep*)*)
        rep := (rep group filename line msg pos -) | (rep group filename line msg pos (from to repl))
        → load-error | version-error | done <diags> | run-error <diags>
        diags := - | diag,diag…   diag := pos:msg:fixes   fixes := - | fixmsg/from/to/repl+…
spec19pass <printLoc> <diags> (files …)                  → holds | violates
c19once <force 0|1> <ok|err> <n>                         → created=<k> <e|f|n>…
spec19once <ok|err> <created> <e|f|n>…                   → holds | violates
```
-/
namespace Drv.AdapterC19
open Proto AdM

def hex? : SExp → Option Bytes
  | .atom s => bytesOfHex s
  | _ => none
def bool? : String → Option Bool
  | "0" => some false | "1" => some true | _ => none

def rep? : SExp → Option Report
  | .list [.atom "rep", g, f, l, m, p, s] => do
    let sugg ← (match s with
      | .atom "-" => some none
      | .list [a, b, r] => do pure (some ⟨← intOfAtom a, ← intOfAtom b, ← hex? r⟩)
      | _ => none)
    pure ⟨← hex? g, ← hex? f, ← natOfAtom l, ← hex? m, ← intOfAtom p, sugg⟩
  | _ => none

def file? : SExp → Option FileRun
  | .list (.atom "file" :: .atom e :: rs) => do pure ⟨← rs.mapM rep?, ← bool? e⟩
  | _ => none

def files? (fs : List String) : Option (List FileRun) :=
  match parseSExp (" ".intercalate fs) with
  | some (.list (.atom "files" :: xs)) => xs.mapM file?
  | _ => none

def showFix (f : Fix) : String :=
  "+".intercalate (f.edits.map fun e =>
    hexOfBytes f.message ++ "/" ++ toString e.pos ++ "/" ++ toString e.end_ ++ "/" ++ hexOfBytes e.newText)

def showDiag (d : Diag) : String :=
  toString d.pos ++ ":" ++ hexOfBytes d.message ++ ":" ++
    (if d.fixes.isEmpty then "-" else "+".intercalate (d.fixes.map showFix))

def showDiags (ds : List Diag) : String := if ds.isEmpty then "-" else ",".intercalate (ds.map showDiag)

def edit? (s : String) : Option (Bytes × TextEdit) :=
  match s.splitOn "/" with
  | [m, a, b, r] => do pure (← bytesOfHex m, ⟨← a.toInt?, ← b.toInt?, ← bytesOfHex r⟩)
  | _ => none

/-- every `+`-separated item is one (fix message, edit); items of one fix share the message: the harness
prints one item per edit and separates fixes by `~` -/
def fixes? (s : String) : Option (List Fix) :=
  if s == "-" then some [] else
  (s.splitOn "~").mapM fun f => do
    let es ← (f.splitOn "+").mapM edit?
    match es with
    | [] => none
    | (m, _) :: _ => pure ⟨m, es.map (·.2)⟩

def diag? (s : String) : Option Diag :=
  match s.splitOn ":" with
  | [p, m, f] => do pure ⟨← p.toInt?, ← bytesOfHex m, ← fixes? f⟩
  | _ => none

def diags? (s : String) : Option (List Diag) :=
  if s == "-" then some [] else (s.splitOn ",").mapM diag?

def prep? : String → Option (Prep Unit)
  | "e" => some (.engine ()) | "f" => some .failed | "n" => some .nothing | _ => none

def showPrep : Prep Unit → String
  | .engine _ => "e" | .failed => "f" | .nothing => "n"

def handle : List String → Option String
  | ["c19filter", en, dis, name] => do
    pure (if groupFilter (← bytesOfHex en) (← bytesOfHex dis) (← bytesOfHex name) then "1" else "0")
  | ["spec19filter", en, dis, name, obs] => do
    let o ← bool? obs
    pure (if SpecC19.wanted (← bytesOfHex en) (← bytesOfHex dis) (← bytesOfHex name) == o then "holds" else "violates")
  | "c19pass" :: pl :: vo :: p :: rest => do
    let files ← files? rest
    match runPass (← prep? p) (← bool? pl) (← bool? vo) files with
    | .loadError => pure "load-error"
    | .versionError => pure "version-error"
    | .runError ds => pure ("run-error " ++ showDiags ds)
    | .done ds => pure ("done " ++ showDiags ds)
  | "spec19pass" :: pl :: obs :: rest => do
    let files ← files? rest
    let ds ← diags? obs
    let reports := files.flatMap (·.reports)
    pure (if SpecC19.passOK (← bool? pl) reports ds then "holds" else "violates")
  | ["c19once", force, mk, n] => do
    let mk ← (match mk with | "ok" => some (some ()) | "err" => some none | _ => none)
    let (a, rs) := prepareN (← bool? force) mk (← n.toNat?) Adapter.init
    pure ("created=" ++ toString a.created ++ (if rs.isEmpty then "" else " " ++ " ".intercalate (rs.map showPrep)))
  | "spec19once" :: mk :: created :: rs => do
    let mk ← (match mk with | "ok" => some (some ()) | "err" => some none | _ => none)
    let rs ← rs.mapM prep?
    pure (if SpecC19.onceOK mk rs (← created.toNat?) then "holds" else "violates")
  | _ => none

end Drv.AdapterC19
