import Rg.Proto
import Rg.Model.SrcLoad
import Drv.Conv
/-!
Driver engine for the C06 composition (Rg/Model/SrcLoad.lean): `convertRuleExpr` after the chain walk.

clause := n | (args expr*)            (expr of Drv/Conv.lean)
pats   := n | (args (LINE expr)*)
chain  := (chain LINE pats(Match) pats(MatchComment) clause(Where) clause(Suggest) clause(Report) clause(At) clause(Do))
op: `c06rule <0|1> chain` → `ok (rule LINE (syn (L HEX)*) (com (L HEX)*) REPORT SUGGEST DO LOC fe)` | `err` | `panic kind`
     with fe := (OP LINE VAL fe*), VAL := n | sHEX | iINT  (the serialisation of harness/cmd/rgh/c06.go: c06FE)
-/
namespace Drv.SrcLoadD
open Proto Conv Comp

/-- Go strings as the driver of the loader decodes them (UTF-8; anything else byte-per-char) -/
def decUtf8 (b : Bytes) : String :=
  match String.fromUTF8? (ByteArray.mk b.toArray) with
  | some s => s
  | none => latin1 b

def clauseOf : SExp → Option (Option (List CExpr))
  | .atom "n" => some none
  | .list (.atom "args" :: es) => do pure (some (← es.mapM Drv.ConvE.dec))
  | _ => none

def patsOf : SExp → Option (Option (List (Nat × CExpr)))
  | .atom "n" => some none
  | .list (.atom "args" :: es) => do
    let ps ← es.mapM fun
      | .list [l, e] => do pure (← natOfAtom l, ← Drv.ConvE.dec e)
      | _ => none
    pure (some ps)
  | _ => none

def chainOf : SExp → Option Chain
  | .list [.atom "chain", line, m, mc, w, s, r, a, d] => do
    pure { line := ← natOfAtom line, matchArgs := ← patsOf m, matchCommentArgs := ← patsOf mc, whereArgs := ← clauseOf w,
           suggestArgs := ← clauseOf s, reportArgs := ← clauseOf r, atArgs := ← clauseOf a, doArgs := ← clauseOf d }
  | _ => none

def hexS (s : String) : String := hexOfBytes s.toUTF8.toList

def showVal : Loader.Val → String
  | .nil => "n"
  | .str s => "s" ++ hexS s
  | .int i => s!"i{i}"
  | .other => "o"

partial def showFE : Loader.FE → String
  | .mk op line v args => s!"({op} {line} {showVal v}" ++ String.join (args.map fun a => " " ++ showFE a) ++ ")"

def showPats (ps : List Loader.Pat) : String := String.join (ps.map fun p => s!" ({p.line} {hexS p.value})")

def showRule (r : Loader.Rule) : String :=
  s!"(rule {r.line} (syn{showPats r.syntaxPatterns}) (com{showPats r.commentPatterns}) {hexS r.reportTemplate} " ++
  s!"{hexS r.suggestTemplate} {hexS r.doFuncName} {hexS r.locationVar} {showFE r.whereExpr})"

def handle : List String → Option String
  | "c06rule" :: ar :: fs => do
    let c ← chainOf (← parseSExp (" ".intercalate fs))
    let ar ← if ar == "1" then some true else if ar == "0" then some false else none
    pure (match convertRuleG ar decUtf8 c with
      | .ok r => "ok " ++ showRule r
      | .err => "err"
      | .panic p => "panic " ++ panicName p)
  | _ => none
end Drv.SrcLoadD
