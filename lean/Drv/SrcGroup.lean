import Rg.Proto
import Rg.Model.SrcGroup
import Drv.Conv
import Drv.SrcLoad
/-!
Driver engine for the front of irconv (Rg/Model/SrcGroup.lean): `ConvertFile` … `convertRuleExpr`'s chain walk.

file   := (file (imps imp*) decl*)
imp    := (imp NAME|- HEXPATH|!)                       name `-` = no local name; path `!` = Unquote failed
decl   := (gen) | (bodyless) | (custom) | (init istmt*) | (group LINE NAME (names NAME*) doc stmt*)
doc    := n | (doc HEX*)
stmt   := (assign 0|1 (lhs l*) (rhs r*)) | (decl) | (expr LINE rexpr) | (other)
l      := (id NAME) | (o)
r      := (fl 0|1 (ps NAME*) fstmt*) | (o)
fstmt  := (ret gexpr*) | (o)
gexpr  := (id NAME) | (lit KIND HEX UNQ) | (paren e) | (sel e NAME) | (idx e e) | (call e e*) | (un OP e) | (bin OP e e)
          UNQ := n | uHEX      (strconv.Unquote of the literal's text)
rexpr  := (id NAME) | (call rexpr (LINE cexpr)*) | (sel rexpr NAME) | (o)          cexpr of Drv/Conv.lean
istmt  := (call LINE ifun iarg*) | (xo) | (o)
ifun   := (sel (id NAME) NAME) | (sel (o) NAME) | (o)
iarg   := (arg cexpr OBJ)      OBJ := n | np | (p HEX)

op: `c06src AR RG IFX FUEL file` (flags 0|1, FUEL decimal) →
    `ok (bundles (LINE HEX HEX)*) (group LINE NAME (imports HEX*) (docs (HEX HEX)*) (rules rule*))*` | `err` | `panic kind`
    with rule as in Drv/SrcLoad.lean.
-/
namespace Drv.SrcGroupD
open Proto Conv Comp Grp Macro

abbrev UnqTab := List (String × Option Bytes)

def names (xs : List SExp) : Option (List String) := xs.mapM fun | .atom n => some n | _ => none

partial def decG : SExp → Option (GExpr × UnqTab)
  | .list [.atom "id", .atom n] => some (.ident n, [])
  | .list [.atom "lit", .atom k, .atom h, .atom u] => do
    let t := stringOfBytes (← bytesOfHex h)
    let unq ← (if u == "n" then some none else
      if u.startsWith "u" then (bytesOfHex (u.drop 1).toString).map some else none)
    pure (.lit k t, [(t, unq)])
  | .list [.atom "paren", e] => do let (x, t) ← decG e; pure (.paren x, t)
  | .list [.atom "sel", e, .atom n] => do let (x, t) ← decG e; pure (.sel x n, t)
  | .list [.atom "idx", x, i] => do
    let (x, t1) ← decG x
    let (i, t2) ← decG i
    pure (.index x i, t1 ++ t2)
  | .list (.atom "call" :: f :: as) => do
    let (f, t) ← decG f
    let as ← as.mapM decG
    pure (.call f (as.map (·.1)), t ++ (as.map (·.2)).flatten)
  | .list [.atom "un", .atom o, e] => do let (x, t) ← decG e; pure (.unary o x, t)
  | .list [.atom "bin", .atom o, x, y] => do
    let (x, t1) ← decG x
    let (y, t2) ← decG y
    pure (.binary o x y, t1 ++ t2)
  | _ => none

partial def decR : SExp → Option RExpr
  | .list [.atom "id", .atom n] => some (.ident n)
  | .list (.atom "call" :: f :: as) => do
    let f ← decR f
    let as ← as.mapM fun
      | .list [l, e] => do pure (← natOfAtom l, ← Drv.ConvE.dec e)
      | _ => none
    pure (.call f as)
  | .list [.atom "sel", x, .atom n] => do pure (.sel (← decR x) n)
  | .list [.atom "o"] => some .other
  | _ => none

def bit : String → Option Bool
  | "1" => some true
  | "0" => some false
  | _ => none

def decFStmt : SExp → Option (FStmt × UnqTab)
  | .list (.atom "ret" :: es) => do
    let es ← es.mapM decG
    pure (.ret (es.map (·.1)), (es.map (·.2)).flatten)
  | .list [.atom "o"] => some (.other, [])
  | _ => none

def decRhs : SExp → Option (Rhs × UnqTab)
  | .list (.atom "fl" :: .atom b :: .list (.atom "ps" :: ps) :: body) => do
    let body ← body.mapM decFStmt
    pure (.funcLit (← bit b) (← names ps) (body.map (·.1)), (body.map (·.2)).flatten)
  | .list [.atom "o"] => some (.other, [])
  | _ => none

def decLhs : SExp → Option Lhs
  | .list [.atom "id", .atom n] => some (.ident n)
  | .list [.atom "o"] => some .other
  | _ => none

def decStmt : SExp → Option (Grp.Stmt × UnqTab)
  | .list [.atom "assign", .atom b, .list (.atom "lhs" :: ls), .list (.atom "rhs" :: rs)] => do
    let rs ← rs.mapM decRhs
    pure (.assign (← bit b) (← ls.mapM decLhs) (rs.map (·.1)), (rs.map (·.2)).flatten)
  | .list [.atom "decl"] => some (.decl, [])
  | .list [.atom "expr", l, x] => do pure (.expr (← natOfAtom l) (← decR x), [])
  | .list [.atom "other"] => some (.other, [])
  | _ => none

def decObj : SExp → Option ObjPkg
  | .atom "n" => some .noObject
  | .atom "np" => some .noPkg
  | .list [.atom "p", .atom h] => (bytesOfHex h).map .pkg
  | _ => none

def decIStmt : SExp → Option IStmt
  | .list (.atom "call" :: l :: f :: as) => do
    let fn ← (match f with
      | .list [.atom "sel", .list [.atom "id", .atom p], .atom n] => some (IFun.sel (.ident p) n)
      | .list [.atom "sel", .list [.atom "o"], .atom n] => some (IFun.sel .other n)
      | .list [.atom "o"] => some IFun.other
      | _ => none)
    let as ← as.mapM fun
      | .list [.atom "arg", e, o] => do pure (⟨← Drv.ConvE.dec e, ← decObj o⟩ : IArg)
      | _ => none
    pure (.call (← natOfAtom l) fn as)
  | .list [.atom "xo"] => some .exprOther
  | .list [.atom "o"] => some .other
  | _ => none

def decDecl : SExp → Option (Decl × UnqTab)
  | .list [.atom "gen"] => some (.gen, [])
  | .list [.atom "bodyless"] => some (.bodyless, [])
  | .list [.atom "custom"] => some (.custom, [])
  | .list (.atom "init" :: ss) => do pure (.init (← ss.mapM decIStmt), [])
  | .list (.atom "group" :: l :: .atom name :: .list (.atom "names" :: ns) :: doc :: ss) => do
    let doc ← (match doc with
      | .atom "n" => some none
      | .list (.atom "doc" :: cs) => (cs.mapM fun (c : SExp) => match c with | .atom h => bytesOfHex h | _ => none).map some
      | _ => none)
    let ss ← ss.mapM decStmt
    pure (.group { line := ← natOfAtom l, name := name, paramNames := ← names ns, doc := doc, body := ss.map (·.1) },
          (ss.map (·.2)).flatten)
  | _ => none

def decImp : SExp → Option Imp
  | .list [.atom "imp", .atom n, .atom p] => do
    let path ← (if p == "!" then some none else (bytesOfHex p).map some)
    pure ⟨if n == "-" then none else some n, path⟩
  | _ => none

def decFile : SExp → Option (SrcFile × UnqTab)
  | .list (.atom "file" :: .list (.atom "imps" :: is) :: ds) => do
    let ds ← ds.mapM decDecl
    pure (⟨← is.mapM decImp, ds.map (·.1)⟩, (ds.map (·.2)).flatten)
  | _ => none

def showGroup (g : GroupOut) : String :=
  s!"(group {g.group.line} {g.group.name} (imports" ++ String.join (g.imports.map fun p => " " ++ hexOfBytes p) ++ ") (docs" ++
  String.join (g.docs.map fun d => s!" ({hexOfBytes d.1} {hexOfBytes d.2})") ++ ") (rules" ++
  String.join (g.group.rules.map fun r => " " ++ Drv.SrcLoadD.showRule r) ++ "))"

def showOut (o : FileOut) : String :=
  "ok (bundles" ++ String.join (o.bundles.map fun b => s!" ({b.line} {hexOfBytes b.pfx} {hexOfBytes b.pkgPath})") ++ ")" ++
  String.join (o.groups.map fun g => " " ++ showGroup g)

def handle : List String → Option String
  | "c06src" :: ar :: rg :: ifx :: fuel :: fs => do
    let (f, tab) ← decFile (← parseSExp (" ".intercalate fs))
    let env : Env := { unq := fun t => (tab.lookup t).getD none, ar := ← bit ar, rg := ← bit rg }
    pure (match convertFileM Drv.SrcLoadD.decUtf8 env (← bit ifx) (← fuel.toNat?) f with
      | .ok o => showOut o
      | .err => "err"
      | .panic p => "panic " ++ panicName p)
  | _ => none
end Drv.SrcGroupD
