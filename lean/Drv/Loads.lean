import Rg.Proto
import Rg.Model.Loads
import Rg.Spec.C13
/-!
Driver ops of the load state machine (C13).

```
c13hist  <fixed 0|1> (c13 (probe (b k)*) (hist req*))          → step;step;…   step = out|groups|run
c13stale <fixed 0|1> <k> (c13 …)                               → run;run;…     runs after steps k+1.. with a RunnerState made after step k
spec13   <obs: step;step;…> (c13 …)                            → holds | violates i:aspect,…
req    := (req isIR pkgPath unit (bundles bundle*) (rej (p n)*))
unit   := (u file convErr declsErr (funcs fn*) (groups grp*))
fn     := (fn name s|b|d|f tag lit callee|- bad)
grp    := (g name line rule*)
rule   := (r bucket key wild msg do|- filt|- bad line)
bundle := (b pfx err unit*)
```
-/
namespace Drv.Loads
open Proto LoadM

def nat? : SExp → Option Nat := natOfAtom
def bool? : SExp → Option Bool
  | .atom "0" => some false
  | .atom "1" => some true
  | _ => none
def optNat? : SExp → Option (Option Nat)
  | .atom "-" => some none
  | e => (nat? e).map some
def kind? : SExp → Option FKind
  | .atom "s" => some .str | .atom "b" => some .bool | .atom "d" => some .doF | .atom "f" => some .filt
  | _ => none

def fn? : SExp → Option FuncDecl
  | .list [.atom "fn", n, k, t, l, c, b] => do
    pure ⟨← nat? n, ← kind? k, ← nat? t, ← bool? l, ← optNat? c, ← bool? b⟩
  | _ => none

def rule? : SExp → Option RuleDecl
  | .list [.atom "r", b, k, w, m, d, f, bad, line] => do
    pure ⟨← nat? b, ← nat? k, ← bool? w, ← nat? m, ← optNat? d, ← optNat? f, ← bool? bad, ← nat? line⟩
  | _ => none

def grp? : SExp → Option GroupDecl
  | .list (.atom "g" :: n :: l :: rs) => do
    pure ⟨← nat? n, ← nat? l, ← rs.mapM rule?⟩
  | _ => none

def unit? : SExp → Option FileUnit
  | .list [.atom "u", f, ce, de, .list (.atom "funcs" :: fs), .list (.atom "groups" :: gs)] => do
    pure ⟨← nat? f, ← bool? ce, ← bool? de, ← fs.mapM fn?, ← gs.mapM grp?⟩
  | _ => none

def bundle? : SExp → Option BundleDecl
  | .list (.atom "b" :: p :: e :: us) => do
    pure ⟨← nat? p, ← bool? e, ← us.mapM unit?⟩
  | _ => none

def pair? : SExp → Option (Nat × Nat)
  | .list [a, b] => do pure (← nat? a, ← nat? b)
  | _ => none

def req? : SExp → Option Req
  | .list [.atom "req", ir, pk, u, .list (.atom "bundles" :: bs), .list (.atom "rej" :: rj)] => do
    pure ⟨← bool? ir, ← nat? pk, ← unit? u, ← bs.mapM bundle?, ← rj.mapM pair?⟩
  | _ => none

def top? : SExp → Option (List (Nat × Nat) × List Req)
  | .list [.atom "c13", .list (.atom "probe" :: ps), .list (.atom "hist" :: rs)] => do
    pure (← ps.mapM pair?, ← rs.mapM req?)
  | _ => none

def parseTop (fs : List String) : Option (List (Nat × Nat) × List Req) :=
  (parseSExp (" ".intercalate fs)).bind top?

/-! canonical output -/

def errName : LoadErr → String
  | .conv => "conv" | .bundle => "bundle" | .decls => "decls" | .compile => "compile"
  | .nofunc => "nofunc" | .rule => "rule" | .redef => "redef"

def showOut : Out Unit → String
  | .ok () => "ok"
  | .err e => "err:" ++ errName e
  | .panic p => "panic:" ++ panicName p

def showName (n : Nat × Nat) : String := toString n.1 ++ "." ++ toString n.2

def showGroups : Res (List GroupInfo) → String
  | .panic p => "panic:" ++ panicName p
  | .ok gs => if gs.isEmpty then "-" else
    ",".intercalate (gs.map fun g => showName g.name ++ "@" ++ toString g.file ++ ":" ++ toString g.line)

def showMsg : Msg → String
  | .text id => "M" ++ toString id
  | .trace ts => ">".intercalate (ts.map fun t => "T" ++ toString t)
  | .empty => "E"

def showReport (r : Report) : String :=
  toString r.bucket ++ "." ++ toString r.key ++ "." ++ showName r.group ++ "." ++ toString r.line ++ "." ++ showMsg r.msg

def showRun : RunOut → String
  | .noRules => "norules"
  | .reports rs p =>
    let body := if rs.isEmpty then "-" else ",".intercalate (rs.map showReport)
    match p with
    | none => body
    | some p => body ++ "!panic:" ++ panicName p

def showStep (s : StepObs) : String := showOut s.out ++ "|" ++ showGroups s.groups ++ "|" ++ showRun s.run

/-! parsing the canonical form back (observations of the implementation, for the spec op) -/

def panic? : String → Option Panic
  | "slice" => some .slice | "index" => some .index | "nil" => some .nilDeref
  | "assert" => some .typeAssert | "explicit" => some .explicit | _ => none

def err? : String → Option LoadErr
  | "conv" => some .conv | "bundle" => some .bundle | "decls" => some .decls | "compile" => some .compile
  | "nofunc" => some .nofunc | "rule" => some .rule | "redef" => some .redef | _ => none

def out? (s : String) : Option (Out Unit) :=
  if s == "ok" then some (.ok ()) else
  match s.splitOn ":" with
  | ["err", e] => (err? e).map .err
  | ["panic", p] => (panic? p).map .panic
  | _ => none

def name? (s : String) : Option (Nat × Nat) :=
  match s.splitOn "." with
  | [a, b] => do pure (← a.toNat?, ← b.toNat?)
  | _ => none

def group? (s : String) : Option GroupInfo :=
  match s.splitOn "@" with
  | [n, fl] =>
    (match fl.splitOn ":" with
     | [f, l] => do pure ⟨← name? n, ← f.toNat?, ← l.toNat?⟩
     | _ => none)
  | _ => none

def groups? (s : String) : Option (Res (List GroupInfo)) :=
  if s == "-" then some (.ok []) else
  match s.splitOn ":" with
  | ["panic", p] => (panic? p).map .panic
  | _ => ((s.splitOn ",").mapM group?).map .ok

def tag? (s : String) : Option Nat :=
  match s.toList with
  | 'T' :: rest => (String.ofList rest).toNat?
  | _ => none

def msg? (s : String) : Option Msg :=
  if s == "E" then some .empty else
  match s.toList with
  | 'M' :: rest => (String.ofList rest).toNat?.map .text
  | _ => ((s.splitOn ">").mapM tag?).map .trace

def report? (s : String) : Option Report :=
  match s.splitOn "." with
  | [b, k, p, n, l, m] => do
    pure ⟨← b.toNat?, ← k.toNat?, (← p.toNat?, ← n.toNat?), ← l.toNat?, ← msg? m⟩
  | _ => none

def run? (s : String) : Option RunOut :=
  if s == "norules" then some .noRules else
  let (body, p) : String × Option (Option Panic) :=
    match s.splitOn "!panic:" with
    | [b] => (b, some none)
    | [b, p] => (b, (panic? p).map some)
    | _ => (s, none)
  do
    let p ← p
    let rs ← if body == "-" then some [] else (body.splitOn ",").mapM report?
    pure (.reports rs p)

def step? (s : String) : Option StepObs :=
  match s.splitOn "|" with
  | [o, g, r] => do pure ⟨← out? o, ← groups? g, ← run? r⟩
  | _ => none

def aspectName : SpecC13.Aspect → String
  | .loadPanic => "load-panic" | .collisionAccepted => "collision-accepted"
  | .unresolvedAccepted => "unresolved-accepted" | .spuriousRedef => "spurious-redef"
  | .groups => "groups" | .reports => "reports"

/-- runs after steps k+1.. with the snapshot taken after step k -/
def staleRuns (fixed : Bool) (probe : List (Nat × Nat)) (k : Nat) (reqs : List Req) : List RunOut :=
  let e0 := finalEngine fixed Engine.new (reqs.take k)
  let snap := e0.env.funcs.length
  let rec go (e : Engine) : List Req → List RunOut
    | [] => []
    | r :: rs =>
      let e' := (load fixed e r).1
      (if fixed then run e' probe else runWith snap e' probe) :: go e' rs
  go e0 (reqs.drop k)

def handle : List String → Option String
  | "c13hist" :: fx :: rest => do
    let fixed ← bool? (.atom fx)
    let (probe, reqs) ← parseTop rest
    pure (";".intercalate ((runHist fixed probe Engine.new reqs).map showStep))
  | "c13stale" :: fx :: k :: rest => do
    let fixed ← bool? (.atom fx)
    let k ← k.toNat?
    let (probe, reqs) ← parseTop rest
    let rs := staleRuns fixed probe k reqs
    pure (if rs.isEmpty then "-" else ";".intercalate (rs.map showRun))
  | "spec13" :: obs :: rest => do
    let (probe, reqs) ← parseTop rest
    let steps ← (obs.splitOn ";").mapM step?
    if steps.length ≠ reqs.length then none else
    let vs := SpecC13.violations probe (reqs.zip steps)
    pure (if vs.isEmpty then "holds" else
      "violates " ++ ",".intercalate (vs.map fun (i, a) => toString i ++ ":" ++ aspectName a))
  | _ => none

end Drv.Loads
