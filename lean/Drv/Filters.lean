import Rg.Proto
import Rg.Model.Filters
import Rg.Spec.C17
/-!
Driver ops of the filter engine (C17):

* `c17 <asis|fixed> (sites <ctx>…) (exprs <fe>…)` → one token per expression:
  `ok:<verdict per site>:<number of reports>:<-|panic letter>` | `err:<kind>` | `panic:<kind>`
  (verdict letters: `t` `f`, panics `s` `i` `n` `a` `x`)
* `spec17 (sites <ctx>…) (q <fe> <verdict letters>)…` → one token per query:
  `holds:<constrained sites>` | `wrong:<site>:<want>:<got>` | `panics:<site>:<got>`

S-expressions: fe = `(Op val fe…)`, Op = `Invalid Not And Or Eq Neq Gt Lt GtEq LtEq VarText VarLine
VarValueInt VarTypeSize String Int P<id> B<id>`, val = `_` | `s:<hex>` | `i:<dec>` | `o`;
ctx = `(c <invSize> (a <verdict letter>…) (n <hexname> <line> <hextext> -|(<0|1> <size|!> <ival|_>)) (l <hexname> <line> <hextext> (<0|1> <size|!> <ival|_>)…) …)`.
-/
namespace Drv.Filters
open Proto FIR

def parseVal (s : String) : Option Val :=
  if s == "_" then some .none
  else if s == "o" then some .other
  else if s.startsWith "s:" then (bytesOfHex (s.drop 2).toString).map .str
  else if s.startsWith "i:" then ((s.drop 2).toString.toInt?).map .int
  else none

def parseOp (s : String) : Option Op :=
  match s with
  | "Invalid" => some .invalid | "Not" => some .not | "And" => some .and | "Or" => some .or
  | "Eq" => some .eq | "Neq" => some .neq | "Gt" => some .gt | "Lt" => some .lt
  | "GtEq" => some .gtEq | "LtEq" => some .ltEq
  | "VarText" => some .varText | "VarLine" => some .varLine
  | "VarValueInt" => some .varValueInt | "VarTypeSize" => some .varTypeSize
  | "String" => some .string | "Int" => some .int
  | _ =>
    if s.startsWith "P" then ((s.drop 1).toString.toNat?).map (fun k => Op.pred k true)
    else if s.startsWith "B" then ((s.drop 1).toString.toNat?).map (fun k => Op.pred k false)
    else none

partial def parseFE : SExp → Option FE
  | .list (.atom o :: .atom v :: args) => do
    let op ← parseOp o
    let val ← parseVal v
    let as ← args.mapM parseFE
    pure (.mk op val as)
  | _ => none

def letterOfPanic : Panic → String
  | .slice => "s" | .index => "i" | .nilDeref => "n" | .typeAssert => "a" | .explicit => "x" | .stack => "k"

def panicOfLetter : Char → Option Panic
  | 's' => some .slice | 'i' => some .index | 'n' => some .nilDeref | 'a' => some .typeAssert
  | 'x' => some .explicit | 'k' => some .stack | _ => none

def verdictOfLetter (ch : Char) : Option (Res Bool) :=
  if ch == 't' then some (.ok true) else if ch == 'f' then some (.ok false)
  else (panicOfLetter ch).map .panic

def letterOfVerdict : Res Bool → String
  | .ok true => "t" | .ok false => "f" | .panic p => letterOfPanic p

def parseEF : SExp → Option EF
  | .list [.atom tp, .atom sz, .atom iv] => do
    let tparam ← if tp == "1" then some true else if tp == "0" then some false else none
    let size ← if sz == "!" then some none else sz.toInt?.map some
    let ival ← if iv == "_" then some none else iv.toInt?.map some
    pure { tparam, size, ival }
  | _ => none

def parseCap : SExp → Option (Bytes × Cap)
  | .list [.atom "n", .atom name, .atom line, .atom text, e] => do
    let nm ← bytesOfHex name; let l ← line.toInt?; let t ← bytesOfHex text
    let ef ← match e with
      | .atom "-" => some none
      | x => (parseEF x).map some
    pure (nm, .node l t ef)
  | .list (.atom "l" :: .atom name :: .atom line :: .atom text :: es) => do
    let nm ← bytesOfHex name; let l ← line.toInt?; let t ← bytesOfHex text
    let efs ← es.mapM parseEF
    pure (nm, .list l t efs)
  | _ => none

def parseCtx : SExp → Option Ctx
  | .list (.atom "c" :: .atom inv :: .list (.atom "a" :: atoms) :: caps) => do
    let invSize ← inv.toInt?
    let as ← atoms.mapM fun a => match a with
      | .atom s => (match s.toList with | [ch] => verdictOfLetter ch | _ => none)
      | _ => none
    let vars ← caps.mapM parseCap
    pure { atoms := as, vars, invSize }
  | _ => none

/-- every predicate id of `e` has a verdict in every context (otherwise the request is malformed) -/
partial def maxPred : FE → Nat
  | .mk (.pred k _) _ args => args.foldl (fun m a => max m (maxPred a)) (k + 1)
  | .mk _ _ args => args.foldl (fun m a => max m (maxPred a)) 0

def showLoad (fixed : Bool) (sites : List Ctx) (e : FE) : String :=
  match newFilter fixed e with
  | .err .unsupportedExpr => "err:unsupported-expr"
  | .err .unsupportedOperator => "err:unsupported-operator"
  | .err .unsupportedBinary => "err:unsupported-binary"
  | .err .predicate => "err:predicate"
  | .panic p => "panic:" ++ panicName p
  | .ok f =>
    let vs := sites.map fun c => letterOfVerdict (evalFlt c f)
    let r := runRule f sites
    "ok:" ++ (if vs.isEmpty then "-" else String.join vs) ++ ":" ++ toString r.1.length ++ ":" ++
      (match r.2 with | none => "-" | some p => letterOfPanic p)

def judgeAll (sites : List Ctx) (e : FE) (got : List (Res Bool)) : String := Id.run do
  let mut constrained := 0
  let mut i := 0
  for (c, g) in sites.zip got do
    match SpecC17.judge c e g with
    | .holds => constrained := constrained + 1
    | .na => pure ()
    | .wrong want => return s!"wrong:{i}:{letterOfVerdict want}:{letterOfVerdict g}"
    | .panics => return s!"panics:{i}:{letterOfVerdict g}"
    i := i + 1
  return s!"holds:{constrained}"

def parseSites : SExp → Option (List Ctx)
  | .list (.atom "sites" :: cs) => cs.mapM parseCtx
  | _ => none

def handle : List String → Option String
  | "c17" :: variant :: rest => do
    let fixed ← if variant == "fixed" then some true else if variant == "asis" then some false else none
    let xs ← parseSExps (tokenize (" ".intercalate rest))
    match xs with
    | [sites, .list (.atom "exprs" :: es)] =>
      let sites ← parseSites sites
      let fes ← es.mapM parseFE
      if fes.any (fun e => sites.any (fun c => c.atoms.length < maxPred e)) then none
      else pure (" ".intercalate (fes.map (showLoad fixed sites)))
    | _ => none
  | "spec17" :: rest => do
    let xs ← parseSExps (tokenize (" ".intercalate rest))
    match xs with
    | sites :: qs =>
      let sites ← parseSites sites
      let outs ← qs.mapM fun q => match q with
        | .list [.atom "q", e, .atom vs] => do
          let fe ← parseFE e
          let got ← (if vs == "-" then some [] else vs.toList.mapM verdictOfLetter)
          if got.length ≠ sites.length then none
          else if sites.any (fun c => c.atoms.length < maxPred fe) then none
          else pure (judgeAll sites fe got)
        | _ => none
      pure (" ".intercalate outs)
    | _ => none
  | _ => none
end Drv.Filters
