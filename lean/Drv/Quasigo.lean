import Rg.Proto
import Rg.Model.QVM
import Rg.Model.QStruct
import Rg.Spec.C04
/-!
Driver ops of the quasigo engine (C04).

* `qcompile <fixes> <prog>` → `ok <func> <func> …` | `err <k> <func>…` (the k functions compiled before the
  first error) | `panic <kind> <k> …`; a function is `code/consts/intconsts/nobj/nint` (hex, comma lists)
* `qeval <fixes> <fuel> <idx> <args>;<args>;… <prog>` → one result per argument tuple, joined by ` | `
  (`int:n`, `str:hex`, `bool:0|1`, `nil`, `void`, `panic:kind`, `fuel`, `unsup`, `cerr`)
-/
namespace Drv.Quasigo
open Proto Q

def tyOfAtom : SExp → Option Ty
  | .atom "int" => some .int | .atom "str" => some .str | .atom "bool" => some .bool
  | .atom "obj" => some .obj | .atom "void" => some .void | .atom "bad" => some .bad
  | _ => none

def opOfAtom : SExp → Option BinOp
  | .atom "||" => some .lor | .atom "&&" => some .land | .atom "!=" => some .neq | .atom "==" => some .eql
  | .atom ">" => some .gtr | .atom ">=" => some .geq | .atom "<" => some .lss | .atom "<=" => some .leq
  | .atom "+" => some .add | .atom "-" => some .sub | .atom "other" => some .other
  | _ => none

def boolOfAtom : SExp → Option Bool
  | .atom "0" => some false | .atom "1" => some true | _ => none

def bytesOfAtom : SExp → Option Bytes
  | .atom s => bytesOfHex s
  | _ => none

def int64OfAtom (e : SExp) : Option Int64 := do
  let i ← intOfAtom e
  if i < -9223372036854775808 || i > 9223372036854775807 then none else pure (Int64.ofInt i)

def tysOf : SExp → Option (List Ty)
  | .list xs => xs.mapM tyOfAtom
  | _ => none

partial def exprOf : SExp → Option Expr
  | .list [.atom "ci", v] => do pure (.cint (← int64OfAtom v))
  | .list [.atom "cs", v] => do pure (.cstr (← bytesOfAtom v))
  | .list [.atom "cb", v, l] => do pure (.cbool (← boolOfAtom v) (← boolOfAtom l))
  | .list [.atom "cbad"] => some .cbad
  | .list [.atom "nil"] => some .nil
  | .list [.atom "id", n, t] => do pure (.ident (← natOfAtom n) (← tyOfAtom t))
  | .list [.atom "not", x] => do pure (.not (← exprOf x))
  | .list [.atom "bin", op, t, x, y] => do pure (.bin (← opOfAtom op) (← tyOfAtom t) (← exprOf x) (← exprOf y))
  | .list [.atom "sa", x] => do pure (.sliceAll (← exprOf x))
  | .list [.atom "st", t, x, hi] => do pure (.sliceTo (← tyOfAtom t) (← exprOf x) (← exprOf hi))
  | .list [.atom "sf", t, x, lo] => do pure (.sliceFrom (← tyOfAtom t) (← exprOf x) (← exprOf lo))
  | .list [.atom "sl", t, x, lo, hi] => do pure (.slice (← tyOfAtom t) (← exprOf x) (← exprOf lo) (← exprOf hi))
  | .list [.atom "len", t, x] => do pure (.len (← tyOfAtom t) (← exprOf x))
  | .list [.atom "call", key, nonly, sv, vi, tup, res, tys, .list recv, .list args] => do
    let ci : CallInfo := { key := ← natOfAtom key, nativeOnly := ← boolOfAtom nonly, sigVariadic := ← boolOfAtom sv,
                           variadic := ← natOfAtom vi, tupleArg := ← natOfAtom tup, res := ← tyOfAtom res,
                           argTys := ← tysOf tys }
    if recv.length > 1 then none else
    pure (.call ci (← recv.mapM exprOf) (← args.mapM exprOf))
  | .list [.atom "bad"] => some .bad
  | _ => none

def lhsOf : SExp → Option (Nat × Ty)
  | .list [n, t] => do pure (← natOfAtom n, ← tyOfAtom t)
  | _ => none

partial def stmtOf : SExp → Option Stmt
  | .list [.atom "ret", t, e] => do pure (.ret (← tyOfAtom t) (← exprOf e))
  | .list [.atom "ret0"] => some .retNone
  | .list [.atom "as", d, .list lhs, e] => do pure (.assign (← boolOfAtom d) (← lhs.mapM lhsOf) (← exprOf e))
  | .list [.atom "asbad"] => some .assignBad
  | .list [.atom "asop", op, n, t, e] => do pure (.assignOp (← opOfAtom op) (← natOfAtom n) (← tyOfAtom t) (← exprOf e))
  | .list [.atom "ifi", i, r] => do pure (.ifInit (← stmtOf i) (← stmtOf r))
  | .list [.atom "inc", i, n] => do pure (.incdec (← boolOfAtom i) (← natOfAtom n))
  | .list [.atom "incbad"] => some .incdecBad
  | .list [.atom "if", c, b] => do pure (.ifThen (← exprOf c) (← stmtOf b))
  | .list [.atom "ife", c, b, e] => do pure (.ifElse (← exprOf c) (← stmtOf b) (← stmtOf e))
  | .list [.atom "for", c, b] => do pure (.forCond (← exprOf c) (← stmtOf b))
  | .list [.atom "loop", b] => do pure (.forEver (← stmtOf b))
  | .list [.atom "forc", hi, hc, hp, i, c, p, b] => do
    pure (.forClause (← boolOfAtom hi) (← boolOfAtom hc) (← boolOfAtom hp) (← stmtOf i) (← exprOf c) (← stmtOf p) (← stmtOf b))
  | .list [.atom "brk"] => some .brk
  | .list [.atom "ecall", e] => do pure (.exprCall (← exprOf e))
  | .list [.atom "ebad"] => some .exprBad
  | .list (.atom "blk" :: ss) => do pure (.block (← ss.mapM stmtOf))
  | .list [.atom "sbad"] => some .bad
  | _ => none

def funcOf : SExp → Option FuncDecl
  | .list [.atom "fn", key, .list ps, rs, body] => do
    pure { key := ← natOfAtom key, params := ← ps.mapM lhsOf, results := ← tysOf rs, body := ← stmtOf body }
  | _ => none

def nativeOfName : String → Native
  | "strings.HasPrefix" => .hasPrefix
  | "strings.HasSuffix" => .hasSuffix
  | "strings.Contains" => .contains
  | "strings.TrimPrefix" => .trimPrefix
  | "strings.TrimSuffix" => .trimSuffix
  | "strings.Replace" => .replace
  | "strings.ReplaceAll" => .replaceAll
  | "strconv.Itoa" => .itoa
  | "strconv.Atoi" => .atoi
  | "fmt.Sprintf" => .sprintf
  | _ => .unknown

structure Prog where
  nativeKeys : List Nat
  natives : List Native
  funcs : List FuncDecl

def nativeDeclOf : SExp → Option (Nat × Native)
  | .list [k, .atom name] => do pure (← natOfAtom k, nativeOfName name)
  | _ => none

def progOf : SExp → Option Prog
  | .list (.atom "prog" :: .list (.atom "natives" :: ns) :: fs) => do
    let nd ← ns.mapM nativeDeclOf
    pure { nativeKeys := nd.map (·.1), natives := nd.map (·.2), funcs := ← fs.mapM funcOf }
  | _ => none

def fixesOf (s : String) : Option Fixes :=
  match s.toList with
  | [a, b, c, d, e, f, g, h, i] =>
    if [a, b, c, d, e, f, g, h, i].all (fun x => x == '0' || x == '1') then
      some ⟨a == '1', b == '1', c == '1', d == '1', e == '1', f == '1', g == '1', h == '1', i == '1'⟩
    else none
  | _ => none

def commaList (xs : List String) : String := if xs.isEmpty then "-" else ",".intercalate xs

def showFunc (f : CFunc) : String :=
  hexOfBytes f.code ++ "/" ++ commaList (f.consts.map hexOfBytes) ++ "/" ++
  commaList (f.intConsts.map (fun i => toString i.toInt)) ++ "/" ++ toString f.numObjectParams ++ "/" ++
  toString f.numIntParams

/-- compile in order like `compileProgram`, but keep what compiled before the first failure -/
def compileAll (fx : Fixes) (natives : List Nat) : List FuncDecl → List Nat → List CFunc → List CFunc × Option String
  | [], _, acc => (acc, none)
  | f :: fs, keys, acc =>
    match compileFunc fx { natives := natives, funcs := keys } f with
    | .ok c => compileAll fx natives fs (keys ++ [f.key]) (acc ++ [c])
    | .err => (acc, some "err")
    | .panic p => (acc, some ("panic " ++ panicName p))

inductive Arg | int (i : Int64) | str (b : Bytes) | bool (b : Bool)

def argOf (s : String) : Option Arg :=
  match s.splitOn ":" with
  | ["i", v] => do let i ← v.toInt?; pure (.int (Int64.ofInt i))
  | ["s", v] => do pure (.str (← bytesOfHex v))
  | ["b", "0"] => some (.bool false)
  | ["b", "1"] => some (.bool true)
  | _ => none

def argsOf (s : String) : Option (List Arg) :=
  if s == "-" then some [] else (s.splitOn ",").mapM argOf

def stackOfArgs (args : List Arg) : Stack :=
  args.foldl (fun st a => match a with
    | .int i => pushInt i st
    | .str b => pushObj (.str b) st
    | .bool b => pushObj (.bool b) st) {}

def showObj : Obj → String
  | .str b => "str:" ++ hexOfBytes b
  | .bool b => "bool:" ++ (if b then "1" else "0")
  | .nil => "nil"
  | .int i => "boxed:" ++ toString i.toInt
  | .err k s => "err:" ++ toString k ++ ":" ++ hexOfBytes s

def showResult (isInt isVoid : Bool) : Out CallResult → String
  | .done r => if isVoid then "void" else if isInt then "int:" ++ toString r.scalar.toInt else showObj r.value
  | .panic p => "panic:" ++ panicName p
  | .fuel => "fuel"
  | .unsup => "unsup"

/-! ### the reference semantics (`qsrc`) and the attribution of a wrong answer to repairs (`qexplain`) -/

open SpecC04 in
def natSemOf : Native → List Val → SpecC04.Out (List Val)
  | .hasPrefix, [.str s, .str p] => .ok [.bool (isPrefixB p s)]
  | .hasSuffix, [.str s, .str p] => .ok [.bool (isSuffixB p s)]
  | .contains, [.str s, .str p] => .ok [.bool (containsB s p)]
  | .trimPrefix, [.str s, .str p] => .ok [.str (if isPrefixB p s then s.drop p.length else s)]
  | .trimSuffix, [.str s, .str p] => .ok [.str (if isSuffixB p s then s.take (s.length - p.length) else s)]
  | .replace, [.str s, .str old, .str nw, .int n] =>
    (match replaceB s old nw n.toInt with | some r => .ok [.str r] | none => .unsup)
  | .replaceAll, [.str s, .str old, .str nw] =>
    (match replaceB s old nw (-1) with | some r => .ok [.str r] | none => .unsup)
  | .itoa, [.int i] => .ok [.str (itoaB i)]
  | .atoi, [.str s] => let (v, e) := atoiB s; .ok [.int v, if e = 0 then .nil else .err e s]
  | .sprintf, .str format :: args =>
    match sprintfB format (args.map fun v => match v with
        | .int i => Obj.int i | .str s => .str s | .bool b => .bool b | .nil => .nil | .err k s => .err k s) with
    | some r => .ok [.str r]
    | none => .unsup
  | .unknown, _ => .unsup
  | _, _ => .stuck

def specProg (p : Prog) : SpecC04.Prog :=
  { funcs := p.funcs,
    nat := fun k => match (p.nativeKeys.zip p.natives).find? (·.1 == k) with
      | some (_, n) => some (natSemOf n)
      | none => none }

def valOfArg : Arg → SpecC04.Val
  | .int i => .int i | .str b => .str b | .bool b => .bool b

def showSpec : SpecC04.Out (Option SpecC04.Val) → String
  | .ok none => "void"
  | .ok (some (.int i)) => "int:" ++ toString i.toInt
  | .ok (some (.str b)) => "str:" ++ hexOfBytes b
  | .ok (some (.bool b)) => "bool:" ++ (if b then "1" else "0")
  | .ok (some .nil) => "nil"
  | .ok (some (.err k s)) => "err:" ++ toString k ++ ":" ++ hexOfBytes s
  | .panic p => "panic:" ++ panicName p
  | .fuel => "fuel"
  | .stuck => "stuck"
  | .unsup => "unsup"

/-- the model's answer for one argument tuple under a set of repairs (`cerr` when the repaired
compiler rejects the file before or at function `idx`) -/
def modelAnswer (fx : Fixes) (p : Prog) (fuel idx : Nat) (t : List Arg) : String :=
  match p.funcs[idx]? with
  | none => "bad"
  | some decl =>
    let (fs, _) := compileAll fx p.nativeKeys p.funcs [] []
    match fs[idx]? with
    | none => "cerr"
    | some f =>
      showResult (decl.results == [.int]) decl.results.isEmpty
        (callFunc fx { natives := p.natives, funcs := fs } fuel f (stackOfArgs t))

def fixNames : List String := ["frame", "ifJump", "orPop", "range", "shadow", "forClause", "assignOp", "ifInit", "argSig"]

def fixesOfSet (s : List Nat) : Fixes :=
  ⟨s.contains 0, s.contains 1, s.contains 2, s.contains 3, s.contains 4, s.contains 5, s.contains 6, s.contains 7, s.contains 8⟩

def subsetsOfSize : Nat → List Nat → List (List Nat)
  | 0, _ => [[]]
  | _ + 1, [] => []
  | k + 1, x :: xs => (subsetsOfSize k xs).map (x :: ·) ++ subsetsOfSize (k + 1) xs

def fixesToSet (fx : Fixes) : List Nat :=
  (List.range 9).filter fun i =>
    match i with
    | 0 => fx.frame | 1 => fx.ifJump | 2 => fx.orPop | 3 => fx.range | 4 => fx.shadow
    | 5 => fx.forClause | 6 => fx.assignOp | 7 => fx.ifInit | _ => fx.argSig

/-- smallest set of *further* repairs, on top of the variant `base` the code is compared with, under which the
model gives the reference answer (or rejects the program); `agree` when `base` itself gives it -/
def explain (base : Fixes) (p : Prog) (fuel idx : Nat) (t : List Arg) : String :=
  let want := showSpec (SpecC04.run (specProg p) fuel idx (t.map valOfArg))
  if want == "fuel" || want == "stuck" || want == "unsup" then "n/a:" ++ want else
  if modelAnswer base p fuel idx t == want then "agree" else
  let on := fixesToSet base
  let off := (List.range 9).filter (fun i => !on.contains i)
  let cands := (subsetsOfSize 1 off) ++ (subsetsOfSize 2 off) ++ (subsetsOfSize 3 off) ++ [off]
  match cands.find? (fun s => let a := modelAnswer (fixesOfSet (on ++ s)) p fuel idx t; a == want || a == "cerr") with
  | some s =>
    let a := modelAnswer (fixesOfSet (on ++ s)) p fuel idx t
    "+".intercalate (s.map fun i => fixNames.getD i "?") ++ (if a == "cerr" then ":rejected" else "")
  | none => "unexplained"

/-- `structCompile` against `compileFunc`, function by function in file order -/
def structCheck (fx : Fixes) (natives : List Nat) : List FuncDecl → List Nat → Nat → String
  | [], _, _ => "same"
  | f :: fs, keys, k =>
    let env : CEnv := { natives := natives, funcs := keys }
    match compileFunc fx env f, structCompile fx env f with
    | .ok c, some sf => if sf.toCFunc == c then structCheck fx natives fs (keys ++ [f.key]) (k + 1) else "differs " ++ toString k
    | .ok _, none => "differs " ++ toString k ++ " struct-rejects"
    | _, some _ => "differs " ++ toString k ++ " struct-accepts"
    | _, none => "same"

def handle : List String → Option String
  | "qstruct" :: fx :: rest => do
    let fx ← fixesOf fx
    let p ← progOf (← parseSExp (" ".intercalate rest))
    pure (structCheck fx p.nativeKeys p.funcs [] 0)
  | "qsrc" :: fuel :: idx :: args :: rest => do
    let fuel ← fuel.toNat?
    let idx ← idx.toNat?
    let tuples ← (args.splitOn ";").mapM argsOf
    let p ← progOf (← parseSExp (" ".intercalate rest))
    let sp := specProg p
    pure (" | ".intercalate (tuples.map fun t => showSpec (SpecC04.run sp fuel idx (t.map valOfArg))))
  | "qexplain" :: fx :: fuel :: idx :: args :: rest => do
    let fx ← fixesOf fx
    let fuel ← fuel.toNat?
    let idx ← idx.toNat?
    let t ← argsOf args
    let p ← progOf (← parseSExp (" ".intercalate rest))
    pure (explain fx p fuel idx t)
  | "qcompile" :: fx :: rest => do
    let fx ← fixesOf fx
    let p ← progOf (← parseSExp (" ".intercalate rest))
    let (fs, e) := compileAll fx p.nativeKeys p.funcs [] []
    let body := " ".intercalate (fs.map showFunc)
    match e with
    | none => pure ("ok" ++ (if fs.isEmpty then "" else " " ++ body))
    | some msg => pure (msg ++ " " ++ toString fs.length ++ (if fs.isEmpty then "" else " " ++ body))
  | "qeval" :: fx :: fuel :: idx :: args :: rest => do
    let fx ← fixesOf fx
    let fuel ← fuel.toNat?
    let idx ← idx.toNat?
    let tuples ← (args.splitOn ";").mapM argsOf
    let p ← progOf (← parseSExp (" ".intercalate rest))
    let decl ← p.funcs[idx]?
    let (fs, _) := compileAll fx p.nativeKeys p.funcs [] []
    match fs[idx]? with
    | none => pure (" | ".intercalate (tuples.map fun _ => "cerr"))
    | some f =>
      let env : VEnv := { natives := p.natives, funcs := fs }
      let isInt := decl.results == [.int]
      let isVoid := decl.results.isEmpty
      pure (" | ".intercalate (tuples.map fun t =>
        showResult isInt isVoid (callFunc fx env fuel f (stackOfArgs t))))
  | _ => none

end Drv.Quasigo
