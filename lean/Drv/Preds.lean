import Rg.Proto
import Rg.Model.Preds
import Rg.Spec.C02
import Drv.Filters
/-!
Driver ops of the predicate engine (C02):

* `c02 <asis|fixed|repaired> <pred> <hex arg> (sites <site>…)` → `err` (the loader rejects the argument) or one
  verdict letter per site (`t`, `f`, panic letters as in `c17`, `?` where the site has no oracle answer)
* `spec02 <pred> <hex arg> (sites <site>…) <verdict letters>` → `holds:<n>` | `wrong:<site>:<want>:<got>` | `na`
* `gover <asis> <tok> <tmajor> <tminor> <hex version>` → `err` | `t` | `f`;  `specgover <tok> <tmajor> <tminor> <major> <minor> <t|f>`
* `parsegover <hex>` → `err` | `ok <major> <minor>`

site = `(s <cap> <node> <parent> <curfunc> <oracle>)`;
cap = `(one <ex|-> <ty>)` | `(list (<ex> <ty>)…)`;
node/parent = `-` | `(<tag> <isExpr> <isStmt>)`; curfunc = `none` | `notfunc` | `v0` | `v1`;
oracle = `-` | `(<onSubNode> <onSubExpr> -|(<elem>…))`
(`sinktypeis`, `textmatches`, `texteq`, `textneq` are about the captured node as a whole — the sink of the match, the
source text of the capture, also of a `$*xs` list: both bits carry that one answer, no per-element answers);
ex = `(star x) (bin x y) (un <0|1> x) (lit <0|1>) (id obj) (flit) (idx x i) (sel x obj) (par x)
(comp <isSlice> (<const>…) x…) (call <funIsByteSlice> fn x…) (tlit) (kv k v) (slc x i…) (ta x) (oth)`;
obj = `-` | `<kind>:<parentIsPkgScope>:<lastParamOfDecl>:<variadicParam>:<variadicOfLit>`;
ty = `(b kind info) (n under) (a actual) (st f…) (ar e) (tp) (o)`.
-/
namespace Drv.Preds
open Proto PR

def bit (s : String) : Option Bool := if s == "1" then some true else if s == "0" then some false else none

def parseObjKind (s : String) : Option ObjKind :=
  match s with
  | "Func" => some .func | "Var" => some .var | "Const" => some .const | "TypeName" => some .typeName
  | "Label" => some .label | "PkgName" => some .pkgName | "Builtin" => some .builtin | "Nil" => some .nil
  | _ => none

def parseObj (s : String) : Option (Option Obj) :=
  if s == "-" then some none else
  match s.splitOn ":" with
  | [k, g, lp, vp, vl] => do
    let kind ← parseObjKind k
    let g ← bit g; let lp ← bit lp; let vp ← bit vp; let vl ← bit vl
    pure (some { kind, parentIsPkgScope := g, lastParamOfDecl := lp, variadicParam := vp, variadicOfLit := vl })
  | _ => none

partial def parseTy : SExp → Option Ty
  | .list [.atom "b", .atom k, .atom i] => do pure (.basic (← k.toNat?) (← i.toNat?))
  | .list [.atom "n", u] => do pure (.named (← parseTy u))
  | .list [.atom "a", u] => do pure (.alias (← parseTy u))
  | .list (.atom "st" :: fs) => do pure (.strct (← fs.mapM parseTy))
  | .list [.atom "ar", e] => do pure (.array (← parseTy e))
  | .list [.atom "tp"] => some .tparam
  | .list [.atom "o"] => some .other
  | _ => none

partial def parseEx : SExp → Option Ex
  | .list [.atom "star", x] => do pure (.star (← parseEx x))
  | .list [.atom "bin", x, y] => do pure (.binary (← parseEx x) (← parseEx y))
  | .list [.atom "un", .atom a, x] => do pure (.unary (← bit a) (← parseEx x))
  | .list [.atom "lit", .atom s] => do pure (.basicLit (← bit s))
  | .list [.atom "id", .atom o] => do pure (.ident (← parseObj o))
  | .list [.atom "flit"] => some .funcLit
  | .list [.atom "idx", x, i] => do pure (.index (← parseEx x) (← parseEx i))
  | .list [.atom "sel", x, .atom o] => do pure (.selector (← parseEx x) (← parseObj o))
  | .list [.atom "par", x] => do pure (.paren (← parseEx x))
  | .list (.atom "comp" :: .atom sl :: .list cs :: elts) => do
    let consts ← cs.mapM fun (c : SExp) => match c with | SExp.atom s => bit s | _ => none
    pure (.composite (← elts.mapM parseEx) consts (← bit sl))
  | .list (.atom "call" :: .atom fbs :: fn :: args) => do
    pure (.call (← parseEx fn) (← args.mapM parseEx) (← bit fbs))
  | .list [.atom "tlit"] => some .typeLit
  | .list [.atom "kv", k, v] => do pure (.keyValue (← parseEx k) (← parseEx v))
  | .list (.atom "slc" :: x :: idx) => do pure (.slice (← parseEx x) (← idx.mapM parseEx))
  | .list [.atom "ta", x] => do pure (.typeAssert (← parseEx x))
  | .list [.atom "oth"] => some .other
  | _ => none

def parseNodeF : SExp → Option (Option NodeF)
  | .atom "-" => some none
  | .list [.atom tag, .atom e, .atom s] => do pure (some { tag, isExpr := (← bit e), isStmt := (← bit s) })
  | _ => none

/-- a capture: the expression view and the type view (`typeofNode(subExpr)`; for a list, per element) -/
def parseCap : SExp → Option (ExCap × TyCap)
  | .list [.atom "one", .atom "-", ty] => do pure (.one none, .one (← parseTy ty))
  | .list [.atom "one", ex, ty] => do pure (.one (some (← parseEx ex)), .one (← parseTy ty))
  | .list (.atom "list" :: es) => do
    let ps ← es.mapM fun (e : SExp) => match e with
      | SExp.list [ex, ty] => do pure ((← parseEx ex), (← parseTy ty))
      | _ => none
    pure (.list (ps.map (·.1)), .list (ps.map (·.2)))
  | _ => none

def parseOracle : SExp → Option (Option Oracle)
  | .atom "-" => some none
  | .list [.atom a, .atom b, els] => do
    let onElems ← match els with
      | .atom "-" => some none
      | .list xs => (xs.mapM fun (x : SExp) => match x with | SExp.atom s => bit s | _ => none).map some
      | _ => none
    pure (some { onSubNode := (← bit a), onSubExpr := (← bit b), onElems })
  | _ => none

def parseCF : SExp → Option CurFunc
  | .atom "none" => some .none | .atom "notfunc" => some .notFunc
  | .atom "v0" => some (.decl false) | .atom "v1" => some (.decl true)
  | _ => none

def parseSite : SExp → Option Site
  | .list [.atom "s", cap, node, parent, cf, orc] => do
    let (ex, ty) ← parseCap cap
    pure { ex, ty, node := (← parseNodeF node), parent := (← parseNodeF parent),
           cf := (← parseCF cf), oracle := (← parseOracle orc) }
  | _ => none

def relOf (s : String) : Option Rel :=
  match s with
  | "typeis" => some .typeIs | "typeunderlyingis" => some .typeUnderlyingIs
  | "convertibleto" => some .convertibleTo | "assignableto" => some .assignableTo
  | "implements" => some .implements | "comparable" => some .comparable
  | "hasmethod" => some .hasMethod | "identicalto" => some .identicalTo
  | "addressable" => some .addressable | "const" => some .const
  | "sinktypeis" => some .sinkTypeIs | "textmatches" => some .textMatches
  | "texteq" => some .textCmp | "textneq" => some .textCmp
  | _ => none

/-- the predicate a request names; `none`: malformed request -/
def parsePred (pred arg : String) : Option Pred :=
  match pred with
  | "ofkind:0" => some (.ofKind false arg)
  | "ofkind:1" => some (.ofKind true arg)
  | "haspointers" => some .hasPointers
  | "pure" => some .pure
  | "constslice" => some .constSlice
  | "objectis" => some (.objectIs arg)
  | "isglobal" => some .isGlobal
  | "isvariadic" => some .isVariadic
  | "nodeis:v1" => some (.nodeIs true arg)        -- `v1`: nodetag.FromString(arg) != Unknown (oracle)
  | "nodeis:v0" => some (.nodeIs false arg)
  | "parentis:v1" => some (.parentIs true arg)
  | "parentis:v0" => some (.parentIs false arg)
  | _ => (relOf pred).map .rel

def parseVariant (s : String) : Option Variant :=
  match s with
  | "asis" => some .asis | "fixed" => some .fixed | "repaired" => some .repaired
  | _ => none

def parseSites : SExp → Option (List Site)
  | .list (.atom "sites" :: ss) => ss.mapM parseSite
  | _ => none

def parseTok (s : String) : Option FIR.Tok :=
  match s with
  | "eql" => some .eql | "neq" => some .neq | "gtr" => some .gtr | "geq" => some .geq
  | "lss" => some .lss | "leq" => some .leq | _ => none

def argString (h : String) : Option String := (bytesOfHex h).bind fun b => String.fromUTF8? (ByteArray.mk b.toArray)

def handle : List String → Option String
  | "c02" :: variant :: pred :: arg :: rest => do
    let v ← parseVariant variant
    let arg ← argString arg
    let sites ← (parseSExp (" ".intercalate rest)).bind parseSites
    match evalPred v (← parsePred pred arg) with
    | none => pure "err"
    | some f =>
      -- `?`: the site carries no oracle answer for this relation (not compared)
      let vs := sites.map fun s => match f s with | some v => Drv.Filters.letterOfVerdict v | none => "?"
      pure (if vs.isEmpty then "-" else String.join vs)
  | "spec02" :: pred :: arg :: rest => do
    let arg ← argString arg
    let xs ← parseSExps (tokenize (" ".intercalate rest))
    match xs with
    | [sites, .atom vs] =>
      let sites ← parseSites sites
      let got ← (if vs == "-" then some [] else vs.toList.mapM Drv.Filters.verdictOfLetter)
      if got.length ≠ sites.length then none else
      let p ← parsePred pred arg
      let sp := SpecC02.specPred p
      -- `na`: the property does not constrain this predicate/argument (at any site)
      if sites.all (fun s => (sp s).isNone) && !sites.isEmpty then pure "na" else
      Id.run do
        let mut n := 0
        let mut i := 0
        for (s, g) in sites.zip got do
          match sp s with
          | none => pure ()
          | some want =>
            if g == .ok want then n := n + 1
            else return some s!"wrong:{i}:{if want then "t" else "f"}:{Drv.Filters.letterOfVerdict g}"
          i := i + 1
        return some s!"holds:{n}"
    | _ => none
  | ["gover", tok, tmaj, tmin, ver] => do
    let t ← parseTok tok; let tmaj ← tmaj.toInt?; let tmin ← tmin.toInt?; let v ← bytesOfHex ver
    match parseGoVersion v with
    | none => pure "err"
    | some gv => pure (if goVersionFilter ⟨tmaj, tmin⟩ t gv then "t" else "f")
  | ["specgover", tok, tmaj, tmin, maj, min, got] => do
    let t ← parseTok tok; let tmaj ← tmaj.toInt?; let tmin ← tmin.toInt?
    let maj ← maj.toInt?; let min ← min.toInt?
    let g ← bit (if got == "t" then "1" else if got == "f" then "0" else got)
    pure (if SpecC02.goVersion ⟨tmaj, tmin⟩ t ⟨maj, min⟩ == g then "holds" else "violates")
  | ["parsegover", ver] => do
    let v ← bytesOfHex ver
    match parseGoVersion v with
    | none => pure "err"
    | some gv => pure s!"ok {gv.major} {gv.minor}"
  | _ => none
end Drv.Preds
