import Rg.Proto
import Rg.Model.TextMatch
import Rg.Model.TextMatchTables
import Rg.Spec.C11
namespace Drv.TextMatch
open Proto Rx TM

def opOfName : String → Option Op
  | "nomatch" => some .noMatch | "empty" => some .emptyMatch | "literal" => some .literal
  | "class" => some .charClass | "anynotnl" => some .anyCharNotNL | "any" => some .anyChar
  | "bol" => some .beginLine | "eol" => some .endLine | "bot" => some .beginText | "eot" => some .endText
  | "wb" => some .wordBoundary | "nwb" => some .noWordBoundary | "capture" => some .capture
  | "star" => some .star | "plus" => some .plus | "quest" => some .quest | "repeat" => some .repeat
  | "concat" => some .concat | "alt" => some .alternate | "other" => some .other
  | _ => none

/-- `(op flags (runes…) min max sub…)` -/
partial def reOfSExp : SExp → Option Re
  | .list (.atom o :: f :: .list rs :: mn :: mx :: subs) => do
    let op ← opOfName o
    let f ← natOfAtom f
    let rs ← rs.mapM natOfAtom
    let mn ← intOfAtom mn
    let mx ← intOfAtom mx
    let subs ← subs.mapM reOfSExp
    pure (.mk op f rs subs mn mx)
  | _ => none

/-- trees cross the line protocol with `,` in place of blanks -/
def parseTree (s : String) : Option Re := parseSExp (s.replace "," " ") >>= reOfSExp

/-- the rune predicates as the regenerated tables -/
def preds : Preds := tablePreds

/-- fold orbits `((r,f₁,f₂…),…)` or `-` -/
def parseFold (s : String) : Option (Nat → List Nat) :=
  if s == "-" then some (fun _ => []) else
  match parseSExp (s.replace "," " ") with
  | some (.list rows) => do
    let rows ← rows.mapM fun row =>
      match row with
      | .list (r :: orbit) => do
        let r ← natOfAtom r
        let o ← orbit.mapM natOfAtom
        pure (r, r :: o)
      | _ => none
    pure fun r => match rows.find? (·.1 == r) with | some p => p.2 | none => []
  | _ => none

def showMatcher : Matcher → String
  | .contains v => "contains " ++ hexOfBytes v
  | .hasPrefix v => "prefix " ++ hexOfBytes v
  | .hasSuffix v => "suffix " ++ hexOfBytes v
  | .eq v => "eq " ++ hexOfBytes v
  | .runePred true => "pred upper"
  | .runePred false => "pred lower"

def b01 (b : Bool) : String := if b then "1" else "0"

def variant (v : String) : Option (Re → Bool) :=
  if v == "asis" then some isLitAsIs else if v == "fixed" then some isLitFixed else none

/-- ops
* `tmco <asis|fixed> <hex pattern> <tree>`            → `none` | `<kind> <hex>` | `panic k`   (compileOptimized)
* `tmcorun <asis|fixed> <hex pattern> <tree> <hex in>` → `none` | `fast b b` | `panic k`       (… and run Match, MatchString)
* `tmrun <asis|fixed> <hex pattern> <tree|err> <hex in> <oracle 0|1|E>` → `fast b b` | `regexp b b` | `error`
  (compile + Match + MatchString; `E`: regexp.Compile fails, which only the fallback can return)
* `search11 <fold> <tree> <hex in>` → `0|1` (the Lean semantics `SpecC11.searchB`)
* `spec11 <fold> <tree> <hex in> <answer 0|1|x>` → `holds` | `violates` (`SpecC11.specHolds`; `x` = Match ≠ MatchString)
* `utf8dec <hex>` → `<rune> <width>`;  `utf8enc <rune>` → `<hex>` -/
def handle : List String → Option String
  | ["tmco", v, p, tree] => do
    let isLit ← variant v
    let p ← bytesOfHex p
    let re ← parseTree tree
    pure (match compileOptimizedWith isLit p re with
      | .ok none => "none"
      | .ok (some m) => showMatcher m
      | .panic k => "panic " ++ panicName k)
  | ["tmcorun", v, p, tree, inp] => do
    let isLit ← variant v
    let p ← bytesOfHex p
    let re ← parseTree tree
    let inp ← bytesOfHex inp
    pure (match compileOptimizedWith isLit p re with
      | .ok none => "none"
      | .ok (some m) => "fast " ++ b01 (m.run preds inp) ++ " " ++ b01 (m.run preds inp)
      | .panic k => "panic " ++ panicName k)
  | ["tmrun", v, p, tree, inp, o] => do
    let isLit ← variant v
    let p ← bytesOfHex p
    let parsed ← if tree == "err" then some none else (parseTree tree).map some
    let inp ← bytesOfHex inp
    let oerr := o == "E"
    let o ← if o == "1" then some true else if o == "0" || o == "E" then some false else none
    pure (match compileWith isLit p parsed with
      | .ok pat =>
        let b := b01 (pat.run preds o inp)
        match pat with
        | .fast _ => "fast " ++ b ++ " " ++ b
        | .regexp => if oerr then "error" else "regexp " ++ b ++ " " ++ b
      | .panic k => "panic " ++ panicName k)
  | ["search11", f, tree, inp] => do
    let fold ← parseFold f
    let re ← parseTree tree
    let inp ← bytesOfHex inp
    pure (b01 (SpecC11.searchB fold re inp))
  | ["spec11", f, tree, inp, a] => do
    let fold ← parseFold f
    let re ← parseTree tree
    let inp ← bytesOfHex inp
    if a == "x" then pure "violates" else
    let a ← if a == "1" then some true else if a == "0" then some false else none
    pure (if SpecC11.specHolds fold re inp a then "holds" else "violates")
  | ["utf8dec", h] => do
    let b ← bytesOfHex h
    let (r, w) := Utf8.decodeRune b
    pure (toString r ++ " " ++ toString w)
  | ["utf8enc", r] => do
    let r ← r.toNat?
    pure (hexOfBytes (Utf8.encodeRune r))
  | _ => none

end Drv.TextMatch
