import Drv.TyProto
import Rg.Model.XTypes
import Rg.Spec.C14
namespace Drv.XT
open Proto Drv.TyProto _root_.XTypes

def bit (b : Bool) : Char := if b then '1' else '0'

def fxOf : String → Option Bool
  | "0" => some false
  | "1" => some true
  | _ => none

def foundOf : SExp → Option Found
  | .atom "none" => some .none
  | .atom "field" => some .field
  | .atom "func" => some .func
  | _ => none

def probeOf : SExp → Option Probe
  | .list [k, o, m] => do pure ⟨← foundOf k, ← tyOf o, ← tyOf m⟩
  | _ => none


def modeOf : String → Option Bool
  | "same" => some false
  | "cross" => some true
  | _ => none

def ctor : Ty → String
  | .nil => "nil" | .basic _ => "basic" | .array .. => "array" | .slice _ => "slice" | .ptr _ => "ptr"
  | .map .. => "map" | .chan .. => "chan" | .tuple _ => "tuple" | .sig .. => "sig" | .field .. => "field"
  | .struct _ => "struct" | .method .. => "method" | .iface .. => "iface" | .named .. => "named"
  | .alias .. => "alias" | .tparam .. => "tparam" | .term .. => "term" | .union .. => "union"

/-- Label for a pair on which the model (`tid fx`) and the spec differ: descend to the first
corresponding sub-pair that still differs, then name the local cause.  Only used to give a
violation found by the harness a specific signature; not part of the verified development. -/
partial def blame (cross fx : Bool) (x y : Ty) : String :=
  let bad (a b : Ty) : Bool := tid fx a b != SpecC14.specId cross a b
  let firstBad (as bs : List Ty) : Option (Ty × Ty) := (as.zip bs).find? fun (a, b) => bad a b
  let down (as bs : List Ty) (otherwise : String) : String :=
    match firstBad as bs with
    | some (a, b) => blame cross fx a b
    | none => otherwise
  match x, y with
  | .alias _ _ t, _ => if bad t y then blame cross fx t y else "alias-on-left"
  | _, .alias _ _ t' =>
      if fx then (if bad x t' then blame cross fx x t' else "alias-on-right") else "alias-on-right"
  | .array _ e, .array _ e' => down [e] [e'] "array"
  | .slice e, .slice e' => down [e] [e'] "slice"
  | .ptr e, .ptr e' => down [e] [e'] "ptr"
  | .map k e, .map k' e' => down [k, e] [k', e'] "map"
  | .chan _ e, .chan _ e' => down [e] [e'] "chan"
  | .tuple es, .tuple es' => down es es' "tuple"
  | .sig _ tps p r, .sig _ tps' p' r' =>
      if !tps.isEmpty || !tps'.isEmpty then "sig:generic" else down [p, r] [p', r'] "sig"
  | .struct fs, .struct gs =>
      let tyOfField : Ty → Ty := fun f => match f with | .field _ _ _ _ _ ty => ty | t => t
      let tagOf : Ty → String := fun f => match f with | .field _ _ _ _ tg _ => tg | _ => ""
      match firstBad (fs.map tyOfField) (gs.map tyOfField) with
      | some (a, b) => blame cross fx a b
      | none => if fs.map tagOf != gs.map tagOf then "struct:tag-ignored" else "struct"
  | .iface ms _ mths _, .iface ms' _ mths' _ =>
      let tyOfMethod : Ty → Ty := fun f => match f with | .method _ _ _ ty => ty | t => t
      if !ms || !ms' then "iface:type-set-ignored" else down (mths.map tyOfMethod) (mths'.map tyOfMethod) "iface"
  | .named u o p _ ex l ts, .named u' o' p' _ _ l' ts' =>
      if u == u' && o == o' then "named:type-args-ignored"
      else if o == o' then
        (if l || l' then "named:local-type:cross-universe"
         else if fx then down ts ts' "named:counterpart" else "named:counterpart:type-args-ignored")
      else if l || l' then "named:same-name:local-type"
      else if p != p' then (if ex then "named:same-name:exported:other-package" else "named:same-name:other-package")
      else "named:same-name:same-package"
  | .tparam .., .tparam .. => if cross then "tparam:cross-universe" else "tparam"
  | .union .., _ => "union"
  | _, .union .. => "union"
  | .term .., _ => "term"
  | a, b => s!"{ctor a}/{ctor b}"

def specChar (cross : Bool) (x y : Ty) : Char :=
  if SpecC14.plain x && SpecC14.plain y then bit (SpecC14.specId cross x y) else 'n'

def sfoundOf : SExp → Option SpecC14.Found
  | .atom "none" => some .none
  | .atom "field" => some .field
  | .atom "func" => some .func
  | _ => none

def sprobeOf : SExp → Option (SpecC14.Found × Ty × Ty)
  | .list [k, o, m] => do pure (← sfoundOf k, ← tyOf o, ← tyOf m)
  | _ => none

def boolOf : String → Option Bool
  | "true" => some true
  | "false" => some false
  | _ => none

def bitsOf (s : String) : Option (Array Bool) :=
  s.toList.foldlM (fun (acc : Array Bool) c =>
    if c == '1' then some (acc.push true) else if c == '0' then some (acc.push false) else none) #[]

/-- ops (`fx` = 0: the code as it stands, 1: after fixes/xtypes-identical.diff):
 `xid <fx> X Y` → `true|false`                      (`xtypes.Identical`)
 `xidmat <fx> (X…) (Y…)` → one char per ordered pair, row-major  (the same, batched)
 `ximpl <fx> <ifaceEmpty> <vIsIface> ((found objTy mTy)…)` → `true|false`   (`xtypes.Implements`)
the executable statement of C14 (`mode` = `same`: one universe, go/types identity; `cross`: counterpart):
 `spec14 <mode> X Y <true|false>` → `holds|violates|na`      (`na`: outside the fragment of the Lean spec)
 `specmat14 <mode> (X…) (Y…)` → `1|0|n` per ordered pair       (the spec's own answer, batched)
 `specimpl14 <mode> <ifaceEmpty> <ifaceIsMethodSet> ((found objTy mTy)…) <true|false>` → `holds|violates|na`
 `laws14 <n> <bits>` → `holds | violates refl i | violates symm i j | violates trans i j k`
 `blame14 <mode> <fx> X Y` → label of the sub-pair where model and spec part (signature of a violation) -/
def handle : List String → Option String
  | "xid" :: fx :: rest => do
    let fx ← fxOf fx
    match ← sexpsOf rest with
    | [x, y] => pure (toString (tid fx (← tyOf x) (← tyOf y)))
    | _ => none
  | "xidmat" :: fx :: rest => do
    let fx ← fxOf fx
    match ← sexpsOf rest with
    | [.list xs, .list ys] =>
      let xs ← tysOf xs
      let ys ← tysOf ys
      pure (String.ofList (xs.flatMap fun x => ys.map fun y => bit (tid fx x y)))
    | _ => none
  | "ximpl" :: fx :: e :: v :: rest => do
    let fx ← fxOf fx
    let e ← fxOf e
    let v ← fxOf v
    match ← sexpsOf rest with
    | [.list ps] =>
      let ps ← ps.mapM probeOf
      pure (toString (implements fx e v ps))
    | _ => none
  | "spec14" :: mode :: rest => do
    let cross ← modeOf mode
    let r ← boolOf (← rest.getLast?)
    match ← sexpsOf rest.dropLast with
    | [x, y] =>
      match SpecC14.specHolds cross (← tyOf x) (← tyOf y) r with
      | some true => pure "holds"
      | some false => pure "violates"
      | none => pure "na"
    | _ => none
  | "specmat14" :: mode :: rest => do
    let cross ← modeOf mode
    match ← sexpsOf rest with
    | [.list xs, .list ys] =>
      let xs ← tysOf xs
      let ys ← tysOf ys
      pure (String.ofList (xs.flatMap fun x => ys.map fun y => specChar cross x y))
    | _ => none
  | "specimpl14" :: mode :: e :: ms :: rest => do
    let cross ← modeOf mode
    let e ← fxOf e
    let ms ← fxOf ms
    let r ← boolOf (← rest.getLast?)
    match ← sexpsOf rest.dropLast with
    | [.list ps] =>
      let ps ← ps.mapM sprobeOf
      if ms && ps.all fun p => SpecC14.plain p.2.1 && SpecC14.plain p.2.2 then
        pure (if SpecC14.specImplements cross e ps == r then "holds" else "violates")
      else pure "na"
    | _ => none
  | ["laws14", n, bits] => do
    let n ← n.toNat?
    let m ← bitsOf bits
    if m.size != n * n then none else
    match SpecC14.lawViolation n m with
    | none => pure "holds"
    | some v => pure ("violates " ++ v)
  | "blame14" :: mode :: fx :: rest => do
    let cross ← modeOf mode
    let fx ← fxOf fx
    match ← sexpsOf rest with
    | [x, y] => pure (blame cross fx (← tyOf x) (← tyOf y))
    | _ => none
  | _ => none
end Drv.XT
