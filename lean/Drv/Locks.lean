import Rg.Proto
import Rg.Model.Locks
import Rg.Model.FindType
import Rg.Spec.C08
import Rg.Gen.LockEvents
import Rg.Gen.WriteSites
namespace Drv.Locks
open Proto

/-- `1,2,3` or `-` -/
def natsOfCsv (s : String) : Option (List Nat) :=
  if s == "-" then some [] else (s.splitOn ",").mapM String.toNat?

def csvOfNats (l : List Nat) : String :=
  if l.isEmpty then "-" else ",".intercalate (l.map toString)

def insertSorted (x : Nat) : List Nat → List Nat
  | [] => [x]
  | y :: ys => if x ≤ y then x :: y :: ys else y :: insertSorted x ys

def sortNats (l : List Nat) : List Nat := l.foldr insertSorted []

/-- `fqn:univ,fqn:univ` or `-` -/
def callsOfCsv (s : String) : Option (List FT.Call) :=
  if s == "-" then some [] else
  (s.splitOn ",").mapM fun c =>
    match c.splitOn ":" with
    | [a, b] => do pure { fqn := ← a.toNat?, univ := ← b.toNat? }
    | _ => none

/-- `fqn:out` with out a name or `e` -/
def obsOfCsv (s : String) : Option (List SpecC08.CallObs) :=
  if s == "-" then some [] else
  (s.splitOn ",").mapM fun c =>
    match c.splitOn ":" with
    | [a, "e"] => do pure { fqn := ← a.toNat?, out := none }
    | [a, b] => do pure { fqn := ← a.toNat?, out := some (← b.toNat?) }
    | _ => none

def showOut : FT.Out → String
  | .ok v => toString v.name
  | .err => "e"

def showThreadOuts (t : FT.FThread) : String :=
  if t.done.isEmpty then "-" else ".".intercalate (t.done.reverse.map (fun p => showOut p.2))

def tablePolicy : Locks.Var → Locks.Policy :=
  SpecC08.policyOf Gen.LockEvents.mutexNames Gen.LockEvents.varNames Gen.LockEvents.table

/-- ops:
 `locktable`  → `ok <functions>` | `bad <name,name…>` (functions of the regenerated table failing the discipline)
 `writesites` → `ok <rows>` | `bad <typ.field,…>` (write sites reachable from Run that are not confined)
 `ft <recheck 0|1> <rr|rounds> <resolvable csv> <before csv> <t0 calls>/<t1 calls>/…`
      → `ok <cached keys csv> <t0 outs>/<t1 outs>/…`   (the cache-protocol model under one schedule)
 `pkgafter <p=d.d.d,…> <requested csv>` → `ok <cached package ids>`   (the package-cache model on a cold cache)
 `spec08cache <resolvable csv> <before csv> <fqn:out,…> <after csv>` → `holds` | `violates`
 `spec08run <hash of sequential outcomes> <hash of observed outcomes>` → `holds` | `violates` -/
def handle : List String → Option String
  | ["locktable"] =>
    let bad := Gen.LockEvents.table.fns.filter (fun f => !Locks.Fn.ok tablePolicy f)
    let present := SpecC08.expectedVarsPresent Gen.LockEvents.mutexNames Gen.LockEvents.varNames Gen.LockEvents.table
    if bad.isEmpty && present then some s!"ok {Gen.LockEvents.table.fns.length}"
    else some ("bad " ++ ",".intercalate ((bad.map (·.name)) ++ (if present then [] else ["<expected-variable-missing>"])))
  | ["writesites"] =>
    let bad := Gen.WriteSites.sites.filter (fun w => !SpecC08.siteOK w)
    if bad.isEmpty then some s!"ok {Gen.WriteSites.sites.length}"
    else some ("bad " ++ ",".intercalate (bad.map (fun w => w.typ ++ "." ++ w.field ++ "@" ++ w.pos)))
  | ["ft", rc, sched, res, before, progs] => do
    let res ← natsOfCsv res
    let before ← natsOfCsv before
    let progs ← (progs.splitOn "/").mapM callsOfCsv
    let resolvable : Nat → Bool := fun k => res.contains k
    let cache0 : List (FT.Fqn × FT.Val) := before.map (fun k => (k, { name := k, univ := 0 }))
    let st0 := FT.init cache0 progs
    let fuel := 16 * (progs.foldl (fun a p => a + p.length) 0) + 16
    let st := if sched == "rr" then FT.runRR (rc == "1") true resolvable fuel st0
              else FT.runRounds (rc == "1") true resolvable fuel st0
    if !st.done then none else
    let outs := "/".intercalate ((List.range st.n).map (fun i => showThreadOuts (st.th i)))
    pure s!"ok {csvOfNats (sortNats (FT.keys st.cache))} {outs}"
  | ["pkgafter", cls, req] => do
    let req ← natsOfCsv req
    let table ← (if cls == "-" then some [] else (cls.splitOn ",").mapM fun e =>
      match e.splitOn "=" with
      | [p, ds] => do
        let p ← p.toNat?
        let ds ← (ds.splitOn ".").mapM String.toNat?
        pure (p, ds)
      | _ => none)
    let closure : Nat → Option (List Nat) := fun p => (table.find? (fun e => e.1 == p)).map (·.2)
    pure s!"ok {csvOfNats (sortNats (FT.importAll closure [] req))}"
  | ["spec08run", want, got] => some (if want == got then "holds" else "violates")
  | ["spec08cache", res, before, calls, after] => do
    let res ← natsOfCsv res
    let before ← natsOfCsv before
    let calls ← obsOfCsv calls
    let after ← natsOfCsv after
    pure (if SpecC08.cacheSpecHolds (fun k => res.contains k) before calls after then "holds" else "violates")
  | _ => none
end Drv.Locks
