import Drv.TyProto
import Rg.Model.TypeMatch
import Rg.Spec.C10
namespace Drv.TM
open Proto Drv.TyProto TypeMatch

mutual
partial def texprOf : SExp → Option TExpr
  | .list [.atom "ident", n] => do pure (.ident (← nameAtom n))
  | .list [.atom "sel", x, n] => do pure (.sel (← texprOf x) (← nameAtom n))
  | .list [.atom "star", x] => do pure (.star (← texprOf x))
  | .list [.atom "slicet", e] => do pure (.sliceT (← texprOf e))
  | .list [.atom "arrayt", l, e] => do pure (.arrayT (← texprOf l) (← texprOf e))
  | .list [.atom "intlit", v] => do pure (.intLit (← nameAtom v))
  | .atom "otherlit" => some .otherLit
  | .list [.atom "mapt", k, v] => do pure (.mapT (← texprOf k) (← texprOf v))
  | .list [.atom "chant", d, v] => do pure (.chanT (← natOfAtom d) (← texprOf v))
  | .list [.atom "paren", x] => do pure (.paren (← texprOf x))
  | .list [.atom "field", n, t] => do pure (.field (← natOfAtom n) (← texprOf t))
  | .list [.atom "funct", .list ps, .list rs] => do pure (.funcT (← texprsOf ps) (← texprsOf rs))
  | .list (.atom "structt" :: fs) => do pure (.structT (← texprsOf fs))
  | .list (.atom "ifacet" :: ms) => do pure (.ifaceT (← texprsOf ms))
  | .atom "other" => some .other
  | _ => none
partial def texprsOf : List SExp → Option (List TExpr)
  | [] => some []
  | e :: es => do pure ((← texprOf e) :: (← texprsOf es))
end

mutual
partial def patOf : SExp → Option Pat
  | .list [.atom "builtin", t] => do pure (.builtin (← tyOf t))
  | .list [.atom "ptr", e] => do pure (.ptr (← patOf e))
  | .list [.atom "var", n] => do pure (.var (← nameAtom n))
  | .atom "varseq" => some .varSeq
  | .list [.atom "slice", e] => do pure (.slice (← patOf e))
  | .list [.atom "arrayvar", n, e] => do pure (.arrayVar (← nameAtom n) (← patOf e))
  | .list [.atom "arraylit", n, e] => do pure (.arrayLit (← intOfAtom n) (← patOf e))
  | .list [.atom "map", k, v] => do pure (.map (← patOf k) (← patOf v))
  | .list [.atom "chan", d, e] => do pure (.chan (← natOfAtom d) (← patOf e))
  | .list [.atom "funcnoseq", .list ps, .list rs] => do pure (.funcNoSeq (← patsOf ps) (← patsOf rs))
  | .list [.atom "func", .list ps, .list rs] => do pure (.func (← patsOf ps) (← patsOf rs))
  | .list (.atom "structnoseq" :: ms) => do pure (.structNoSeq (← patsOf ms))
  | .list (.atom "struct" :: ms) => do pure (.struct (← patsOf ms))
  | .atom "anyiface" => some .anyIface
  | .list [.atom "named", p, n] => do
      match ← pkgAtom p with
      | some path => pure (.named path (← nameAtom n))
      | none => none
  | _ => none
partial def patsOf : List SExp → Option (List Pat)
  | [] => some []
  | e :: es => do pure ((← patOf e) :: (← patsOf es))
end

/-- canonical printing of a `Ty` (inverse of `tyOf`) — only what can occur as an `opBuiltinType` payload -/
def showBuiltin (errObj : Nat) (t : Ty) : String :=
  if t == errorTy errObj then "error"
  else match t with
  | .basic k => s!"(basic {k})"
  | .iface true false [] [] => "eface"
  | _ => "?"

mutual
partial def showPat (errObj : Nat) : Pat → String
  | .builtin t => s!"(builtin {showBuiltin errObj t})"
  | .ptr e => s!"(ptr {showPat errObj e})"
  | .var n => s!"(var n:{n})"
  | .varSeq => "varseq"
  | .slice e => s!"(slice {showPat errObj e})"
  | .arrayVar n e => s!"(arrayvar n:{n} {showPat errObj e})"
  | .arrayLit n e => s!"(arraylit {n} {showPat errObj e})"
  | .map k v => s!"(map {showPat errObj k} {showPat errObj v})"
  | .chan d e => s!"(chan {d} {showPat errObj e})"
  | .funcNoSeq ps rs => s!"(funcnoseq ({showPats errObj ps}) ({showPats errObj rs}))"
  | .func ps rs => s!"(func ({showPats errObj ps}) ({showPats errObj rs}))"
  | .structNoSeq ms => if ms.isEmpty then "(structnoseq)" else s!"(structnoseq {showPats errObj ms})"
  | .struct ms => if ms.isEmpty then "(struct)" else s!"(struct {showPats errObj ms})"
  | .anyIface => "anyiface"
  | .named p n => s!"(named p:{p} n:{n})"
partial def showPats (errObj : Nat) (ps : List Pat) : String :=
  " ".intercalate (ps.map (showPat errObj))
end

def itabOf : SExp → Option Itab
  | .list scopes => scopes.mapM fun
    | .list kvs => kvs.mapM fun
      | .list [k, v] => do
        match ← pkgAtom v with
        | some path => pure (← nameAtom k, path)
        | none => none
      | _ => none
    | _ => none
  | _ => none

def fxOf : String → Option Bool
  | "0" => some false
  | "1" => some true
  | _ => none

/-- model variant: `0` = matcher and `xtypes.Identical` before their repairs, `1` = old matcher, repaired identity,
`2` = the code as it is now (backtracking matcher, repaired identity), `3` = backtracking matcher, old identity -/
def variantOf : String → Option (Bool × Bool)
  | "0" => some (false, false)
  | "1" => some (false, true)
  | "2" => some (true, true)
  | "3" => some (true, false)
  | _ => none

def runMatch (v : Bool × Bool) (p : Pat) (t : Ty) : Bool :=
  if v.1 then matchTop v.2 p t else matchTopAsIs v.2 p t

def bit (b : Bool) : Char := if b then '1' else '0'

/-! A copy of the model's matcher in which a failed look-ahead restores the binding tables
(`rb = true`).  Only used to tell the two D14 causes apart in the signature of a violation:
with `rb = false` it is the model itself (checked by `tmmatchrb 0 …` in the harness). -/
mutual
partial def miRB (rb : Bool) (st : MState) : Pat → Ty → Bool × MState
  | .var name, typ =>
      if name == "_" then (true, st)
      else match lookupT st name with
        | none => (true, { st with tm := (name, typ) :: st.tm })
        | some y => if y = .nil then (decide (typ = .nil), st) else (XTypes.tid false typ y, st)
  | .builtin b, typ => (XTypes.tid false typ b, st)
  | .ptr e, .ptr t => miRB rb st e t
  | .slice e, .slice t => miRB rb st e t
  | .arrayVar v e, .array n t =>
      if v == "_" then miRB rb st e t
      else match lookupI st v with
        | some len => if len == n then miRB rb st e t else (false, st)
        | none => miRB rb { st with im := (v, n) :: st.im } e t
  | .arrayLit len e, .array n t => if len == n then miRB rb st e t else (false, st)
  | .map k v, .map tk tv =>
      match miRB rb st k tk with
      | (true, st') => miRB rb st' v tv
      | (false, st') => (false, st')
  | .chan dir e, .chan d t => if dir == d then miRB rb st e t else (false, st)
  | .named pkgPath typeName, .named _ _ (some objPath) name _ _ _ =>
      (typeName == name && vendorStrip objPath == pkgPath, st)
  | .funcNoSeq pps prs, .sig _ _ params results =>
      let ps := tupleElems params
      let rs := tupleElems results
      if ps.length != pps.length || rs.length != prs.length then (false, st)
      else match allRB rb st pps ps with
        | (true, st') => allRB rb st' prs rs
        | (false, st') => (false, st')
  | .func pps prs, .sig _ _ params results =>
      match subsRB rb st pps (tupleElems params) with
      | (true, st') => subsRB rb st' prs (tupleElems results)
      | (false, st') => (false, st')
  | .structNoSeq subs, .struct fs =>
      if fs.length != subs.length then (false, st) else allRB rb st subs (fieldTypes fs)
  | .struct subs, .struct fs => subsRB rb st subs (fieldTypes fs)
  | .anyIface, .iface .. => (true, st)
  | _, _ => (false, st)
partial def allRB (rb : Bool) (st : MState) : List Pat → List Ty → Bool × MState
  | p :: ps, t :: ts =>
      match miRB rb st p t with
      | (true, st') => allRB rb st' ps ts
      | (false, st') => (false, st')
  | _, _ => (true, st)
partial def subsRB (rb : Bool) (st : MState) : List Pat → List Ty → Bool × MState
  | [], fields => (fields.isEmpty, st)
  | [.varSeq], _ => (true, st)
  | .varSeq :: next :: rest', fields =>
      match fields with
      | [] => ((next :: rest').all Pat.isSeq, st)
      | f :: fs =>
        match miRB rb st next f with
        | (true, st') => subsRB rb st' rest' fs
        | (false, st') => subsRB rb (if rb then st else st') (.varSeq :: next :: rest') fs
  | pat :: rest, f :: fs =>
      match miRB rb st pat f with
      | (true, st') => subsRB rb st' rest fs
      | (false, st') => (false, st')
  | _ :: _, [] => (false, st)
end

/-- Which clause of the property the answer `impl` on `(p, t)` violates (signature of a violation):
the strict spec is re-evaluated with one clause relaxed at a time. -/
def blame (p : Pat) (t : Ty) (impl : Bool) : String :=
  let strict := SpecC10.Rules.strict
  let go := SpecC14.goIdentical
  let tryRules : List (String × SpecC10.Rules) := [
    ("alias-not-looked-through", { strict with throughAlias := false }),
    ("vendor:first-occurrence-only", { strict with lastVendor := false }),
    ("func:variadic-ignored", { strict with variadicDiffers := false }),
    ("named:instantiated-generic", { strict with instDiffers := false }),
    ("func:generic-signature", { strict with genericDiffers := false }),
    ("named:function-local-type", { strict with localDiffers := false })]
  match tryRules.find? (fun (_, r) => SpecC10.specMatch go r p t == impl) with
  | some (name, _) => name
  | none =>
    if SpecC10.specMatch (XTypes.tid false) strict p t == impl then "identity:xtypes"
    else if SpecC10.specMatch (XTypes.tid false)
        SpecC10.Rules.code p t == impl
      then "several-clauses"
    else if !impl then
      (if (miRB true MState.empty p t).1 then "seq:binding-of-failed-lookahead-kept" else "seq:no-backtracking")
    else "other"

/-- ops:
 `tmparse <errObj> <itab> <texpr>` → the pattern tree as printed by `VerifPatternTree`, or `nil`
 `tmmatch <variant> <pat> <ty>` → `true|false`         (`Pattern.MatchIdentical`; variants: `variantOf`)
 `tmmatchmat <variant> (<pat>…) (<ty>…)` → one char per (pattern, type), row-major
 `spec10 <pat> <ty> <true|false>` → `holds|violates|na`  (the executable statement of C10)
 `specmat10 (<pat>…) (<ty>…)` → `1|0|n` per pair          (the spec's own answer)
 `blame10 <pat> <ty> <true|false>` → the clause violated -/
def handle : List String → Option String
  | "tmparse" :: eo :: rest => do
    let eo ← eo.toNat?
    match ← sexpsOf rest with
    | [it, e] =>
      match parseExpr eo (← itabOf it) (← texprOf e) with
      | some p => pure (showPat eo p)
      | none => pure "nil"
    | _ => none
  | "tmmatch" :: v :: rest => do
    let v ← variantOf v
    match ← sexpsOf rest with
    | [p, t] => pure (toString (runMatch v (← patOf p) (← tyOf t)))
    | _ => none
  | "tmmatchrb" :: rb :: rest => do
    let rb ← fxOf rb
    match ← sexpsOf rest with
    | [p, t] => pure (toString (miRB rb MState.empty (← patOf p) (← tyOf t)).1)
    | _ => none
  | "tmmatchmat" :: v :: rest => do
    let v ← variantOf v
    match ← sexpsOf rest with
    | [.list ps, .list ts] =>
      let ps ← patsOf ps
      let ts ← tysOf ts
      pure (String.ofList (ps.flatMap fun p => ts.map fun t => bit (runMatch v p t)))
    | _ => none
  | "specmat10" :: rest => do
    match ← sexpsOf rest with
    | [.list ps, .list ts] =>
      let ps ← patsOf ps
      let ts ← tysOf ts
      pure (String.ofList (ps.flatMap fun p => ts.map fun t =>
        if SpecC14.plain t then bit (SpecC10.specMatch SpecC14.goIdentical SpecC10.Rules.strict p t) else 'n'))
    | _ => none
  | "spec10" :: rest => do
    let r ← (← rest.getLast?).toLower |> fun s => if s == "true" then some true else if s == "false" then some false else none
    match ← sexpsOf rest.dropLast with
    | [p, t] =>
      match SpecC10.specHolds (← patOf p) (← tyOf t) r with
      | some true => pure "holds"
      | some false => pure "violates"
      | none => pure "na"
    | _ => none
  | "blame10" :: rest => do
    let r ← (← rest.getLast?).toLower |> fun s => if s == "true" then some true else if s == "false" then some false else none
    match ← sexpsOf rest.dropLast with
    | [p, t] => pure (blame (← patOf p) (← tyOf t) r)
    | _ => none
  | _ => none
end Drv.TM
