import Rg.Proto
import Rg.Model.Comment
import Rg.Model.CommentAsIs
import Rg.Spec.C12
import Rg.Model.CommentBridge
import Drv.TextMatch
namespace Drv.Comment
open Proto CM

def hexAtom : SExp → Option Bytes
  | .atom s => bytesOfHex s
  | _ => none

def intList : SExp → Option (List Int)
  | .list xs => xs.mapM intOfAtom
  | _ => none

def atomOf : SExp → Option Atom
  | .list [.atom "eq", v, l] => do pure (.textEq (← hexAtom v) (← hexAtom l))
  | .list [.atom "ne", v, l] => do pure (.textNe (← hexAtom v) (← hexAtom l))
  | _ => none

/-- `(cg,(names…),sub,idx,filter,msg,loc,sugg,line,altline)` -/
def ruleOf : SExp → Option CRule
  | .list [.atom cg, .list names, sub, idx, filter, msg, loc, sugg, line, alt] => do
    let cg ← if cg == "1" then some true else if cg == "0" then some false else none
    let names ← names.mapM hexAtom
    let sub ← match sub with | .atom "nil" => some none | x => (intList x).map some
    let idx ← match idx with
      | .atom "nil" => some none
      | .list [a, b] => do pure (some ((← intOfAtom a), (← intOfAtom b)))
      | _ => none
    let filter ← match filter with
      | .atom "nil" => some none
      | .list xs => (xs.mapM atomOf).map some
      | _ => none
    pure { captureGroups := cg, names, sub, idx, filter, msg := (← hexAtom msg), location := (← hexAtom loc),
           suggestion := (← hexAtom sugg), line := (← intOfAtom line), altLine := (← intOfAtom alt) }
  | _ => none

/-- the same rule for the model of the code before `fixes/c12-cr-offsets.diff` -/
def atomAsIs : Atom → CMAsIs.Atom
  | .textEq v l => .textEq v l
  | .textNe v l => .textNe v l

def ruleAsIs (r : CRule) : CMAsIs.CRule :=
  { captureGroups := r.captureGroups, names := r.names, sub := r.sub, idx := r.idx, filter := r.filter.map (·.map atomAsIs),
    msg := r.msg, location := r.location, suggestion := r.suggestion, line := r.line, altLine := r.altLine }

def showReportAsIs (r : CMAsIs.Report) : String :=
  "report " ++ toString r.line ++ " " ++
    (match r.node with | none => "nil" | some n => toString n.pos ++ ":" ++ toString n.endPos) ++ " " ++ hexOfBytes r.msg ++ " " ++
    (match r.sugg with
     | none => "none"
     | some (f, t, b) => toString f ++ ":" ++ toString t ++ ":" ++ hexOfBytes b)

def showNode : Option Node → String
  | none => "nil"
  | some n => toString n.pos ++ ":" ++ toString n.endPos

def showReport (r : Report) : String :=
  "report " ++ toString r.line ++ " " ++ showNode r.node ++ " " ++ hexOfBytes r.msg ++ " " ++
    (match r.sugg with
     | none => "none"
     | some (f, t, b) => toString f ++ ":" ++ toString t ++ ":" ++ hexOfBytes b)

def pairOf (s : String) : Option (Nat × Nat) :=
  match s.splitOn ":" with
  | [a, b] => do pure ((← a.toNat?), (← b.toNat?))
  | _ => none

/-- `none` | `report;line;node;msg;sugg` -/
def observedOf (s : String) : Option (Option SpecC12.Observed) :=
  if s == "none" then some none else
  match s.splitOn ";" with
  | ["report", line, node, msg, sugg] => do
    let line ← line.toInt?
    let node ← if node == "nil" then some none else (pairOf node).map some
    let msg ← bytesOfHex msg
    let sugg ← if sugg == "none" then some none else
      match sugg.splitOn ":" with
      | [f, t, b] => do pure (some ((← f.toNat?), (← t.toNat?), (← bytesOfHex b)))
      | _ => none
    pure (some { line, node, msg, sugg })
  | _ => none

/-- ops
* `spec12 <TruncateLen> <hex src> <off> <hex text> <rules> <none | report;line;node;msg;sugg>` → `holds` | `violates c1,c2,…` (`SpecC12.verdict`)
* `cmrun <asis|fixed|crasis> <TruncateLen> <hex src> <size> <off> <hex text> <rules>` → `none` | `report line node msg sugg` | `panic k`
  (`asis`: the rule's line is reported for every alternative; `crasis`: the code before `fixes/c12-cr-offsets.diff`)
* `scantext <hex raw>` → hex of `ast.Comment.Text` for the comment whose source bytes are `raw` (`commentText`)
* `textspan <hex src> <base> <hex text> <begin> <end>` → `ok from to` | `panic k` (`commentTextSpan`)
* `hascap <tree|err>` → `0|1` (regexpHasCaptureGroups) -/
def handle : List String → Option String
  | ["cmrun", v, cfg, src, size, off, text, rules] => do
    let alt ← if v == "fixed" || v == "crasis" then some true else if v == "asis" then some false else none
    let cfg ← cfg.toInt?
    let src ← bytesOfHex src
    let size ← size.toNat?
    let off ← off.toNat?
    let text ← bytesOfHex text
    let rules ← match parseSExp (rules.replace "," " ") with
      | some (.list xs) => xs.mapM ruleOf
      | _ => none
    pure (if v == "crasis" then
      match CMAsIs.runCommentRules alt src size cfg off text (rules.map ruleAsIs) with
      | .ok none => "none"
      | .ok (some r) => showReportAsIs r
      | .panic k => "panic " ++ panicName k
    else
      match runCommentRules alt src size cfg off text rules with
      | .ok none => "none"
      | .ok (some r) => showReport r
      | .panic k => "panic " ++ panicName k)
  | ["scantext", raw] => do
    let raw ← bytesOfHex raw
    pure (hexOfBytes (commentText raw))
  | ["textspan", src, base, text, b, e] => do
    let src ← bytesOfHex src
    let base ← base.toNat?
    let text ← bytesOfHex text
    let b ← b.toNat?
    let e ← e.toNat?
    pure (match textSpan src base text b e with
      | .ok (f, t) => "ok " ++ toString f ++ " " ++ toString t
      | .panic k => "panic " ++ panicName k)
  | ["spec12", cfg, src, off, text, rules, obs] => do
    let cfg ← cfg.toInt?
    let src ← bytesOfHex src
    let off ← off.toNat?
    let text ← bytesOfHex text
    let rules ← match parseSExp (rules.replace "," " ") with
      | some (.list xs) => xs.mapM ruleOf
      | _ => none
    let obs ← observedOf obs
    let v := SpecC12.verdict cfg src off text (rules.map toSpecRule) obs
    pure (if v.isEmpty then "holds" else "violates " ++ ",".intercalate v)
  | ["hascap", tree] => do
    let parsed ← if tree == "err" then some none else (Drv.TextMatch.parseTree tree).map some
    pure (if hasCaptureGroups parsed then "1" else "0")
  | _ => none

end Drv.Comment
