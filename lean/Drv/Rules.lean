import Rg.Proto
import Rg.Spec.Rules
import Rg.Gen.Buckets
import Rg.Gen.WalkTables
namespace Drv.RulesD
open Proto Rules

/-- placement function from the regenerated bucket table -/
def dstOf (t : Nat) : List Nat := ((Gen.dstRows.lookup t).getD none).getD []
def multiOf (t : Nat) : Bool := Gen.multiMatchTags.contains t
/-- the property's own multi-match set ("statement-list, case-clause and file-level multi-matches"): the buckets the
list tags fan out to — independent of the code's `multiMatchTags` table (which `C01.gen_multimatch` pins to it) -/
def multiSpec (t : Nat) : Bool :=
  [Gen.tagBlockStmt, Gen.tagCaseClause, Gen.tagCommClause, Gen.tagFile].contains t

def pairOf : SExp → Option (Nat × Nat)
  | .list [a, b] => do pure (← natOfAtom a, ← natOfAtom b)
  | _ => none

def fileOf : SExp → Option (List Rule)
  | .list rs => rs.mapM fun r => do let (i, t) ← pairOf r; pure ⟨i, t⟩
  | _ => none

def cbEntry : SExp → Option (Nat × Nat × List Bool)
  | .list (n :: r :: vs) => do
    pure (← natOfAtom n, ← natOfAtom r, ← vs.mapM fun v => do pure ((← natOfAtom v) != 0))
  | _ => none

def mkCb (es : List (Nat × Nat × List Bool)) (n : Nat) (r : Rule) : List Bool :=
  match es.find? (fun e => e.1 == n && e.2.1 == r.id) with
  | some e => e.2.2
  | none => []

def showPairs (ps : List (Nat × Nat)) : String :=
  "ok " ++ " ".intercalate (ps.map fun p => s!"{p.1}:{p.2}")

def parse (rest : List String) : Option (List (Nat × Nat) × List (List Rule) × (Nat → Rule → List Bool)) := do
  match ← parseSExp (" ".intercalate rest) with
  | .list [.list (.atom "visits" :: vs), .list (.atom "hist" :: fs), .list (.atom "cb" :: cs)] =>
    let visits ← vs.mapM pairOf
    let hist ← fs.mapM fileOf
    let cb ← cs.mapM cbEntry
    pure (visits, hist, mkCb cb)
  | _ => none

/-- ops: `rules.run ((visits (id tag)…) (hist ((rule rootTag)…)…) (cb (node rule verdict…)…))` — model of
load + merge + runRules; `rules.spec` same input — first accepting rule in load order (all for multi-match tags);
`rules.buckets ((rule rootTag)…)…` — buckets after loading these files: `tag=r,r;tag=…` -/
def handle : List String → Option String
  | "rules.run" :: rest => do
    let (visits, hist, cb) ← parse rest
    pure (showPairs (runOver dstOf multiOf hist cb visits))
  | "rules.spec" :: rest => do
    let (visits, hist, cb) ← parse rest
    pure (showPairs (specOver dstOf multiSpec hist cb visits))
  | "rules.buckets" :: rest => do
    match ← parseSExp (" ".intercalate rest) with
    | .list fs =>
      let hist ← fs.mapM fileOf
      let b := loadAll dstOf hist
      let parts := (List.range Gen.numBuckets).filterMap fun t =>
        if (b t).isEmpty then none else some s!"{t}={",".intercalate ((b t).map fun r => toString r.id)}"
      pure ("ok " ++ ";".intercalate parts)
    | _ => none
  | _ => none
end Drv.RulesD
