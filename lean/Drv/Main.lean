import Drv.Trunc
import Drv.Walk
import Drv.Rules
import Drv.Render
import Drv.Loader
import Drv.Locks
import Drv.TextMatch
import Drv.Comment
import Drv.Loads
import Drv.Imports
import Drv.AdapterC19
import Drv.XTypes
import Drv.TypeMatch
import Drv.Filters
import Drv.Preds
import Drv.IR
import Drv.Macro
import Drv.Conv
import Drv.Quasigo
import Drv.SrcLoad
import Drv.Sink
import Drv.SrcGroup
import Drv.IRLoad
/-!
Line-protocol driver: one operation per line on stdin, one canonical answer line on stdout.
Every engine exports `handle : List String → Option String` answering only its own ops;
the first engine that answers wins.  Unknown / malformed lines answer `bad-op` (never a default).
-/
open Proto

def handlers : List (List String → Option String) := [
  Drv.Trunc.handle,
  Drv.WalkD.handle,
  Drv.RulesD.handle,
  Drv.RenderD.handle,
  Drv.LoaderD.handle,
  Drv.Locks.handle,
  Drv.TextMatch.handle,
  Drv.Comment.handle,
  Drv.Loads.handle,
  Drv.Imports.handle,
  Drv.AdapterC19.handle,
  Drv.XT.handle,
  Drv.TM.handle,
  Drv.Filters.handle,
  Drv.Preds.handle,
  Drv.IRPrint.handle,
  Drv.MacroE.handle,
  Drv.ConvE.handle,
  Drv.Quasigo.handle,
  Drv.SrcLoadD.handle,
  Drv.SinkD.handle,
  Drv.SrcGroupD.handle,
  Drv.IRLoadD.handle
]

def dispatch (fs : List String) : Option String :=
  handlers.findSome? (fun h => h fs)

partial def loop (h : IO.FS.Stream) (out : IO.FS.Stream) : IO Unit := do
  let line ← h.getLine
  if line.isEmpty then return ()
  let fs := fields (line.trimAscii.toString)
  match dispatch fs with
  | some r => out.putStrLn r
  | none => out.putStrLn "bad-op"
  loop h out

def main : IO Unit := do
  let stdin ← IO.getStdin
  let stdout ← IO.getStdout
  loop stdin stdout
  stdout.flush
