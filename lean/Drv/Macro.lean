import Rg.Proto
import Rg.Model.Macro
/-!
Driver engine for C18 (macro expansion).

expr := (id NAME) | (lit KIND HEX) | (paren e) | (sel e NAME) | (idx e e) | (call e e*) | (un OP e) | (bin OP e e)
ops: `c18expand_asis MATCHER (ps NAME*) (as expr*) body` / `c18expand …` → `ok expr` | `badarg i` | `toomany` | `panic kind`
     `c18inline (ps NAME*) (as expr*) body` → `expr`
-/
namespace Drv.MacroE
open Proto Macro

partial def dec : SExp → Option GExpr
  | .list [.atom "id", .atom n] => some (.ident n)
  | .list [.atom "lit", .atom k, .atom h] => do
    let b ← bytesOfHex h
    pure (.lit k (stringOfBytes b))
  | .list [.atom "paren", e] => do pure (.paren (← dec e))
  | .list [.atom "sel", e, .atom n] => do pure (.sel (← dec e) n)
  | .list [.atom "idx", x, i] => do pure (.index (← dec x) (← dec i))
  | .list (.atom "call" :: f :: as) => do pure (.call (← dec f) (← as.mapM dec))
  | .list [.atom "un", .atom o, e] => do pure (.unary o (← dec e))
  | .list [.atom "bin", .atom o, x, y] => do pure (.binary o (← dec x) (← dec y))
  | _ => none

def hexOfString (s : String) : String := hexOfBytes (s.toList.map (fun c => UInt8.ofNat c.toNat))

partial def enc : GExpr → String
  | .ident n => "(id " ++ n ++ ")"
  | .lit k t => "(lit " ++ k ++ " " ++ hexOfString t ++ ")"
  | .paren e => "(paren " ++ enc e ++ ")"
  | .sel e n => "(sel " ++ enc e ++ " " ++ n ++ ")"
  | .index x i => "(idx " ++ enc x ++ " " ++ enc i ++ ")"
  | .call f as => "(" ++ " ".intercalate ("call" :: enc f :: as.map enc) ++ ")"
  | .unary o e => "(un " ++ o ++ " " ++ enc e ++ ")"
  | .binary o x y => "(bin " ++ o ++ " " ++ enc x ++ " " ++ enc y ++ ")"

def decNames : SExp → Option (List String)
  | .list (.atom "ps" :: ns) => ns.mapM (fun | .atom n => some n | _ => none)
  | _ => none

def decArgs : SExp → Option (List GExpr)
  | .list (.atom "as" :: es) => es.mapM dec
  | _ => none

def showOutcome : Outcome → String
  | .ok e => "ok " ++ enc e
  | .unsafeArg i => "badarg " ++ toString i
  | .tooManyArgs => "toomany"
  | .panic p => "panic " ++ panicName p

def parse3 (fs : List String) : Option (List String × List GExpr × GExpr) := do
  match ← parseSExps (tokenize (" ".intercalate fs)) with
  | [ps, as, body] => pure (← decNames ps, ← decArgs as, ← dec body)
  | _ => none

def handle : List String → Option String
  | "c18expand_asis" :: m :: fs => do
    let (ps, as, body) ← parse3 fs
    pure (showOutcome (expandAsIs m ps as body))
  | "c18expand" :: m :: fs => do
    let (ps, as, body) ← parse3 fs
    pure (showOutcome (expand m ps as body))
  | "c18inline" :: fs => do
    let (ps, as, body) ← parse3 fs
    pure (enc (inline ps as body))
  | _ => none
end Drv.MacroE
