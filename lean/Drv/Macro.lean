import Rg.Proto
import Rg.Model.Macro
import Rg.Model.MacroLit
/-!
Driver engine for C18 (macro expansion).

expr := (id NAME) | (lit KIND HEX) | (paren e) | (sel e NAME) | (idx e e) | (call e e*) | (un OP e) | (bin OP e e)
ops: `c18expand_asis MATCHER (ps NAME*) (as expr*) body` / `c18expand …` → `ok expr` | `badarg i` | `toomany` | `panic kind`
     `c18inline (ps NAME*) (as expr*) body` → `expr`
     `c18retype KIND HEX UNQ` (UNQ := n | HEX of strconv.Unquote's result prefixed by `u`) → `n` | `(s HEX)` | `(i INT)` | `big` | `o`
         the types.Info entry expandMacro re-creates for a copied basic literal
     `c18group stmt*`  stmt := (define NAME) | (definebad) | (assign NAME) | (decl) | (rule NAME*) | (other)
         → `ok` (then, per rule, the 0-based statement index each called name resolves to, `-` = no helper) | `err`
-/
namespace Drv.MacroE
open Proto Macro

partial def dec : SExp → Option GExpr
  | .list [.atom "id", .atom n] => some (.ident n)
  | .list [.atom "lit", .atom k, .atom h] => do
    let b ← bytesOfHex h
    pure (.lit k (stringOfBytes b))
  | .list [.atom "paren", e] => do pure (.paren (← dec e))
  | .list [.atom "sel", e, .atom n] => do pure (.sel (← dec e) n)
  | .list [.atom "idx", x, i] => do pure (.index (← dec x) (← dec i))
  | .list (.atom "call" :: f :: as) => do pure (.call (← dec f) (← as.mapM dec))
  | .list [.atom "un", .atom o, e] => do pure (.unary o (← dec e))
  | .list [.atom "bin", .atom o, x, y] => do pure (.binary o (← dec x) (← dec y))
  | _ => none

def hexOfString (s : String) : String := hexOfBytes (s.toList.map (fun c => UInt8.ofNat c.toNat))

partial def enc : GExpr → String
  | .ident n => "(id " ++ n ++ ")"
  | .lit k t => "(lit " ++ k ++ " " ++ hexOfString t ++ ")"
  | .paren e => "(paren " ++ enc e ++ ")"
  | .sel e n => "(sel " ++ enc e ++ " " ++ n ++ ")"
  | .index x i => "(idx " ++ enc x ++ " " ++ enc i ++ ")"
  | .call f as => "(" ++ " ".intercalate ("call" :: enc f :: as.map enc) ++ ")"
  | .unary o e => "(un " ++ o ++ " " ++ enc e ++ ")"
  | .binary o x y => "(bin " ++ o ++ " " ++ enc x ++ " " ++ enc y ++ ")"

def decNames : SExp → Option (List String)
  | .list (.atom "ps" :: ns) => ns.mapM (fun | .atom n => some n | _ => none)
  | _ => none

def decArgs : SExp → Option (List GExpr)
  | .list (.atom "as" :: es) => es.mapM dec
  | _ => none

def showOutcome : Outcome → String
  | .ok e => "ok " ++ enc e
  | .unsafeArg i => "badarg " ++ toString i
  | .tooManyArgs => "toomany"
  | .panic p => "panic " ++ panicName p

def parse3 (fs : List String) : Option (List String × List GExpr × GExpr) := do
  match ← parseSExps (tokenize (" ".intercalate fs)) with
  | [ps, as, body] => pure (← decNames ps, ← decArgs as, ← dec body)
  | _ => none

def showCV : Conv.CV → String
  | .none => "n"
  | .str b => "(s " ++ hexOfBytes b ++ ")"
  | .int n => "(i " ++ toString n ++ ")"
  | .intBig => "big"
  | .other => "o"

def decStmts : List SExp → Nat → Option (List MacroLit.Stmt)
  | [], _ => some []
  | s :: rest, i => do
    let st ← (match s with
      | .list [.atom "define", .atom n] => some (MacroLit.Stmt.define n [] (.ident (toString i)))
      | .list [.atom "definebad"] => some .defineBad
      | .list [.atom "assign", .atom n] => some (.assign n [] (.ident (toString i)))
      | .list [.atom "decl"] => some .decl
      | .list (.atom "rule" :: ns) => (ns.mapM (fun (x : SExp) => match x with | .atom n => some n | _ => none)).map MacroLit.Stmt.rule
      | .list [.atom "other"] => some .other
      | _ => none)
    let r ← decStmts rest (i + 1)
    pure (st :: r)

def showResolved (d : Option MacroLit.MacroDef) : String :=
  match d with
  | some ⟨_, _, .ident i⟩ => i
  | _ => "-"

def handle : List String → Option String
  | ["c18retype", kind, h, u] => do
    let text ← bytesOfHex h
    let unq ← (if u == "n" then some none else
      if u.startsWith "u" then (bytesOfHex (u.drop 1).toString).map some else none)
    pure (showCV (MacroLit.retype kind (text.map (·.toNat)) unq))
  | "c18group" :: fs => do
    let ss ← parseSExps (tokenize (" ".intercalate fs))
    let stmts ← decStmts ss 0
    pure (match MacroLit.groupLoop [] stmts with
      | none => "err"
      | some out => " ".intercalate ("ok" :: out.map (fun r => "(" ++ ",".intercalate (r.map showResolved) ++ ")")))
  | "c18expand_asis" :: m :: fs => do
    let (ps, as, body) ← parse3 fs
    pure (showOutcome (expandAsIs m ps as body))
  | "c18expand" :: m :: fs => do
    let (ps, as, body) ← parse3 fs
    pure (showOutcome (expand m ps as body))
  | "c18inline" :: fs => do
    let (ps, as, body) ← parse3 fs
    pure (enc (inline ps as body))
  | _ => none
end Drv.MacroE
