import Rg.Proto
import Rg.Model.Imports
import Rg.Spec.C20
/-!
Driver ops of qualified-name resolution (C20).  Strings are hex atoms.

```
c20file <fixed 0|1> (c20 (base (n p)*) (pkgs pkg*) (targets ty*) (underlying ty*) (file group*))
        → ok <group>|<group>…   group = skip | rule;rule…   rule = i,i,… | -      or  err:<class> | panic:<kind>
spec20  <obs in the same form> (c20 …)   → holds | violates g.r:aspect,…
c20strip <fixed> <hex path>              → hex            (vendor stripping of opNamed)
c20ident <hex path>                      → hex            (the spec's package identity)
c20split <hex fqn>                       → <hex path> <hex name> | none
c20dep <root> <hex path> (graph dpkg*)   → graph:<i> | importer   (findTypeNoCache's choice of package: findDependency, else the importer)
spec20dep <obs> <root> <hex path> (graph dpkg*) → holds | violates
dpkg  := (pkg path complete (import-index*))
pkg   := (pkg path (obj name i|o (methods m*) (impls i*) (mi (m i*)*))*)
ty    := (n path name) | (p ty) | (s ty) | o
group := (g name rejected (imports (n p)*) (r is|uis|impl|hasm arg)*)
```
-/
namespace Drv.Imports
open Proto ImpM

def hex? : SExp → Option Bytes
  | .atom s => bytesOfHex s
  | _ => none
def bool? : SExp → Option Bool
  | .atom "0" => some false
  | .atom "1" => some true
  | _ => none
def pair? : SExp → Option (Bytes × Bytes)
  | .list [a, b] => do pure (← hex? a, ← hex? b)
  | _ => none

def obj? : SExp → Option Obj
  | .list [.atom "obj", n, .atom k, .list (.atom "methods" :: ms), .list (.atom "impls" :: is), .list (.atom "mi" :: mis)] => do
    let kind ← (match k with | "i" => some ObjKind.iface | "o" => some ObjKind.other | _ => none)
    let mi ← mis.mapM fun e => match e with
      | .list (m :: is) => do pure (← hex? m, ← is.mapM natOfAtom)
      | _ => none
    pure ⟨← hex? n, kind, ← ms.mapM hex?, ← is.mapM natOfAtom, mi⟩
  | _ => none

def pkg? : SExp → Option Pkg
  | .list (.atom "pkg" :: p :: os) => do pure ⟨← hex? p, ← os.mapM obj?⟩
  | _ => none

partial def ty? : SExp → Option TType
  | .atom "o" => some .other
  | .list [.atom "n", p, n] => do pure (.named (← hex? p) (← hex? n))
  | .list [.atom "p", t] => (ty? t).map .ptr
  | .list [.atom "s", t] => (ty? t).map .slice
  | _ => none

def kind? : String → Option RKind
  | "is" => some .typeIs | "uis" => some .underlyingIs | "impl" => some .implements | "hasm" => some .hasMethod
  | _ => none

def rule? : SExp → Option RuleReq
  | .list [.atom "r", .atom k, a] => do pure ⟨← kind? k, ← hex? a⟩
  | _ => none

def group? : SExp → Option GroupReq
  | .list (.atom "g" :: n :: rej :: .list (.atom "imports" :: imps) :: rs) => do
    pure ⟨← natOfAtom n, ← bool? rej, ← imps.mapM pair?, ← rs.mapM rule?⟩
  | _ => none

structure Input where
  base : Scope
  world : World
  groups : List GroupReq

def top? : SExp → Option Input
  | .list [.atom "c20", .list (.atom "base" :: bs), .list (.atom "pkgs" :: ps), .list (.atom "targets" :: ts),
      .list (.atom "underlying" :: us), .list (.atom "file" :: gs)] => do
    pure ⟨← bs.mapM pair?, ⟨← ps.mapM pkg?, ← ts.mapM ty?, ← us.mapM ty?⟩, ← gs.mapM group?⟩
  | _ => none

def parseTop (fs : List String) : Option Input := (parseSExp (" ".intercalate fs)).bind top?

def errName : LoadErr → String
  | .typeExpr => "typeExpr" | .notFQN => "notFQN" | .importFail => "importFail" | .notFound => "notFound"
  | .notIface => "notIface" | .notImported => "notImported" | .badExpr => "badExpr" | .noMethod => "noMethod"

def showSet (l : List Nat) : String := if l.isEmpty then "-" else ",".intercalate (l.map toString)

def showGroup : GroupOut → String
  | .skipped => "skip"
  | .loaded ms => if ms.isEmpty then "none" else ";".intercalate (ms.map showSet)
  | .failed e => "err:" ++ errName e

def showFile : Res (Itab × List GroupOut) → String
  | .panic p => "panic:" ++ panicName p
  | .ok (_, outs) =>
    match outs.find? (fun o => match o with | .failed _ => true | _ => false) with
    | some (.failed e) => "err:" ++ errName e
    | _ => "ok " ++ (if outs.isEmpty then "empty" else "|".intercalate (outs.map showGroup))

def set? (s : String) : Option (List Nat) :=
  if s == "-" then some [] else (s.splitOn ",").mapM String.toNat?

def obsGroup? (s : String) : Option (Option (List (List Nat))) :=
  if s == "skip" then some none
  else if s == "none" then some (some [])
  else ((s.splitOn ";").mapM set?).map some

def observed? : List String → Option SpecC20.Observed
  | ["ok", "empty"] => some (.loaded [])
  | ["ok", gs] => ((gs.splitOn "|").mapM obsGroup?).map .loaded
  | [e] => if e.startsWith "err:" || e.startsWith "panic:" then some .failed else none
  | _ => none

def aspectName : SpecC20.Aspect → String
  | .acceptedUnresolvable => "accepted-unresolvable" | .rejectedResolvable => "rejected-resolvable"
  | .wrongMatches => "wrong-matches" | .shape => "shape"

def dpkg? : SExp → Option DPkg
  | .list [.atom "pkg", p, c, .list is] => do pure ⟨← hex? p, ← bool? c, ← is.mapM natOfAtom⟩
  | _ => none

def dgraph? (fs : List String) : Option DGraph :=
  match parseSExp (" ".intercalate fs) with
  | some (.list (.atom "graph" :: ps)) => ps.mapM dpkg?
  | _ => none

def showSrc : PkgSource → String
  | .graph d => "graph:" ++ toString d
  | .importer => "importer"

def src? (s : String) : Option PkgSource :=
  if s == "importer" then some .importer
  else if s.startsWith "graph:" then (s.drop 6).toNat?.map .graph
  else none

def handle : List String → Option String
  | "c20dep" :: root :: path :: rest => do
    let g ← dgraph? rest
    pure (showSrc (pkgSource g (← root.toNat?) (← bytesOfHex path)))
  | "spec20dep" :: obs :: root :: path :: rest => do
    let g ← dgraph? rest
    pure (if SpecC20.depHolds g (← root.toNat?) (← bytesOfHex path) (← src? obs) then "holds" else "violates")
  | "c20file" :: fx :: rest => do
    let fixed ← bool? (.atom fx)
    let inp ← parseTop rest
    pure (showFile (loadFile fixed inp.world inp.base inp.groups))
  | "spec20" :: rest => do
    -- the observation is everything before the S-expression
    let (obs, sx) := rest.span (fun f => !f.startsWith "(")
    let o ← observed? obs
    let inp ← parseTop sx
    let vs := SpecC20.violations inp.world inp.base inp.groups o
    -- for wrong-matches the expected set is appended (`:exp=i/j/…`) so that the harness can name the cause
    let expOf := fun (g r : Nat) =>
      match inp.groups[g]? with
      | some grp =>
        (match grp.rules[r]? with
         | some rule =>
           (match SpecC20.expectRule inp.world grp.imports inp.base rule with
            | .accepts ts => ":exp=" ++ (if ts.isEmpty then "-" else "/".intercalate (ts.map toString))
            | .mustFail => "")
         | none => "")
      | none => ""
    pure (if vs.isEmpty then "holds" else
      "violates " ++ ",".intercalate (vs.map fun (g, r, a) =>
        toString g ++ "." ++ toString r ++ ":" ++ aspectName a ++
          (if a == SpecC20.Aspect.wrongMatches then expOf g r else "")))
  | ["c20strip", fx, h] => do
    let fixed ← bool? (.atom fx)
    pure (hexOfBytes (stripVendor fixed (← bytesOfHex h)))
  | ["c20ident", h] => do pure (hexOfBytes (SpecC20.identity (← bytesOfHex h)))
  | ["c20split", h] => do
    match splitFQN (← bytesOfHex h) with
    | none => pure "none"
    | some (p, n) => pure (hexOfBytes p ++ " " ++ hexOfBytes n)
  | _ => none

end Drv.Imports
