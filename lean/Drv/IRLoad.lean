import Rg.Proto
import Rg.Model.IRLoad
import Drv.IR
import Drv.Loader
import Drv.SrcLoad
/-!
Driver engine for the loader half of C05 (Rg/Model/IRLoad.lean).

ops (FILE = the `(file …)` S-expression of Drv/IR.lean — the *whole* ir.File with its nil/empty bits;
ORACLES = the `(oracles …)` section of Drv/Loader.lean):
  `c05load <strict 0|1> (FILE ORACLES)`     → `Loader.loadFile o genTags (toLoaderFile decUtf8 f)`
  `c05preload <strict 0|1> (FILE ORACLES)`  → `Comp.precompiledLoad` (print, read the literal back, load);
                                              `noliteral` when the printer panics or the text is not a literal
answers: `ok <group:line:bucket …sorted>` (one item per accepted alternative and bucket; `c` = the comment rules) |
`err <line>` | `panic <kind>`
-/
namespace Drv.IRLoadD
open Proto Comp

def parseArg (rest : List String) (strict : String) : Option (IR.File × Loader.Oracles) := do
  let st ← if strict == "1" then some true else if strict == "0" then some false else none
  match ← parseSExp (" ".intercalate rest) with
  | .list [f, .list (.atom "oracles" :: os)] =>
    let o ← Drv.LoaderD.oraclesOf st os
    pure (← Drv.IRPrint.decFile f, o)
  | _ => none

/-- one item per (alternative, bucket): two alternatives of a rule may share a line -/
def flat (a : Loader.Accepted) : List String :=
  if a.comment then [s!"{a.group}:{a.line}:c"] else a.buckets.map fun b => s!"{a.group}:{a.line}:{b}"

def showFlat : Loader.LRes (List Loader.Accepted) → String
  | .panic p => "panic " ++ panicName p
  | .ok (.error e) => s!"err {e.line}"
  | .ok (.ok as) => "ok " ++ " ".intercalate (Drv.LoaderD.sortStrings (as.flatMap flat))

def handle : List String → Option String
  | "c05load" :: st :: rest => do
    let (f, o) ← parseArg rest st
    pure (showFlat (Loader.loadFile o Drv.LoaderD.genTags (toLoaderFile Drv.SrcLoadD.decUtf8 f)))
  | "c05preload" :: st :: rest => do
    let (f, o) ← parseArg rest st
    pure (match precompiledLoad o Drv.LoaderD.genTags Drv.SrcLoadD.decUtf8 f with
      | some x => showFlat x
      | none => "noliteral")
  | _ => none
end Drv.IRLoadD
