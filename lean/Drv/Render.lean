import Rg.Proto
import Rg.Spec.C03
namespace Drv.RenderD
open Proto Render SpecC03

/-- cap = `name:typedNil:amp:text` (hex fields, flags 0/1) -/
def capOf (s : String) : Option Cap :=
  match s.splitOn ":" with
  | [n, tn, amp, tx] => do
    pure { name := ← bytesOfHex n, typedNil := tn == "1", amp := amp == "1", text := ← bytesOfHex tx }
  | _ => none

def showRes : Res Bytes → String
  | .ok b => "ok " ++ hexOfBytes b
  | .panic p => "panic " ++ panicName p

/-- ops: `render <truncate 0|1> <limit> <hex template> <whole cap> <cap>…` — model of renderMessage;
`spec03.render` same input — interpolation by longest bound name;
`nodetext <hex src> <from> <to> <hex fallback>`; `nodetext.asis …` (pre-fix variant, labels a disagreement);
`spec03.edit <hex src> <from> <to> <hex repl>` — file after applying the edit -/
def handle : List String → Option String
  | "render" :: t :: lim :: msg :: whole :: caps => do
    let cs ← caps.mapM capOf
    pure (showRes (render (← bytesOfHex msg) (← capOf whole) cs (t == "1") (← lim.toInt?)))
  | "spec03.render" :: t :: lim :: msg :: whole :: caps => do
    let cs ← caps.mapM capOf
    pure (showRes (specRender (← bytesOfHex msg) (← capOf whole) cs (t == "1") (← lim.toInt?)))
  | ["nodetext", src, f, t, fb] => do
    pure (showRes (nodeText (← bytesOfHex src) (← f.toInt?) (← t.toInt?) (← bytesOfHex fb)))
  | ["nodetext.asis", src, f, t, fb] => do
    pure (showRes (nodeTextAsIs (← bytesOfHex src) (← f.toInt?) (← t.toInt?) (← bytesOfHex fb)))
  | ["spec03.edit", src, f, t, r] => do
    pure ("ok " ++ hexOfBytes (applyEdit (← bytesOfHex src) (← f.toNat?) (← t.toNat?) (← bytesOfHex r)))
  | _ => none
end Drv.RenderD
