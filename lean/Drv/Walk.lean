import Rg.Proto
import Rg.Spec.Walk
import Rg.Gen.WalkTables
namespace Drv.WalkD
open Proto _root_.Walk

partial def treeOfSExp : SExp → Option Tree
  | .list (k :: i :: s :: a :: kids) => do
    let k ← natOfAtom k; let i ← natOfAtom i; let s ← natOfAtom s; let a ← natOfAtom a
    let ks ← kids.mapM treeOfSExp
    pure (.node k i s a ks)
  | _ => none

def showOpt : Option Nat → String
  | some n => toString n
  | none => "-"

def showVisit (v : Visit) : String :=
  s!"{v.id},{v.tag},{if v.dead then 1 else 0},{showOpt v.func},{v.pathLen},{showOpt v.parent}"

def showVisits (vs : List Visit) : String :=
  "ok " ++ " ".intercalate (vs.map showVisit)

def fresh : Ctx0 := { path := [], dead := false, func := none }

/-- ops (the rest of the line is the tree S-expression `(kind id slot attr kid…)`):
`walk.trace` — the model of the walker with the regenerated table;
`walk.spec`  — the property-level reference (`specFull`: source order, reference tags, chain contexts);
`walk.check` — `wellTyped sorted clean` of the tree as three 0/1 flags -/
def handle : List String → Option String
  | "walk.trace" :: rest => do
    let t ← treeOfSExp (← parseSExp (" ".intercalate rest))
    pure (showVisits (trace Gen.cfg Gen.tables.T t))
  | "walk.spec" :: rest => do
    let t ← treeOfSExp (← parseSExp (" ".intercalate rest))
    pure (showVisits (specFull Gen.cfg Gen.tables.A Gen.tables.G fresh [] t))
  | "walk.check" :: rest => do
    let t ← treeOfSExp (← parseSExp (" ".intercalate rest))
    let b (x : Bool) := if x then "1" else "0"
    pure s!"ok {b (wellTyped Gen.tables t)} {b (sorted Gen.tables.A t)} {b (clean Gen.cfg Gen.tables.T Gen.tables.G t)}"
  | _ => none
end Drv.WalkD
