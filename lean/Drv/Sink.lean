import Rg.Proto
import Rg.Model.Sink
import Rg.Model.SinkFixed
import Rg.Spec.Sink
import Drv.Filters
/-!
Driver ops of the sink model (C02, `SinkType.Is`):

* `c02sink <asis|repaired> <ctx>` → `<model> <spec> <wf> <gap>`: `findSink` (`nil`, `inv`, `id:N`, `panic:<kind>`), `specSink`
  (`none`, `id:N`), the facts contract (`wf` | `illformed`), the known gap the context falls into (`-` | name)
* `c02sinkis <asis|repaired> <ctx> (ts t…)` → one verdict letter of `sinkTypeIs` per probed type (`t`, `f`, panic letters; `?` for a `?`)
* `c02sinkspecis <ctx> (ts t…) <letters>` → `holds:<n>` | `wrong:<k>:<want>:<got>` (`specSinkTypeIs` against the
  implementation's verdicts; `?` entries are not judged)

ctx = `(ctx <matchIsExpr> <matchIsParen> <frame>…)`, innermost ancestor first;
frame = `(par)` | `(kv <inKey> <name|->)` | `(vs <name|type|value> <ty|->)` | `(ret <before> <after>)` |
`(idx <inIndex> <ty> <under>)` | `(asg <assign|define|other> <onRhs> <pos> <nRhs> (<ty>…))` |
`(lit <slot|-> <nElts> <ty> <under> <elided>)` | `(call <slot|-> <nArgs> <fun> <ellipsis>)` | `(flit <sig|->)` |
`(fdecl <sig|->)` | `(send <inValue> <ty> <under>)` | `(oth <isExpr>)`;
fun = `<sig>` | `(nosig <ty> <isType>)`; sig = `(sig <variadic> (<ty> <elem ty|->)… / <result ty>…)` written as
`(sig <variadic> (ps (<ty> <ty|->)…) (rs <ty>…))`;
under = `(sl <ty>)` `(ar <ty>)` `(map <ty> <ty>)` `(st (<name> <ty>)…)` `(ptr <under>)` `(ch <ty>)` `(o)`;
ty = `nil` | `inv` | `<n>`.
-/
namespace Drv.SinkD
open Proto Sink

def bit (s : String) : Option Bool := if s == "1" then some true else if s == "0" then some false else none

def parseTy (s : String) : Option Ty :=
  if s == "nil" then some .nil else if s == "inv" then some .invalid else s.toNat?.map .id

def parseTyOpt (s : String) : Option (Option Ty) :=
  if s == "-" then some none else (parseTy s).map some

def parseNatOpt (s : String) : Option (Option Nat) :=
  if s == "-" then some none else s.toNat?.map some

def atomTy : SExp → Option Ty
  | .atom s => parseTy s
  | _ => none

partial def parseUnder : SExp → Option Under
  | .list [.atom "sl", .atom e] => do pure (.slice (← parseTy e))
  | .list [.atom "ar", .atom e] => do pure (.array (← parseTy e))
  | .list [.atom "map", .atom k, .atom e] => do pure (.map (← parseTy k) (← parseTy e))
  | .list (.atom "st" :: fs) => do
    let fields ← fs.mapM fun (f : SExp) => match f with
      | SExp.list [.atom n, .atom t] => do pure ((← n.toNat?), (← parseTy t))
      | _ => none
    pure (.strct fields)
  | .list [.atom "ptr", b] => do pure (.pointer (← parseUnder b))
  | .list [.atom "ch", .atom e] => do pure (.chan (← parseTy e))
  | .list [.atom "o"] => some .other
  | _ => none

def parseSig : SExp → Option Sig
  | .list [.atom "sig", .atom v, .list (.atom "ps" :: ps), .list (.atom "rs" :: rs)] => do
    let params ← ps.mapM fun (p : SExp) => match p with
      | SExp.list [.atom t, .atom e] => do pure ({ ty := (← parseTy t), sliceElem := (← parseTyOpt e) } : Param)
      | _ => none
    pure { params, variadic := (← bit v), results := (← rs.mapM atomTy) }
  | _ => none

def parseSigOpt : SExp → Option (Option Sig)
  | .atom "-" => some none
  | s => (parseSig s).map some

def parseFun : SExp → Option FunTy
  | .list [.atom "nosig", .atom t, .atom isType] => do pure (.notSig (← parseTy t) (← bit isType))
  | s => (parseSig s).map .sig

def parseFrame : SExp → Option Frame
  | .list [.atom "par"] => some .paren
  | .list [.atom "kv", .atom k, .atom id] => do pure (.keyValue (← bit k) (← parseNatOpt id))
  | .list [.atom "vs", .atom slot, .atom t] => do
    let slot ← (match slot with | "name" => some VSlot.name | "type" => some .type | "value" => some .value | _ => none)
    pure (.valueSpec slot (← parseTyOpt t))
  | .list [.atom "ret", .atom b, .atom a] => do pure (.ret (← b.toNat?) (← a.toNat?))
  | .list [.atom "idx", .atom i, .atom t, u] => do pure (.index (← bit i) (← parseTy t) (← parseUnder u))
  | .list [.atom "asg", .atom tok, .atom r, .atom pos, .atom n, .list lhs] => do
    let tok ← (match tok with | "assign" => some AssignTok.assign | "define" => some .define | "other" => some .other | _ => none)
    pure (.assign tok (← bit r) (← pos.toNat?) (← lhs.mapM atomTy) (← n.toNat?))
  | .list [.atom "lit", .atom slot, .atom n, .atom t, u, .atom el] => do
    pure (.composite (← parseNatOpt slot) (← n.toNat?) (← parseTy t) (← parseUnder u) (← bit el))
  | .list [.atom "call", .atom slot, .atom n, f, .atom ell] => do
    pure (.call (← parseNatOpt slot) (← n.toNat?) (← parseFun f) (← bit ell))
  | .list [.atom "flit", s] => do pure (.funcLit (← parseSigOpt s))
  | .list [.atom "fdecl", s] => do pure (.funcDecl (← parseSigOpt s))
  | .list [.atom "send", .atom v, .atom t, u] => do pure (.send (← bit v) (← parseTy t) (← parseUnder u))
  | .list [.atom "oth", .atom e] => do pure (.other (← bit e))
  | _ => none

def parseCtx : SExp → Option Ctx
  | .list (.atom "ctx" :: .atom e :: .atom p :: fs) => do
    pure { matchIsExpr := (← bit e), matchIsParen := (← bit p), frames := (← fs.mapM parseFrame) }
  | _ => none

/-- the probed types: `some n` or `none` for a `?` (not judged) -/
def parseTs : SExp → Option (List (Option Nat))
  | .list (.atom "ts" :: ts) => ts.mapM fun (t : SExp) => match t with
    | SExp.atom "?" => some none
    | SExp.atom s => s.toNat?.map some
    | _ => none
  | _ => none

def showTy : Res Ty → String
  | .ok .nil => "nil" | .ok .invalid => "inv" | .ok (.id n) => s!"id:{n}"
  | .panic p => "panic:" ++ panicName p

/-- `asis`: the code as it stands; `repaired`: after `fixes/c02-sink-contexts.diff` -/
def parseVariant (s : String) : Option Bool :=
  if s == "asis" then some false else if s == "repaired" then some true else none

def handle : List String → Option String
  | "c02sink" :: variant :: rest => do
    let fixed ← parseVariant variant
    let c ← (parseSExp (" ".intercalate rest)).bind parseCtx
    let spec := match SpecSink.specSink c with | some n => s!"id:{n}" | none => "none"
    -- the gaps are those of the code as it stands; the repaired code has none
    let gap := if fixed then "-" else match SpecSink.gap c with | some g => g.name | none => "-"
    pure s!"{showTy (if fixed then findSinkR c else findSink c)} {spec} {if SpecSink.wf c then "wf" else "illformed"} {gap}"
  | "c02sinkis" :: variant :: rest => do
    let fixed ← parseVariant variant
    match ← parseSExps (tokenize (" ".intercalate rest)) with
    | [c, ts] =>
      let c ← parseCtx c
      let ts ← parseTs ts
      let vs := ts.map fun t => match t with
        | some n => Drv.Filters.letterOfVerdict (if fixed then sinkTypeIsR c (· == n) else sinkTypeIs c (· == n))
        | none => "?"
      pure (if vs.isEmpty then "-" else String.join vs)
    | _ => none
  | "c02sinkspecis" :: rest => do
    match ← parseSExps (tokenize (" ".intercalate rest)) with
    | [c, ts, .atom got] =>
      let c ← parseCtx c
      let ts ← parseTs ts
      let got := if got == "-" then [] else got.toList
      if got.length ≠ ts.length then none else
      Id.run do
        let mut n := 0
        let mut k := 0
        for (t, g) in ts.zip got do
          match t with
          | none => pure ()
          | some id =>
            let want := SpecSink.specSinkTypeIs c (· == id)
            if g == (if want then 't' else 'f') then n := n + 1
            else return some s!"wrong:{k}:{if want then "t" else "f"}:{g}"
          k := k + 1
        return some s!"holds:{n}"
    | _ => none
  | _ => none

end Drv.SinkD
