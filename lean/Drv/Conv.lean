import Rg.Proto
import Rg.Model.IRConv
import Drv.IR
/-!
Driver engine for C18 (convertFilterExpr outside helper bodies).

ann  := (a CV 0|1)        CV := n | (s HEX) | (i INT) | big | o
expr := (lit ann 0|1 UNQ) | (id ann NAME) | (paren ann e) | (sel ann e NAME) | (idx ann e e) | (call ann f e*)
      | (un ann OP e) | (bin ann OP e e) | (other ann)          UNQ := n | (u HEX)
ops: `c18conv expr`, `c18conv_asis expr` → `ok <filter>` (filter S-expression of Drv/IR.lean) | `err` | `panic kind`
-/
namespace Drv.ConvE
open Proto Conv

def decCV : SExp → Option CV
  | .atom "n" => some .none
  | .atom "big" => some .intBig
  | .atom "o" => some .other
  | .list [.atom "s", .atom h] => (bytesOfHex h).map .str
  | .list [.atom "i", .atom n] => n.toInt?.map .int
  | _ => none

def decAnn : SExp → Option Ann
  | .list [.atom "a", cv, .atom b] => do
    let cv ← decCV cv
    if b == "1" then some ⟨cv, true⟩ else if b == "0" then some ⟨cv, false⟩ else none
  | _ => none

partial def dec : SExp → Option CExpr
  | .list [.atom "lit", a, .atom b, u] => do
    let a ← decAnn a
    let isStr ← if b == "1" then some true else if b == "0" then some false else none
    let unq ← (match u with
      | .atom "n" => some none
      | .list [.atom "u", .atom h] => (bytesOfHex h).map some
      | _ => none)
    pure (.lit a isStr unq)
  | .list [.atom "id", a, .atom n] => do pure (.ident (← decAnn a) n)
  | .list [.atom "paren", a, e] => do pure (.paren (← decAnn a) (← dec e))
  | .list [.atom "sel", a, e, .atom n] => do pure (.sel (← decAnn a) (← dec e) n)
  | .list [.atom "idx", a, x, i] => do pure (.index (← decAnn a) (← dec x) (← dec i))
  | .list (.atom "call" :: a :: f :: as) => do pure (.call (← decAnn a) (← dec f) (← as.mapM dec))
  | .list [.atom "un", a, .atom o, e] => do pure (.unary (← decAnn a) o (← dec e))
  | .list [.atom "bin", a, .atom o, x, y] => do pure (.binary (← decAnn a) o (← dec x) (← dec y))
  | .list [.atom "other", a] => do pure (.other (← decAnn a))
  | _ => none

def run (ar : Bool) (fs : List String) : Option String := do
  let e ← dec (← parseSExp (" ".intercalate fs))
  pure (match convertG noHook ar e with
    | .ok r => "ok " ++ Drv.IRPrint.encFilter r
    | .err => "err"
    | .panic p => "panic " ++ panicName p)

/-- `c18conv` = the converter with the arity check of fixes/c06-predicate-arity.diff, `c18conv_asis` = without it -/
def handle : List String → Option String
  | "c18conv" :: fs => run true fs
  | "c18conv_asis" :: fs => run false fs
  | _ => none
end Drv.ConvE
