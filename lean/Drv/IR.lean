import Rg.Proto
import Rg.Model.IR
import Rg.Model.IRPrint
import Rg.Spec.C05
/-!
Driver engine for C05 (irprint / evalLit).

IR values cross as S-expressions (byte strings hex-encoded, `-` = empty; `nn` = 0/1 "non-nil although empty"):
```
file   := (file HEX (gs nn group*) (ds nn HEX*) (bs nn (b INT HEX HEX)*))        -- PkgPath RuleGroups CustomDecls BundleImports
group  := (g INT HEX HEX (ts nn HEX*) HEX HEX HEX HEX (is nn (i HEX HEX)*) (rs nn rule*))
rule   := (r INT (ps nn (p INT HEX)*) (ps nn (p INT HEX)*) HEX HEX HEX filter HEX)
filter := (f INT NAT HEX val (as nn filter*))
val    := nil | (s HEX) | (i INT)
```
Tokens cross as blank-separated fields: `id:<name>` `s:<hex>` `n:<decimal>` `{ } [ ] ( ) : , . -` `x:<other>`.

ops: `irprint_asis <file>` / `irprint <file>` → `ok <tokens without the commas in front of }>` | `panic <kind>`
     `c05eval <tokens>` → `some <file>` | `none`
     `c05spec <tokens…> | <file>` / `c05spec panic | <file>` → `holds` | `violates`
     `c05wf <file>` → `wf` | `notwf`;  `c05nz <file>` → `nozero` | `haszero`
-/
namespace Drv.IRPrint
open Proto _root_.IR

def slOf {α} (dec : SExp → Option α) (tag : String) : SExp → Option (Sl α)
  | .list (.atom t :: .atom nn :: xs) =>
    if t != tag then none else
    match xs.mapM dec with
    | some ys => if nn == "1" then some ⟨ys, true⟩ else if nn == "0" then some ⟨ys, false⟩ else none
    | none => none
  | _ => none

def hexAtom : SExp → Option Bytes
  | .atom s => bytesOfHex s
  | _ => none

def decVal : SExp → Option Val
  | .atom "nil" => some .nil
  | .list [.atom "s", .atom h] => (bytesOfHex h).map .str
  | .list [.atom "i", .atom n] => n.toInt?.map .int64
  | _ => none

partial def decFilter : SExp → Option FilterExpr
  | .list [.atom "f", .atom l, .atom o, .atom s, v, .list (.atom "as" :: .atom nn :: as)] => do
    let l ← l.toInt?
    let o ← o.toNat?
    let s ← bytesOfHex s
    let v ← decVal v
    let as ← as.mapM decFilter
    let nn ← if nn == "1" then some true else if nn == "0" then some false else none
    pure (.mk l o s v as nn)
  | _ => none

def decPattern : SExp → Option PatternString
  | .list [.atom "p", .atom l, .atom v] => do pure ⟨← l.toInt?, ← bytesOfHex v⟩
  | _ => none

def decImport : SExp → Option PackageImport
  | .list [.atom "i", .atom p, .atom n] => do pure ⟨← bytesOfHex p, ← bytesOfHex n⟩
  | _ => none

def decRule : SExp → Option Rule
  | .list [.atom "r", .atom l, sp, cp, .atom rt, .atom st, .atom dfn, w, .atom lv] => do
    pure ⟨← l.toInt?, ← slOf decPattern "ps" sp, ← slOf decPattern "ps" cp, ← bytesOfHex rt, ← bytesOfHex st,
          ← bytesOfHex dfn, ← decFilter w, ← bytesOfHex lv⟩
  | _ => none

def decGroup : SExp → Option RuleGroup
  | .list [.atom "g", .atom l, .atom n, .atom mn, tags, .atom ds, .atom db, .atom da, .atom dn, imps, rules] => do
    pure ⟨← l.toInt?, ← bytesOfHex n, ← bytesOfHex mn, ← slOf hexAtom "ts" tags, ← bytesOfHex ds, ← bytesOfHex db,
          ← bytesOfHex da, ← bytesOfHex dn, ← slOf decImport "is" imps, ← slOf decRule "rs" rules⟩
  | _ => none

def decBundle : SExp → Option BundleImport
  | .list [.atom "b", .atom l, .atom p, .atom x] => do pure ⟨← l.toInt?, ← bytesOfHex p, ← bytesOfHex x⟩
  | _ => none

def decFile : SExp → Option File
  | .list [.atom "file", .atom p, gs, ds, bs] => do
    pure ⟨← bytesOfHex p, ← slOf decGroup "gs" gs, ← slOf hexAtom "ds" ds, ← slOf decBundle "bs" bs⟩
  | _ => none

def fileOfFields (fs : List String) : Option File := do
  let e ← parseSExp (" ".intercalate fs)
  decFile e

/-! encoding -/
def encSl {α} (tag : String) (enc : α → String) (s : Sl α) : String :=
  "(" ++ " ".intercalate ([tag, if s.nn then "1" else "0"] ++ s.elems.map enc) ++ ")"

def encVal : Val → String
  | .nil => "nil"
  | .str b => "(s " ++ hexOfBytes b ++ ")"
  | .int64 n => "(i " ++ toString n ++ ")"

partial def encFilter : FilterExpr → String
  | .mk l o s v as nn =>
    "(f " ++ toString l ++ " " ++ toString o ++ " " ++ hexOfBytes s ++ " " ++ encVal v ++ " " ++
      encSl "as" encFilter ⟨as, nn⟩ ++ ")"

def encPattern (p : PatternString) : String := "(p " ++ toString p.line ++ " " ++ hexOfBytes p.value ++ ")"
def encImport (p : PackageImport) : String := "(i " ++ hexOfBytes p.path ++ " " ++ hexOfBytes p.name ++ ")"
def encRule (r : Rule) : String :=
  "(r " ++ " ".intercalate [toString r.line, encSl "ps" encPattern r.syntaxPatterns, encSl "ps" encPattern r.commentPatterns,
    hexOfBytes r.reportTemplate, hexOfBytes r.suggestTemplate, hexOfBytes r.doFuncName, encFilter r.whereExpr,
    hexOfBytes r.locationVar] ++ ")"
def encGroup (g : RuleGroup) : String :=
  "(g " ++ " ".intercalate [toString g.line, hexOfBytes g.name, hexOfBytes g.matcherName, encSl "ts" hexOfBytes g.docTags,
    hexOfBytes g.docSummary, hexOfBytes g.docBefore, hexOfBytes g.docAfter, hexOfBytes g.docNote,
    encSl "is" encImport g.imports, encSl "rs" encRule g.rules] ++ ")"
def encBundle (b : BundleImport) : String :=
  "(b " ++ toString b.line ++ " " ++ hexOfBytes b.pkgPath ++ " " ++ hexOfBytes b.pfx ++ ")"
def encFile (f : File) : String :=
  "(file " ++ " ".intercalate [hexOfBytes f.pkgPath, encSl "gs" encGroup f.ruleGroups, encSl "ds" hexOfBytes f.customDecls,
    encSl "bs" encBundle f.bundleImports] ++ ")"

/-! tokens -/
def encTok : GTok → String
  | .ident s => "id:" ++ s
  | .str b => "s:" ++ hexOfBytes b
  | .int n => "n:" ++ toString n
  | .lbrace => "{" | .rbrace => "}" | .lbrack => "[" | .rbrack => "]" | .lparen => "(" | .rparen => ")"
  | .colon => ":" | .comma => "," | .dot => "." | .sub => "-"
  | .other s => "x:" ++ s

def decTok (s : String) : Option GTok :=
  if s == "{" then some .lbrace else if s == "}" then some .rbrace
  else if s == "[" then some .lbrack else if s == "]" then some .rbrack
  else if s == "(" then some .lparen else if s == ")" then some .rparen
  else if s == ":" then some .colon else if s == "," then some .comma
  else if s == "." then some .dot else if s == "-" then some .sub
  else if s.startsWith "id:" then some (.ident (s.drop 3).toString)
  else if s.startsWith "s:" then (bytesOfHex (s.drop 2).toString).map .str
  else if s.startsWith "n:" then ((s.drop 2).toString.toNat?).map .int
  else if s.startsWith "x:" then some (.other (s.drop 2).toString)
  else none

/-- comparison form of a token stream: a comma directly in front of `}` is layout (gofmt keeps or deletes it
depending on line breaks), so both sides of the correspondence drop it; the executable spec is still
evaluated on the implementation's raw tokens. -/
def stripLastCommas : List GTok → List GTok
  | .comma :: .rbrace :: r => .rbrace :: stripLastCommas r
  | t :: r => t :: stripLastCommas r
  | [] => []

def showToks : Res (List GTok) → String
  | .ok ts => " ".intercalate ("ok" :: (stripLastCommas ts).map encTok)
  | .panic p => "panic " ++ panicName p

def splitBar : List String → List String → Option (List String × List String)
  | _, [] => none
  | acc, "|" :: r => some (acc.reverse, r)
  | acc, x :: r => splitBar (x :: acc) r

def handle : List String → Option String
  | "irprint_asis" :: fs => do
    let f ← fileOfFields fs
    pure (showToks (printFile_asis f))
  | "irprint" :: fs => do
    let f ← fileOfFields fs
    pure (showToks (printFile f))
  | "c05eval" :: ts => do
    let ts ← ts.mapM decTok
    pure (match SpecC05.evalLit ts with | some f => "some " ++ encFile f | none => "none")
  | "c05spec" :: rest => do
    let (ts, fs) ← splitBar [] rest
    let f ← fileOfFields fs
    let out ← (match ts with
      | "panic" :: _ => some (Res.panic .explicit)
      | _ => (ts.mapM decTok).map Res.ok)
    pure (if SpecC05.specHolds f out then "holds" else "violates")
  | "c05wf" :: fs => do
    let f ← fileOfFields fs
    pure (if wfFile f then "wf" else "notwf")
  | "c05nz" :: fs => do
    let f ← fileOfFields fs
    pure (if noZeroElemsFile f then "nozero" else "haszero")
  | "c05norm" :: fs => do
    let f ← fileOfFields fs
    pure (encFile (normalize f))
  | _ => none
end Drv.IRPrint
