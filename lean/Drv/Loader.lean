import Rg.Proto
import Rg.Spec.C06
import Rg.Gen.Buckets
namespace Drv.LoaderD
open Proto Loader

def strOfHex (s : String) : Option String := do
  let b ← bytesOfHex s
  String.fromUTF8? (ByteArray.mk b.toArray)

def valOf (s : String) : Option Val :=
  if s == "n" then some .nil
  else if s == "o" then some .other
  else if s.startsWith "s" then (strOfHex (s.drop 1).toString).map .str
  else if s.startsWith "i" then ((s.drop 1).toString.toInt?).map .int
  else none

partial def feOf : SExp → Option FE
  | .list (op :: line :: .atom v :: args) => do
    pure (.mk (← natOfAtom op) (← natOfAtom line) (← valOf v) (← args.mapM feOf))
  | _ => none

def patOf : SExp → Option Pat
  | .list [l, .atom h] => do pure ⟨← natOfAtom l, ← strOfHex h⟩
  | _ => none

def ruleOf : SExp → Option Rule
  | .list [.atom "rule", line, .list (.atom "syn" :: syn), .list (.atom "com" :: com), .atom d, .atom loc, fe] => do
    pure { line := ← natOfAtom line, syntaxPatterns := ← syn.mapM patOf, commentPatterns := ← com.mapM patOf,
           reportTemplate := "", suggestTemplate := "", doFuncName := ← strOfHex d,
           whereExpr := ← feOf fe, locationVar := ← strOfHex loc }
  | _ => none

def groupOf : SExp → Option Group
  | .list (.atom "group" :: .atom name :: line :: rules) => do
    pure { line := ← natOfAtom line, name := ← strOfHex name, rules := ← rules.mapM ruleOf }
  | _ => none

def fileOf : SExp → Option File
  | .list (.atom "file" :: gs) => do pure ⟨← gs.mapM groupOf⟩
  | _ => none

def hexAtoms (xs : List SExp) : Option (List String) :=
  xs.mapM fun | .atom h => strOfHex h | _ => none

def sect (name : String) (xs : List SExp) : List SExp :=
  match xs.find? (fun | .list (.atom n :: _) => n == name | _ => false) with
  | some (.list (_ :: rest)) => rest
  | _ => []

def oraclesOf (strict : Bool) (xs : List SExp) : Option Oracles := do
  let gg : List (String × Int × List String) ← (sect "gogrep" xs).mapM fun
    | .list (.atom h :: .atom t :: vars) => do
      let vs ← hexAtoms vars
      pure (← strOfHex h, t.toInt?.getD (-1), vs)
    | _ => none
  let strs (n : String) := hexAtoms (sect n xs)
  let tm ← strs "tm"; let txm ← strs "txm"; let ntag ← strs "ntag"; let iface ← strs "iface"
  let gover ← strs "gover"; let funcs ← strs "funcs"; let groups ← strs "groups"
  let re ← (sect "re" xs).mapM fun
    | .list (.atom h :: gs) => do pure (← strOfHex h, ← hexAtoms gs)
    | _ => none
  let num (n : String) : Option (List (String × Nat)) := (sect n xs).mapM fun
    | .list [.atom h, k] => do pure (← strOfHex h, ← natOfAtom k)
    | _ => none
  let tfs ← num "tfs"; let fref ← num "fref"
  let nfuncs := match sect "nfuncs" xs with | [k] => (natOfAtom k).getD 0 | _ => 0
  pure {
    gogrep := fun s => match gg.find? (·.1 == s) with
      | some (_, t, vs) => if t < 0 then none else some (t.toNat, vs)
      | none => none
    typematchOK := tm.contains, textmatchOK := txm.contains,
    regexpOK := fun s => (re.find? (·.1 == s)).isSome,
    regexpGroups := fun s => ((re.find? (·.1 == s)).map (·.2)).getD [],
    strict := strict,
    typeFromString := fun s => ((tfs.find? (·.1 == s)).map (·.2)).getD 1,
    nodeTagOK := ntag.contains, ifaceOK := iface.contains,
    funcRef := fun s => ((fref.find? (·.1 == s)).map (·.2)).getD 1,
    goVersionOK := gover.contains, funcKnown := funcs.contains, numFuncs := nfuncs,
    groupAccepted := groups.contains }

def genTags : TagCfg :=
  { numBuckets := Gen.tagNumBuckets, stmtList := Gen.tagStmtList, exprList := Gen.tagExprList,
    declList := Gen.tagDeclList, node := Gen.tagNode, unknown := Gen.tagUnknown,
    stmtDst := [Gen.tagBlockStmt, Gen.tagCaseClause, Gen.tagCommClause],
    exprDst := [Gen.tagCallExpr, Gen.tagCompositeLit, Gen.tagReturnStmt],
    declDst := [Gen.tagFile] }

def showAccepted (a : Accepted) : String :=
  s!"{a.group}:{a.line}:" ++ (if a.comment then "c" else ",".intercalate (a.buckets.map toString))

def insertSorted (s : String) : List String → List String
  | [] => [s]
  | x :: xs => if s ≤ x then s :: x :: xs else x :: insertSorted s xs

def sortStrings (xs : List String) : List String := xs.foldr insertSorted []

/-- the first node (in `newFilter`'s visiting order) at which `wfFE` fails: op name and number of arguments -/
def wfWhy : Nat → FE → Option String
  | 0, _ => none
  | fuel + 1, e =>
    let here := s!"{Gen.Op.names.getD e.op "?"}/args={e.args.length}/value={match e.value with | .nil => "nil" | .str _ => "string" | .int _ => "int" | .other => "other"}"
    if !(!hasVar e.op || valIsStr e.value) then some here
    else if isBinaryExpr e.op then
      (match e.args[0]?, e.args[1]? with
       | some a0, some a1 =>
         if e.op = Gen.Op.fAnd ∨ e.op = Gen.Op.fOr then (wfWhy fuel a0).or (wfWhy fuel a1)
         else if wfOperand a0 && wfOperand a1 then none else some here
       | _, _ => some here)
    else if e.op = Gen.Op.fNot then
      (match e.args[0]? with | some a0 => wfWhy fuel a0 | none => some here)
    else if wfLeaf e then none else some here

def showLRes : LRes (List Accepted) → String
  | .panic p => "panic " ++ panicName p
  | .ok (.error e) => s!"err {e.line}"
  | .ok (.ok as) => "ok " ++ " ".intercalate (sortStrings (as.map showAccepted))

/-- ops: `loader.load <strict 0|1> ((file …) (oracles …))` — model of LoadFile on an ir.File;
`spec06.unsound <…same…>` — alternatives of the file that are not structurally sound;
`spec06.wf (file …)` — is the IR of the shape irconv promises; `spec06.wfwhy (file …)` — `ok` or the offending nodes -/
def handle : List String → Option String
  | "loader.load" :: st :: rest => do
    match ← parseSExp (" ".intercalate rest) with
    | .list [f, .list (.atom "oracles" :: os)] =>
      let o ← oraclesOf (st == "1") os
      pure (showLRes (loadFile o genTags (← fileOf f)))
    | _ => none
  | "spec06.unsound" :: rest => do
    match ← parseSExp (" ".intercalate rest) with
    | .list [f, .list (.atom "oracles" :: os)] =>
      let o ← oraclesOf true os
      let bad := (alternatives o (← fileOf f)).filter (fun a => !sound a)
      pure ("ok " ++ " ".intercalate (bad.map fun a => s!"{a.group}:{a.line}"))
    | _ => none
  | "spec06.wf" :: rest => do
    let f ← fileOf (← parseSExp (" ".intercalate rest))
    pure (if wfFile f then "ok 1" else "ok 0")
  | "spec06.wfwhy" :: rest => do
    let f ← fileOf (← parseSExp (" ".intercalate rest))
    if wfFile f then pure "ok" else
    let bad := f.groups.flatMap fun g => g.rules.filterMap fun r =>
      if r.whereExpr.op = Gen.Op.fInvalid then none else wfWhy (feSize r.whereExpr + 1) r.whereExpr
    pure ("bad " ++ " ".intercalate bad)
  | _ => none
end Drv.LoaderD
