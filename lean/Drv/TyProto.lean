import Rg.Proto
import Rg.Model.Ty
/-!
S-expression → `Ty` (the format written by `harness/hx/types.go`).  Malformed input → `none`.
Atoms: names `n:<ident>`, packages `-` (nil) or `p:<path>`, flags `0`/`1`, struct tags hex (`-` = empty).
-/
namespace Drv.TyProto
open Proto

def flag : SExp → Option Bool
  | .atom "0" => some false
  | .atom "1" => some true
  | _ => none

def nameAtom : SExp → Option String
  | .atom s => if s.startsWith "n:" then some (s.drop 2).toString else none
  | _ => none

def pkgAtom : SExp → Option (Option String)
  | .atom "-" => some none
  | .atom s => if s.startsWith "p:" then some (some (s.drop 2).toString) else none
  | _ => none

def tagAtom : SExp → Option String
  | .atom s => do
    let b ← bytesOfHex s
    String.fromUTF8? (ByteArray.mk b.toArray)
  | _ => none

mutual
partial def tyOf : SExp → Option Ty
  | .atom "nil" => some .nil
  | .list [.atom "basic", k] => do pure (.basic (← natOfAtom k))
  | .list [.atom "array", n, e] => do pure (.array (← intOfAtom n) (← tyOf e))
  | .list [.atom "slice", e] => do pure (.slice (← tyOf e))
  | .list [.atom "ptr", e] => do pure (.ptr (← tyOf e))
  | .list [.atom "map", k, e] => do pure (.map (← tyOf k) (← tyOf e))
  | .list [.atom "chan", d, e] => do pure (.chan (← natOfAtom d) (← tyOf e))
  | .list (.atom "tuple" :: es) => do pure (.tuple (← tysOf es))
  | .list [.atom "sig", v, .list tps, p, r] => do
      pure (.sig (← flag v) (← tysOf tps) (← tyOf p) (← tyOf r))
  | .list [.atom "field", n, p, x, m, t, ty] => do
      pure (.field (← nameAtom n) (← pkgAtom p) (← flag x) (← flag m) (← tagAtom t) (← tyOf ty))
  | .list (.atom "struct" :: fs) => do pure (.struct (← tysOf fs))
  | .list [.atom "method", n, p, x, ty] => do
      pure (.method (← nameAtom n) (← pkgAtom p) (← flag x) (← tyOf ty))
  | .list [.atom "iface", a, c, .list ms, .list es] => do
      pure (.iface (← flag a) (← flag c) (← tysOf ms) (← tysOf es))
  | .list [.atom "named", u, o, p, n, x, l, .list ts] => do
      pure (.named (← natOfAtom u) (← natOfAtom o) (← pkgAtom p) (← nameAtom n) (← flag x) (← flag l) (← tysOf ts))
  | .list [.atom "alias", u, o, t] => do pure (.alias (← natOfAtom u) (← natOfAtom o) (← tyOf t))
  | .list [.atom "tparam", u, o] => do pure (.tparam (← natOfAtom u) (← natOfAtom o))
  | .list [.atom "term", a, t] => do pure (.term (← flag a) (← tyOf t))
  | .list (.atom "union" :: i :: ts) => do pure (.union (← natOfAtom i) (← tysOf ts))
  | _ => none
partial def tysOf : List SExp → Option (List Ty)
  | [] => some []
  | e :: es => do pure ((← tyOf e) :: (← tysOf es))
end

/-- the S-expressions following the op name and its scalar arguments -/
def sexpsOf (fs : List String) : Option (List SExp) :=
  parseSExps (tokenize (" ".intercalate fs))

end Drv.TyProto
