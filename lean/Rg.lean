import Rg.Base
import Rg.Proto
import Rg.Model.Trunc
import Rg.Props.C15
