import Drv.Main
