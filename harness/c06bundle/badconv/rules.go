// Package badconv is a rules bundle used by the C06 load stream (harness/cmd/rgh/c06_args.go): its file does not convert (a rule without Report / Suggest / Do).
package badconv

import "github.com/quasilyte/go-ruleguard/dsl"

// Bundle marks the package as importable with dsl.ImportRules.
var Bundle = dsl.Bundle{}

func bundled(m dsl.Matcher) {
	m.Match(`$x + 0`)
}
