package twofiles

import "github.com/quasilyte/go-ruleguard/dsl"

func second(m dsl.Matcher) {
	m.Match(`f(`).Report(`second`)
}
