// Package twofiles is a rules bundle used by the C06 load stream (harness/cmd/rgh/c06_args.go): two files, the second one does not load.
package twofiles

import "github.com/quasilyte/go-ruleguard/dsl"

// Bundle marks the package as importable with dsl.ImportRules.
var Bundle = dsl.Bundle{}

func first(m dsl.Matcher) {
	m.Match(`$x + 0`).Report(`first`)
}
