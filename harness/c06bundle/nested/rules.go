// Package nested is a rules bundle used by the C06 load stream (harness/cmd/rgh/c06_args.go): a bundle that imports a bundle.
package nested

import (
	"github.com/quasilyte/go-ruleguard/dsl"

	"verifharness/c06bundle/ok"
)

// Bundle marks the package as importable with dsl.ImportRules.
var Bundle = dsl.Bundle{}

func init() {
	dsl.ImportRules("inner", ok.Bundle)
}

func outer(m dsl.Matcher) {
	m.Match(`$x - 0`).Report(`outer`)
}
