// Package notgo is a rules bundle used by the C06 load stream (harness/cmd/rgh/c06_args.go): its file parses but does not type-check.
package notgo

import "github.com/quasilyte/go-ruleguard/dsl"

// Bundle marks the package as importable with dsl.ImportRules.
var Bundle = dsl.Bundle{}

func bundled(m dsl.Matcher) {
	m.Match(`$x + 0`).Report(undefinedName)
}
