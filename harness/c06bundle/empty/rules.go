// Package empty is a rules bundle used by the C06 load stream (harness/cmd/rgh/c06_args.go): no rule groups at all.
package empty

import "github.com/quasilyte/go-ruleguard/dsl"

// Bundle marks the package as importable with dsl.ImportRules.
var Bundle = dsl.Bundle{}
