// Package dupgroup is a rules bundle used by the C06 load stream (harness/cmd/rgh/c06_args.go): two groups that get the same name as the importing file's group when imported with an empty prefix.
package dupgroup

import "github.com/quasilyte/go-ruleguard/dsl"

// Bundle marks the package as importable with dsl.ImportRules.
var Bundle = dsl.Bundle{}

func own(m dsl.Matcher) {
	m.Match(`$x * 1`).Report(`dup`)
}
