// Package badload is a rules bundle used by the C06 load stream (harness/cmd/rgh/c06_args.go): its file converts but does not load (a type pattern that does not parse).
package badload

import "github.com/quasilyte/go-ruleguard/dsl"

// Bundle marks the package as importable with dsl.ImportRules.
var Bundle = dsl.Bundle{}

func bundled(m dsl.Matcher) {
	m.Match(`$x + 0`).Where(m["x"].Type.Is(`(`)).Report(`bundled`)
}
