// Package badfunc is a rules bundle used by the C06 load stream (harness/cmd/rgh/c06_args.go): its custom function is outside the subset the byte code compiler accepts.
package badfunc

import "github.com/quasilyte/go-ruleguard/dsl"

// Bundle marks the package as importable with dsl.ImportRules.
var Bundle = dsl.Bundle{}

func flt(ctx *dsl.VarFilterContext) bool {
	switch {
	}
	return true
}

func bundled(m dsl.Matcher) {
	m.Match(`$x + 0`).Where(m["x"].Filter(flt)).Report(`bundled`)
}
