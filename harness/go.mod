module verifharness

go 1.22.0

require (
	github.com/quasilyte/go-ruleguard v0.0.0
	github.com/quasilyte/go-ruleguard/dsl v0.3.22
	github.com/quasilyte/gogrep v0.5.0
	github.com/quasilyte/stdinfo v0.0.0-20220114132959-f7386bf02567
	golang.org/x/tools v0.30.0
)

require (
	github.com/go-toolsmith/astcopy v1.0.2 // indirect
	github.com/go-toolsmith/astequal v1.0.3 // indirect
	golang.org/x/exp/typeparams v0.0.0-20240213143201-ec583247a57a // indirect
	golang.org/x/mod v0.23.0 // indirect
	golang.org/x/sync v0.11.0 // indirect
)

replace github.com/quasilyte/go-ruleguard => /repo
