package hx

// Serialiser go/types type -> S-expression understood by lean/Drv/TyProto.lean (`Ty`, see
// lean/Rg/Model/Ty.lean for the meaning of every field).
//
// Identities are numbered per TyEnc so that the pointer comparisons the code under test performs are
// inputs of the model:
//   - a declaration (TypeName of a named type, alias or type parameter) is numbered by
//     (package path, name, file name, byte offset) — the same number in every type-check of the same
//     sources — and carries the universe of its package, so `x.Obj() == y.Obj()` is
//     (universe, number) equality and "counterpart in another type-check" is number equality;
//   - a *types.Union is numbered by pointer.

import (
	"encoding/hex"
	"errors"
	"fmt"
	"go/token"
	"go/types"
	"strings"
)

// ErrCyclic: an anonymous interface recurs through its own method signatures (the tree is infinite).
var ErrCyclic = errors.New("cyclic anonymous interface")

type declKey struct {
	pkg, name, file string
	off            int
}

type TyEnc struct {
	univ   map[*types.Package]int
	fsets  map[*types.Package]*token.FileSet
	decls  map[declKey]int
	unions map[*types.Union]int
	cache  map[types.Type]string
}

func NewTyEnc() *TyEnc {
	return &TyEnc{
		univ:   map[*types.Package]int{},
		fsets:  map[*types.Package]*token.FileSet{},
		decls:  map[declKey]int{},
		unions: map[*types.Union]int{},
		cache:  map[types.Type]string{},
	}
}

// Universe records that pkgs were created by type-check session u (u >= 1) whose positions live in fset.
func (e *TyEnc) Universe(u int, fset *token.FileSet, pkgs ...*types.Package) {
	for _, p := range pkgs {
		e.univ[p] = u
		e.fsets[p] = fset
	}
}

func (e *TyEnc) declOf(obj types.Object) (u, id int) {
	k := declKey{name: obj.Name()}
	if p := obj.Pkg(); p != nil {
		k.pkg = p.Path()
		u = e.univ[p]
		if fs := e.fsets[p]; fs != nil && obj.Pos().IsValid() {
			pos := fs.Position(obj.Pos())
			k.file, k.off = pos.Filename, pos.Offset
		}
	}
	id, ok := e.decls[k]
	if !ok {
		id = len(e.decls) + 1
		e.decls[k] = id
	}
	return u, id
}

func pkgAtom(p *types.Package) string {
	if p == nil {
		return "-"
	}
	return "p:" + p.Path()
}

func b01(b bool) string {
	if b {
		return "1"
	}
	return "0"
}

func tagAtom(s string) string {
	if s == "" {
		return "-"
	}
	return hex.EncodeToString([]byte(s))
}

// Enc serialises t.  Results are cached per pointer (a type is immutable once type-checked).
func (e *TyEnc) Enc(t types.Type) (string, error) {
	var sb strings.Builder
	if err := e.enc(&sb, t, nil); err != nil {
		return "", err
	}
	return sb.String(), nil
}

func (e *TyEnc) MustEnc(t types.Type) string {
	s, err := e.Enc(t)
	if err != nil {
		panic(err)
	}
	return s
}

type ifaceStack struct {
	t    *types.Interface
	prev *ifaceStack
}

func (e *TyEnc) encList(sb *strings.Builder, n int, at func(i int) types.Type, st *ifaceStack) error {
	for i := 0; i < n; i++ {
		sb.WriteByte(' ')
		if err := e.enc(sb, at(i), st); err != nil {
			return err
		}
	}
	return nil
}

func (e *TyEnc) enc(sb *strings.Builder, t types.Type, st *ifaceStack) error {
	switch t := t.(type) {
	case nil:
		sb.WriteString("nil")
	case *types.Basic:
		fmt.Fprintf(sb, "(basic %d)", int(t.Kind()))
	case *types.Array:
		fmt.Fprintf(sb, "(array %d ", t.Len())
		if err := e.enc(sb, t.Elem(), st); err != nil {
			return err
		}
		sb.WriteByte(')')
	case *types.Slice:
		sb.WriteString("(slice ")
		if err := e.enc(sb, t.Elem(), st); err != nil {
			return err
		}
		sb.WriteByte(')')
	case *types.Pointer:
		sb.WriteString("(ptr ")
		if err := e.enc(sb, t.Elem(), st); err != nil {
			return err
		}
		sb.WriteByte(')')
	case *types.Map:
		sb.WriteString("(map ")
		if err := e.enc(sb, t.Key(), st); err != nil {
			return err
		}
		sb.WriteByte(' ')
		if err := e.enc(sb, t.Elem(), st); err != nil {
			return err
		}
		sb.WriteByte(')')
	case *types.Chan:
		fmt.Fprintf(sb, "(chan %d ", int(t.Dir()))
		if err := e.enc(sb, t.Elem(), st); err != nil {
			return err
		}
		sb.WriteByte(')')
	case *types.Tuple:
		sb.WriteString("(tuple")
		if err := e.encList(sb, t.Len(), func(i int) types.Type { return t.At(i).Type() }, st); err != nil {
			return err
		}
		sb.WriteByte(')')
	case *types.Signature:
		fmt.Fprintf(sb, "(sig %s (", b01(t.Variadic()))
		tps := t.TypeParams()
		for i := 0; i < tps.Len(); i++ {
			if i > 0 {
				sb.WriteByte(' ')
			}
			if err := e.enc(sb, tps.At(i).Constraint(), st); err != nil {
				return err
			}
		}
		sb.WriteString(") ")
		if err := e.enc(sb, t.Params(), st); err != nil {
			return err
		}
		sb.WriteByte(' ')
		if err := e.enc(sb, t.Results(), st); err != nil {
			return err
		}
		sb.WriteByte(')')
	case *types.Struct:
		sb.WriteString("(struct")
		for i := 0; i < t.NumFields(); i++ {
			f := t.Field(i)
			fmt.Fprintf(sb, " (field n:%s %s %s %s %s ", f.Name(), pkgAtom(f.Pkg()), b01(f.Exported()), b01(f.Embedded()), tagAtom(t.Tag(i)))
			if err := e.enc(sb, f.Type(), st); err != nil {
				return err
			}
			sb.WriteByte(')')
		}
		sb.WriteByte(')')
	case *types.Interface:
		for p := st; p != nil; p = p.prev {
			if p.t == t {
				return ErrCyclic
			}
		}
		st = &ifaceStack{t, st}
		fmt.Fprintf(sb, "(iface %s %s (", b01(t.IsMethodSet()), b01(t.IsComparable()))
		for i := 0; i < t.NumMethods(); i++ {
			m := t.Method(i)
			if i > 0 {
				sb.WriteByte(' ')
			}
			fmt.Fprintf(sb, "(method n:%s %s %s ", m.Name(), pkgAtom(m.Pkg()), b01(m.Exported()))
			if err := e.enc(sb, m.Type(), st); err != nil {
				return err
			}
			sb.WriteByte(')')
		}
		sb.WriteString(") (")
		if !t.IsMethodSet() {
			first := true
			for i := 0; i < t.NumEmbeddeds(); i++ {
				et := t.EmbeddedType(i)
				if !first {
					sb.WriteByte(' ')
				}
				first = false
				if err := e.enc(sb, et, st); err != nil {
					return err
				}
			}
		}
		sb.WriteString("))")
	case *types.Named:
		obj := t.Obj()
		u, id := e.declOf(obj)
		loc := obj.Pkg() != nil && obj.Parent() != obj.Pkg().Scope()
		fmt.Fprintf(sb, "(named %d %d %s n:%s %s %s (", u, id, pkgAtom(obj.Pkg()), obj.Name(), b01(obj.Exported()), b01(loc))
		ta := t.TypeArgs()
		for i := 0; i < ta.Len(); i++ {
			if i > 0 {
				sb.WriteByte(' ')
			}
			if err := e.enc(sb, ta.At(i), st); err != nil {
				return err
			}
		}
		sb.WriteString("))")
	case *types.Alias:
		u, id := e.declOf(t.Obj())
		fmt.Fprintf(sb, "(alias %d %d ", u, id)
		if err := e.enc(sb, types.Unalias(t), st); err != nil {
			return err
		}
		sb.WriteByte(')')
	case *types.TypeParam:
		u, id := e.declOf(t.Obj())
		fmt.Fprintf(sb, "(tparam %d %d)", u, id)
	case *types.Union:
		id, ok := e.unions[t]
		if !ok {
			id = len(e.unions) + 1
			e.unions[t] = id
		}
		fmt.Fprintf(sb, "(union %d", id)
		for i := 0; i < t.Len(); i++ {
			tm := t.Term(i)
			fmt.Fprintf(sb, " (term %s ", b01(tm.Tilde()))
			if err := e.enc(sb, tm.Type(), st); err != nil {
				return err
			}
			sb.WriteByte(')')
		}
		sb.WriteByte(')')
	default:
		return fmt.Errorf("unknown types.Type %T", t)
	}
	return nil
}
