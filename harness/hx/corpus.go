package hx

import (
	"go/ast"
	"go/importer"
	"go/parser"
	"go/token"
	"go/types"
	"math/rand"
	"os"
	"path/filepath"
	"runtime"
	"sort"
	"strings"
)

// GorootFiles lists the non-test .go files under GOROOT/src (testdata and vendor-free), sorted.
func GorootFiles() []string {
	root := filepath.Join(runtime.GOROOT(), "src")
	if r, err := filepath.EvalSymlinks(root); err == nil {
		root = r
	}
	var out []string
	_ = filepath.Walk(root, func(p string, info os.FileInfo, err error) error {
		if err != nil {
			return nil
		}
		if info.IsDir() {
			b := filepath.Base(p)
			if b == "testdata" || b == "vendor" || strings.HasPrefix(b, "_") {
				return filepath.SkipDir
			}
			return nil
		}
		if strings.HasSuffix(p, ".go") && !strings.HasSuffix(p, "_test.go") {
			out = append(out, p)
		}
		return nil
	})
	sort.Strings(out)
	return out
}

// SampleStrings picks n elements deterministically.
func SampleStrings(r *rand.Rand, xs []string, n int) []string {
	if n >= len(xs) {
		return xs
	}
	idx := r.Perm(len(xs))[:n]
	sort.Ints(idx)
	out := make([]string, n)
	for i, j := range idx {
		out[i] = xs[j]
	}
	return out
}

type failingImporter struct{}

func (failingImporter) Import(path string) (*types.Package, error) {
	return nil, os.ErrNotExist
}

// ParseLoose parses one file and type-checks it on its own, ignoring errors (imports and package
// siblings unresolved): enough type information for constant conditions declared in the file.
func ParseLoose(filename string, src []byte) (*Target, error) {
	fset := token.NewFileSet()
	f, err := parser.ParseFile(fset, filename, src, parser.ParseComments)
	if err != nil {
		return nil, err
	}
	info := &types.Info{
		Types: map[ast.Expr]types.TypeAndValue{},
		Uses:  map[*ast.Ident]types.Object{},
		Defs:  map[*ast.Ident]types.Object{},
	}
	cfg := types.Config{Importer: failingImporter{}, Error: func(error) {}}
	pkg, _ := cfg.Check(f.Name.Name, fset, []*ast.File{f}, info)
	return &Target{Fset: fset, File: f, Info: info, Pkg: pkg, Src: src, Name: filename}, nil
}

var _ = importer.Default
