// Package hx is the shared plumbing of the verification harness: the line protocol to the
// Lean driver, panic classification, the result record that `check` turns into evidence.
package hx

import (
	"bufio"
	"bytes"
	"encoding/hex"
	"encoding/json"
	"fmt"
	"math/rand"
	"os"
	"os/exec"
	"runtime"
	"sort"
	"strings"
)

// Hex encodes a byte string for the line protocol ("-" is the empty string).
func Hex(b []byte) string {
	if len(b) == 0 {
		return "-"
	}
	return hex.EncodeToString(b)
}

func HexS(s string) string { return Hex([]byte(s)) }

func UnHex(s string) []byte {
	if s == "-" {
		return nil
	}
	b, err := hex.DecodeString(s)
	if err != nil {
		panic(err)
	}
	return b
}

// PanicKind maps a recovered value to the small enum the models use.
func PanicKind(r interface{}) string {
	var msg string
	switch v := r.(type) {
	case runtime.Error:
		msg = v.Error()
	case error:
		msg = v.Error()
		return "explicit"
	default:
		msg = fmt.Sprint(r)
		_ = msg
		return "explicit"
	}
	switch {
	case strings.Contains(msg, "slice bounds out of range"):
		return "slice"
	case strings.Contains(msg, "index out of range"):
		return "index"
	case strings.Contains(msg, "nil pointer dereference"), strings.Contains(msg, "nil map"):
		return "nil"
	case strings.Contains(msg, "interface conversion"):
		return "assert"
	}
	return "explicit"
}

// RepoRoot is the directory of the go-ruleguard tree the harness was built against: $VERIF_REPO, else /repo.
func RepoRoot() string {
	if d := os.Getenv("VERIF_REPO"); d != "" {
		return strings.TrimSuffix(d, "/")
	}
	return "/repo"
}

// Frame returns the innermost stack frame inside the repo (file:function), for finding signatures.
func Frame(stack []byte) string {
	root := RepoRoot() + "/"
	lines := strings.Split(string(stack), "\n")
	start := 0
	for i, l := range lines { // a deferred function that re-panics hides the origin: start after the last panic()
		if strings.HasPrefix(l, "panic(") {
			start = i
		}
	}
	for i := start; i+1 < len(lines); i++ {
		l := strings.TrimSpace(lines[i+1])
		if strings.HasPrefix(l, root) && !strings.Contains(l, "verif_hooks") {
			fn := strings.TrimSpace(lines[i])
			if j := strings.LastIndex(fn, "("); j > 0 {
				fn = fn[:j]
			}
			if j := strings.LastIndex(fn, "/"); j >= 0 {
				fn = fn[j+1:]
			}
			file := l
			if j := strings.Index(file, " "); j > 0 {
				file = file[:j]
			}
			if j := strings.LastIndex(file, ":"); j > 0 {
				file = file[:j]
			}
			return strings.TrimPrefix(file, root) + ":" + fn
		}
	}
	return "?"
}

// Safe runs f and canonicalises a panic into "panic <kind>".
func Safe(f func() string) (out string) {
	defer func() {
		if r := recover(); r != nil {
			out = "panic " + PanicKind(r)
		}
	}()
	return f()
}

// Drv talks to the Lean driver: all lines in, all answers out (one per line).
type Drv struct{ Path string }

func (d *Drv) Ask(lines []string) ([]string, error) {
	if len(lines) == 0 {
		return nil, nil
	}
	var in bytes.Buffer
	for _, l := range lines {
		if strings.ContainsAny(l, "\n\r") {
			return nil, fmt.Errorf("protocol line contains a newline: %q", l)
		}
		in.WriteString(l)
		in.WriteByte('\n')
	}
	cmd := exec.Command(d.Path)
	cmd.Stdin = &in
	var out, errb bytes.Buffer
	cmd.Stdout = &out
	cmd.Stderr = &errb
	if err := cmd.Run(); err != nil {
		return nil, fmt.Errorf("driver failed: %v: %s", err, errb.String())
	}
	var res []string
	sc := bufio.NewScanner(&out)
	sc.Buffer(make([]byte, 1<<20), 1<<28)
	for sc.Scan() {
		res = append(res, sc.Text())
	}
	if len(res) != len(lines) {
		return nil, fmt.Errorf("driver answered %d lines for %d ops; stderr: %s", len(res), len(lines), errb.String())
	}
	return res, nil
}

// Disagreement: model and implementation answered differently on the same op.
type Disagreement struct {
	Suite string      `json:"suite"`
	Op    string      `json:"op"`
	Impl  string      `json:"impl"`
	Model string      `json:"model"`
	Input interface{} `json:"input,omitempty"`
}

// Violation: the implementation fails the property's own statement on a concrete input.
type Violation struct {
	Signature string      `json:"signature"`
	What      string      `json:"what"`
	Input     interface{} `json:"input"`
	Impl      string      `json:"impl"`
	Spec      string      `json:"spec"`
}

// Result is what one harness run reports to `check`.
type Result struct {
	Property           string         `json:"property"`
	Tier               string         `json:"tier"`
	Seed               int64          `json:"seed"`
	Evaluations        int            `json:"evaluations"`
	DistinctNontrivial int            `json:"distinct_nontrivial"`
	Rule               string         `json:"rule"`
	Exhaustive         bool           `json:"exhaustive"`
	Samples            []interface{}  `json:"samples"`
	Distribution       map[string]int `json:"distribution"`
	Disagreements      []Disagreement `json:"disagreements"`
	Violations         []Violation    `json:"violations"`
	Notes              []string       `json:"notes,omitempty"`
	Suites             map[string]int `json:"suites"`
	Errors             []string       `json:"errors,omitempty"`

	distinct map[string]struct{}
}

func NewResult(prop, tier string, seed int64) *Result {
	return &Result{Property: prop, Tier: tier, Seed: seed,
		Distribution: map[string]int{}, Suites: map[string]int{}, distinct: map[string]struct{}{}}
}

// Count records one evaluated case; key identifies it for distinctness, nontrivial by the caller's rule.
func (r *Result) Count(suite, key string, nontrivial bool) {
	r.Evaluations++
	r.Suites[suite]++
	if nontrivial {
		k := suite + "\x00" + key
		if _, ok := r.distinct[k]; !ok {
			r.distinct[k] = struct{}{}
			r.DistinctNontrivial++
		}
	}
}

func (r *Result) Dist(key string) { r.Distribution[key]++ }

func (r *Result) Sample(v interface{}) {
	if len(r.Samples) < 8 {
		r.Samples = append(r.Samples, v)
	}
}

func (r *Result) Disagree(d Disagreement) {
	if len(r.Disagreements) < 50 {
		r.Disagreements = append(r.Disagreements, d)
	}
}

func (r *Result) Violate(v Violation) {
	for _, o := range r.Violations {
		if o.Signature == v.Signature {
			return // one (first = smallest in generation order) witness per signature
		}
	}
	r.Violations = append(r.Violations, v)
}

func (r *Result) Errorf(format string, a ...interface{}) {
	r.Errors = append(r.Errors, fmt.Sprintf(format, a...))
}

func (r *Result) Write(path string) error {
	sort.Slice(r.Violations, func(i, j int) bool { return r.Violations[i].Signature < r.Violations[j].Signature })
	b, err := json.MarshalIndent(r, "", " ")
	if err != nil {
		return err
	}
	if path == "" || path == "-" {
		_, err = os.Stdout.Write(append(b, '\n'))
		return err
	}
	return os.WriteFile(path, b, 0o644)
}

// Compare sends ops to the model and compares with the implementation's answers.
func (r *Result) Compare(d *Drv, suite string, ops, impl []string, inputs []interface{}) error {
	ans, err := d.Ask(ops)
	if err != nil {
		return err
	}
	for i := range ops {
		if ans[i] != impl[i] {
			var in interface{}
			if inputs != nil {
				in = inputs[i]
			}
			r.Disagree(Disagreement{Suite: suite, Op: ops[i], Impl: impl[i], Model: ans[i], Input: in})
		}
	}
	return nil
}

// Rng is the single PRNG all random choices derive from.
func Rng(seed int64, stream string) *rand.Rand {
	h := seed
	for _, c := range stream {
		h = h*1000003 + int64(c)
	}
	return rand.New(rand.NewSource(h))
}
