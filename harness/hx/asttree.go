package hx

import (
	"fmt"
	"go/ast"
	"go/constant"
	"go/types"
	"reflect"
	"sort"
	"strings"
)

// ---- the universe of go/ast node kinds -------------------------------------------------

// NodeProtos lists one zero value of every concrete go/ast node type (ast.Package excluded:
// it is not part of a file's tree).  Kind numbers are indices into the name-sorted list.
var nodeProtos = []ast.Node{
	&ast.ArrayType{}, &ast.AssignStmt{}, &ast.BadDecl{}, &ast.BadExpr{}, &ast.BadStmt{}, &ast.BasicLit{},
	&ast.BinaryExpr{}, &ast.BlockStmt{}, &ast.BranchStmt{}, &ast.CallExpr{}, &ast.CaseClause{}, &ast.ChanType{},
	&ast.CommClause{}, &ast.Comment{}, &ast.CommentGroup{}, &ast.CompositeLit{}, &ast.DeclStmt{}, &ast.DeferStmt{},
	&ast.Ellipsis{}, &ast.EmptyStmt{}, &ast.ExprStmt{}, &ast.Field{}, &ast.FieldList{}, &ast.File{}, &ast.ForStmt{},
	&ast.FuncDecl{}, &ast.FuncLit{}, &ast.FuncType{}, &ast.GenDecl{}, &ast.GoStmt{}, &ast.Ident{}, &ast.IfStmt{},
	&ast.ImportSpec{}, &ast.IncDecStmt{}, &ast.IndexExpr{}, &ast.IndexListExpr{}, &ast.InterfaceType{},
	&ast.KeyValueExpr{}, &ast.LabeledStmt{}, &ast.MapType{}, &ast.ParenExpr{}, &ast.RangeStmt{}, &ast.ReturnStmt{},
	&ast.SelectStmt{}, &ast.SelectorExpr{}, &ast.SendStmt{}, &ast.SliceExpr{}, &ast.StarExpr{}, &ast.StructType{},
	&ast.SwitchStmt{}, &ast.TypeAssertExpr{}, &ast.TypeSpec{}, &ast.TypeSwitchStmt{}, &ast.UnaryExpr{}, &ast.ValueSpec{},
}

var (
	KindNames  []string
	kindOfType = map[reflect.Type]int{}
	kindTypes  []reflect.Type // struct types
	nodeIface  = reflect.TypeOf((*ast.Node)(nil)).Elem()
)

func init() {
	sort.Slice(nodeProtos, func(i, j int) bool { return typeName(nodeProtos[i]) < typeName(nodeProtos[j]) })
	for i, p := range nodeProtos {
		KindNames = append(KindNames, typeName(p))
		kindOfType[reflect.TypeOf(p)] = i
		kindTypes = append(kindTypes, reflect.TypeOf(p).Elem())
	}
}

func typeName(n ast.Node) string { return reflect.TypeOf(n).Elem().Name() }

// KindOf returns the kind number of a node (-1 for an unknown type).
func KindOf(n ast.Node) int {
	if k, ok := kindOfType[reflect.TypeOf(n)]; ok {
		return k
	}
	return -1
}

func KindByName(name string) int {
	for i, s := range KindNames {
		if s == name {
			return i
		}
	}
	return -1
}

// NodeSlots returns the indices of the struct fields of kind k that can hold child nodes
// (a Node-typed value or a slice of them).
func NodeSlots(k int) []int {
	t := kindTypes[k]
	var out []int
	for i := 0; i < t.NumField(); i++ {
		ft := t.Field(i).Type
		if ft.Implements(nodeIface) || (ft.Kind() == reflect.Slice && ft.Elem().Implements(nodeIface)) {
			out = append(out, i)
		}
	}
	return out
}

func SlotName(k, slot int) string { return kindTypes[k].Field(slot).Name }

func SlotByName(k int, name string) int {
	f, ok := kindTypes[k].FieldByName(name)
	if !ok {
		return -1
	}
	return f.Index[0]
}

// AdmissibleKinds lists the kinds a value stored in slot (k,slot) can have, by static type.
func AdmissibleKinds(k, slot int) []int {
	ft := kindTypes[k].Field(slot).Type
	if ft.Kind() == reflect.Slice {
		ft = ft.Elem()
	}
	var out []int
	for c, p := range nodeProtos {
		pt := reflect.TypeOf(p)
		if ft.Kind() == reflect.Interface {
			if pt.Implements(ft) {
				out = append(out, c)
			}
		} else if pt == ft {
			out = append(out, c)
		}
	}
	return out
}

func isNilNode(v reflect.Value) bool {
	switch v.Kind() {
	case reflect.Interface, reflect.Ptr:
		return v.IsNil()
	}
	return false
}

// childSlots maps every direct child node of n (pointer identity) to the slot it sits in.
func childSlots(n ast.Node) map[ast.Node]int {
	out := map[ast.Node]int{}
	k := KindOf(n)
	if k < 0 {
		return out
	}
	v := reflect.ValueOf(n).Elem()
	for _, s := range NodeSlots(k) {
		f := v.Field(s)
		if f.Kind() == reflect.Slice {
			for i := 0; i < f.Len(); i++ {
				e := f.Index(i)
				if !isNilNode(e) {
					c := e.Interface().(ast.Node)
					if _, dup := out[c]; !dup {
						out[c] = s
					}
				}
			}
		} else if !isNilNode(f) {
			c := f.Interface().(ast.Node)
			if _, dup := out[c]; !dup {
				out[c] = s
			}
		}
	}
	return out
}

// ---- serialising a file as the model's Tree ---------------------------------------------

// TreeNode is one node of the serialised tree; children in ast.Inspect order.
type TreeNode struct {
	Kind, ID, Slot, Attr int
	Node                 ast.Node
	Parent               *TreeNode
	Kids                 []*TreeNode
}

// Tree is a serialised file: nodes by preorder id (= ast.Inspect order).
type Tree struct {
	Root  *TreeNode
	Nodes []*TreeNode
	ByAST map[ast.Node]*TreeNode
}

// IfAttr is the oracle answer the IfStmt case of the walker reads from go/types:
// 0 = condition is not a constant, 1 = constant true, 2 = constant false.
func IfAttr(info *types.Info, n ast.Node) int {
	ifs, ok := n.(*ast.IfStmt)
	if !ok || info == nil || ifs.Cond == nil {
		return 0
	}
	cv := info.Types[ifs.Cond].Value
	if cv == nil {
		return 0
	}
	if cv.Kind() != constant.Bool {
		return 3 // constant.BoolVal would panic; never produced by the type checker for a condition
	}
	if constant.BoolVal(cv) {
		return 1
	}
	return 2
}

// BuildTree serialises root with ast.Inspect (which defines "source order").
func BuildTree(root ast.Node, info *types.Info) *Tree {
	t := &Tree{ByAST: map[ast.Node]*TreeNode{}}
	var stack []*TreeNode
	var slotMaps []map[ast.Node]int
	ast.Inspect(root, func(n ast.Node) bool {
		if n == nil {
			stack = stack[:len(stack)-1]
			slotMaps = slotMaps[:len(slotMaps)-1]
			return true
		}
		tn := &TreeNode{Kind: KindOf(n), ID: len(t.Nodes), Slot: -1, Node: n, Attr: IfAttr(info, n)}
		if len(stack) > 0 {
			p := stack[len(stack)-1]
			tn.Parent = p
			p.Kids = append(p.Kids, tn)
			if s, ok := slotMaps[len(slotMaps)-1][n]; ok {
				tn.Slot = s
			}
		} else {
			t.Root = tn
			tn.Slot = 0
		}
		t.Nodes = append(t.Nodes, tn)
		t.ByAST[n] = tn
		stack = append(stack, tn)
		slotMaps = append(slotMaps, childSlots(n))
		return true
	})
	return t
}

// SExp renders the tree as `(kind id slot attr kid…)`.
func (t *Tree) SExp() string {
	var sb strings.Builder
	var rec func(n *TreeNode)
	rec = func(n *TreeNode) {
		fmt.Fprintf(&sb, "(%d %d %d %d", n.Kind, n.ID, n.Slot, n.Attr)
		for _, c := range n.Kids {
			sb.WriteByte(' ')
			rec(c)
		}
		sb.WriteByte(')')
	}
	rec(t.Root)
	return sb.String()
}

// ProtoOf returns the zero value of kind k.
func ProtoOf(k int) ast.Node { return nodeProtos[k] }
