package hx

import (
	"fmt"
	"go/ast"
	"go/importer"
	"go/parser"
	"go/token"
	"go/types"
	"os"
	"path/filepath"
	"runtime"
	"runtime/debug"
	"strings"

	"github.com/quasilyte/go-ruleguard/ruleguard"
	"github.com/quasilyte/gogrep"
)

// Target is a parsed and type-checked Go file.
type Target struct {
	Fset *token.FileSet
	File *ast.File
	Info *types.Info
	Pkg  *types.Package
	Src  []byte
	Name string
}

var srcImporterFset = token.NewFileSet()
var sharedImporter = importer.ForCompiler(srcImporterFset, "source", nil)

var tempDir string

// TempDir is the scratch directory target files are written to (ruleguard reads the analysed file
// from disk to get its bytes); removed by Cleanup.
func TempDir() string {
	if tempDir == "" {
		d, err := os.MkdirTemp("", "rgh-targets-")
		if err != nil {
			panic(err)
		}
		tempDir = d
	}
	return tempDir
}

func Cleanup() {
	if tempDir != "" {
		os.RemoveAll(tempDir)
	}
}

var targetSeq int

// ParseTarget writes src to a scratch file, parses and type-checks it (imports resolved from GOROOT sources).
func ParseTarget(filename, src string) (*Target, error) {
	targetSeq++
	dir := filepath.Join(TempDir(), fmt.Sprint(targetSeq))
	if err := os.MkdirAll(dir, 0o755); err != nil {
		return nil, err
	}
	filename = filepath.Join(dir, filepath.Base(filename))
	if err := os.WriteFile(filename, []byte(src), 0o644); err != nil {
		return nil, err
	}
	return parseTargetAt(filename, src)
}

// ParseTargetMem parses and type-checks src under a file name that does not exist on disk (the
// engine then cannot read the file's bytes and falls back to go/printer / comment text); an
// absolute filename is kept as it is (the caller wrote the file itself).
func ParseTargetMem(filename, src string) (*Target, error) {
	if !filepath.IsAbs(filename) {
		targetSeq++
		filename = filepath.Join(TempDir(), fmt.Sprintf("mem-%d", targetSeq), "absent", filepath.Base(filename))
	}
	return parseTargetAt(filename, src)
}

func parseTargetAt(filename, src string) (*Target, error) {
	fset := token.NewFileSet()
	f, err := parser.ParseFile(fset, filename, src, parser.ParseComments)
	if err != nil {
		return nil, err
	}
	info := &types.Info{
		Types:      map[ast.Expr]types.TypeAndValue{},
		Uses:       map[*ast.Ident]types.Object{},
		Defs:       map[*ast.Ident]types.Object{},
		Selections: map[*ast.SelectorExpr]*types.Selection{},
		Implicits:  map[ast.Node]types.Object{},
		Scopes:     map[ast.Node]*types.Scope{},
		Instances:  map[*ast.Ident]types.Instance{},
	}
	cfg := types.Config{Importer: importer.ForCompiler(fset, "source", nil)}
	pkg, err := cfg.Check(f.Name.Name, fset, []*ast.File{f}, info)
	if err != nil {
		return nil, err
	}
	return &Target{Fset: fset, File: f, Info: info, Pkg: pkg, Src: []byte(src), Name: filename}, nil
}

// LoadRules loads one rules file (full source text) into a fresh engine.
func LoadRules(src string) (*ruleguard.Engine, error) {
	e := ruleguard.NewEngine()
	err := LoadInto(e, "rules.go", src, nil)
	return e, err
}

// LoadInto loads src into e; a panic is returned as an error starting with "PANIC".
func LoadInto(e *ruleguard.Engine, filename, src string, filter func(*ruleguard.GoRuleGroup) bool) (err error) {
	defer func() {
		if r := recover(); r != nil {
			err = fmt.Errorf("PANIC %s at %s: %v", PanicKind(r), Frame(debug.Stack()), r)
		}
	}()
	ctx := &ruleguard.LoadContext{Fset: token.NewFileSet(), GroupFilter: filter}
	return e.Load(ctx, filename, strings.NewReader(src))
}

// RulesFile wraps rule-group bodies into a rules file.
func RulesFile(body string) string {
	return "package gorules\n\nimport \"github.com/quasilyte/go-ruleguard/dsl\"\n\n" + body
}

// Report is the canonical, address-free form of one ReportData.
type Report struct {
	Pos, End   int // byte offsets in the file; -1 if the position is invalid
	Line       int
	Message    string
	Group      string
	RuleLine   int
	HasSugg    bool
	From, To   int
	Repl       string
	NodeKind   string
	SliceKind  int // gogrep.NodeSlice kind (expr/stmt/…), -1 if the node is not a slice
	SliceLen   int
	NodeNil    bool
	GroupNil   bool
	FuncName   string
}

func (r Report) String() string {
	s := fmt.Sprintf("%d:%d %s:%d %q", r.Pos, r.End, r.Group, r.RuleLine, r.Message)
	if r.HasSugg {
		s += fmt.Sprintf(" sugg[%d:%d]=%q", r.From, r.To, r.Repl)
	}
	return s
}

type RunOpts struct {
	TruncateLen int
	GoVersion   string
	State       *ruleguard.RunnerState
	OnReport    func(n int) // called after the n-th report (1-based); may panic
	// Ctx, when set, is the RunContext object to use (its fields are overwritten for this run): a caller that keeps
	// one RunContext for several Engine.Run calls and changes its fields in between
	Ctx *ruleguard.RunContext
	// the debug settings of the context: Debug names a rule group whose rejections are explained through DebugPrint
	// (collected into *DebugOut when set); DebugImports explains package lookups the same way
	Debug        string
	DebugImports bool
	DebugOut     *[]string
}

func offset(fset *token.FileSet, p token.Pos) int {
	if !p.IsValid() {
		return -1
	}
	f := fset.File(p)
	if f == nil {
		return -2
	}
	return f.Offset(p)
}

// Run runs the engine on t; a panic is canonicalised into ("panic <kind>", frame).
func Run(e *ruleguard.Engine, t *Target, o RunOpts) (reports []Report, panicKind, frame string, err error) {
	defer func() {
		if r := recover(); r != nil {
			panicKind = "panic " + PanicKind(r)
			frame = Frame(debug.Stack())
			if s, ok := r.(string); ok && strings.HasPrefix(s, "verif-callback") {
				panicKind = "panic callback"
			}
		}
	}()
	n := 0
	ctx := o.Ctx
	if ctx == nil {
		ctx = &ruleguard.RunContext{}
	}
	*ctx = ruleguard.RunContext{
		Pkg:         t.Pkg,
		Types:       t.Info,
		Sizes:       types.SizesFor("gc", runtime.GOARCH),
		Fset:        t.Fset,
		TruncateLen: o.TruncateLen,
		State:       o.State,
	}
	if o.Debug != "" || o.DebugImports {
		ctx.Debug, ctx.DebugImports = o.Debug, o.DebugImports
		ctx.DebugPrint = func(s string) {
			if o.DebugOut != nil {
				*o.DebugOut = append(*o.DebugOut, s)
			}
		}
	}
	if o.GoVersion != "" {
		v, verr := ruleguard.ParseGoVersion(o.GoVersion)
		if verr != nil {
			return nil, "", "", verr
		}
		ctx.GoVersion = v
	}
	ctx.Report = func(d *ruleguard.ReportData) {
		var r Report
		r.Message = d.Message
		if d.RuleInfo.Group != nil {
			r.Group = d.RuleInfo.Group.Name
		} else {
			r.GroupNil = true
		}
		r.RuleLine = d.RuleInfo.Line
		func() {
			defer func() {
				if rec := recover(); rec != nil {
					r.NodeNil = true
					r.Pos, r.End = -3, -3
				}
			}()
			if d.Node == nil {
				r.NodeNil = true
				r.Pos, r.End = -3, -3
				return
			}
			r.NodeKind = fmt.Sprintf("%T", d.Node)
			r.SliceKind = -1
			if ns, ok := d.Node.(*gogrep.NodeSlice); ok {
				r.SliceKind = int(ns.Kind)
				r.SliceLen = ns.Len()
			}
			r.Pos = offset(t.Fset, d.Node.Pos())
			r.End = offset(t.Fset, d.Node.End())
			r.Line = t.Fset.Position(d.Node.Pos()).Line
		}()
		if d.Suggestion != nil {
			r.HasSugg = true
			r.From = offset(t.Fset, d.Suggestion.From)
			r.To = offset(t.Fset, d.Suggestion.To)
			r.Repl = string(d.Suggestion.Replacement)
		}
		if d.Func != nil {
			r.FuncName = d.Func.Name.Name
		}
		reports = append(reports, r)
		n++
		if o.OnReport != nil {
			o.OnReport(n)
		}
	}
	err = e.Run(ctx, t.File)
	return
}

// SourceImporter resolves imports from source (GOROOT and the module cache via go list).
func SourceImporter(fset *token.FileSet) types.Importer {
	return importer.ForCompiler(fset, "source", nil)
}
