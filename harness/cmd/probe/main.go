package main

import (
	"fmt"

	"verifharness/hx"
)

func try(rules, target string) {
	e, err := hx.LoadRules(hx.RulesFile(rules))
	if err != nil {
		fmt.Println("LOAD:", err)
		return
	}
	t, err := hx.ParseTarget("p.go", target)
	if err != nil {
		fmt.Println("TARGET:", err)
		return
	}
	rs, pk, frame, err := hx.Run(e, t, hx.RunOpts{})
	fmt.Println("RUN:", len(rs), pk, frame, err)
	for _, r := range rs {
		fmt.Println("  ", r.String(), r.NodeNil)
	}
}

func main() {
	defer hx.Cleanup()
	tgt := "package p\n// foo bar\nfunc f() { if g(1+2) > 0 { _ = g(3) } }\nfunc g(int) int { return 0 }\n"
	try(`func r(m dsl.Matcher) { m.Match("if $c { $*_ }", "g($x)").Where(m["x"].Value.Int() != 78).Report("c") }`, tgt)
	try(`func r(m dsl.Matcher) { m.Match("if $c { $*_ }", "g($x)").Where(m["x"].Text != "78").Report("c") }`, tgt)
	try(`func r(m dsl.Matcher) { m.Match("if $c { $*_ }", "g($x)").Where(m["x"].Line > 1).Report("c") }`, tgt)
	try(`func r(m dsl.Matcher) { m.Match("if $c { $*_ }", "g($x)").Where(m["x"].Type.Size > 1).Report("c") }`, tgt)
}
