package main

import (
	"fmt"

	"verifharness/hx"
)

func try(rules, target string) {
	e, err := hx.LoadRules(hx.RulesFile(rules))
	if err != nil {
		fmt.Println("LOAD:", err)
		return
	}
	t, err := hx.ParseTarget("p.go", target)
	if err != nil {
		fmt.Println("TARGET:", err)
		return
	}
	rs, pk, frame, err := hx.Run(e, t, hx.RunOpts{})
	fmt.Println("RUN:", len(rs), pk, frame, err)
	for _, r := range rs {
		fmt.Println("  ", r.String(), r.NodeNil)
	}
}

func main() {
	defer hx.Cleanup()
	for _, arg := range []string{"nil", "fmt.Sprint", "func() {}", "x", `"s"`, "1", "T{}", "i", "probe"} {
		tgt := "package p\nimport \"fmt\"\nvar _ = fmt.Sprint\ntype T struct{}\ntype I interface{ M() }\nfunc probe(...interface{}) int { return 0 }\nfunc f(x int, i I) { probe(" + arg + ") }\n"
		fmt.Println("arg", arg)
		try(`func r(m dsl.Matcher) { m.Match("probe($x)").Where(m["x"].Type.Size > 4).Report("$x") }`, tgt)
	}
	tgt := "package p\ntype S struct{ a int; b string }\nfunc f() int { return 1 }\nfunc g() { _ = S{f(), \"s\"}; _ = []int{f()}; _ = map[string]int{\"k\": f()} }\n"
	try(`func r(m dsl.Matcher) { m.Match("f()").Where(m["$$"].SinkType.Is("int")).Report("sink") }`, tgt)
}
