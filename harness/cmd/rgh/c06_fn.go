package main

// C06, load stream in child processes: whole rules files through the public entry points Engine.Load and
// Engine.LoadFromIR, with the load settings of LoadContext, judged by the property alone:
//
//	Load returns nil or an error; an error names the rules file and a line (c06Located, as in the front stream);
//	no panic; no fatal error of the runtime; the verdict of a second load (fresh engine) is the same.
//
// The loads run in child processes (`rgh c06loadchild`, a pool of them): a fatal error (stack overflow, out of
// memory) cannot be recovered and would take the harness down; a child that dies or does not answer is a verdict
// (`fatal` / `hang`) of the input it was working on.
//
// A job is a rules source plus settings.  The child runs, each on a fresh engine,
//
//	Load, Load again (determinism),
//	irconv of the same source (the harness' own parse + type check) and LoadFromIR of the result, twice
//
// optionally with patches to the converted IR that no source file of this harness can express (bundle imports of
// packages that are not there, custom declarations of any text).
//
// Suites that use it: c06_fn_gen.go (custom filter / Do functions over the Go grammar), c06_args.go (argument
// forms of Implements / HasMethod, bundles, load settings, targeted irconv statements).

import (
	"bufio"
	"bytes"
	"encoding/json"
	"fmt"
	"go/token"
	"io"
	"os"
	"os/exec"
	"regexp"
	"runtime"
	"runtime/debug"
	"sort"
	"strings"
	"sync"
	"time"

	"github.com/quasilyte/go-ruleguard/ruleguard"
	"github.com/quasilyte/go-ruleguard/ruleguard/ir"
	"github.com/quasilyte/go-ruleguard/ruleguard/irconv"
	"verifharness/hx"
)

func init() {
	// main.go dispatches on os.Args[1]; the child entry point is taken before it gets there
	if len(os.Args) >= 2 && os.Args[1] == "c06loadchild" {
		os.Exit(c06xChildMain())
	}
}

// c06xJob: one input of the load stream
type c06xJob struct {
	Src          string `json:"src"`
	DebugFunc    string `json:"dfunc,omitempty"`
	DebugImports bool   `json:"dimp,omitempty"`
	NilPrint     bool   `json:"nilprint,omitempty"` // DebugPrint left nil (informational only)
	NoSrc        bool   `json:"nosrc,omitempty"`    // the patched IR is the subject: no Engine.Load
	NoIR         bool   `json:"noir,omitempty"`
	Once         bool   `json:"once,omitempty"`   // one load per entry point (files whose imports make a load slow)
	IROnce       bool   `json:"ironce,omitempty"` // one LoadFromIR (quick tier: the second one on every fourth file only)
	// patches of the converted IR
	Bundles  []ir.BundleImport `json:"bundles,omitempty"`
	DeclsSet bool              `json:"declsset,omitempty"`
	Decls    []string          `json:"decls,omitempty"`
}

// c06xOut: what the child saw. An outcome is "ok" | "err <message>" | "panic <kind> <frame> <message>" | "" (not run)
type c06xOut struct {
	Load   [2]string `json:"load"`
	IR     [2]string `json:"ir"`
	Conv   string    `json:"conv"` // "ok" | "err <message>": the harness' own conversion of the source
	Prints int       `json:"prints"`
	Disasm bool      `json:"disasm"` // DebugPrint got a text that looks like a disassembly
	Imp    []string  `json:"imp"`    // classes of the DebugImports lines seen
	// set by the parent
	Died string `json:"died,omitempty"` // "fatal <what>@<frame>" | "hang" | "died <stderr>"
}

func c06xOutcome(f func() error) (out string) {
	defer func() {
		if r := recover(); r != nil {
			out = "panic " + hx.PanicKind(r) + " " + hx.Frame(debug.Stack()) + " " + firstLine(fmt.Sprint(r))
		}
	}()
	if err := f(); err != nil {
		return "err " + err.Error()
	}
	return "ok"
}

func c06xChildMain() int {
	debug.SetMaxStack(256 << 20)
	in := bufio.NewReaderSize(os.Stdin, 1<<20)
	w := bufio.NewWriter(os.Stdout)
	for {
		line, err := in.ReadString('\n')
		if err != nil {
			return 0
		}
		var job c06xJob
		if err := json.Unmarshal(hx.UnHex(strings.TrimSpace(line)), &job); err != nil {
			fmt.Fprintln(os.Stderr, "c06loadchild: bad job:", err)
			return 2
		}
		out := c06xDo(&job)
		b, _ := json.Marshal(out)
		fmt.Fprintln(w, hx.Hex(b))
		w.Flush()
	}
}

var c06xImpRE = regexp.MustCompile(`^(imported "[^"]*" from (importer cache|source importer|\w+ importer)|failed to import|  \w+ importer:|  source importer:|  GOROOT=|using build\.Default context)`)

func c06xDo(job *c06xJob) *c06xOut {
	out := &c06xOut{}
	impSeen := map[string]bool{}
	mkctx := func() *ruleguard.LoadContext {
		ctx := &ruleguard.LoadContext{Fset: token.NewFileSet(), DebugFunc: job.DebugFunc, DebugImports: job.DebugImports}
		if !job.NilPrint {
			ctx.DebugPrint = func(s string) {
				out.Prints++
				if m := c06xImpRE.FindStringSubmatch(s); m != nil {
					cls := m[1]
					if m[2] != "" {
						cls = "imported from " + m[2]
					}
					cls = strings.TrimSpace(strings.TrimSuffix(cls, ":"))
					if !impSeen[cls] {
						impSeen[cls] = true
						out.Imp = append(out.Imp, cls)
					}
				} else if strings.Contains(s, "Return") || strings.Contains(s, "Push") {
					out.Disasm = true
				}
			}
		}
		return ctx
	}
	if !job.NoSrc {
		for k := 0; k < 2 && !(job.Once && k == 1); k++ {
			out.Load[k] = c06xOutcome(func() error {
				return ruleguard.NewEngine().Load(mkctx(), "rules.go", strings.NewReader(job.Src))
			})
		}
	}
	if job.NoIR {
		return out
	}
	// the harness' own front half (parse, type check with a memoizing importer, irconv)
	var f *ir.File
	out.Conv = c06xOutcome(func() error {
		l, err := c18Load(job.Src)
		if err != nil {
			return err
		}
		ff, err := irconv.ConvertFile(&irconv.Context{Pkg: l.lf.Pkg, Types: l.lf.Types, Fset: l.fset, Src: []byte(l.src)}, l.lf.Syntax)
		f = ff
		return err
	})
	if out.Conv != "ok" || f == nil {
		return out
	}
	if job.Bundles != nil {
		f.BundleImports = job.Bundles
	}
	if job.DeclsSet {
		f.CustomDecls = job.Decls
	}
	for k := 0; k < 2 && !((job.Once || job.IROnce) && k == 1); k++ {
		out.IR[k] = c06xOutcome(func() error {
			return ruleguard.NewEngine().LoadFromIR(mkctx(), "rules.go", f)
		})
	}
	return out
}

// ---------- the pool ----------

type c06xProc struct {
	cmd   *exec.Cmd
	stdin io.WriteCloser
	lines chan string
	errb  *bytes.Buffer
}

func c06xStart() (*c06xProc, error) {
	cmd := exec.Command(os.Args[0], "c06loadchild")
	stdin, err := cmd.StdinPipe()
	if err != nil {
		return nil, err
	}
	stdout, err := cmd.StdoutPipe()
	if err != nil {
		return nil, err
	}
	p := &c06xProc{cmd: cmd, stdin: stdin, lines: make(chan string, 1), errb: &bytes.Buffer{}}
	cmd.Stderr = p.errb
	if err := cmd.Start(); err != nil {
		return nil, err
	}
	go func() {
		rd := bufio.NewReaderSize(stdout, 1<<20)
		for {
			l, err := rd.ReadString('\n')
			if err != nil {
				close(p.lines)
				return
			}
			p.lines <- strings.TrimRight(l, "\n")
		}
	}()
	return p, nil
}

func (p *c06xProc) stop() {
	p.stdin.Close()
	done := make(chan struct{})
	go func() { _ = p.cmd.Wait(); close(done) }()
	select {
	case <-done:
	case <-time.After(5 * time.Second):
		_ = p.cmd.Process.Kill()
	}
}

const c06xDeadline = 180 * time.Second

// one job on p; died != "" when p is gone
func (p *c06xProc) run(job *c06xJob) (out *c06xOut, died string) {
	b, _ := json.Marshal(job)
	if _, err := io.WriteString(p.stdin, hx.Hex(b)+"\n"); err != nil {
		_ = p.cmd.Process.Kill()
		_ = p.cmd.Wait()
		return nil, "died " + err.Error()
	}
	select {
	case l, ok := <-p.lines:
		if ok {
			out = &c06xOut{}
			if err := json.Unmarshal(hx.UnHex(l), out); err != nil {
				return nil, "died bad answer: " + err.Error()
			}
			return out, ""
		}
		_ = p.cmd.Wait()
		st := p.errb.String()
		what := ""
		for _, l := range strings.Split(st, "\n") {
			if strings.HasPrefix(l, "fatal error: ") {
				what = strings.TrimPrefix(l, "fatal error: ")
				break
			}
			if strings.HasPrefix(l, "runtime: goroutine stack exceeds") && what == "" {
				what = "stack overflow"
			}
		}
		if what != "" {
			return nil, "fatal " + strings.ReplaceAll(what, " ", "-") + "@" + c06xFatalFrame(st)
		}
		return nil, "died " + clip(firstLine(st))
	case <-time.After(c06xDeadline):
		_ = p.cmd.Process.Kill()
		_ = p.cmd.Wait()
		return nil, "hang"
	}
}

// c06xFatalFrame: the repo function that occurs most often in the trace of a dead child (the recursion), else the innermost one
func c06xFatalFrame(st string) string {
	root := hx.RepoRoot() + "/"
	lines := strings.Split(st, "\n")
	count := map[string]int{}
	first := ""
	for i := 0; i+1 < len(lines); i++ {
		l := strings.TrimSpace(lines[i+1])
		if !strings.HasPrefix(l, root) || strings.Contains(l, "verif_hooks") {
			continue
		}
		fn := strings.TrimSpace(lines[i])
		if j := strings.LastIndex(fn, "("); j > 0 {
			fn = fn[:j]
		}
		if j := strings.LastIndex(fn, "/"); j >= 0 {
			fn = fn[j+1:]
		}
		file := l
		if j := strings.Index(file, " "); j > 0 {
			file = file[:j]
		}
		if j := strings.LastIndex(file, ":"); j > 0 {
			file = file[:j]
		}
		fr := strings.TrimPrefix(file, root) + ":" + fn
		if first == "" {
			first = fr
		}
		count[fr]++
	}
	best, n := first, 0
	for fr, c := range count {
		if c > n || c == n && fr < best {
			best, n = fr, c
		}
	}
	if n > 10 {
		return best
	}
	if first == "" {
		return "?"
	}
	return first
}

// c06xRun: all jobs through a pool of children; outs[i] answers jobs[i] (Died set when the child did not survive it)
func c06xRun(jobs []*c06xJob) []*c06xOut {
	outs := make([]*c06xOut, len(jobs))
	nw := runtime.NumCPU() / 2
	if nw > 8 {
		nw = 8
	}
	if nw < 1 {
		nw = 1
	}
	if nw > len(jobs) {
		nw = len(jobs)
	}
	// the slow ones first (files that import the standard library, bundles, long files): the pool drains evenly
	cost := func(j *c06xJob) int {
		n := len(j.Src)
		for _, w := range []string{"\"fmt\"", "\"strings\"", "\"strconv\"", "verifharness/", "bytes.", "fmt.", "template", "go/ast", "ast."} {
			if strings.Contains(j.Src, w) {
				n += 400000
			}
		}
		if j.Bundles != nil {
			n += 400000
		}
		return n
	}
	order := make([]int, len(jobs))
	for i := range order {
		order[i] = i
	}
	sort.SliceStable(order, func(a, b int) bool { return cost(jobs[order[a]]) > cost(jobs[order[b]]) })
	idx := make(chan int, len(jobs))
	for _, i := range order {
		idx <- i
	}
	close(idx)
	var wg sync.WaitGroup
	for w := 0; w < nw; w++ {
		wg.Add(1)
		go func() {
			defer wg.Done()
			var p *c06xProc
			defer func() {
				if p != nil {
					p.stop()
				}
			}()
			for i := range idx {
				if p == nil {
					var err error
					if p, err = c06xStart(); err != nil {
						outs[i] = &c06xOut{Died: "died " + err.Error()}
						p = nil
						continue
					}
				}
				out, died := p.run(jobs[i])
				if died != "" {
					outs[i] = &c06xOut{Died: died}
					p = nil
					continue
				}
				outs[i] = out
			}
		}()
	}
	wg.Wait()
	return outs
}

// ---------- judging ----------

// c06xClass: accepted | rejected-located | rejected-unlocated | notgo | notgo-unlocated | panic
// (notgo: the source does not parse or type-check — the parser's / type checker's own located error)
func c06xClass(outcome string) string {
	switch {
	case outcome == "ok":
		return "accepted"
	case strings.HasPrefix(outcome, "panic "):
		return "panic"
	}
	msg := strings.TrimPrefix(outcome, "err ")
	notgo := strings.HasPrefix(msg, "typechecker error") || strings.HasPrefix(msg, "parse file error")
	switch {
	case notgo && c06Located(msg):
		return "notgo"
	case notgo:
		return "notgo-unlocated"
	case c06Located(msg):
		return "rejected-located"
	}
	return "rejected-unlocated"
}

var c06xLineRE = regexp.MustCompile(`rules\.go:(\d+)`)

// c06xVerdict: class plus the first rules.go line of the message (what must not change between two loads)
func c06xVerdict(outcome string) string {
	cls := c06xClass(outcome)
	if m := c06xLineRE.FindStringSubmatch(outcome); m != nil && cls != "accepted" && cls != "panic" {
		return cls + "@" + m[1]
	}
	if cls == "panic" {
		f := strings.Fields(outcome)
		return strings.Join(f[:3], " ")
	}
	return cls
}

// c06xErrKey: the refusal, without its position and without the names and types it quotes (a Dist key)
func c06xErrKey(outcome string) string {
	msg := strings.TrimPrefix(outcome, "err ")
	msg = firstLine(msg)
	for {
		m := c06xPosRE.FindStringIndex(msg)
		if m == nil {
			break
		}
		msg = msg[:m[0]] + msg[m[1]:]
	}
	w := strings.Fields(msg)
	if len(w) > 6 {
		w = w[:6]
	}
	for i, x := range w {
		if strings.HasPrefix(x, "*ast.") || strings.HasPrefix(x, "(*ast.") {
			continue
		}
		if strings.ContainsAny(x, "0123456789./$()[]{}\"*`") && !strings.HasSuffix(x, "()") || strings.HasPrefix(x, "v") && len(x) <= 4 {
			w[i] = "_"
		}
	}
	return strings.Join(w, " ")
}

var c06xPosRE = regexp.MustCompile(`(/[^ :]+/)?[A-Za-z_0-9]+\.go:\d+(:\d+)?:? ?`)

// c06xJudge applies the property to one answered job. It returns the class of the first source load (or of the
// first IR load when the job has no source load) for the caller's distribution keys.
//
//	suite: name for Count; key: distinctness key; kinds: construct kinds of the input (Dist keys per kind and outcome)
func c06xJudge(res *hx.Result, pfx string, job *c06xJob, out *c06xOut, in map[string]interface{}) (cls string) {
	if out.Died != "" {
		what := strings.Fields(out.Died)[0]
		res.Dist(pfx + ":outcome:" + what)
		sig := "load:" + out.Died
		if what == "hang" {
			sig = "load:hang"
		} else if what == "died" {
			sig = "load:child-died"
		}
		res.Violate(hx.Violation{Signature: sig, What: "Engine.Load / LoadFromIR leaves the process dead (or does not return): " + clip(out.Died),
			Input: in, Impl: clip(out.Died), Spec: "success or located error"})
		return what
	}
	judge := func(which string, o [2]string) string {
		if o[0] == "" {
			return ""
		}
		c := c06xClass(o[0])
		res.Dist(pfx + ":" + which + ":" + c)
		switch c {
		case "panic":
			f := strings.Fields(o[0])
			res.Violate(hx.Violation{Signature: "load:panic " + f[1] + "@" + f[2], What: which + " panics: " + clip(o[0]),
				Input: in, Impl: clip(o[0]), Spec: "success or located error"})
		case "rejected-unlocated", "notgo-unlocated":
			key := strings.Fields(c06xErrKey(o[0]))
			if len(key) > 1 && key[1] == "operand" {
				key[0] = "<opcode>" // one signature for every instruction with an 8-bit operand
			}
			res.Violate(hx.Violation{Signature: "load:error-without-file-and-line:" + strings.Join(key, " "),
				What:  which + " returns an error that does not name the rules file and a line: " + clip(o[0]),
				Input: in, Impl: clip(o[0]), Spec: "rules.go:<line>: ..."})
		}
		if o[1] != "" && c06xVerdict(o[0]) != c06xVerdict(o[1]) {
			res.Dist(pfx + ":" + which + ":NONDETERMINISTIC")
			res.Violate(hx.Violation{Signature: "load:verdict-differs-between-two-loads", What: which + " of the same file into two fresh engines: " + clip(o[0]) + "  ///  " + clip(o[1]),
				Input: in, Impl: clip(o[1]), Spec: clip(o[0])})
		} else if o[1] != "" && o[0] != o[1] {
			res.Dist(pfx + ":" + which + ":same-verdict-other-message")
		}
		return c
	}
	cls = judge("Load", out.Load)
	irc := judge("LoadFromIR", out.IR)
	if cls == "" {
		cls = irc
	} else if irc != "" {
		if irc == cls {
			res.Dist(pfx + ":LoadFromIR-vs-Load:same-class")
		} else {
			res.Dist(pfx + ":LoadFromIR-vs-Load:" + cls + "-vs-" + irc)
		}
	}
	return cls
}
