package main

// C06, function stream: whole rules files around generated custom functions.
//
//	subset      a body inside the subset quasigo accepts
//	one-expr    such a body with one expression of a kind outside the subset (one file per production of the table)
//	one-stmt    such a body with one statement of a kind outside the subset
//	decl        function declarations of every shape (parameter / result types, variadic, generic, methods, names)
//	wild        bodies over the whole grammar
//	size        the limits: constants, locals, parameters, variadic arguments, jump distances, nesting
//	use         the ways a rule can refer to a function (Filter / Do argument forms, order of declarations)
//	std         functions over strings / strconv / fmt (registered and unregistered natives), other imports
//
// Every function is used by a rule through Filter() or Do().

import (
	"fmt"
	"math/rand"
	"strings"
)

type c06fCase struct {
	mode  string
	kind  string   // construct kind (one-expr / one-stmt / decl / size / use / std)
	kinds []string // construct kinds of a wild body
	line  int      // line of the construct in the source (0: unknown)
	job   *c06xJob
}

const (
	c06fFilterRule = "func r(m dsl.Matcher) {\n\tm.Match(`f($x)`).Where(m[\"x\"].Filter(flt)).Report(`x`)\n}\n"
	c06fDoRule     = "func r(m dsl.Matcher) {\n\tm.Match(`f($x)`).Do(act)\n}\n"
)

// c06fAssemble: prelude, extra declarations, the function (header, body lines, "}"), its caller when it is a helper, the rule.
// defect: index into body of the line the construct under test starts at (-1: none); the result's line is its line in the file.
func c06fAssemble(ctx, ret, decls string, body []string, defect int) (src string, line int) {
	var sb strings.Builder
	sb.WriteString(c06fPrelude)
	sb.WriteString("\n")
	if decls != "" {
		sb.WriteString(decls)
		sb.WriteString("\n")
	}
	switch ctx {
	case "filter":
		sb.WriteString("func flt(ctx *dsl.VarFilterContext) bool {\n")
	case "do":
		sb.WriteString("func act(ctx *dsl.DoContext) {\n")
	case "helper":
		r := ret
		if r == "ty" {
			r = "types.Type"
		}
		sb.WriteString("func hlp(a int, s string, t types.Type) " + r + " {\n")
	}
	head := strings.Count(sb.String(), "\n")
	for i, l := range body {
		if i == defect {
			line = head + 1 + strings.Count(strings.Join(body[:i], "\n")+"\n", "\n")
			if i == 0 {
				line = head + 1
			}
		}
		sb.WriteString("\t" + l + "\n")
	}
	sb.WriteString("}\n\n")
	switch ctx {
	case "filter":
		sb.WriteString(c06fFilterRule)
	case "do":
		sb.WriteString(c06fDoRule)
	case "helper":
		call := "hlp(1, \"a\", ctx.Type)"
		switch ret {
		case "":
			sb.WriteString("func flt(ctx *dsl.VarFilterContext) bool {\n\t" + call + "\n\treturn true\n}\n\n")
		case "bool":
			sb.WriteString("func flt(ctx *dsl.VarFilterContext) bool {\n\treturn " + call + "\n}\n\n")
		case "int":
			sb.WriteString("func flt(ctx *dsl.VarFilterContext) bool {\n\treturn " + call + " == 0\n}\n\n")
		case "string":
			sb.WriteString("func flt(ctx *dsl.VarFilterContext) bool {\n\treturn " + call + " == \"\"\n}\n\n")
		default:
			sb.WriteString("func flt(ctx *dsl.VarFilterContext) bool {\n\treturn " + call + " != nil\n}\n\n")
		}
		sb.WriteString(c06fFilterRule)
	}
	return sb.String(), line
}

func c06fNewGen(r *rand.Rand, ctx, ret string, subset bool) *c06fGen {
	return &c06fGen{r: r, ctx: ctx, ret: ret, subset: subset, kinds: map[string]int{}, budget: 40}
}

func c06fPickCtx(r *rand.Rand) (ctx, ret string) {
	switch r.Intn(8) {
	case 0, 1, 2, 3:
		return "filter", "bool"
	case 4, 5:
		return "do", ""
	default:
		return "helper", []string{"int", "string", "bool", "", "ty"}[r.Intn(5)]
	}
}

// body: n statements and the final return
func (g *c06fGen) body(n, depth int) []string {
	return cat(g.block(depth, n), g.retStmt())
}

func c06fSubsetCase(r *rand.Rand) *c06fCase {
	ctx, ret := c06fPickCtx(r)
	g := c06fNewGen(r, ctx, ret, true)
	src, _ := c06fAssemble(ctx, ret, "", g.body(1+r.Intn(4), 2), -1)
	return &c06fCase{mode: "subset", kind: ctx, job: &c06xJob{Src: src}}
}

// c06fOneExprCase: a subset body around one production p of the table (a construct outside the subset)
func c06fOneExprCase(r *rand.Rand, p *c06fProd) *c06fCase {
	ctx, ret := c06fPickCtx(r)
	if p.flags&c06fFlt != 0 {
		ctx, ret = "filter", "bool"
	}
	if p.flags&c06fDo != 0 {
		ctx, ret = "do", ""
	}
	g := c06fNewGen(r, ctx, ret, true)
	pre := g.block(1, r.Intn(3))
	mark := len(g.locals)
	e := g.fill(p.tpl, 1)
	var carrier []string
	switch ty := p.ty; {
	case ty == "int" || ty == "string" || ty == "bool" || ty == "nint" || ty == "nstr":
		bt := strings.TrimPrefix(ty, "n")
		if bt == "str" {
			bt = "string"
		}
		cond := e
		if bt == "int" {
			cond = e + " == " + g.expr("int", 0)
		} else if bt == "string" {
			cond = e + " == " + g.expr("string", 0)
		}
		switch k := r.Intn(4); {
		case k == 0 && ret == bt:
			carrier = []string{"return " + e}
		case k == 1 && g.nloc < 8:
			v := g.newName()
			g.declare(v, bt)
			carrier = []string{v + " := " + e}
		case k == 2:
			carrier = []string{map[string]string{"int": "hV(hS(\"\")[hI(" + e + ", \"\"):])", "string": "hV(" + e + ")", "bool": "for " + e + " {\nbreak\n}"}[bt]}
			if bt == "bool" {
				carrier = strings.Split(carrier[0], "\n")
			}
		default:
			carrier = []string{"if " + cond + " {", g.retStmt(), "}"}
		}
	case ty == "ty" || ty == "iface":
		v := g.newName()
		g.declare(v, "x-"+ty)
		carrier = []string{v + " := " + e}
	default:
		if r.Intn(2) == 0 {
			carrier = []string{"_ = " + e}
		} else {
			v := g.newName()
			g.declare(v, "x-"+ty)
			carrier = []string{v + " := " + e}
		}
	}
	var uses []string
	post := g.block(1, r.Intn(2))
	for _, v := range g.locals[mark:] {
		if strings.HasPrefix(v.ty, "x-") {
			uses = append(uses, "_ = "+v.name)
		} else {
			uses = append(uses, g.use(v)...)
		}
	}
	body := cat(pre, carrier, post, uses, g.retStmt())
	src, line := c06fAssemble(ctx, ret, "", body, len(pre))
	return &c06fCase{mode: "one-expr", kind: p.kind, line: line, job: &c06xJob{Src: src}}
}

// c06fOneStmtCase: a subset body around one statement of kind s (outside the subset)
func c06fOneStmtCase(r *rand.Rand, s *c06fStmt) *c06fCase {
	ctx, ret := c06fPickCtx(r)
	switch s.kind {
	case "incdec-param":
		ctx, ret = "helper", "int"
	case "call-native-void":
		ctx, ret = "do", ""
	}
	g := c06fNewGen(r, ctx, ret, true)
	// an int and a string local for the statements that need one
	pre := []string{"v1 := " + g.expr("nint", 1), "v2 := " + g.expr("nstr", 1)}
	g.nloc = 2
	g.declare("v1", "int")
	g.declare("v2", "string")
	pre = append(pre, g.block(1, r.Intn(2))...)
	var st []string
	wrapped := 0
	switch s.kind {
	case "continue":
		g.loop, g.brk = 1, 1
		st = cat("for "+g.expr("bool", 1)+" {", s.gen(g, 1), "}")
		g.loop, g.brk = 0, 0
		wrapped = 1
	case "break-in-switch":
		return nil
	default:
		if s.ok != nil && !s.ok(g) {
			return nil
		}
		st = s.gen(g, 1)
	}
	body := cat(pre, st)
	// uses of everything declared at the top level, then the return
	for _, v := range g.locals {
		switch v.ty {
		case "int", "string", "bool", "ty":
			body = append(body, g.use(v)...)
		default:
			body = append(body, "_ = "+v.name)
		}
	}
	body = append(body, g.retStmt())
	src, line := c06fAssemble(ctx, ret, "", body, len(pre)+wrapped)
	return &c06fCase{mode: "one-stmt", kind: s.kind, line: line, job: &c06xJob{Src: src}}
}

func c06fWildCase(r *rand.Rand) *c06fCase {
	ctx, ret := c06fPickCtx(r)
	g := c06fNewGen(r, ctx, ret, false)
	g.budget = 80
	g.wild = true
	body := g.body(1+r.Intn(5), 3)
	src, _ := c06fAssemble(ctx, ret, "", body, -1)
	var kinds []string
	for k := range g.kinds {
		kinds = append(kinds, k)
	}
	return &c06fCase{mode: "wild", kind: ctx, kinds: kinds, job: &c06xJob{Src: src}}
}

// ---------- declarations of every shape ----------

// the types a parameter / result / local can have: name of the kind, type text, a value of the type
var c06fDeclTypes = []struct{ kind, ty, val string }{
	{"int", "int", "1"}, {"string", "string", `"a"`}, {"bool", "bool", "true"},
	{"float64", "float64", "gfl"}, {"byte", "byte", "gby"}, {"rune", "rune", "gr"}, {"uint", "uint", "gu"}, {"int64", "int64", "gi64"}, {"int8", "int8", "ci8"},
	{"uintptr", "uintptr", "uintptr(gu)"}, {"complex128", "complex128", "gc"},
	{"slice", "[]int", "gxs"}, {"slice-of-string", "[]string", "gss"}, {"array", "[3]int", "garr"}, {"map", "map[string]int", "gm"}, {"chan", "chan int", "gch"}, {"recv-chan", "<-chan int", "gch"},
	{"func", "func() int", "gfi"}, {"named-func", "F", "gf"}, {"struct", "S", "gst"}, {"anon-struct", "struct{ a int }", "struct{ a int }{}"}, {"empty-struct", "struct{}", "struct{}{}"},
	{"ptr-struct", "*S", "gp"}, {"ptr-int", "*int", "gpi"}, {"ptr-ptr-struct", "**S", "&gp"}, {"ptr-named-int", "*T", "&gt"},
	{"named-int", "T", "gt"}, {"named-string", "Str", "gstr"}, {"iface", "I", "gif"}, {"error", "error", "ge"}, {"any", "interface{}", "gany"}, {"any-alias", "any", "gany"},
	{"anon-iface", "interface{ M() int }", "gif"}, {"generic-inst", "G[int]", "gg"}, {"ptr-generic-inst", "*G[string]", "(*G[string])(nil)"},
	{"types-type", "types.Type", "types.Type(nil)"}, {"types-ptr", "*types.Pointer", "(*types.Pointer)(nil)"}, {"types-iface", "*types.Interface", "(*types.Interface)(nil)"},
	{"dsl-ctx", "*dsl.VarFilterContext", "(*dsl.VarFilterContext)(nil)"}, {"dsl-matcher", "dsl.Matcher", "dsl.Matcher(nil)"}, {"dsl-var", "dsl.Var", "dsl.Var{}"},
	{"unsafe-less-ptr", "*[2]int", "(*[2]int)(nil)"},
}

// c06fDeclCases: one file per declaration shape; every declared function is called (or passed) by flt / act
func c06fDeclCases(r *rand.Rand, thorough bool) []*c06fCase {
	var out []*c06fCase
	addF := func(kind, decls, fltBody string) {
		src := c06fPrelude + "\n" + decls + "\n\nfunc flt(ctx *dsl.VarFilterContext) bool {\n" + fltBody + "\n}\n\n" + c06fFilterRule
		out = append(out, &c06fCase{mode: "decl", kind: kind, job: &c06xJob{Src: src}})
	}
	addRaw := func(kind, src string) {
		out = append(out, &c06fCase{mode: "decl", kind: kind, job: &c06xJob{Src: src}})
	}
	for i, t := range c06fDeclTypes {
		if !thorough && i >= 3 { // quick tier: every type at one of the four places (the basic types at all of them)
			switch r.Intn(4) {
			case 0:
				addF("result:"+t.kind, "func hlp(a int) "+t.ty+" {\n\treturn "+t.val+"\n}", "\t_ = hlp(1)\n\treturn true")
			case 1:
				addF("param:"+t.kind, "func hlp(a int, p "+t.ty+") int {\n\treturn a\n}", "\treturn hlp(1, "+t.val+") == 1")
			case 2:
				addF("local:"+t.kind, "func hlp(a int) int {\n\tv := "+t.val+"\n\t_ = v\n\treturn a\n}", "\treturn hlp(1) == 1")
			default:
				addF("variadic:"+t.kind, "func hlp(a int, ps ..."+t.ty+") int {\n\treturn a\n}", "\treturn hlp(1, "+t.val+", "+t.val+") == 1")
			}
			continue
		}
		addF("result:"+t.kind, "func hlp(a int) "+t.ty+" {\n\treturn "+t.val+"\n}", "\t_ = hlp(1)\n\treturn true")
		addF("param:"+t.kind, "func hlp(a int, p "+t.ty+") int {\n\treturn a\n}", "\treturn hlp(1, "+t.val+") == 1")
		addF("local:"+t.kind, "func hlp(a int) int {\n\tv := "+t.val+"\n\t_ = v\n\treturn a\n}", "\treturn hlp(1) == 1")
		addF("variadic:"+t.kind, "func hlp(a int, ps ..."+t.ty+") int {\n\treturn a\n}", "\treturn hlp(1, "+t.val+", "+t.val+") == 1")
	}
	addF("result-multi", "func hlp(a int) (int, string) {\n\treturn a, \"x\"\n}", "\tv, w := hlp(1)\n\treturn v == 1 && w == \"x\"")
	addF("result-multi-named", "func hlp(a int) (n int, err error) {\n\treturn\n}", "\tv, _ := hlp(1)\n\treturn v == 1")
	addF("result-named", "func hlp(a int) (n int) {\n\tn = a\n\treturn n\n}", "\treturn hlp(1) == 1")
	addF("result-named-naked-return", "func hlp(a int) (n int) {\n\tn = a\n\treturn\n}", "\treturn hlp(1) == 1")
	addF("result-blank-named", "func hlp(a int) (_ int) {\n\treturn a\n}", "\treturn hlp(1) == 1")
	addF("param-blank", "func hlp(_ int, s string) string {\n\treturn s\n}", "\treturn hlp(1, \"a\") == \"a\"")
	addF("param-blank-twice", "func hlp(_ int, _ int, _ string, _ string) int {\n\treturn 1\n}", "\treturn hlp(1, 2, \"a\", \"b\") == 1")
	addF("param-unnamed", "func hlp(int, string) int {\n\treturn 1\n}", "\treturn hlp(1, \"a\") == 1")
	addF("param-grouped", "func hlp(a, b int, s, u string) int {\n\treturn a + b + len(s + u)\n}", "\treturn hlp(1, 2, \"a\", \"b\") == 1")
	addF("param-none", "func hlp() int {\n\treturn 1\n}", "\treturn hlp() == 1")
	addF("param-shadowed-in-block", "func hlp(a int) int {\n\tif a > 0 {\n\t\ta := 2\n\t\treturn a\n\t}\n\treturn a\n}", "\treturn hlp(1) == 1")
	addF("local-shadowed-in-block", "func hlp(a int) int {\n\tv := 1\n\tif a > 0 {\n\t\tv := 2\n\t\treturn v\n\t}\n\treturn v\n}", "\treturn hlp(1) == 1")
	addF("param-named-ctx-types", "func hlp(types int, dsl string) int {\n\treturn types + len(dsl)\n}", "\treturn hlp(1, \"a\") == 1")
	addF("generic-func", "func hlp[X any](x X) X {\n\treturn x\n}", "\treturn hlp(1) == 1 && hlp(\"a\") == \"a\"")
	addF("generic-func-explicit", "func hlp[X any](x X) X {\n\treturn x\n}", "\treturn hlp[int](1) == 1")
	addF("generic-func-constraint", "func hlp[X Num](x X) X {\n\treturn x + 1\n}", "\treturn hlp(1) == 2")
	addF("generic-func-two-params", "func hlp[X, Y any](x X, y Y) Y {\n\treturn y\n}", "\treturn hlp(1, \"a\") == \"a\"")
	addF("generic-func-value", "func hlp[X func()](x X) {\n\tx()\n}", "\thlp(func() {})\n\treturn true")
	addF("generic-func-string-constraint", "func hlp[X ~string](x X) int {\n\treturn len(x)\n}", "\treturn hlp(\"a\") == 1")
	addF("method-value-recv", "type MT int\n\nfunc (MT) Get() int {\n\treturn 1\n}\n\nvar gmt MT", "\treturn gmt.Get() == 1")
	addF("method-pointer-recv", "type MT struct{ n int }\n\nfunc (*MT) Get() int {\n\treturn 1\n}\n\nvar gmt *MT", "\treturn gmt.Get() == 1")
	addF("method-uses-recv", "type MT int\n\nfunc (m MT) Get() int {\n\treturn int(m)\n}\n\nvar gmt MT", "\treturn gmt.Get() == 1")
	addF("method-recv-field", "type MT struct{ n int }\n\nfunc (m *MT) Get() int {\n\treturn m.n\n}\n\nvar gmt *MT", "\treturn gmt.Get() == 1")
	addF("method-on-generic", "func (g G[X]) Get() X {\n\treturn g.v\n}", "\treturn gg.Get() == 1")
	addF("method-and-func-same-name", "type MT int\n\nfunc (MT) hlp() int {\n\treturn 1\n}\n\nfunc hlp() int {\n\treturn 2\n}", "\treturn hlp() == 2")
	addF("method-named-like-filter", "type MT int\n\nfunc (MT) flt() int {\n\treturn 1\n}", "\treturn true")
	addF("func-blank-name", "func _() int {\n\treturn gi\n}\n\nfunc _(a int) {}", "\treturn true")
	addF("func-main", "func main() {}", "\tmain()\n\treturn true")
	addF("func-init-empty", "func init() {}", "\treturn true")
	addF("func-init-two", "func init() {}\n\nfunc init() {}", "\treturn true")
	addF("func-init-other-stmt", "func init() {\n\tgi = 1\n}", "\treturn true")
	addF("func-init-other-call", "func init() {\n\thV(\"a\")\n}", "\treturn true")
	addF("func-recursive", "func hlp(a int) int {\n\tif a == 0 {\n\t\treturn 0\n\t}\n\treturn hlp(a - 1)\n}", "\treturn hlp(1) == 0")
	addF("func-mutual-recursion", "func hlp(a int) int {\n\tif a == 0 {\n\t\treturn 0\n\t}\n\treturn hlp2(a - 1)\n}\n\nfunc hlp2(a int) int {\n\treturn hlp(a)\n}", "\treturn hlp(1) == 0")
	addF("func-shadows-builtin", "func len(s string) int {\n\treturn 3\n}\n\nfunc println(s string) {}", "\tprintln(\"a\")\n\treturn len(\"a\") == 3")
	addF("var-shadows-true", "const true = false", "\treturn true")
	addF("var-shadows-nil", "var nil = 0", "\treturn ctx.SizeOf(ctx.Type) == nil")
	addF("func-named-like-native", "func String() string {\n\treturn \"\"\n}\n\nfunc Underlying() int {\n\treturn 1\n}", "\treturn String() == \"\" && Underlying() == 1")
	addF("func-empty-body", "func hlp(a int) {}", "\thlp(1)\n\treturn true")
	addF("func-no-return-at-end", "func hlp(a int) int {\n\tfor {\n\t}\n}", "\treturn hlp(1) == 1")
	addF("func-only-panic", "func hlp(a int) int {\n\tpanic(\"x\")\n}", "\treturn hlp(1) == 1")
	addF("func-result-paren-void", "func hlp(a int) () {\n\treturn\n}", "\thlp(1)\n\treturn true")
	addF("func-called-in-var-init", "func hlp() int {\n\treturn 1\n}\n\nvar gh = hlp()", "\treturn true")
	addF("var-holds-func", "func hlp() int {\n\treturn 1\n}\n\nvar gh = hlp", "\treturn gh() == 1")
	addF("type-local-to-file-in-signature", "type LT struct{ n int }\n\nfunc hlp(p *LT) *LT {\n\treturn p\n}", "\treturn hlp(nil) == nil")
	addF("iface-local-to-file-in-signature", "type LI interface{ M() int }\n\nfunc hlp(p LI) LI {\n\treturn p\n}", "\treturn hlp(nil) == nil")
	addF("alias-in-signature", "type LA = int\n\ntype LS = string\n\nfunc hlp(a LA, s LS) LA {\n\treturn a + len(s)\n}", "\treturn hlp(1, \"a\") == 2")
	addF("typeparam-typed-param-int-arg", "func hlp[X any](x X) bool {\n\treturn true\n}", "\treturn hlp(ctx.SizeOf(ctx.Type))")
	// the filter / Do function itself
	filterShapes := []struct{ kind, decl string }{
		{"filter-unnamed-ctx", "func flt(*dsl.VarFilterContext) bool {\n\treturn true\n}"},
		{"filter-blank-ctx", "func flt(_ *dsl.VarFilterContext) bool {\n\treturn true\n}"},
		{"filter-named-result", "func flt(ctx *dsl.VarFilterContext) (ok bool) {\n\tok = ctx.SizeOf(ctx.Type) > 1\n\treturn ok\n}"},
		{"filter-naked-return", "func flt(ctx *dsl.VarFilterContext) (ok bool) {\n\treturn\n}"},
		{"filter-ctx-named-like-package", "func flt(dsl *dsl.VarFilterContext) bool {\n\treturn dsl.SizeOf(dsl.Type) > 1\n}"},
		{"filter-ctx-named-types", "func flt(types *dsl.VarFilterContext) bool {\n\treturn types.Type.String() == \"int\"\n}"},
		{"filter-empty-loop", "func flt(ctx *dsl.VarFilterContext) bool {\n\tfor {\n\t}\n}"},
		{"filter-generic", "func fltg[X any](ctx *dsl.VarFilterContext) bool {\n\treturn true\n}\n\nfunc flt(ctx *dsl.VarFilterContext) bool {\n\treturn fltg[int](ctx)\n}"},
		{"filter-calls-filter", "func flt0(ctx *dsl.VarFilterContext) bool {\n\treturn true\n}\n\nfunc flt(ctx *dsl.VarFilterContext) bool {\n\treturn flt0(ctx) && !flt0(ctx)\n}"},
		{"filter-passes-nil-ctx", "func flt0(ctx *dsl.VarFilterContext) bool {\n\treturn ctx == nil\n}\n\nfunc flt(ctx *dsl.VarFilterContext) bool {\n\treturn flt0(nil)\n}"},
		{"filter-field-of-ctx-value", "func flt(ctx *dsl.VarFilterContext) bool {\n\tc := *ctx\n\treturn c.Type != nil\n}"},
		{"filter-unknown-native-method", "func flt(ctx *dsl.VarFilterContext) bool {\n\treturn types.AsSlice(ctx.Type).Elem().Underlying().String() == types.NewPointer(ctx.Type).String()\n}"},
		{"filter-native-method-value", "func flt(ctx *dsl.VarFilterContext) bool {\n\tf := ctx.Type.String\n\treturn f() == \"\"\n}"},
		{"filter-native-method-expr", "func flt(ctx *dsl.VarFilterContext) bool {\n\treturn (*dsl.VarFilterContext).SizeOf(ctx, ctx.Type) == 1\n}"},
		{"filter-native-func-value", "func flt(ctx *dsl.VarFilterContext) bool {\n\tf := types.Identical\n\treturn f(ctx.Type, ctx.Type)\n}"},
		{"filter-paren-callee", "func flt(ctx *dsl.VarFilterContext) bool {\n\treturn (types.Identical)(ctx.Type, (ctx.Type)) && (hB)(1) && (ctx.SizeOf)(ctx.Type) == 1 && ((ctx).Type).String() == \"\"\n}"},
	}
	for _, s := range filterShapes {
		addRaw(s.kind, c06fPrelude+"\n"+s.decl+"\n\n"+c06fFilterRule)
	}
	doShapes := []struct{ kind, decl string }{
		{"do-unnamed-ctx", "func act(*dsl.DoContext) {}"},
		{"do-empty", "func act(ctx *dsl.DoContext) {}"},
		{"do-report-suggest", "func act(ctx *dsl.DoContext) {\n\tctx.SetReport(ctx.Var(\"x\").Text() + \"!\")\n\tctx.SetSuggest(ctx.Var(\"x\").Type().String())\n}"},
		{"do-return-early", "func act(ctx *dsl.DoContext) {\n\tif ctx.Var(\"x\").Text() == \"\" {\n\t\treturn\n\t}\n\tctx.SetReport(\"r\")\n}"},
		{"do-var-value-kept", "func act(ctx *dsl.DoContext) {\n\tv := ctx.Var(\"x\")\n\tif v != nil {\n\t\tctx.SetReport(v.Text())\n\t}\n}"},
		{"do-ctx-reassigned", "func act(ctx *dsl.DoContext) {\n\tctx = nil\n}"},
		{"do-calls-filter-helper", "func act(ctx *dsl.DoContext) {\n\tif hB(len(ctx.Var(\"x\").Text())) {\n\t\tctx.SetReport(hS(\"r\"))\n\t}\n}"},
	}
	for _, s := range doShapes {
		addRaw(s.kind, c06fPrelude+"\n"+s.decl+"\n\n"+c06fDoRule)
	}
	return out
}

func c06fDist(mode, kind string) string { return fmt.Sprintf("fn:%s:%s", mode, kind) }
