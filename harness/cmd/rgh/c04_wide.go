package main

// The wide argument search of C04.
//
// The ordinary stream runs every function on a handful of drawn argument tuples.  That is enough to see
// that a function's *bytecode* is not the model's, but not always enough to reach the statement that
// misbehaves (a `break` behind a nested loop that only some arguments get to).  Functions that are
// suspicious — their compiled form differs from the model's, one of their calls answered differently from
// the model, or they call such a function — and a seeded sample of the other functions with loops or calls
// are therefore run again over a structured argument set: boundary ints, every bool combination, strings
// of several lengths and contents, as a full product when it is small and as a covering sample otherwise.
// The new tuples go through the same pipeline as the drawn ones (model, real VM in the child process with
// its deadline, reference semantics, `go run`), so the first tuple on which quasigo.Call and Go disagree
// is reported as a violation with that tuple as its witness.

import (
	"fmt"
	"go/types"
	"math"
	"math/rand"
	"sort"
	"strings"

	"verifharness/hx"
)

var qWideInts = []int{0, 1, -1, 2, 3, 4, 5, 6, 7, 8, 9, 10, 11, -2, -7, 16, 100, 255, 256, 257, 65535, 65536,
	math.MaxInt32, math.MaxInt32 + 1, math.MinInt32, 1 << 62, math.MaxInt64 - 1, math.MaxInt64, math.MinInt64, math.MinInt64 + 1}

var qWideStrs = []string{"", "a", "b", "ab", "ba", "abc", "abcd", "hello", "hello, world", "x", "é", "日本", "foo bar", "\xff\x00",
	"12", "-7", "+3", "007", "x1", "a b c d e f", strings.Repeat("ab", 20)}

// qWideDomain is the value set of one parameter: (values, protocol forms).
func qWideDomain(ty string) ([]interface{}, []string) {
	var vs []interface{}
	var ps []string
	switch ty {
	case "int":
		for _, v := range qWideInts {
			vs = append(vs, v)
			ps = append(ps, fmt.Sprintf("i:%d", v))
		}
	case "str":
		for _, v := range qWideStrs {
			vs = append(vs, v)
			ps = append(ps, "s:"+hx.HexS(v))
		}
	default:
		vs = []interface{}{false, true}
		ps = []string{"b:0", "b:1"}
	}
	return vs, ps
}

// qWideTuples builds at most max argument tuples for sig: the full product of the parameter domains when it
// fits; otherwise every bool combination crossed with a covering of the other parameters (each value of each
// parameter appears, the other positions rotate through their domains) and drawn tuples up to the cap.
func qWideTuples(sig *types.Signature, r *rand.Rand, max int) ([]string, [][]interface{}) {
	n := sig.Params().Len()
	if n == 0 {
		return nil, nil
	}
	doms := make([][]interface{}, n)
	forms := make([][]string, n)
	product := 1
	var bools, others []int
	for i := 0; i < n; i++ {
		ty := qTyS(sig.Params().At(i).Type())
		doms[i], forms[i] = qWideDomain(ty)
		if product <= max {
			product *= len(doms[i])
		}
		if ty == "bool" {
			bools = append(bools, i)
		} else {
			others = append(others, i)
		}
	}
	var ts []string
	var as [][]interface{}
	seen := map[string]bool{}
	add := func(ix []int) {
		if len(ts) >= max {
			return
		}
		parts := make([]string, n)
		vals := make([]interface{}, n)
		for i, j := range ix {
			parts[i], vals[i] = forms[i][j], doms[i][j]
		}
		s := strings.Join(parts, ",")
		if seen[s] {
			return
		}
		seen[s] = true
		ts = append(ts, s)
		as = append(as, vals)
	}
	if product <= max {
		ix := make([]int, n)
		for {
			add(ix)
			i := n - 1
			for ; i >= 0; i-- {
				ix[i]++
				if ix[i] < len(doms[i]) {
					break
				}
				ix[i] = 0
			}
			if i < 0 {
				break
			}
		}
		return ts, as
	}
	nb := len(bools)
	if nb > 6 {
		nb = 6
	}
	// covering rows of the non-bool parameters
	var rows [][]int
	longest := 0
	for _, i := range others {
		if len(doms[i]) > longest {
			longest = len(doms[i])
		}
	}
	for _, lead := range others {
		for j := 0; j < len(doms[lead]); j++ {
			row := make([]int, n)
			for _, i := range others {
				row[i] = (j + 3*i + lead) % len(doms[i])
			}
			row[lead] = j
			rows = append(rows, row)
		}
	}
	if len(rows) == 0 {
		rows = [][]int{make([]int, n)}
	}
	// spread the bool combinations over the rows so that the cap cuts neither dimension short
	perCombo := max / 2 / (1 << nb)
	if perCombo < 1 {
		perCombo = 1
	}
	for combo := 0; combo < 1<<nb; combo++ {
		for k := 0; k < perCombo && k < len(rows); k++ {
			row := append([]int(nil), rows[(k*(1<<nb)+combo)%len(rows)]...)
			for b := 0; b < nb; b++ {
				row[bools[b]] = (combo >> b) & 1
			}
			for b := nb; b < len(bools); b++ {
				row[bools[b]] = r.Intn(2)
			}
			add(row)
		}
	}
	for tries := 0; len(ts) < max && tries < 4*max; tries++ {
		row := make([]int, n)
		for i := range row {
			row[i] = r.Intn(len(doms[i]))
		}
		add(row)
	}
	return ts, as
}

// c04Wide selects the functions, adds the wide tuples and evaluates them (suite "eval-wide").
func c04Wide(c *Ctx, rr *qReal, cases []*qCase, stress map[*qCase][][]interface{}, bytesDiffer map[*qCase]map[int]bool) error {
	res := c.Res
	perFunc, maxSuspicious, nSample := 160, 40, 12
	if c.Thorough {
		perFunc, maxSuspicious, nSample = 400, 150, 120
	}
	r := hx.Rng(c.Seed, "c04-wide")
	type cand struct {
		qc  *qCase
		fi  int
		why string
	}
	var suspicious, rest []cand
	for _, qc := range cases {
		if _, ok := stress[qc]; ok {
			continue // the stress programs have their own fixed arguments around the encoding limits
		}
		why := make([]string, len(qc.funcs))
		for fi := range qc.funcs {
			if bytesDiffer[qc][fi] {
				why[fi] = "bytes-differ" // its own bytes or those of a function it calls
				continue
			}
			for k, im := range qc.evals[fi] {
				m := qc.model[fi][k]
				if im != "skipped" && im != "not-run" && m != "unsup" && m != "fuel" && m != "oom" && m != "bad" && im != m {
					why[fi] = "call-differs"
					break
				}
			}
		}
		// callers of a suspicious function (a function may call the functions before it)
		for fi := range qc.funcs {
			if why[fi] != "" {
				continue
			}
			body := qc.file[qc.declOffset(fi):qc.declEnd(fi)]
			for fj := 0; fj < fi; fj++ {
				if why[fj] != "" && strings.Contains(body, qc.decls[fj].Name.Name+"(") {
					why[fi] = "calls-suspicious"
					break
				}
			}
		}
		for fi := range qc.funcs {
			if qc.sigs[fi].Params().Len() == 0 || !qPlainParams(qc.sigs[fi]) {
				continue
			}
			if why[fi] != "" {
				suspicious = append(suspicious, cand{qc, fi, why[fi]})
				continue
			}
			body := qc.file[qc.declOffset(fi):qc.declEnd(fi)]
			if strings.Contains(body, "for ") || strings.Contains(body, "_f") {
				rest = append(rest, cand{qc, fi, "sampled"})
			}
		}
	}
	// smallest suspicious functions first: the witness is the first failing tuple of the smallest function
	sort.SliceStable(suspicious, func(i, j int) bool {
		a, b := suspicious[i], suspicious[j]
		return a.qc.declEnd(a.fi)-a.qc.declOffset(a.fi) < b.qc.declEnd(b.fi)-b.qc.declOffset(b.fi)
	})
	if len(suspicious) > maxSuspicious {
		res.Notes = append(res.Notes, fmt.Sprintf("wide search: %d suspicious functions, the %d smallest searched", len(suspicious), maxSuspicious))
		suspicious = suspicious[:maxSuspicious]
	}
	r.Shuffle(len(rest), func(i, j int) { rest[i], rest[j] = rest[j], rest[i] })
	if len(rest) > nSample {
		rest = rest[:nSample]
	}
	var items []qItem
	for _, cd := range append(suspicious, rest...) {
		ts, as := qWideTuples(cd.qc.sigs[cd.fi], r, perFunc)
		lo, hi := cd.qc.addTuples(cd.fi, ts, as)
		if hi == lo {
			continue
		}
		cd.qc.wideWhy[cd.fi] = cd.why
		res.Dist("wide:function:" + cd.why)
		res.Distribution["wide:tuples"] += hi - lo
		items = append(items, qItem{cd.qc, cd.fi, lo, hi})
	}
	if len(items) == 0 {
		return nil
	}
	return c04EvalItems(c, rr, items, "eval-wide", bytesDiffer)
}

func (c *qCase) declOffset(fi int) int { return c.offsets[fi][0] }
func (c *qCase) declEnd(fi int) int    { return c.offsets[fi][1] }
