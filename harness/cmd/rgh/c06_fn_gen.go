package main

// C06, generator of custom filter / Do function declarations over the Go grammar (expressions).
//
// Everything the generator writes type-checks by construction (files that do not are counted and show up as
// `notgo`, which the property covers too).  Expressions come from a table of productions: result type, construct
// kind, whether the construct is inside the subset quasigo accepts, and a template whose holes `$type$` are filled
// recursively.  Statements are in c06_fn_stmt.go.

import (
	"fmt"
	"math/rand"
	"regexp"
	"strings"
)

// the declarations every function file starts with: types, variables and constants of every kind a body can
// refer to (GenDecls are copied into the custom declarations, not compiled), plus a few functions and methods
// that are inside the accepted subset (every FuncDecl of a rules file is compiled, in order).
const c06fPrelude = `package gorules

import (
	"github.com/quasilyte/go-ruleguard/dsl"
	"github.com/quasilyte/go-ruleguard/dsl/types"
)

var _ types.Type

type S struct {
	n  int
	s  string
	b  bool
	p  *S
	xs []int
	f  func() int
}

type P struct {
	n int
	s string
}

type E struct{ P }

type T int

type Str string

type I interface{ M() int }

type F func()

type FB func(int) bool

type G[X any] struct{ v X }

type Num interface{ ~int | ~int64 }

var (
	gi   int
	gs   string
	gb   bool
	gfl  float64
	gby  byte
	gr   rune
	gu   uint
	gi64 int64
	gc   complex128
	gxs  []int
	gss  []string
	gbs  []byte
	gm   map[string]int
	gmb  map[string]bool
	gmis map[int]string
	gch  chan int
	gchb chan bool
	gp   *S
	gst  S
	gpv  P
	ge2  E
	gif  I
	ge   error
	gany interface{}
	garr [3]int
	gpi  *int
	gt   T
	gstr Str
	gf   F
	gfb  FB
	gfv  func()
	gfi  func() int
	gtwo func() (int, string)
	gvar func(...int) int
	gg   G[int]
)

const (
	ci          = 7
	cs          = "k"
	cb          = true
	cf          = 1.5
	cr          = 'x'
	cc          = 2i
	cbig        = 1 << 70
	cu   uint64 = 1<<64 - 1
	ci8  int8   = -128
	cti  int    = 9
)

func (T) M() int { return 1 }

func (T) B() bool { return true }

func (T) V() {}

func (*S) PM() int { return 2 }

func hI(a int, s string) int { return a + len(s) }

func hS(s string) string { return s + "x" }

func hB(a int) bool { return a > 0 }

func hV(s string) {}

func hT(t types.Type) types.Type { return t.Underlying() }

func gid[X any](x X) X { return x }
`

const (
	c06fSub  = 1 << iota // inside the subset quasigo accepts (when its holes are)
	c06fLeaf             // no holes of an ordinary type: usable when the depth budget is gone
	c06fFlt              // needs the *dsl.VarFilterContext parameter
	c06fDo               // needs the *dsl.DoContext parameter
	c06fTy               // needs a types.Type source (ctx or the helper's t parameter)
)

type c06fProd struct {
	ty    string
	kind  string
	flags int
	tpl   string
}

var c06fTable []c06fProd

func c06fP(ty, kind string, flags int, tpls ...string) {
	for _, t := range tpls {
		c06fTable = append(c06fTable, c06fProd{ty, kind, flags, t})
	}
}

func init() {
	const S, L = c06fSub, c06fLeaf
	p := c06fP
	// ---------- int
	p("int", "int-literal", S|L, "0", "1", "2", "3", "7", "10", "100", "255", "256", "65535", "65536", "-1", "0x7f", "0o17", "0b101", "1_000", "int('a')")
	p("int", "int-named-const", S|L, "ci", "cti", "int(ci8)", "int(cr)", "(ci + 1)", "len(cs)", `len("abc")`, "len(garr)")
	p("int", "nonconst", S, "$nint$")
	p("int", "paren", S, "($int$)")
	p("int", "add", S, "($int$ + $int$)", "($nint$ + $int$)")
	p("int", "sub", S, "($int$ - $int$)", "($nint$ - $int$)")
	p("int", "mul", 0, "($nint$ * $int$)")
	p("int", "quo", 0, "($nint$ / 3)")
	p("int", "rem", 0, "($nint$ % 3)")
	p("int", "bit-and", 0, "($nint$ & $int$)")
	p("int", "bit-or", 0, "($nint$ | $int$)")
	p("int", "bit-xor", 0, "($nint$ ^ $int$)")
	p("int", "bit-andnot", 0, "($nint$ &^ $int$)")
	p("int", "shl", 0, "($nint$ << 2)", "(cti << uint($nint$))")
	p("int", "shr", 0, "($nint$ >> 1)")
	p("int", "unary-minus", 0, "(-$nint$)")
	p("int", "unary-plus", 0, "(+$nint$)")
	p("int", "unary-xor", 0, "(^$nint$)")
	p("int", "call-user", S, "hI($int$, $string$)")
	p("int", "call-generic", 0, "gid($int$)", "gid[int]($nint$)")
	p("int", "global-read", L, "gi")
	p("int", "index-slice", 0, "gxs[$nat$]", "$[]int$[$nat$]", "gxs[$nint$]")
	p("int", "index-array", 0, "garr[$nat$]", "$[3]int$[$nat$]")
	p("int", "index-map", 0, "gm[$string$]", "$map[string]int$[$string$]")
	p("int", "deref", 0, "*gpi", "*$*int$", "(*gp).n")
	p("int", "field", 0, "gst.n", "gp.n", "$S$.n", "$*S$.n", "gp.p.n", "gg.v", "(G[int]{v: $int$}).v", "ge2.n", "ge2.P.n")
	p("int", "method-call", 0, "gt.M()", "gif.M()", "$T$.M()", "gp.PM()", "gst.PM()", "$I$.M()")
	p("int", "method-value", 0, "(gt.M)()")
	p("int", "method-expr", 0, "T.M(gt)", "(*S).PM(gp)", "I.M(gif)")
	p("int", "conversion", 0, "int(gfl)", "int(gby)", "int(gi64)", "int($T$)", "int($nint$)", "int($nfloat$)", "int(gu)", "int(gr)")
	p("int", "type-assert", 0, "gany.(int)", "$any$.(int)")
	p("int", "funclit-call", 0, "func() int { return $int$ }()", "(func(a int) int { return a })($int$)")
	p("int", "func-value-call", 0, "gfi()", "gst.f()", "gvar($int$, $int$)", "gvar(gxs...)", "gvar()")
	p("int", "len-string", S, "len($nstr$)")
	p("int", "len-other", 0, "len(gxs)", "len($[]int$)", "len(gm)", "len(gch)", "len(gss)", "len(gbs)", "len($map[string]int$)", "len(gstr)")
	p("int", "cap", 0, "cap(gxs)", "cap($[]int$)", "cap(gch)")
	p("int", "copy", 0, "copy(gxs, $[]int$)", "copy(gbs, $string$)")
	p("int", "min-max", 0, "min($nint$, $int$)", "max($nint$, $int$, 3)")
	p("int", "receive", 0, "<-gch", "<-$chan int$")
	p("int", "complex-parts", 0, "int(real(gc))", "int(imag($complex128$))")
	p("int", "types-native", S|c06fTy, "types.AsArray($ty$).Len()", "types.AsStruct($ty$).NumFields()")
	p("int", "sizeof-native", S|c06fFlt, "ctx.SizeOf($ty$)")
	// non-constant int sources inside the subset
	p("nint", "ctx-int", S|L|c06fFlt, "ctx.SizeOf(ctx.Type)")
	p("nint", "ctx-int", S|L|c06fDo, `len(ctx.Var("x").Text())`)
	p("nint", "call-user", S, "hI($int$, $string$)")
	p("nint", "len-string", S, "len($nstr$)")
	// ---------- string
	p("string", "string-literal", S|L, `""`, `"a"`, `"abc"`, "`raw`", `"\x00\xff"`, `"é\n"`, `"`+strings.Repeat("long ", 60)+`"`)
	p("string", "string-named-const", S|L, "cs", `(cs + "x")`, "string(cr)")
	p("string", "nonconst", S, "$nstr$")
	p("string", "paren", S, "($string$)")
	p("string", "concat", S, "($string$ + $string$)", "($nstr$ + $string$)")
	p("string", "slice-string", S, "$nstr$[$nat$:]", "$nstr$[:$nat$]", "$nstr$[0:$nat$]", "$nstr$[:]", "$nstr$[$nint$:$nint$]")
	p("string", "slice3", 0, "string(gbs[0:1:2])", "string($[]byte$[0:1:1])")
	p("string", "conversion", 0, "string(gbs)", "string(gr)", "string(rune($nint$))", "string(gstr)", "string($[]byte$)", "string($Str$)", "string($nstr$)")
	p("string", "index-slice", 0, "gss[$nat$]", "$[]string$[0]")
	p("string", "index-map", 0, "gmis[$int$]")
	p("string", "field", 0, "gst.s", "gp.s", "$S$.s", "gpv.s")
	p("string", "global-read", L, "gs")
	p("string", "method-call", 0, "ge.Error()", "$error$.Error()")
	p("string", "type-assert", 0, "gany.(string)")
	p("string", "call-user", S, "hS($string$)")
	p("string", "call-generic", 0, "gid($string$)")
	p("string", "funclit-call", 0, "func() string { return $string$ }()")
	p("string", "types-native", S|c06fTy, "$ty$.String()", "$ty$.Underlying().String()", "types.AsPointer($ty$).Elem().String()", "types.AsPointer($ty$).String()")
	p("nstr", "ctx-string", S|L|c06fFlt, "ctx.Type.String()")
	p("nstr", "ctx-string", S|L|c06fDo, `ctx.Var("x").Text()`, `ctx.Var("y").Type().String()`)
	p("nstr", "call-user", S, "hS($string$)")
	// ---------- bool
	p("bool", "bool-literal", S|L, "true", "false", "cb", "(cb && true)")
	p("bool", "paren", S, "($bool$)")
	p("bool", "not", S, "!($bool$)", "!hB($int$)")
	p("bool", "and", S, "($bool$ && $bool$)")
	p("bool", "or", S, "($bool$ || $bool$)")
	p("bool", "cmp-int", S, "$int$ == $int$", "$int$ != $int$", "$int$ < $int$", "$int$ <= $int$", "$int$ > $int$", "$int$ >= $int$", "$nint$ == $int$", "$nint$ < $int$")
	p("bool", "cmp-int-edge", S, "$nint$ == 9223372036854775807", "$nint$ > -9223372036854775808", "$nint$ != 4611686018427387904")
	p("bool", "cmp-string-eq", S, "$string$ == $string$", "$string$ != $string$", "$nstr$ == $string$")
	p("bool", "cmp-string-order", 0, "$nstr$ < $string$", "$nstr$ >= $string$")
	p("bool", "cmp-other-types", 0, "gfl == 1.5", "$float64$ < 2", "gby == 1", "gi64 > 0", "gu != 0", "gc == 0", "gr == 'x'", "$T$ == 1", "gstr == \"a\"", "gb == true", "$nfloat$ != cf")
	p("bool", "cmp-nil", 0, "gp == nil", "ge != nil", "gxs == nil", "gm == nil", "gany != nil", "gf == nil", "gch == nil", "nil == gp", "nil != gif", "gfv != nil")
	p("bool", "cmp-nil-native", S|c06fTy, "$ty$ == nil", "$ty$ != nil", "types.AsPointer($ty$) != nil", "nil == $ty$")
	p("bool", "cmp-composite", 0, "gpv == gpv", "$P$ == $P$", "garr == garr", "gif == gif", "gany == gany", "gany == 1", "gp == gp", "gch == gch", "$[3]int$ != garr")
	p("bool", "cmp-native-iface", c06fTy, "$ty$ == $ty$", "$ty$ != $ty$")
	p("bool", "global-read", L, "gb")
	p("bool", "index-map", 0, `gmb["k"]`, "gmb[$string$]")
	p("bool", "receive", 0, "<-gchb")
	p("bool", "field", 0, "gst.b", "gp.b")
	p("bool", "method-call", 0, "gt.B()", "$T$.B()")
	p("bool", "type-assert", 0, "gany.(bool)")
	p("bool", "call-user", S, "hB($int$)")
	p("bool", "call-generic", 0, "gid($bool$)")
	p("bool", "func-value-call", 0, "gfb($int$)")
	p("bool", "funclit-call", 0, "func() bool { return $bool$ }()")
	p("bool", "types-native", S|c06fTy, "types.Identical($ty$, $ty$)", "types.Implements($ty$, $iface$)", "types.AsStruct($ty$).Field(0).Embedded()")
	// ---------- types.Type and friends (natives of the dsl)
	p("ty", "ctx-type", S|L|c06fFlt, "ctx.Type", "ctx.GetType(`[]int`)", "ctx.GetType(`error`)")
	p("ty", "ctx-type", S|L|c06fDo, `ctx.Var("x").Type()`)
	p("ty", "types-native", S|c06fTy, "$ty$.Underlying()", "types.AsPointer($ty$).Elem()", "types.AsSlice($ty$).Elem()", "types.AsArray($ty$).Elem()", "types.AsStruct($ty$).Field($int$).Type()", "hT($ty$)")
	p("ty", "types-new", c06fTy, "types.Type(types.NewSlice($ty$))", "types.Type(types.NewPointer($ty$))", "types.Type(types.NewArray($ty$, $int$))")
	p("iface", "ctx-iface", S|L|c06fFlt, "ctx.GetInterface(`error`)", "ctx.GetInterface(`io.Reader`)")
	p("iface", "types-native", S|c06fTy, "types.AsInterface($ty$)")
	// ---------- types outside the subset: where their values come from
	p("float64", "float-value", L, "gfl", "1.5", "cf", "1e300", "0x1p-2", "float64(cbig)")
	p("uint64", "uint64-value", L, "cu", "uint64(1 << 63)", "uint64(gu)")
	p("float64", "float-value", 0, "float64($nint$)", "($float64$ + $float64$)", "($nfloat$ * 2)", "(-$nfloat$)")
	p("nfloat", "float-value", L, "gfl")
	p("nfloat", "float-value", 0, "float64($nint$)")
	p("complex128", "complex-value", L, "gc", "cc", "2i", "(1 + 2i)")
	p("complex128", "complex-value", 0, "complex($nfloat$, 1)")
	p("byte", "byte-value", L, "gby")
	p("byte", "byte-value", 0, "$nstr$[0]", "byte($nint$)", "gbs[$nat$]")
	p("[]int", "slice-value", L, "gxs", "[]int(nil)", "garr[:]", "([]int{})")
	p("[]int", "slice-value", 0, "([]int{$int$, $int$})", "([]int{2: $int$})", "make([]int, $nat$)", "make([]int, $nat$, 10)", "append($[]int$, $int$)", "append(gxs, gxs...)", "gxs[$nat$:]", "gxs[:$nat$]", "gxs[0:1:2]", "gst.xs")
	p("[]string", "slice-value", L, "gss")
	p("[]string", "slice-value", 0, "([]string{$string$})", "append(gss, $string$)")
	p("[]byte", "slice-value", L, "gbs")
	p("[]byte", "slice-value", 0, "[]byte($string$)", "append(gbs, $string$...)")
	p("map[string]int", "map-value", L, "gm", "(map[string]int{})", "make(map[string]int)", "map[string]int(nil)")
	p("map[string]int", "map-value", 0, `(map[string]int{"a": $int$, "b": 2})`, "make(map[string]int, $nat$)")
	p("*S", "pointer-value", L, "gp", "(&gst)", "new(S)", "(&S{})", "(*S)(nil)")
	p("*S", "pointer-value", 0, "(&S{n: $int$})", "gp.p")
	p("S", "struct-value", L, "gst", "(S{})", "(*gp)")
	p("S", "struct-value", 0, "(S{n: $int$, s: $string$})", "(S{$int$, $string$, $bool$, nil, nil, nil})")
	p("P", "struct-value", L, "gpv", "(P{})", "ge2.P")
	p("P", "struct-value", 0, "(P{$int$, $string$})", "(P{s: $string$})")
	p("I", "interface-value", L, "gif", "I(gt)", "I(nil)")
	p("error", "interface-value", L, "ge", "error(nil)")
	p("any", "interface-value", L, "gany", "any(nil)")
	p("any", "interface-value", 0, "any($int$)", "interface{}($string$)", "any($S$)")
	p("chan int", "chan-value", L, "gch", "make(chan int)", "make(chan int, 1)", "(chan int)(nil)")
	p("[3]int", "array-value", L, "garr", "([3]int{1, 2, 3})", "([...]int{1, 2, 3})", "([3]int{})")
	p("[3]int", "array-value", 0, "([3]int{$int$, 2, 3})", "([...]int{2: $int$})")
	p("*int", "pointer-value", L, "gpi", "(&gi)", "new(int)", "(&garr[0])", "(&gst.n)")
	p("T", "named-int-value", L, "gt", "T(3)")
	p("T", "named-int-value", 0, "T($int$)")
	p("Str", "named-string-value", L, "gstr", `Str("a")`)
	p("Str", "named-string-value", 0, "Str($string$)")
	p("func() int", "func-value", L, "gfi", "gt.M", "gst.f", "gp.PM")
	p("func() int", "func-value", 0, "func() int { return $int$ }")
}

type c06fVar struct {
	name string
	ty   string
}

// c06fGen: one function body at a time
type c06fGen struct {
	r      *rand.Rand
	ctx    string // "filter" | "do" | "helper" (parameters a int, s string, t types.Type) | "none"
	ret    string // result type of the function being written ("" = none)
	subset bool   // only productions inside the accepted subset (types outside it: leaves only)
	kinds  map[string]int
	locals []c06fVar // visible locals, innermost last
	nloc   int       // locals declared so far in this function (quasigo: at most 8, unique names)
	nlab   int
	loop   int             // depth of enclosing for statements
	brk    int             // depth of enclosing statements a plain break may leave
	budget int             // expression nodes left
	only   map[string]bool // when set: expression kinds allowed outside the subset (nil = all)
	wild   bool            // whole-grammar mode: every other statement is taken from the subset (the first refusal ends a compilation)
}

func (g *c06fGen) hit(kind string) {
	if g.kinds != nil {
		g.kinds[kind]++
	}
}

func (g *c06fGen) usable(p *c06fProd) bool {
	if p.flags&c06fFlt != 0 && g.ctx != "filter" {
		return false
	}
	if p.flags&c06fDo != 0 && g.ctx != "do" {
		return false
	}
	if p.flags&c06fTy != 0 && g.ctx == "none" {
		return false
	}
	return true
}

var c06fHoleRE = regexp.MustCompile(`\$([^$]+)\$`)

// fill: the template with its holes filled at depth d
func (g *c06fGen) fill(tpl string, d int) string {
	return c06fHoleRE.ReplaceAllStringFunc(tpl, func(h string) string {
		return g.expr(h[1:len(h)-1], d)
	})
}

// expr: an expression of type ty (one of the table's types, or nat)
func (g *c06fGen) expr(ty string, d int) string {
	switch ty {
	case "nat":
		return fmt.Sprint(g.r.Intn(3))
	case "ty":
		if g.ctx == "helper" && (d <= 0 || g.r.Intn(2) == 0) {
			return "t"
		}
	case "nint":
		if g.ctx == "helper" && (d <= 0 || g.r.Intn(2) == 0) {
			return "a"
		}
	case "nstr":
		if g.ctx == "helper" && (d <= 0 || g.r.Intn(2) == 0) {
			return "s"
		}
	case "nfloat":
		if g.ctx == "none" {
			return "gfl"
		}
	}
	if g.ctx == "none" { // a body with no parameters at all: globals stand in for the non-constant sources
		switch ty {
		case "nint":
			return "gi"
		case "nstr":
			return "gs"
		}
	}
	g.budget--
	// a local of the type, when there is one
	if ty == "int" || ty == "string" || ty == "bool" || ty == "nint" || ty == "nstr" {
		want := strings.TrimPrefix(ty, "n")
		if want == "str" {
			want = "string"
		}
		var vs []string
		for _, v := range g.locals {
			if v.ty == want {
				vs = append(vs, v.name)
			}
		}
		if len(vs) > 0 && g.r.Intn(3) == 0 {
			g.hit("local-read")
			return vs[g.r.Intn(len(vs))]
		}
	}
	leafOnly := d <= 0 || g.budget <= 0
	var cands []*c06fProd
	for i := range c06fTable {
		p := &c06fTable[i]
		if p.ty != ty || !g.usable(p) {
			continue
		}
		if leafOnly && p.flags&c06fLeaf == 0 {
			continue
		}
		if g.subset && p.flags&c06fSub == 0 && !(p.flags&c06fLeaf != 0 && !c06fSubsetType(ty)) {
			continue
		}
		if !g.subset && g.only != nil && p.flags&c06fSub == 0 && !g.only[p.kind] {
			continue
		}
		cands = append(cands, p)
	}
	if len(cands) == 0 && leafOnly {
		// no leaf of this type: the shallowest production there is
		for i := range c06fTable {
			p := &c06fTable[i]
			if p.ty == ty && g.usable(p) && (!g.subset || p.flags&c06fSub != 0) {
				cands = append(cands, p)
			}
		}
	}
	if len(cands) == 0 {
		panic("c06 generator: no production for type " + ty + " in context " + g.ctx)
	}
	p := cands[g.r.Intn(len(cands))]
	g.hit(p.kind)
	return g.fill(p.tpl, d-1)
}

func c06fSubsetType(ty string) bool {
	switch ty {
	case "int", "string", "bool", "nint", "nstr", "ty", "iface":
		return true
	}
	return false
}

// c06fOutsideKinds: the expression kinds outside the subset, with the result types they are available for
func c06fOutsideKinds() (kinds []string, prods map[string][]*c06fProd) {
	prods = map[string][]*c06fProd{}
	for i := range c06fTable {
		p := &c06fTable[i]
		if p.flags&c06fSub != 0 {
			continue
		}
		if _, ok := prods[p.kind]; !ok {
			kinds = append(kinds, p.kind)
		}
		prods[p.kind] = append(prods[p.kind], p)
	}
	return
}
