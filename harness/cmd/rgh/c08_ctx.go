package main

// c08_ctx.go — the "shared context" rounds of C08's run-time search.
//
// A driver that lints a package hands every file of it to Engine.Run with the same Pkg / Types / Fset /
// Report, and is free to do so from several goroutines ("Run() is thread-safe"); what it must not share is a
// RunnerState.  Two ways of writing that driver are equally inside the documented contract:
//
//	shared    ONE *RunContext value (State nil: "a new state will be allocated") passed to every Run call
//	copy-*    a copy of the context per goroutine / per call, the copy's State set to a state of the
//	          goroutine's own (copy-own), to one taken from a sync.Pool (copy-pool) or left nil (copy-nil)
//
// The rounds of this file type-check packages of SEVERAL files together (one token.FileSet, one types.Info,
// one *types.Package per package), let N goroutines lint the files under those context disciplines (also
// mixed in one round), and collect the reports in a goroutine-safe Report callback that attributes every
// report to its file by position.  The judge is the property's own term: the lone sequential Run of the file
// on a fresh engine with a context of its own.
//
// Schedules: "free" (all goroutines released at once) and "nested" (a forced interleaving that needs no luck:
// worker 0 is held inside the Report callback of its k-th report until every other worker has started and
// finished all of its Run calls — a Report callback may take as long as it likes).
//
// Inputs: (a) "state" packages + rules generated here — rules whose outcome depends on everything a run keeps
// for itself (file bytes, file name, imports, node path, sub-matcher, type-pattern variables, bytecode stack,
// report record, suggestion, comment parts, truncation, Go version), over files that differ in length,
// layout, imports and nesting; (b) the type-identity packages and rules of gen_typeid.go.

import (
	"fmt"
	"go/ast"
	"go/importer"
	"go/token"
	"go/types"
	"math/rand"
	"os"
	"path/filepath"
	"runtime"
	"runtime/debug"
	"sort"
	"strings"
	"sync"

	"github.com/quasilyte/go-ruleguard/ruleguard"
	"verifharness/hx"
)

// ---- "state" packages --------------------------------------------------------------------------------

const csSinks = 6

type csGen struct {
	r    *rand.Rand
	sb   strings.Builder
	file int
	next int
	lit  int // depth of function literals
}

func (g *csGen) ind(d int) string { return strings.Repeat("\t", d) }

func (g *csGen) sink() string { return fmt.Sprintf("p%d", g.r.Intn(csSinks)) }

// arg: an argument of a probe call; string literals carry the file and a running number, so that a message
// interpolated from another file's bytes cannot pass for the right one
func (g *csGen) arg() string {
	g.next++
	switch x := g.r.Intn(20); {
	case x < 8:
		return fmt.Sprintf("\"f%d call %d\"", g.file, g.next)
	case x < 12:
		return fmt.Sprint(g.next)
	case x < 14:
		return fmt.Sprintf("x + %d", g.next)
	case x < 15:
		return "s[0]"
	case x < 16:
		return "len(ss)"
	case x < 17:
		return "rec"
	case x < 18:
		return fmt.Sprintf("m[\"k%d\"]", g.next)
	case x < 19:
		return fmt.Sprintf("ss[%d%%2]", g.next)
	default:
		return fmt.Sprintf("Big{}.a[%d%%4]", g.next)
	}
}

func (g *csGen) probe(d int) {
	fmt.Fprintf(&g.sb, "%s%s(%s)\n", g.ind(d), g.sink(), g.arg())
}

var csPairs = []string{"pair(s, %d)", "pair(ss, %d)", "pair(ss, \"w%d\")", "pair(m, \"k%d\")", "pair(m, %d)", "pair(x, x+%d)", "pair(s, ss[%d:])",
	"pair(rec, Big{})", "pair(Big{}, rec)", "pair([]Rec{rec}, rec)", "pair(map[Rec]int{}, rec)", "pair([]byte(nil), byte(%d))", "pair(x, x)"}

var csConds = []string{"x > %d", "flag", "debugF", "!debugF", "len(ss) == %d", "x == %d && flag", "true", "s[0] < x", "m[\"k\"] != %d"}

func (g *csGen) cond() string {
	c := csConds[g.r.Intn(len(csConds))]
	if strings.Contains(c, "%d") {
		g.next++
		return fmt.Sprintf(c, g.next)
	}
	return c
}

func (g *csGen) block(d, budget int) {
	n := 1 + g.r.Intn(4)
	for i := 0; i < n; i++ {
		switch k := g.r.Intn(28); {
		case k < 7 || budget <= 0:
			g.probe(d)
		case k < 9:
			// two probes in a row: statement-list patterns
			g.probe(d)
			g.probe(d)
		case k < 11:
			g.next++
			n := g.next
			fmt.Fprintf(&g.sb, "%sv%d := %s(%s)\n%s_ = v%d\n", g.ind(d), n, g.sink(), g.arg(), g.ind(d), n)
		case k < 12:
			g.next++
			fmt.Fprintf(&g.sb, "%sa%d := x\n%sa%d = a%d + %d\n", g.ind(d), g.next, g.ind(d), g.next, g.next, g.next)
		case k < 15:
			fmt.Fprintf(&g.sb, "%sif %s {\n", g.ind(d), g.cond())
			g.block(d+1, budget-1)
			if g.r.Intn(3) == 0 {
				fmt.Fprintf(&g.sb, "%s} else {\n", g.ind(d))
				g.block(d+1, budget-1)
			}
			fmt.Fprintf(&g.sb, "%s}\n", g.ind(d))
		case k < 17:
			fmt.Fprintf(&g.sb, "%sfor i := 0; i < x; i++ {\n", g.ind(d))
			g.block(d+1, budget-1)
			fmt.Fprintf(&g.sb, "%s}\n", g.ind(d))
		case k < 19:
			fmt.Fprintf(&g.sb, "%sfunc() {\n", g.ind(d))
			g.lit++
			g.block(d+1, budget-1)
			g.lit--
			fmt.Fprintf(&g.sb, "%s}()\n", g.ind(d))
		case k < 20:
			fmt.Fprintf(&g.sb, "%sgo func() { wg.Done() }()\n", g.ind(d))
		case k < 21:
			fmt.Fprintf(&g.sb, "%sdefer wg.Wait()\n", g.ind(d))
		case k < 23:
			p := csPairs[g.r.Intn(len(csPairs))]
			if strings.Contains(p, "%d") {
				g.next++
				p = fmt.Sprintf(p, g.next%3)
			}
			fmt.Fprintf(&g.sb, "%s%s\n", g.ind(d), p)
		case k < 24:
			g.next++
			fmt.Fprintf(&g.sb, "%slongProbe(\"f%d: a string literal that is certainly longer than the sixty bytes a message keeps by default, number %d\")\n", g.ind(d), g.file, g.next)
		case k < 25:
			g.next++
			fmt.Fprintf(&g.sb, "%s// note: word%d of f%d\n", g.ind(d), g.next, g.file)
			g.probe(d)
		case k < 26:
			// dead code: a statement after return
			if g.lit > 0 {
				fmt.Fprintf(&g.sb, "%sif %s {\n%sreturn\n", g.ind(d), g.cond(), g.ind(d+1))
			} else {
				fmt.Fprintf(&g.sb, "%sif %s {\n%sreturn %s(%s)\n", g.ind(d), g.cond(), g.ind(d+1), g.sink(), g.arg())
			}
			g.probe(d + 1)
			fmt.Fprintf(&g.sb, "%s}\n", g.ind(d))
		default:
			g.next++
			fmt.Fprintf(&g.sb, "%sswitch x {\n%scase %d:\n", g.ind(d), g.ind(d), g.next)
			g.block(d+1, budget-1)
			fmt.Fprintf(&g.sb, "%sdefault:\n", g.ind(d))
			g.block(d+1, budget-1)
			fmt.Fprintf(&g.sb, "%s}\n", g.ind(d))
		}
	}
}

var csImports = []string{"math/bits", "unicode/utf8", "unicode/utf16"}
var csImportUse = []string{"bits.Len", "utf8.RuneLen", "utf16.IsSurrogate"}

// csGenPackage: decl.go (types, sinks) and nFiles files f0.go.. of different length, layout, imports and nesting.
func csGenPackage(r *rand.Rand, path, name string, nFiles int) tidPkg {
	p := tidPkg{Path: path, Name: name}
	var sb strings.Builder
	fmt.Fprintf(&sb, "package %s\n\n", name)
	sb.WriteString("type Rec struct {\n\ta int\n\ts string\n}\n\nfunc (Rec) String() string { return \"\" }\n\n")
	sb.WriteString("type Big struct{ a, b, c [4]int64 }\n\ntype WG struct{}\n\nfunc (*WG) Done() {}\nfunc (*WG) Wait() {}\n\n")
	for k := 0; k < csSinks; k++ {
		fmt.Fprintf(&sb, "func p%d(args ...interface{}) int { return 0 }\n", k)
	}
	sb.WriteString("func pair(a, b interface{}) {}\nfunc longProbe(string) {}\n\nvar flag bool\n\nconst debugF = false\n")
	p.Files = append(p.Files, tidFile{"decl.go", sb.String()})
	for fi := 0; fi < nFiles; fi++ {
		g := &csGen{r: r, file: fi, next: 100 * fi}
		// padding before and after the package clause: the same construct sits at different offsets and lines in every file
		for k := r.Intn(10) * (fi%3 + 1) / 2; k > 0; k-- {
			fmt.Fprintf(&g.sb, "// padding line %d of f%d\n", k, fi)
		}
		if g.sb.Len() > 0 {
			g.sb.WriteString("\n")
		}
		fmt.Fprintf(&g.sb, "package %s\n\n", name)
		var imps []int
		for k := range csImports {
			if r.Intn(3) == 0 {
				imps = append(imps, k)
			}
		}
		if len(imps) > 0 {
			g.sb.WriteString("import (\n")
			for _, k := range imps {
				fmt.Fprintf(&g.sb, "\t%q\n", csImports[k])
			}
			g.sb.WriteString(")\n\n")
			for _, k := range imps {
				fmt.Fprintf(&g.sb, "var _ = %s\n", csImportUse[k])
			}
			g.sb.WriteString("\n")
		}
		if r.Intn(2) == 0 {
			g.next++
			fmt.Fprintf(&g.sb, "var g%d = %s(\"f%d global %d\")\n\n", fi, g.sink(), fi, g.next)
		}
		nf := 1 + r.Intn(3)
		for k := 0; k < nf; k++ {
			if r.Intn(2) == 0 {
				g.next++
				fmt.Fprintf(&g.sb, "// todo(f%d): thing %d\n", fi, g.next)
			}
			fmt.Fprintf(&g.sb, "func f%dg%d(x int, s []int, ss []string, m map[string]int, wg *WG, rec Rec) int {\n", fi, k)
			g.block(1, 1+r.Intn(3))
			g.sb.WriteString("\treturn 0\n}\n\n")
		}
		p.Files = append(p.Files, tidFile{fmt.Sprintf("f%d.go", fi), g.sb.String()})
	}
	return p
}

// ---- "state" rules -----------------------------------------------------------------------------------

const csDecls = `func isBig(ctx *dsl.VarFilterContext) bool {
	return ctx.SizeOf(ctx.Type) > 16
}

func isStr(ctx *dsl.VarFilterContext) bool {
	return types.Identical(ctx.Type, ctx.GetType(` + "`string`" + `))
}

func doText(ctx *dsl.DoContext) {
	ctx.SetReport("do text " + ctx.Var("x").Text())
}

func doSuggest(ctx *dsl.DoContext) {
	ctx.SetSuggest("p0(" + ctx.Var("x").Text() + ")")
}

func doType(ctx *dsl.DoContext) {
	ctx.SetReport("do type " + ctx.Var("x").Type().String() + " of " + ctx.Var("x").Text())
}

`

// csTpl: one rule shape.  %S = a sink, %T = another sink; msg "" = "$x".
type csTpl struct {
	kind, pat, where, msg, tail string
}

var csTpls = []csTpl{
	{"text", "%S($x)", "", "", ""},
	{"Text.Matches", "%S($x)", `m["x"].Text.Matches("[02468]\"?$")`, "", ""},
	{"Suggest", "%S($x)", `m["x"].Type.Is("string")`, "", ".Suggest(`%T($x)`)"},
	{"Suggest:whole", "%S($x)", `m["x"].Const`, "$$", ".Suggest(`%T($x, $x)`)"},
	{"Value.Int", "%S($x)", `m["x"].Const && m["x"].Value.Int() > 140`, "", ""},
	{"Deadcode", "%S($x)", `m.Deadcode()`, "", ""},
	{"Node.Parent", "%S($x)", `m["$$"].Node.Parent().Is("ExprStmt")`, "", ""},
	{"Node.Parent:not", "%S($x)", `!m["$$"].Node.Parent().Is("ExprStmt")`, "", ""},
	{"SinkType", "%S($x)", `m["$$"].SinkType.Is("int")`, "", ""},
	{"Contains:assign", "$v := $y", `m["y"].Contains("%S($z)")`, "$v from $y", ""},
	{"Contains:self", "$a = $b", `m["b"].Contains("$a")`, "$a self $b", ""},
	{"Contains:iife", "func() { $*_ }()", `m["$$"].Contains("%S($x)")`, "iife $$", ""},
	{"Contains:loop", "for $_; $_; $_ { $*body }", `m["body"].Contains("%S($y)")`, "loop $body", ""},
	{"Pure", "if $c { $*_ }", `m["c"].Pure && m["c"].Type.Is("bool")`, "if $c", ""},
	{"Is:binding:elem", "pair($x, $y)", `m["x"].Type.Is("[]$t") && m["y"].Type.Is("$t")`, "$x of $y", ""},
	{"Is:binding:key", "pair($x, $y)", `m["x"].Type.Is("map[$k]$v") && m["y"].Type.Is("$k")`, "$x key $y", ""},
	{"IdenticalTo", "pair($x, $y)", `m["x"].Type.IdenticalTo(m["y"])`, "$x same $y", ""},
	{"Filter:SizeOf", "pair($x, $y)", `m["x"].Filter(isBig)`, "big $x", ""},
	{"Size:var", "pair($x, $y)", `m["x"].Type.Size > m["y"].Type.Size`, "$x larger $y", ""},
	{"Filter:GetType", "%S($x)", `m["x"].Filter(isStr)`, "", ""},
	{"truncate", "longProbe($x)", "", "long $x", ""},
	{"File.Name", "%S($x)", `m.File().Name.Matches("f[0-9]*[02468]\\.go$")`, "", ""},
	{"File.Imports", "%S($x)", `m.File().Imports("%I")`, "", ""},
	{"File.PkgPath", "%S($x)", `m.File().PkgPath.Matches("[13579]$")`, "", ""},
	{"At", "go func() { $x.Done() }()", "", "at $x", ".At(m[\"x\"])"},
	{"At:arg", "%S($x)", `m["x"].Type.Is("int")`, "", ".At(m[\"x\"])"},
	{"MatchComment:todo", "//\\s*todo\\((?P<who>\\w+)\\):\\s*(?P<what>.*)", "", "todo $who: $what", "comment"},
	{"MatchComment:note", "//\\s*note: (?P<w>\\w+)", "", "note $w in $$", "comment"},
	{"MatchComment:padding", "// padding line (?P<n>[0-9]*[13579]) of", "", "padding $n", "comment"},
	{"GoVersion", "%S($x)", `m.GoVersion().GreaterEqThan("1.18")`, "", ""},
	{"Do:text", "%S($x)", "", "", ".Do(doText)"},
	{"Do:suggest", "%S($x)", `m["x"].Pure`, "", ".Do(doSuggest)"},
	{"Do:type", "%S($x)", "", "", ".Do(doType)"},
	{"stmt:switch", "switch $x { $*_ }", "", "switch $x", ""},
	{"stmt:defer", "defer $f($*args)", "", "defer $f", ""},
	{"Object.IsGlobal", "%S($x)", `m["x"].Object.IsGlobal()`, "", ""},
	{"stmt-list", "%S($a); %T($b)", "", "seq $a $b", ""},
	{"Underlying.Is", "pair($x, $y)", `m["y"].Type.Underlying().Is("struct{$*_}")`, "struct $y", ""},
}

type csRuleSet struct {
	Head    string   // everything before the first rule group
	Imports []string // m.Import lines every group starts with
	Lines   []string // one rule each
	Kinds   []string
	Groups  int
}

func (rs *csRuleSet) src(lines []string, groups int) string {
	var b strings.Builder
	b.WriteString(rs.Head)
	if groups < 1 {
		groups = 1
	}
	for gi := 0; gi < groups; gi++ {
		fmt.Fprintf(&b, "func g%d(m dsl.Matcher) {\n", gi)
		for _, l := range rs.Imports {
			b.WriteString("\t" + l + "\n")
		}
		for i, l := range lines {
			if i*groups/len(lines) == gi {
				b.WriteString("\t" + l + "\n")
			}
		}
		b.WriteString("}\n\n")
	}
	return b.String()
}

// csGenRules: nRules rules dealt from a shuffled deck of the shapes (every shape comes up regularly); every
// message starts with "q<id> " and interpolates the text of what was matched.
func csGenRules(r *rand.Rand, deck *[]int, nRules int) *csRuleSet {
	rs := &csRuleSet{Groups: 1 + r.Intn(3)}
	rs.Head = "package gorules\n\nimport (\n\t\"github.com/quasilyte/go-ruleguard/dsl\"\n\t\"github.com/quasilyte/go-ruleguard/dsl/types\"\n)\n\n" + csDecls
	for i := 0; i < nRules; i++ {
		if len(*deck) == 0 {
			*deck = r.Perm(len(csTpls))
		}
		t := csTpls[(*deck)[0]]
		*deck = (*deck)[1:]
		s1 := fmt.Sprintf("p%d", r.Intn(csSinks))
		s2 := fmt.Sprintf("p%d", r.Intn(csSinks))
		sub := func(s string) string {
			s = strings.ReplaceAll(s, "%S", s1)
			s = strings.ReplaceAll(s, "%T", s2)
			return strings.ReplaceAll(s, "%I", csImports[r.Intn(len(csImports))])
		}
		msg := t.msg
		if msg == "" {
			msg = "$x"
		}
		var line string
		if t.tail == "comment" {
			line = fmt.Sprintf("m.MatchComment(`%s`)", t.pat)
		} else {
			line = fmt.Sprintf("m.Match(`%s`)", sub(t.pat))
		}
		if t.where != "" {
			w := sub(t.where)
			if r.Intn(6) == 0 && !strings.Contains(t.kind, "binding") {
				w = "!(" + w + ")"
			}
			line += fmt.Sprintf(".Where(%s)", w)
		}
		switch {
		case strings.HasPrefix(t.tail, ".Do("):
			line += t.tail
		case t.tail == "comment" || t.tail == "":
			line += fmt.Sprintf(".Report(`q%d %s`)", i, msg)
		default:
			line += sub(t.tail) + fmt.Sprintf(".Report(`q%d %s`)", i, msg)
		}
		rs.Lines = append(rs.Lines, line)
		rs.Kinds = append(rs.Kinds, "cs:"+t.kind)
	}
	return rs
}

// csFromTid: a type-identity rule set (gen_typeid.go) in the same form
func csFromTid(t *tidRuleSet) *csRuleSet {
	rs := &csRuleSet{Head: t.Src[:strings.Index(t.Src, "func g0(m dsl.Matcher)")]}
	seen := map[string]bool{}
	for _, l := range strings.Split(t.Src, "\n") {
		if strings.HasPrefix(l, "\tm.Import(") && !seen[l] {
			seen[l] = true
			rs.Imports = append(rs.Imports, strings.TrimSpace(l))
		}
	}
	for _, ri := range t.Rules {
		rs.Lines = append(rs.Lines, ri.Text)
		for _, k := range ri.Kinds {
			rs.Kinds = append(rs.Kinds, "tid:"+k)
		}
	}
	rs.Groups = strings.Count(t.Src, "(m dsl.Matcher)")
	return rs
}

// ---- rounds ------------------------------------------------------------------------------------------

type c08CtxRound struct {
	ID    int      `json:"id"`
	Gen   string   `json:"gen"` // "state" | "typeid"
	Rules string   `json:"rules"`
	Kinds []string `json:"kinds"`
	// single rules can be re-assembled from these (narrowing a failing round down)
	Head    string   `json:"head"`
	Imports []string `json:"imports"`
	Lines   []string `json:"lines"`
	// the packages, each type-checked once (all files together); Files[i] = {package index, file name}
	Pkgs  []c08PkgRef `json:"pkgs"`
	Files [][2]string `json:"files"` // label: package index (decimal), file name
	// per worker: the files it lints, in this order, and how it gets its context
	Assign [][]int  `json:"assign"`
	Modes  []string `json:"modes"` // "shared" | "copy-nil" | "copy-own" | "copy-pool" | "copy-percall"
	Sched  string   `json:"sched"` // "free" | "nested"
	HoldAt int      `json:"hold_at"`
	// fields of the context
	TruncateLen int    `json:"truncate_len"`
	GoVersion   string `json:"go_version"`
	// Gone: indices into Files of the files that cannot be read when they are analysed (removed after parsing:
	// an overlay, a generated file that is gone); the lone runs see them the same way
	Gone []int `json:"files_not_on_disk,omitempty"`
}

type c08CtxNarrow struct {
	Mode     string   `json:"mode"`
	Holder   string   `json:"held_file"`
	Inner    string   `json:"file_run_meanwhile"`
	HoldAt   int      `json:"held_in_report_number"`
	Rule     string   `json:"rule,omitempty"`
	Status   []string `json:"status_of_the_two_calls"`
	Missing  []string `json:"reports_of_lone_runs_not_delivered"`
	Extra    []string `json:"reports_delivered_but_not_by_lone_runs"`
	Schedule string   `json:"schedule"`
}

type c08CtxOut struct {
	ID          int           `json:"id"`
	LoadErr     string        `json:"load_err,omitempty"`
	BaseStatus  []string      `json:"base_status"` // per file: "ok" | "ERR …" | "PANIC …" of the lone run
	Baseline    [][]string    `json:"baseline"`    // per file: the reports of the lone run, in delivery order
	Status      [][]string    `json:"status"`      // per worker, per call
	Got         [][]string    `json:"got"`         // per file: the reports the shared callbacks attributed to it, in arrival order
	Stray       []string      `json:"stray"`       // reports whose position is in no analysed file of the package of the context they came through
	AfterStatus []string      `json:"after_status"`
	After       [][]string    `json:"after"` // per file: one more sequential call with the very same context objects
	Held        bool          `json:"held"`
	Narrow      *c08CtxNarrow `json:"narrow,omitempty"`
}

var c08CtxModeSets = [][]string{{"shared"}, {"shared"}, {"shared"}, {"shared"}, {"copy-nil"}, {"copy-own"}, {"copy-pool"}, {"copy-percall"},
	{"shared", "copy-own"}, {"shared", "copy-pool", "copy-nil"}, {"shared", "copy-percall", "copy-own"}}

// genCtxRound: 1-3 packages of several files, 2-8 workers, every worker a context discipline.
func (w *c08World) genCtxRound(r *rand.Rand, csDeck, tidDeck *[]int, id int) c08CtxRound {
	rd := c08CtxRound{ID: id}
	var pool []c08PkgRef
	var rs *csRuleSet
	if r.Intn(4) == 0 {
		rd.Gen = "typeid"
		pool = w.tid
		t := tidGenRules(r, tidDeck, 6+r.Intn(6), c08TidSinks, w.tidExt, false)
		rs = csFromTid(t)
	} else {
		rd.Gen = "state"
		pool = w.cs
		rs = csGenRules(r, csDeck, 6+r.Intn(8))
	}
	rd.Head, rd.Imports, rd.Lines, rd.Kinds = rs.Head, rs.Imports, rs.Lines, rs.Kinds
	rd.Rules = rs.src(rs.Lines, rs.Groups)
	np := []int{1, 1, 1, 2, 2, 3}[r.Intn(6)]
	perm := r.Perm(len(pool))
	budget := 10
	for _, k := range perm[:np] {
		ref := pool[k]
		ts := append([]string(nil), ref.Targets...)
		r.Shuffle(len(ts), func(i, j int) { ts[i], ts[j] = ts[j], ts[i] })
		if len(ts) > budget {
			ts = ts[:budget]
		}
		budget -= len(ts)
		if len(ts) == 0 {
			continue
		}
		ref.Targets = ts
		pi := len(rd.Pkgs)
		rd.Pkgs = append(rd.Pkgs, ref)
		for _, f := range ts {
			rd.Files = append(rd.Files, [2]string{fmt.Sprint(pi), f})
		}
	}
	nf := len(rd.Files)
	nw := []int{2, 2, 3, 4, 4, 6, 8}[r.Intn(7)]
	if r.Intn(2) == 0 {
		// what a driver does: every file exactly once, dealt to the workers
		rd.Assign = make([][]int, nw)
		for k, fi := range r.Perm(nf) {
			rd.Assign[k%nw] = append(rd.Assign[k%nw], fi)
		}
		var as [][]int
		for _, a := range rd.Assign {
			if len(a) > 0 {
				as = append(as, a)
			}
		}
		rd.Assign = as
	} else {
		for k := 0; k < nw; k++ {
			n := 1 + r.Intn(3)
			var a []int
			for j := 0; j < n; j++ {
				a = append(a, r.Intn(nf))
			}
			rd.Assign = append(rd.Assign, a)
		}
	}
	set := c08CtxModeSets[r.Intn(len(c08CtxModeSets))]
	for k := range rd.Assign {
		if k < len(set) {
			rd.Modes = append(rd.Modes, set[k])
		} else {
			rd.Modes = append(rd.Modes, set[r.Intn(len(set))])
		}
	}
	rd.Sched = "free"
	if r.Intn(5) < 2 {
		rd.Sched = "nested"
		rd.HoldAt = []int{1, 1, 2, 3, 5, 8}[r.Intn(6)]
	}
	rd.TruncateLen = []int{0, 0, 0, 24, 40, 100}[r.Intn(6)]
	rd.GoVersion = []string{"", "", "1.17", "1.21"}[r.Intn(4)]
	if r.Intn(3) == 0 {
		for fi := range rd.Files {
			if r.Intn(2) == 0 {
				rd.Gone = append(rd.Gone, fi)
			}
		}
	}
	return rd
}

// c08GenCtxWorld adds the "state" packages (3-6 analysed files each) to the world.
func c08GenCtxWorld(r *rand.Rand, w *c08World, n int) error {
	for k := 0; k < n; k++ {
		path := fmt.Sprintf("verifpkg/c%d", k)
		dir := filepath.Join(w.dir, "ctxpkgs", fmt.Sprintf("c%d", k))
		p := csGenPackage(r, path, fmt.Sprintf("c%d", k), 3+r.Intn(4))
		if _, err := tidWritePackage(dir, p); err != nil {
			return err
		}
		ref := c08PkgRef{Path: path, Dir: dir}
		for _, f := range p.Files {
			ref.All = append(ref.All, f.Name)
			if f.Name != "decl.go" {
				ref.Targets = append(ref.Targets, f.Name)
			}
		}
		w.cs = append(w.cs, ref)
	}
	return nil
}

// ---- child side --------------------------------------------------------------------------------------

// ctxCollector is the Report callback of the contexts of one package: goroutine-safe, files every report
// under the file its position lies in.
type ctxCollector struct {
	fset    *token.FileSet
	fileIdx map[string]int // file name (as in the file set) -> index into the round's Files
	sink    *ctxSink
}

// ctxSink: what the collectors of one phase of a round share
type ctxSink struct {
	mu      sync.Mutex
	got     [][]string
	stray   []string
	n       int
	holdAt  int // 0 = never
	first   chan struct{}
	held    chan struct{}
	rel     chan struct{}
	didHold bool
}

func ctxReportString(fset *token.FileSet, d *ruleguard.ReportData) (file, s string) {
	defer func() {
		if r := recover(); r != nil {
			file, s = "", fmt.Sprintf("<report whose node cannot be located: %v> %q", r, d.Message)
		}
	}()
	if d.Node == nil {
		return "", fmt.Sprintf("<report without node> %q", d.Message)
	}
	pos := fset.Position(d.Node.Pos())
	end := fset.Position(d.Node.End())
	group := "<nil>"
	if d.RuleInfo.Group != nil {
		group = d.RuleInfo.Group.Name
	}
	s = fmt.Sprintf("%s:%d:%d[%d:%d] %s:%d %q", filepath.Base(pos.Filename), pos.Line, pos.Column, pos.Offset, end.Offset, group, d.RuleInfo.Line, d.Message)
	if d.Suggestion != nil {
		s += fmt.Sprintf(" sugg[%d:%d]=%q", fset.Position(d.Suggestion.From).Offset, fset.Position(d.Suggestion.To).Offset, d.Suggestion.Replacement)
	}
	if d.Func != nil {
		s += " in " + d.Func.Name.Name
	}
	return pos.Filename, s
}

func (c *ctxCollector) report(d *ruleguard.ReportData) {
	file, s := ctxReportString(c.fset, d)
	k := c.sink
	k.mu.Lock()
	if fi, ok := c.fileIdx[file]; ok {
		k.got[fi] = append(k.got[fi], s)
	} else {
		k.stray = append(k.stray, s)
	}
	k.n++
	hold := false
	if k.holdAt > 0 && k.n == k.holdAt {
		select {
		case <-k.first:
		default:
			hold = true
			k.didHold = true
		}
	}
	k.mu.Unlock()
	if hold {
		// nested schedule: nobody else has started yet, so this is worker 0 inside its first call
		close(k.held)
		<-k.rel
	}
}

func ctxCall(e *ruleguard.Engine, ctx *ruleguard.RunContext, f *ast.File) (status string) {
	defer func() {
		if r := recover(); r != nil {
			status = fmt.Sprintf("PANIC %s @%s", hx.PanicKind(r), hx.Frame(debug.Stack()))
		}
	}()
	if err := e.Run(ctx, f); err != nil {
		return "ERR " + err.Error()
	}
	return "ok"
}

type ctxPkg struct {
	targets map[string]*hx.Target
	fset    *token.FileSet
}

// ctxPhase runs the assigned calls under the given disciplines on engine e; returns per-call status and the sink.
// The context objects are returned too (per package: the shared one), for the sequential pass afterwards.
func ctxPhase(e *ruleguard.Engine, r *c08CtxRound, pkgs []*ctxPkg, files []*hx.Target, pkgOf []int, assign [][]int, modes []string, sched string, holdAt int) ([][]string, *ctxSink, []*ruleguard.RunContext, error) {
	sink := &ctxSink{got: make([][]string, len(files)), first: make(chan struct{}), held: make(chan struct{}), rel: make(chan struct{})}
	if sched == "nested" {
		sink.holdAt = holdAt
	}
	gv, err := ruleguard.ParseGoVersion(r.GoVersion)
	if err != nil {
		return nil, nil, nil, err
	}
	base := make([]*ruleguard.RunContext, len(pkgs))
	for pi, p := range pkgs {
		col := &ctxCollector{fset: p.fset, fileIdx: map[string]int{}, sink: sink}
		for fi, t := range files {
			if pkgOf[fi] == pi {
				col.fileIdx[t.Name] = fi
			}
		}
		var any *hx.Target
		for _, t := range p.targets {
			any = t
		}
		base[pi] = &ruleguard.RunContext{
			Pkg:         any.Pkg,
			Types:       any.Info,
			Sizes:       types.SizesFor("gc", runtime.GOARCH),
			Fset:        p.fset,
			Report:      col.report,
			GoVersion:   gv,
			TruncateLen: r.TruncateLen,
		}
	}
	pool := sync.Pool{New: func() interface{} { return ruleguard.NewRunnerState(e) }}
	status := make([][]string, len(assign))
	start := make(chan struct{})
	var wg, others sync.WaitGroup
	for w := range assign {
		wg.Add(1)
		if w > 0 {
			others.Add(1)
		}
		go func(w int) {
			defer wg.Done()
			if w > 0 {
				defer others.Done()
			}
			// a goroutine's own copies of the contexts (one per package), made before the start
			var mine []*ruleguard.RunContext
			var own *ruleguard.RunnerState
			if modes[w] == "copy-own" {
				own = ruleguard.NewRunnerState(e)
			}
			if modes[w] != "shared" {
				for _, b := range base {
					c := *b
					c.State = own
					mine = append(mine, &c)
				}
			}
			<-start
			if sched == "nested" && w > 0 {
				select {
				case <-sink.held:
				case <-sink.first:
				}
			}
			res := make([]string, 0, len(assign[w]))
			for j, fi := range assign[w] {
				pi := pkgOf[fi]
				switch modes[w] {
				case "shared":
					res = append(res, ctxCall(e, base[pi], files[fi].File))
				case "copy-pool":
					st := pool.Get().(*ruleguard.RunnerState)
					mine[pi].State = st
					res = append(res, ctxCall(e, mine[pi], files[fi].File))
					mine[pi].State = nil
					pool.Put(st)
				case "copy-percall":
					c := *base[pi]
					res = append(res, ctxCall(e, &c, files[fi].File))
				default: // copy-nil, copy-own
					res = append(res, ctxCall(e, mine[pi], files[fi].File))
				}
				if w == 0 && j == 0 {
					close(sink.first)
				}
			}
			status[w] = res
		}(w)
	}
	go func() {
		others.Wait()
		close(sink.rel)
	}()
	close(start)
	wg.Wait()
	return status, sink, base, nil
}

func runC08Ctx(spec *c08Spec, r c08CtxRound) c08CtxOut {
	out := c08CtxOut{ID: r.ID}
	var pkgs []*ctxPkg
	var files []*hx.Target
	var pkgOf []int
	gone := map[[2]string]bool{}
	for _, fi := range r.Gone {
		gone[r.Files[fi]] = true
	}
	for pi, p := range r.Pkgs {
		fset := token.NewFileSet()
		dir := p.Dir
		if len(r.Gone) > 0 {
			// a private copy of the package, so that files can be taken away after parsing
			tmp, err := os.MkdirTemp("", "c08gone-")
			if err != nil {
				out.LoadErr = err.Error()
				return out
			}
			defer os.RemoveAll(tmp)
			for _, n := range p.All {
				b, err := os.ReadFile(filepath.Join(p.Dir, n))
				if err == nil {
					err = os.WriteFile(filepath.Join(tmp, n), b, 0o644)
				}
				if err != nil {
					out.LoadErr = err.Error()
					return out
				}
			}
			dir = tmp
		}
		ts, err := tidCheckPackage(dir, p.Path, p.All, fset, importer.ForCompiler(fset, "source", nil))
		if err != nil {
			out.LoadErr = fmt.Sprintf("target package %s (%s): %v", p.Path, p.Dir, err)
			return out
		}
		for _, n := range p.All {
			if gone[[2]string{fmt.Sprint(pi), n}] {
				os.Remove(filepath.Join(dir, n))
			}
		}
		cp := &ctxPkg{targets: map[string]*hx.Target{}, fset: fset}
		for k, n := range p.All {
			cp.targets[n] = ts[k]
		}
		pkgs = append(pkgs, cp)
		for _, want := range p.Targets {
			files = append(files, cp.targets[want])
			pkgOf = append(pkgOf, pi)
		}
	}
	if len(files) != len(r.Files) {
		out.LoadErr = fmt.Sprintf("ctx round: %d targets for %d labels", len(files), len(r.Files))
		return out
	}
	// the judge: every file alone on a fresh (cold) engine with a context of its own
	lone := func(rules string, fi int) (string, []string, error) {
		e, err := c08LoadEngine(rules)
		if err != nil {
			return "", nil, err
		}
		st, sink, _, err := ctxPhase(e, &r, pkgs, files, pkgOf, [][]int{{fi}}, []string{"copy-percall"}, "free", 0)
		if err != nil {
			return "", nil, err
		}
		if len(sink.stray) > 0 {
			return st[0][0], append(append([]string{}, sink.got[fi]...), sink.stray...), nil
		}
		return st[0][0], sink.got[fi], nil
	}
	for fi := range files {
		st, reps, err := lone(r.Rules, fi)
		if err != nil {
			out.LoadErr = "load: " + err.Error()
			return out
		}
		out.BaseStatus = append(out.BaseStatus, st)
		out.Baseline = append(out.Baseline, reps)
	}
	e, err := c08LoadEngine(r.Rules)
	if err != nil {
		out.LoadErr = "load: " + err.Error()
		return out
	}
	status, sink, base, err := ctxPhase(e, &r, pkgs, files, pkgOf, r.Assign, r.Modes, r.Sched, r.HoldAt)
	if err != nil {
		out.LoadErr = err.Error()
		return out
	}
	out.Status, out.Got, out.Stray, out.Held = status, sink.got, sink.stray, sink.didHold
	// afterwards: the loop `for _, f := range files { engine.Run(ctx, f) }` with the very same context objects
	// (no goroutine is left; the collectors go on filing into the emptied sink)
	sink.got, sink.stray, sink.n, sink.holdAt = make([][]string, len(files)), nil, 0, 0
	for fi, t := range files {
		out.AfterStatus = append(out.AfterStatus, ctxCall(e, base[pkgOf[fi]], t.File))
	}
	out.After = sink.got
	out.Stray = append(out.Stray, sink.stray...)
	if ctxDiffers(&r, &out) {
		out.Narrow = ctxNarrow(&r, &out, pkgs, files, pkgOf, lone)
	}
	return out
}

// ctxExpect: what the property calls for, per file — every call on the file delivers the reports of its lone run
// (in that order when there is one call; as a multiset when several calls deliver into one callback).
func ctxExpect(base []string, calls int) []string {
	if calls == 1 {
		return base
	}
	var w []string
	for k := 0; k < calls; k++ {
		w = append(w, base...)
	}
	sort.Strings(w)
	return w
}

func ctxObserved(got []string, calls int) []string {
	if calls == 1 {
		return got
	}
	g := append([]string(nil), got...)
	sort.Strings(g)
	return g
}

func ctxCalls(r *c08CtxRound) []int {
	calls := make([]int, len(r.Files))
	for _, a := range r.Assign {
		for _, fi := range a {
			calls[fi]++
		}
	}
	return calls
}

func ctxDiffers(r *c08CtxRound, o *c08CtxOut) bool {
	if len(o.Stray) > 0 {
		return true
	}
	for w, a := range r.Assign {
		for j, fi := range a {
			if o.Status[w][j] != o.BaseStatus[fi] {
				return true
			}
		}
	}
	calls := ctxCalls(r)
	for fi := range r.Files {
		if strings.Join(ctxObserved(o.Got[fi], calls[fi]), "\n") != strings.Join(ctxExpect(o.Baseline[fi], calls[fi]), "\n") {
			return true
		}
		if o.AfterStatus[fi] != o.BaseStatus[fi] || strings.Join(o.After[fi], "\n") != strings.Join(o.Baseline[fi], "\n") {
			return true
		}
	}
	return false
}

// ctxNarrow: a failing round is replayed as small deterministic ones — two files of one package, two goroutines,
// one context discipline, the nested schedule (the second file is linted while the first call sits in its
// first Report callback) — and then with one rule at a time.
func ctxNarrow(r *c08CtxRound, o *c08CtxOut, pkgs []*ctxPkg, files []*hx.Target, pkgOf []int, lone func(string, int) (string, []string, error)) *c08CtxNarrow {
	var modes []string
	seen := map[string]bool{}
	for _, m := range r.Modes {
		if !seen[m] {
			seen[m] = true
			modes = append(modes, m)
		}
	}
	sort.Slice(modes, func(i, j int) bool { return modes[i] == "shared" && modes[j] != "shared" })
	try := func(rules, mode string, a, b int) *c08CtxNarrow {
		sa, wa, err := lone(rules, a)
		if err != nil || len(wa) == 0 {
			return nil
		}
		sb, wb, err := lone(rules, b)
		if err != nil {
			return nil
		}
		e, err := c08LoadEngine(rules)
		if err != nil {
			return nil
		}
		st, sink, _, err := ctxPhase(e, r, pkgs, files, pkgOf, [][]int{{a}, {b}}, []string{mode, mode}, "nested", 1)
		if err != nil {
			return nil
		}
		var want, got []string
		want = append(append(want, wa...), wb...)
		got = append(append(append(got, sink.got[a]...), sink.got[b]...), sink.stray...)
		missing, extra := tidLineDiff(want, got)
		if st[0][0] == sa && st[1][0] == sb && len(missing) == 0 && len(extra) == 0 {
			return nil
		}
		nm, ne := len(missing), len(extra)
		if nm > 8 {
			missing = append(missing[:8:8], fmt.Sprintf("... (%d in all)", nm))
		}
		if ne > 8 {
			extra = append(extra[:8:8], fmt.Sprintf("... (%d in all)", ne))
		}
		return &c08CtxNarrow{Mode: mode, Holder: strings.Join(r.Files[a][:], ":"), Inner: strings.Join(r.Files[b][:], ":"), HoldAt: 1,
			Status: []string{st[0][0] + " (lone: " + sa + ")", st[1][0] + " (lone: " + sb + ")"}, Missing: missing, Extra: extra,
			Schedule: "goroutine 1 calls Run on the held file; inside its first Report callback goroutine 2 calls Run on the other file and returns; then the callback returns"}
	}
	rs := &csRuleSet{Head: r.Head, Imports: r.Imports}
	tries := 0
	for _, mode := range modes {
		for a := range files {
			for b := range files {
				if pkgOf[a] != pkgOf[b] || a == b {
					continue
				}
				if tries++; tries > 12 {
					return nil
				}
				n := try(r.Rules, mode, a, b)
				if n == nil {
					continue
				}
				for _, l := range r.Lines {
					if m := try(rs.src([]string{l}, 1), mode, a, b); m != nil {
						m.Rule = l
						return m
					}
				}
				return n
			}
		}
	}
	return nil
}

// ---- parent side -------------------------------------------------------------------------------------

func c08CtxModeLabel(modes []string) string {
	seen := map[string]bool{}
	var ms []string
	for _, m := range modes {
		if !seen[m] {
			seen[m] = true
			ms = append(ms, m)
		}
	}
	sort.Strings(ms)
	return strings.Join(ms, "+")
}

// c08EvalCtx judges the shared-context rounds of one child.
func c08EvalCtx(c *Ctx, spec *c08Spec, outs []c08CtxOut) error {
	res := c.Res
	var rops []string
	var rmeta []map[string]interface{}
	for k, o := range outs {
		r := spec.Ctx[k]
		key := fmt.Sprintf("%d/%d/%s", spec.GoMaxProcs, r.ID, c08Hash(append([]string{r.Rules, r.Sched, fmt.Sprint(r.Assign), fmt.Sprint(r.Modes)}, fmt.Sprint(r.Files))))
		if o.LoadErr != "" {
			res.Dist("ctx-round:load-error")
			res.Count("run-ctx", key, false)
			if len(res.Notes) < 12 {
				res.Notes = append(res.Notes, "ctx round: generated input did not load: "+o.LoadErr)
			}
			continue
		}
		// non-trivial: two different workers lint files of one package (with the shared context object, when the
		// round has one) — in a nested round only if worker 0 was actually held
		nontrivial := false
		byPkg := map[string]map[int]bool{}
		for w, a := range r.Assign {
			for _, fi := range a {
				p := r.Files[fi][0]
				if byPkg[p] == nil {
					byPkg[p] = map[int]bool{}
				}
				byPkg[p][w] = true
			}
		}
		for _, ws := range byPkg {
			if len(ws) >= 2 {
				nontrivial = true
			}
		}
		if r.Sched == "nested" && !o.Held {
			nontrivial = false
		}
		res.Count("run-ctx", key, nontrivial)
		label := c08CtxModeLabel(r.Modes)
		res.Dist("ctx-round:context=" + label)
		res.Dist("ctx-round:gen=" + r.Gen)
		if len(r.Gone) > 0 {
			res.Dist("ctx-round:some-files-not-on-disk")
		}
		res.Dist(fmt.Sprintf("ctx-round:packages=%d", len(r.Pkgs)))
		res.Dist(fmt.Sprintf("ctx-round:files=%d", len(r.Files)))
		res.Dist(fmt.Sprintf("ctx-round:workers=%d", len(r.Assign)))
		switch {
		case r.Sched == "nested" && o.Held:
			res.Dist("ctx-round:sched=nested:held")
		case r.Sched == "nested":
			res.Dist("ctx-round:sched=nested:not-held(fewer reports)")
		default:
			res.Dist("ctx-round:sched=free")
		}
		for _, kd := range r.Kinds {
			res.Dist("ctx-rule:" + kd)
		}
		for fi := range r.Files {
			switch {
			case o.BaseStatus[fi] != "ok":
				res.Dist("ctx-baseline:" + strings.SplitN(o.BaseStatus[fi], " ", 2)[0])
			case len(o.Baseline[fi]) == 0:
				res.Dist("ctx-baseline:no-report")
			default:
				res.Dist("ctx-baseline:reports")
			}
		}
		calls := ctxCalls(&r)
		var want, got, diffs []string
		for w, a := range r.Assign {
			for j, fi := range a {
				g := ""
				if w < len(o.Status) && j < len(o.Status[w]) {
					g = o.Status[w][j]
				}
				want = append(want, "call "+o.BaseStatus[fi])
				got = append(got, "call "+g)
				if g != o.BaseStatus[fi] && len(diffs) < 4 {
					diffs = append(diffs, fmt.Sprintf("worker %d (%s) call %d on %s: %s; the lone run: %s", w, r.Modes[w], j, strings.Join(r.Files[fi][:], ":"), g, o.BaseStatus[fi]))
				}
			}
		}
		for fi := range r.Files {
			wr, gr := ctxExpect(o.Baseline[fi], calls[fi]), ctxObserved(o.Got[fi], calls[fi])
			want = append(want, strings.Join(wr, "\n"))
			got = append(got, strings.Join(gr, "\n"))
			if strings.Join(wr, "\n") != strings.Join(gr, "\n") && len(diffs) < 4 {
				missing, extra := tidLineDiff(wr, gr)
				if len(missing)+len(extra) == 0 {
					diffs = append(diffs, fmt.Sprintf("file %s (%d call): the reports of the lone run, in another order", strings.Join(r.Files[fi][:], ":"), calls[fi]))
				} else {
					diffs = append(diffs, fmt.Sprintf("file %s (%d calls): %d reports of the lone run(s) not delivered (first: %s), %d delivered that no lone run delivers (first: %s)",
						strings.Join(r.Files[fi][:], ":"), calls[fi], len(missing), c08First(missing), len(extra), c08First(extra)))
				}
			}
		}
		want = append(want, "stray:")
		got = append(got, "stray:"+strings.Join(o.Stray, "\n"))
		if len(o.Stray) > 0 && len(diffs) < 5 {
			diffs = append(diffs, fmt.Sprintf("%d reports positioned outside the files of the package being linted (first: %s)", len(o.Stray), o.Stray[0]))
		}
		var wantA, gotA, diffsA []string
		for fi := range r.Files {
			wantA = append(wantA, o.BaseStatus[fi]+"\n"+strings.Join(o.Baseline[fi], "\n"))
			gotA = append(gotA, o.AfterStatus[fi]+"\n"+strings.Join(o.After[fi], "\n"))
			if wantA[fi] != gotA[fi] && len(diffsA) < 3 {
				missing, extra := tidLineDiff(o.Baseline[fi], o.After[fi])
				diffsA = append(diffsA, fmt.Sprintf("file %s: %s (lone: %s), %d reports missing (first: %s), %d extra (first: %s)", strings.Join(r.Files[fi][:], ":"),
					o.AfterStatus[fi], o.BaseStatus[fi], len(missing), c08First(missing), len(extra), c08First(extra)))
			}
		}
		srcs := map[string]string{}
		if len(diffs)+len(diffsA) > 0 {
			for pi, p := range r.Pkgs {
				for _, n := range p.All {
					if b, err := os.ReadFile(filepath.Join(p.Dir, n)); err == nil && len(srcs) < 12 {
						srcs[fmt.Sprintf("%d:%s", pi, n)] = string(b)
					}
				}
			}
		}
		if o.Narrow != nil {
			// the discipline the two-goroutine replay needed, not the mix of the round
			label = o.Narrow.Mode
		}
		rops = append(rops, fmt.Sprintf("spec08run %s %s", c08Hash(want), c08Hash(got)))
		rmeta = append(rmeta, map[string]interface{}{"sig": "Run:RunContext=" + label + ":concurrent-differs-from-lone-run", "round": r, "diffs": diffs,
			"gomaxprocs": spec.GoMaxProcs, "narrowed": o.Narrow, "sources": srcs,
			"what": "goroutines linting the files of one package (one types.Info / FileSet / Package; context discipline per worker in round.modes) do not deliver what lone runs of the files deliver"})
		rops = append(rops, fmt.Sprintf("spec08run %s %s", c08Hash(wantA), c08Hash(gotA)))
		rmeta = append(rmeta, map[string]interface{}{"sig": "Run:RunContext=" + label + ":sequential-reuse-after-concurrency-differs-from-lone-run", "round": r, "diffs": diffsA,
			"gomaxprocs": spec.GoMaxProcs, "narrowed": o.Narrow, "sources": srcs,
			"what": "after the concurrent calls, a sequential loop over the files with the same context objects does not deliver what lone runs deliver"})
	}
	if len(rops) == 0 {
		return nil
	}
	rans, err := c.Drv.Ask(rops)
	if err != nil {
		return err
	}
	for i, a := range rans {
		if a != "holds" {
			m := rmeta[i]
			res.Violate(hx.Violation{Signature: m["sig"].(string), What: m["what"].(string), Input: m, Impl: fmt.Sprint(m["diffs"]), Spec: rops[i] + " -> " + a})
		}
	}
	res.Sample(map[string]interface{}{"op": rops[0], "answer": rans[0], "suite": "run-ctx"})
	return nil
}

func c08First(xs []string) string {
	if len(xs) == 0 {
		return "-"
	}
	return xs[0]
}
