package main

import (
	"fmt"
	"go/ast"
	"go/parser"
	"go/token"
	"go/types"
	"math/rand"
	"regexp"
	"sort"
	"strings"

	"github.com/quasilyte/go-ruleguard/ruleguard"
	"github.com/quasilyte/go-ruleguard/ruleguard/typematch"
	"verifharness/hx"
)

func init() { register("C10", runC10) }

// c10ModelVariant selects the Lean model the correspondence compares Pattern.MatchIdentical against:
// "0" = typematch and xtypes.Identical before their repairs, "1" = old matcher + repaired xtypes.Identical,
// "2" = the code as it is now (fixes/c10-*.diff: backtracking matcher, aliases looked through, variadic / generic
// signatures and function-local types rejected; repaired xtypes.Identical), "3" = new matcher + old identity.
const c10ModelVariant = "2"

const (
	c10VarPrefix    = "ᐸvarᐳ"
	c10VarSeqPrefix = "ᐸvar_seqᐳ"
)

// --- go/ast -> TExpr S-expression (what Lean's parseExpr consumes) ---------------------------------

func c10Fields(sb *strings.Builder, fl *ast.FieldList) {
	if fl == nil {
		return
	}
	for i, f := range fl.List {
		if i > 0 {
			sb.WriteByte(' ')
		}
		fmt.Fprintf(sb, "(field %d ", len(f.Names))
		c10TExpr(sb, f.Type)
		sb.WriteByte(')')
	}
}

func c10TExpr(sb *strings.Builder, e ast.Expr) {
	switch e := e.(type) {
	case *ast.Ident:
		fmt.Fprintf(sb, "(ident n:%s)", e.Name)
	case *ast.SelectorExpr:
		sb.WriteString("(sel ")
		c10TExpr(sb, e.X)
		fmt.Fprintf(sb, " n:%s)", e.Sel.Name)
	case *ast.StarExpr:
		sb.WriteString("(star ")
		c10TExpr(sb, e.X)
		sb.WriteByte(')')
	case *ast.ArrayType:
		if e.Len == nil {
			sb.WriteString("(slicet ")
		} else {
			sb.WriteString("(arrayt ")
			c10TExpr(sb, e.Len)
			sb.WriteByte(' ')
		}
		c10TExpr(sb, e.Elt)
		sb.WriteByte(')')
	case *ast.BasicLit:
		if e.Kind == token.INT {
			fmt.Fprintf(sb, "(intlit n:%s)", e.Value)
		} else {
			sb.WriteString("otherlit")
		}
	case *ast.MapType:
		sb.WriteString("(mapt ")
		c10TExpr(sb, e.Key)
		sb.WriteByte(' ')
		c10TExpr(sb, e.Value)
		sb.WriteByte(')')
	case *ast.ChanType:
		fmt.Fprintf(sb, "(chant %d ", int(e.Dir))
		c10TExpr(sb, e.Value)
		sb.WriteByte(')')
	case *ast.ParenExpr:
		sb.WriteString("(paren ")
		c10TExpr(sb, e.X)
		sb.WriteByte(')')
	case *ast.FuncType:
		sb.WriteString("(funct (")
		c10Fields(sb, e.Params)
		sb.WriteString(") (")
		c10Fields(sb, e.Results)
		sb.WriteString("))")
	case *ast.StructType:
		sb.WriteString("(structt")
		if e.Fields != nil && len(e.Fields.List) > 0 {
			sb.WriteByte(' ')
		}
		c10Fields(sb, e.Fields)
		sb.WriteByte(')')
	case *ast.InterfaceType:
		sb.WriteString("(ifacet")
		if e.Methods != nil && len(e.Methods.List) > 0 {
			sb.WriteByte(' ')
		}
		c10Fields(sb, e.Methods)
		sb.WriteByte(')')
	default:
		sb.WriteString("other")
	}
}

// --- the import table used by every parse ----------------------------------------------------------

type c10Scope [][2]string

var c10Itab = []c10Scope{
	{{"atmpl", "ext/alpha/tmpl"}, {"btmpl", "ext/beta/tmpl"}, {"p", "example.com/m/p"}, {"tmpl", "ext/alpha/tmpl"}},
	{{"tmpl", "ext/beta/tmpl"}, {"q", "example.com/m/p"}, {"syn", "syn/c"}},
}

func c10NewItab() *typematch.ImportsTab {
	m := map[string]string{}
	for _, kv := range c10Itab[0] {
		m[kv[0]] = kv[1]
	}
	it := typematch.NewImportsTab(m)
	for _, sc := range c10Itab[1:] {
		it.EnterScope()
		for _, kv := range sc {
			it.Load(kv[0], kv[1])
		}
	}
	return it
}

func c10ItabSExp() string {
	var sb strings.Builder
	sb.WriteByte('(')
	for i, sc := range c10Itab {
		if i > 0 {
			sb.WriteByte(' ')
		}
		sb.WriteByte('(')
		for j, kv := range sc {
			if j > 0 {
				sb.WriteByte(' ')
			}
			fmt.Fprintf(&sb, "(n:%s p:%s)", kv[0], kv[1])
		}
		sb.WriteByte(')')
	}
	sb.WriteByte(')')
	return sb.String()
}

// --- patterns from type expressions -----------------------------------------------------------------

type c10Gen struct {
	r     *rand.Rand
	abs   int // one in `abs` nodes is abstracted into a variable (0: never — closed pattern)
	seq   bool
	nvars int
}

func (g *c10Gen) fresh() string {
	switch g.r.Intn(4) {
	case 0:
		return "$_"
	case 1:
		return "$x" // reused on purpose: repeated-variable consistency
	}
	g.nvars++
	return fmt.Sprintf("$v%d", g.nvars)
}

// qualify spells a type name of the main package the way a pattern has to.
func c10Qualify(s string) (string, bool) {
	switch {
	case s == "any":
		return "interface{}", true
	case s == "interface{}" || s == "error" || s == "unsafe.Pointer":
		return s, true
	case strings.HasPrefix(s, "vtmpl."):
		return "atmpl." + s[len("vtmpl."):], true // a vendored copy is spelt by its import path
	case strings.Contains(s, "."):
		return s, true
	}
	for _, b := range tgBasics {
		if b == s {
			return s, true
		}
	}
	return "p." + s, true
}

// simpleMember: what go/parser accepts as an unnamed struct member
func c10SimpleMember(s string) bool {
	s = strings.TrimPrefix(s, "*")
	if s == "" || strings.HasPrefix(s, "$*") {
		return true
	}
	for _, c := range s {
		if !(c == '.' || c == '_' || c == '$' || c >= '0' && c <= '9' || c >= 'a' && c <= 'z' || c >= 'A' && c <= 'Z') {
			return false
		}
	}
	return true
}

func (g *c10Gen) list(ts []*tx, variadicLast bool, member bool) string {
	var parts []string
	i := 0
	for i < len(ts) {
		if g.seq && g.r.Intn(3) == 0 {
			// a run of 0..2 elements becomes `$*_`
			i += g.r.Intn(3)
			parts = append(parts, "$*_")
			continue
		}
		s := g.pat(ts[i])
		if variadicLast && i == len(ts)-1 {
			s = "[]" + s // a pattern cannot spell `...T`; `[]T` is what the parameter's type is
		}
		if member && !c10SimpleMember(s) {
			s = g.fresh()
		}
		parts = append(parts, s)
		i++
	}
	if g.seq && g.r.Intn(4) == 0 {
		parts = append(parts, "$*_")
	}
	sep := ", "
	if member {
		sep = "; "
	}
	return strings.Join(parts, sep)
}

func (g *c10Gen) pat(t *tx) string {
	if g.abs > 0 && g.r.Intn(g.abs) == 0 {
		return g.fresh()
	}
	switch t.k {
	case "basic", "named":
		s, _ := c10Qualify(t.s)
		return s
	case "tparam":
		return "$_"
	case "gen":
		if g.abs == 0 {
			// not spellable: `pkg.Box` is the closest a pattern gets to an instantiated type
			s, _ := c10Qualify(t.s)
			return s
		}
		return g.fresh()
	case "ptr":
		return "*" + g.pat(t.a[0])
	case "slice":
		return "[]" + g.pat(t.a[0])
	case "array":
		if g.abs > 0 && g.r.Intn(3) == 0 {
			return fmt.Sprintf("[$n]%s", g.pat(t.a[0]))
		}
		return fmt.Sprintf("[%d]%s", t.n, g.pat(t.a[0]))
	case "map":
		return "map[" + g.pat(t.a[0]) + "]" + g.pat(t.a[1])
	case "chan":
		switch t.n {
		case 1:
			return "chan<- " + g.pat(t.a[0])
		case 2:
			return "<-chan " + g.pat(t.a[0])
		}
		return "chan (" + g.pat(t.a[0]) + ")"
	case "func":
		s := "func(" + g.list(t.a[:t.n], t.v, false) + ")"
		res := t.a[t.n:]
		if len(res) > 0 {
			s += " (" + g.list(res, false, false) + ")"
		}
		return s
	case "struct":
		var ts []*tx
		for _, f := range t.f {
			ts = append(ts, f.t)
		}
		return "struct{" + g.list(ts, false, true) + "}"
	case "iface":
		if len(t.m) == 0 {
			return "interface{}"
		}
		return "interface{ $*_ }"
	}
	return "$_"
}

// closedOK: the closed pattern of t spells exactly t's type (so go/types.Identical is an oracle for it)
func c10ClosedOK(t *tx) bool {
	switch t.k {
	case "tparam", "gen", "iface":
		return t.k == "iface" && len(t.m) == 0
	case "named":
		// aliases cannot be resolved by a pattern; a vendored path is spelt by the import path (not an identity oracle)
		return t.s != "AInt" && t.s != "ATmpl" && !strings.HasPrefix(t.s, "vtmpl.")
	case "func":
		if t.v {
			return false
		}
	case "struct":
		// a struct pattern spells member types only (no names, tags, embeddedness): not a type spelling
		return false
	}
	for _, x := range t.a {
		if !c10ClosedOK(x) {
			return false
		}
	}
	for _, f := range t.f {
		if !c10ClosedOK(f.t) {
			return false
		}
	}
	return true
}

var c10KernelPatterns = []string{
	"int", "*int", "[]$x", "[3]$x", "[$n]int", "[$n][$n]int", "[$_][$_]int", "map[$k]$v", "map[$t]$t", "chan<- $x", "<-chan $x", "chan $x",
	"atmpl.Template", "btmpl.Template", "p.Template", "tmpl.Template", "q.Template", "*atmpl.Template", "p.Box", "p.MyInt", "p.AInt", "syn.T",
	"func(int, []string)", "func(int, $*_)", "func($*_, int)", "func($*_, $t, $t)", "func($*_) $*_", "func($x) $x", "func($*_, string)",
	"func($*_, string, $*_)", "func(int, int)", "func($t, $t)",
	"struct{$*_}", "struct{$*_; int}", "struct{int; $*_}", "struct{$*_; int; $*_}", "struct{$x; $x}", "struct{$*_; $x; $*_; $x; $*_}",
	"func($*_, map[$k]int, $k)", "struct{$*_; $*_}", "struct{atmpl.Template; $*_}", "struct{$_; $_; $_}", "struct{}",
	"interface{}", "interface{ $*_ }", "error", "unsafe.Pointer", "$_", "$x", "[]byte", "[]uint8", "rune",
	"map[string]atmpl.Template", "map[atmpl.Option]$v", "[2]func($*_) ($_, error)", "[2]func([]int) (string, error)", "(int)", "*(*p.Tree)",
	// a split point (or a binding) chosen early has to be revised because of something matched later, outside the list
	"func($*_, $t, $*_) $t", "func($*_, $t, $*_) ($*_, $t)", "func($*_, [$n]int, $*_) [$n]string", "struct{func($*_, $t, $*_); $t}",
	"map[struct{$*_; $t; $*_}]$t", "struct{$*_; $t; $*_; func($t)}", "func($*_, [$n]$t, $*_) [$n]$t", "func($*_, $_) $*_", "func($_, $*_, $_)",
	"func($_, $*_, $t, $*_) $t", "struct{$_; $*_; $t; $*_; func($t)}", "map[$k]func($_, $*_, $k, $*_)",
	// a repeated variable under further constructors, next to array patterns that spell or bind the length
	"[]func($t) $t", "*struct{$t; $t}", "func($_, $t, $_, $t)", "map[*$t]*$t", "func([0]$t, [8]$t)", "func([$n]$t, [$n]$t)", "map[[$n]$t][$m]$t",
	"[0]$x", "[0][$n]$x", "[$n][0]$x", "*[0]$x", "[][0]$x", "func($t, $*_) $t", "struct{$t; $*_; $t}",
	// the split of a `$*_` run in a RESULT list (of a nested function type) has to be revised because of what follows the function type
	"func(func() ($*_, $t, $*_), $t)", "func(func() ($*_, [$n]byte, $*_)) [$n]int", "map[*func() ($*_, $t, $*_)]$t", "func(func($*_, $t, $*_), $t)",
	"func(func() ($*_, $t), $t)", "func() (func() ($*_, $t, $*_), $t)", "struct{func() ($*_, $t, $*_); $t}", "[]func(func() ($*_, $t, $*_)) $t",
	// a qualified name whose selector is spelt like a predeclared type (the universe types have no package)
	"atmpl.error", "[]q.error", "map[string]p.int", "func() tmpl.error", "*p.any", "p.string",
	"func(int) $*_", "func() ($*_, error)", "func($*_, func() $*_, $*_)", "func(func() ($*_, $k, $*_), func() ($*_, $k, $*_))",
}

// strings for the parse-only stream: valid and invalid spellings
var c10ParseEdge = []string{
	"func(x int)", "func(x, y int) string", "func() (x int)", "func(...int)", "func(int, ...string)", "[0x10]int", "[1_0]int", "[010]int",
	"[0]int", "[9223372036854775807]int", "[9223372036854775808]int", "[99999999999999999999]int", "[...]int", "[$n]", "[-1]int", "[1+1]int",
	"$*x", "$*_", "[]$*_", "$", "$$", "[$*_]int", "[\"a\"]int", "['a']int", "[1.5]int",
	"interface{ M() }", "interface{ $*_; $*_ }", "interface{ $x }", "interface{ int }", "interface{ error }",
	"a.b.c", "unknownpkg.T", "unsafe.Pointer", "unsafe.Sizeof", "p.Box[int]", "p.Pair[int, string]", "(int)", "*(int)", "((int))",
	"struct{ x int }", "struct{ int; x string }", "struct{ int `tag` }", "chan (<-chan int)", "chan<- chan int", "<-chan <-chan int",
	"map[int]", "any", "comparable", "nil", "true", "error", "string", "bool", "uintptr", "complex64", "float32", "int16", "uint64",
	"tmpl.T", "q.T", "p.T", "atmpl", "func()", "func() ()", "func(($x))", "1", "\"s\"", "x + y", "f(x)", "[]int{}", "*", "", "struct{$*_; $*x}",
	"map[$k]map[$k]$k", "func(func($*_)) func($*_)", "struct{*$x; *p.Tree}",
}

func c10Replace(s string) string {
	s = strings.ReplaceAll(s, "$*", c10VarSeqPrefix)
	return strings.ReplaceAll(s, "$", c10VarPrefix)
}

type c10Pat struct {
	Src    string
	Tree   string // as dumped by the hook; "" if Parse failed
	Pat    *typematch.Pattern
	Closed *tx // non-nil: a closed pattern spelling exactly this type expression
	Of     int // index of the base it was derived from (-1: kernel)
}

// c10Parse runs the real Parse and the model's parseExpr on one pattern string.
func c10Parse(c *Ctx, ctx *typematch.Context, enc *hx.TyEnc, errObj int, itab string, src string, ops, impl *[]string, inputs *[]interface{}) (*c10Pat, bool) {
	res := c.Res
	p := &c10Pat{Src: src, Of: -1}
	var perr error
	out := hx.Safe(func() string {
		pat, err := typematch.Parse(ctx, src)
		if err != nil {
			perr = err
			return "nil"
		}
		p.Pat = pat
		return typematch.VerifPatternTree(pat, func(t types.Type) string {
			switch t := t.(type) {
			case *types.Basic:
				return fmt.Sprintf("(basic %d)", int(t.Kind()))
			case *types.Named:
				return "error"
			case *types.Interface:
				return "eface"
			}
			return "?"
		})
	})
	if out != "nil" && !strings.HasPrefix(out, "panic") {
		p.Tree = out
	}
	e, err := parser.ParseExpr(c10Replace(src))
	if err != nil {
		// the trusted parser rejects the string: Parse must report an error
		res.Count("parse", "syntax:"+src, false)
		res.Dist("parse:syntax-error")
		if out != "nil" {
			res.Disagree(hx.Disagreement{Suite: "parse", Op: "tmparse " + src, Impl: out, Model: "nil (go/parser error)", Input: src})
		}
		return p, false
	}
	_ = perr
	var sb strings.Builder
	c10TExpr(&sb, e)
	*ops = append(*ops, fmt.Sprintf("tmparse %d %s %s", errObj, itab, sb.String()))
	*impl = append(*impl, out)
	*inputs = append(*inputs, map[string]interface{}{"pattern": src})
	res.Count("parse", src, true)
	if out == "nil" {
		res.Dist("parse:rejected")
	} else {
		res.Dist("parse:" + strings.Trim(strings.Fields(out)[0], "()"))
	}
	return p, true
}

func c10EncPat(enc *hx.TyEnc, errObj int, tree string) string {
	// the hook prints builtin payloads symbolically; expand them into Ty S-expressions
	tree = strings.ReplaceAll(tree, "(builtin error)", fmt.Sprintf("(builtin (named 0 %d - n:error 0 0 ()))", errObj))
	tree = strings.ReplaceAll(tree, "(builtin eface)", "(builtin (iface 1 0 () ()))")
	return tree
}

func runC10(c *Ctx) error {
	res := c.Res
	groups, nBase := 6, 10
	if c.Thorough {
		groups, nBase = 60, 12
	}
	res.Rule = "parse: kernel + edge + generated pattern strings through typematch.Parse (tree dumped by VerifPatternTree) vs model parseExpr on the go/ast " +
		"of the same string; match: per group (sources of C14: same-named types in 3 packages, vendored copy, generics, aliases under gotypesalias=1/0) " +
		"every pattern derived from a base type expression (closed, with variables, with $*_ runs) against the base, its identical copies and its near " +
		"misses, and every kernel pattern against every probe type, through Pattern.MatchIdentical (model op tmmatchmat); the executable spec " +
		"(specmat10: complete backtracking, Go-spec identity) is evaluated on the implementation's answers; closed patterns are validated against " +
		"go/types.Identical; Type.Is filter outcomes through Engine.Run. Type universe: arrays of length 0, 1, 2, 3, 8 (arrays of arrays, pointers and slices of them), " +
		"twin declarations holding a type and a copy / respelling / near miss of it at the two positions a repeated variable compares; synthetic named types whose package " +
		"path is syn/c, a vendored copy of it, or a look-alike (segments that merely contain, start or end with `vendor`, 1-3 deep, `vendor` as the last element). Non-trivial: pattern and type have the same top-level constructor; distinct by (group, pattern, type)"
	itab := c10ItabSExp()
	ctx := &typematch.Context{Itab: c10NewItab()}
	for gi := 0; gi < groups; gi++ {
		g, err := c14NewGroup(c, gi, nBase)
		if err != nil {
			return err
		}
		rng := hx.Rng(c.Seed, fmt.Sprintf("c10-group-%d", gi))
		enc := g.enc
		_, errObj := 0, 0
		{
			s := enc.MustEnc(types.Universe.Lookup("error").Type())
			fmt.Sscanf(s, "(named 0 %d", &errObj)
		}
		// --- patterns
		var pops, pimpl []string
		var pinputs []interface{}
		var pats []*c10Pat
		addPat := func(src string, of int, closed *tx) {
			p, _ := c10Parse(c, ctx, enc, errObj, itab, src, &pops, &pimpl, &pinputs)
			p.Of, p.Closed = of, closed
			if p.Tree != "" {
				pats = append(pats, p)
			}
		}
		for _, s := range c10KernelPatterns {
			addPat(s, -1, nil)
		}
		if gi == 0 {
			for _, s := range c10ParseEdge {
				c10Parse(c, ctx, enc, errObj, itab, s, &pops, &pimpl, &pinputs)
			}
		}
		for bi, b := range g.bases {
			var closed *tx
			if c10ClosedOK(b.Tx) {
				closed = b.Tx
			}
			addPat((&c10Gen{r: rng}).pat(b.Tx), bi, closed)
			addPat((&c10Gen{r: rng, abs: 4}).pat(b.Tx), bi, nil)
			addPat((&c10Gen{r: rng, abs: 6, seq: true}).pat(b.Tx), bi, nil)
			addPat((&c10Gen{r: rng, abs: 3, seq: true}).pat(b.Tx), bi, nil)
		}
		if err := res.Compare(c.Drv, "parse", pops, pimpl, pinputs); err != nil {
			return err
		}
		// --- types: every probe of universe 1 that serialises, plus synthetic vendored paths (group 0)
		type typ struct {
			name string
			t    types.Type
			sx   string
		}
		var tys []typ
		byName := map[string]int{}
		for i, p := range g.probes[0] {
			if g.sx[0][i] == "" {
				continue
			}
			byName[p.Name] = len(tys)
			tys = append(tys, typ{p.Name, p.Type, g.sx[0][i]})
		}
		nSyn := 0
		for _, path := range c10PkgPaths(rng) {
			pk := types.NewPackage(path, "c")
			enc.Universe(1, nil, pk)
			obj := types.NewTypeName(0, pk, "T", nil)
			pk.Scope().Insert(obj)
			nt := types.NewNamed(obj, types.Typ[types.Int], nil)
			tys = append(tys, typ{"syn:" + path + ".T", nt, enc.MustEnc(nt)})
			res.Dist("match:pkg-path:" + c10PathClass(path))
			nSyn++
		}
		// synthetic types on which only one split of a `$*_` (not the first that fits locally) leads to a match
		{
			v := func(t types.Type) *types.Var { return types.NewVar(0, nil, "", t) }
			fn := func(ps []types.Type, rs []types.Type) *types.Signature {
				var pv, rv []*types.Var
				for _, t := range ps {
					pv = append(pv, v(t))
				}
				for _, t := range rs {
					rv = append(rv, v(t))
				}
				return types.NewSignatureType(nil, nil, nil, types.NewTuple(pv...), types.NewTuple(rv...), false)
			}
			st := func(ts ...types.Type) *types.Struct {
				var fs []*types.Var
				for i, t := range ts {
					fs = append(fs, types.NewField(0, nil, fmt.Sprintf("F%d", i), t, false))
				}
				return types.NewStruct(fs, nil)
			}
			tInt, tStr, tBool := types.Typ[types.Int], types.Typ[types.String], types.Typ[types.Bool]
			for i, t := range []types.Type{
				fn([]types.Type{tInt, tStr}, []types.Type{tStr}),
				fn([]types.Type{tInt, tStr, tBool}, []types.Type{tInt, tStr}),
				fn([]types.Type{types.NewArray(tInt, 2), types.NewArray(tInt, 3)}, []types.Type{types.NewArray(tStr, 3)}),
				st(fn([]types.Type{tInt, tStr}, nil), tStr),
				types.NewMap(st(tInt, tStr, tBool), tStr),
				st(tInt, tStr, tBool, fn([]types.Type{tStr}, nil)),
				fn([]types.Type{types.NewArray(tInt, 2), types.NewArray(tStr, 3)}, []types.Type{types.NewArray(tStr, 3)}),
				fn([]types.Type{tInt, tStr}, []types.Type{tInt}),
				fn([]types.Type{tBool, tInt, tStr}, []types.Type{tStr}),
				st(tBool, tInt, tStr, fn([]types.Type{tStr}, nil)),
				types.NewMap(tStr, fn([]types.Type{tBool, tInt, tStr}, nil)),
				// nested function types whose result lists need the second split
				fn([]types.Type{fn(nil, []types.Type{tInt, tStr}), tStr}, nil),
				fn([]types.Type{fn(nil, []types.Type{tInt, tStr}), tInt}, nil),
				fn([]types.Type{fn(nil, []types.Type{tInt, tStr}), tBool}, nil),
				fn([]types.Type{fn(nil, []types.Type{types.NewArray(types.Typ[types.Byte], 4), types.NewArray(types.Typ[types.Byte], 8)})}, []types.Type{types.NewArray(tInt, 8)}),
				types.NewMap(types.NewPointer(fn(nil, []types.Type{tInt, tStr, tBool})), tStr),
				fn(nil, []types.Type{fn(nil, []types.Type{tBool, tInt, tStr}), tInt}),
				st(fn(nil, []types.Type{tInt, tStr}), tStr),
				types.NewSlice(fn([]types.Type{fn(nil, []types.Type{tInt, tStr, tBool})}, []types.Type{tBool})),
				fn([]types.Type{tInt}, nil),
				fn([]types.Type{tInt}, []types.Type{tStr, types.Universe.Lookup("error").Type()}),
				fn(nil, []types.Type{tInt, tStr, types.Universe.Lookup("error").Type()}),
				fn([]types.Type{tInt, fn(nil, []types.Type{tInt, tStr}), tStr}, nil),
				fn([]types.Type{fn(nil, []types.Type{tInt, tStr}), fn(nil, []types.Type{tStr, tBool})}, nil),
			} {
				sx, err := enc.Enc(t)
				if err != nil {
					return err
				}
				tys = append(tys, typ{fmt.Sprintf("syn:bt%d", i), t, sx})
				nSyn++
			}
		}
		// --- which (pattern, type) pairs
		type pair struct{ p, t int }
		var pairs []pair
		for pi, p := range pats {
			if p.Of < 0 {
				for ti := range tys {
					pairs = append(pairs, pair{pi, ti})
				}
				continue
			}
			seen := map[int]bool{}
			for _, v := range g.bases[p.Of].Vars {
				if ti, ok := byName[v]; ok {
					pairs = append(pairs, pair{pi, ti})
					seen[ti] = true
				}
			}
			for k := 0; k < 6; k++ {
				ti := rng.Intn(len(tys))
				if !seen[ti] {
					seen[ti] = true
					pairs = append(pairs, pair{pi, ti})
				}
			}
		}
		// --- run: implementation, model, spec (one matrix line per pattern)
		state := typematch.NewMatcherState()
		sort.SliceStable(pairs, func(a, b int) bool { return pairs[a].p < pairs[b].p })
		var mops, sops []string
		var rows [][]pair
		for i := 0; i < len(pairs); {
			j := i
			for j < len(pairs) && pairs[j].p == pairs[i].p {
				j++
			}
			row := pairs[i:j]
			var tl []string
			for _, pr := range row {
				tl = append(tl, tys[pr.t].sx)
			}
			ptree := c10EncPat(enc, errObj, pats[row[0].p].Tree)
			mops = append(mops, fmt.Sprintf("tmmatchmat %s (%s) (%s)", c10ModelVariant, ptree, strings.Join(tl, " ")))
			sops = append(sops, fmt.Sprintf("specmat10 (%s) (%s)", ptree, strings.Join(tl, " ")))
			rows = append(rows, row)
			i = j
		}
		mans, err := c.Drv.Ask(mops)
		if err != nil {
			return err
		}
		sans, err := c.Drv.Ask(sops)
		if err != nil {
			return err
		}
		type viol struct {
			pat, ty, impl string
			in            map[string]interface{}
		}
		var viols []viol
		for ri, row := range rows {
			if len(mans[ri]) != len(row) || len(sans[ri]) != len(row) {
				return fmt.Errorf("driver: row answer of wrong size: %q", mans[ri])
			}
			p := pats[row[0].p]
			ptree := c10EncPat(enc, errObj, p.Tree)
			for k, pr := range row {
				ty := tys[pr.t]
				t := ty.t
				out := hx.Safe(func() string { return c14Bool(p.Pat.MatchIdentical(state, t)) })
				in := map[string]interface{}{"group": gi, "gotypesalias": g.alias, "pattern": p.Src, "type": types.TypeString(ty.t, nil), "var": ty.name}
				kind := strings.Trim(strings.Fields(p.Tree)[0], "()")
				nontrivial := strings.EqualFold(strings.TrimSuffix(strings.TrimSuffix(kind, "noseq"), "var"), strings.ToLower(c14Kind(types.Unalias(ty.t)))) ||
					kind == "var" || (strings.HasPrefix(kind, "func") && strings.HasPrefix(c14Kind(ty.t), "Signature")) || (kind == "named" && strings.HasPrefix(c14Kind(ty.t), "Named"))
				res.Count("match", fmt.Sprintf("%d/%s/%s", gi, p.Src, ty.name), nontrivial)
				res.Dist("match:pat:" + kind)
				res.Dist("match:impl:" + out)
				if strings.Contains(p.Src, "$*") {
					res.Dist("match:with-seq")
				}
				mb := c14Bool(mans[ri][k] == '1')
				if mb != out {
					res.Disagree(hx.Disagreement{Suite: "match", Op: fmt.Sprintf("tmmatch %s %s %s", c10ModelVariant, ptree, ty.sx), Impl: out, Model: mb, Input: in})
				}
				sc := sans[ri][k]
				if sc == 'n' {
					res.Dist("match:spec-na")
				} else {
					res.Dist("match:spec:" + string(sc))
					sb := c14Bool(sc == '1')
					if p.Closed != nil && !strings.Contains(types.TypeString(ty.t, nil), "/vendor/") {
						// oracle for closed patterns: identity with the type the pattern spells (the base variable)
						bt := tys[byName[g.bases[p.Of].Vars[0]]].t
						want := c14Bool(types.Identical(bt, ty.t))
						res.Dist("match:closed-oracle")
						if want != sb {
							res.Disagree(hx.Disagreement{Suite: "spec-vs-gotypes", Op: fmt.Sprintf("spec10 %s %s %s", ptree, ty.sx, want),
								Impl: "go/types.Identical(base, type): " + want, Model: "lean spec: " + sb, Input: in})
						}
					}
					if sb != out {
						viols = append(viols, viol{ptree, ty.sx, out, in})
					}
				}
			}
		}
		if len(res.Samples) < 4 && len(rows) > 0 {
			res.Sample(map[string]interface{}{"op": mops[len(mops)/2][:min(len(mops[len(mops)/2]), 300)], "answer": mans[len(mans)/2]})
		}
		if len(viols) > 0 {
			sort.SliceStable(viols, func(a, b int) bool { return len(viols[a].pat)+len(viols[a].ty) < len(viols[b].pat)+len(viols[b].ty) })
			bops := make([]string, len(viols))
			for k, v := range viols {
				bops[k] = fmt.Sprintf("blame10 %s %s %s", v.pat, v.ty, v.impl)
			}
			labels, err := c.Drv.Ask(bops)
			if err != nil {
				return err
			}
			for k, v := range viols {
				dir := "matches"
				if v.impl == "false" {
					dir = "misses"
				}
				if strings.HasPrefix(v.impl, "panic") {
					dir = "panics"
				}
				label := labels[k]
				if label == "other" {
					// no single clause of the reading explains it: name the input class
					if vn, _ := v.in["var"].(string); strings.HasPrefix(vn, "syn:") && !strings.HasPrefix(vn, "syn:bt") {
						label += ":pkg-path:" + c10PathClass(strings.TrimSuffix(strings.TrimPrefix(vn, "syn:"), ".T"))
					} else if c10RepeatedVar(v.in["pattern"].(string)) {
						label += ":repeated-variable"
					}
				}
				res.Dist("match:violation:" + label)
				res.Violate(hx.Violation{Signature: "MatchIdentical:" + dir + ":" + label,
					What:  "Pattern.MatchIdentical differs from the denotation of the pattern",
					Input: v.in, Impl: v.impl, Spec: fmt.Sprintf("spec10 %s %s %s", v.pat, v.ty, v.impl)})
			}
		}
		if gi < 2 || c.Thorough {
			if err := c10E2E(c, g, tys[:len(tys)-nSyn], func(i int) (string, types.Type, string) { return tys[i].name, tys[i].t, tys[i].sx }, errObj); err != nil {
				return err
			}
		}
	}
	return nil
}

// --- package paths of the synthetic named types -----------------------------------------------------

// c10VendorSegs: directory names that are, contain, start or end with "vendor"; only the segment that is
// exactly `vendor` makes what follows a vendored copy.
var c10VendorSegs = []string{"vendor", "vendors", "xvendor", "govendor", "myvendor", "vendorx", "vendor.d", "my-vendor", "_vendor", "Vendor", "x"}

// c10PkgPaths: the package `syn/c` (what the name `syn` is bound to), genuine vendored copies of it (top-level,
// nested, doubly nested), and look-alikes: 1–3 leading segments drawn from c10VendorSegs, "vendor" glued to the
// first or last element, "vendor" as the last element, a vendored copy of another package below syn/c.
func c10PkgPaths(r *rand.Rand) []string {
	paths := []string{"syn/c", "vendor/syn/c", "x/vendor/syn/c", "x/vendor/y/vendor/syn/c", "x/vendor/syn/c/vendor/syn/d",
		"syn/cvendor/", "syn/cvendor", "syn/c/vendor", "vendor", "vendorsyn/c", "x/vendorsyn/c", "syn/vendor/c", "vendor/vendor/syn/c", "syn/c/vendor/"}
	for _, s := range c10VendorSegs {
		paths = append(paths, s+"/syn/c", "x/"+s+"/syn/c")
	}
	for i := 0; i < 12; i++ {
		n := 2 + r.Intn(2)
		var segs []string
		for k := 0; k < n; k++ {
			segs = append(segs, c10VendorSegs[r.Intn(len(c10VendorSegs))])
		}
		paths = append(paths, strings.Join(segs, "/")+"/syn/c")
	}
	seen := map[string]bool{}
	var out []string
	for _, p := range paths {
		if !seen[p] {
			seen[p] = true
			out = append(out, p)
		}
	}
	return out
}

// c10PathClass names the input class of a synthetic package path (for the distribution record and signatures).
func c10PathClass(p string) string {
	switch {
	case !strings.Contains(p, "vendor") && !strings.Contains(p, "Vendor"):
		return "plain"
	case strings.HasPrefix(p, "vendor/") || strings.Contains(p, "/vendor/"):
		if strings.Count("/"+p, "vendor") > strings.Count("/"+p, "/vendor/") {
			return "vendored+lookalike"
		}
		return "vendored"
	}
	return "vendor-lookalike"
}

// c10RepeatedVar: some `$name` (not `$_`, not a sequence) occurs at least twice in the pattern.
func c10RepeatedVar(src string) bool {
	seen := map[string]bool{}
	for _, m := range c10VarRe.FindAllString(src, -1) {
		if m == "$_" || strings.HasPrefix(m, "$*") {
			continue
		}
		if seen[m] {
			return true
		}
		seen[m] = true
	}
	return false
}

var c10VarRe = regexp.MustCompile(`\$\*?[A-Za-z_][A-Za-z_0-9]*`)

// --- end to end: Type.Is filters ---------------------------------------------------------------------

var c10E2EPatterns = []string{
	"tmpl.Template", "*tmpl.Template", "map[$t]$t", "func($*_, int)", "func(int, []string)", "struct{$*_; int}", "[]$x", "[$n][$n]int",
	"func($*_, $t, $t)", "interface{ $*_ }", "p.MyInt", "error", "func($*_, $t, $*_) $t", "struct{$*_; $t; $*_; $t}",
}

var c10Engines []*ruleguard.Engine

// c10E2E observes MatchIdentical through the public API: Where(m["x"].Type.Is(pattern)) over the main file.
// The rules import ext/alpha/tmpl (name tmpl) and example.com/m/p (name p).  One engine per pattern: the runner
// stops at the first rule that accepts a node (across groups), so patterns sharing an engine would mask each other.
func c10E2E(c *Ctx, g *c14Group, tys interface{}, at func(i int) (string, types.Type, string), errObj int) error {
	res := c.Res
	if len(g.calls) == 0 {
		return nil
	}
	if c10Engines == nil {
		for i, p := range c10E2EPatterns {
			src := fmt.Sprintf("func r%d(m dsl.Matcher) {\n\tm.Import(\"ext/alpha/tmpl\")\n\tm.Import(\"example.com/m/p\")\n\tm.Match(\"implS($x)\").Where(m[\"x\"].Type.Is(%q)).Report(\"P%d\")\n}\n", i, p, i)
			e, err := hx.LoadRules(hx.RulesFile(src))
			if err != nil {
				return fmt.Errorf("load: %v", err)
			}
			c10Engines = append(c10Engines, e)
		}
	}
	s := g.s[0]
	t := &hx.Target{Fset: s.Fset, File: s.Files["example.com/m/p"], Info: s.Info, Pkg: s.Main, Name: "example.com/m/p/file.go"}
	got := map[string]bool{}
	for _, e := range c10Engines {
		reports, pk, frame, err := hx.Run(e, t, hx.RunOpts{})
		if err != nil {
			return err
		}
		if pk != "" {
			res.Violate(hx.Violation{Signature: "Engine.Run:" + pk + ":" + frame, What: "Run panicked on the end-to-end file",
				Input: map[string]interface{}{"group": g.gi}, Impl: pk, Spec: "no panic"})
			return nil
		}
		for _, r := range reports {
			got[fmt.Sprintf("%d/%s", r.Line, r.Message)] = true
		}
	}
	// the model's parse of the same patterns under the rules' import table
	itab := "(((n:tmpl p:ext/alpha/tmpl) (n:p p:example.com/m/p)))"
	var trees []string
	{
		var ops []string
		for _, p := range c10E2EPatterns {
			e, err := parser.ParseExpr(c10Replace(p))
			if err != nil {
				return err
			}
			var sb strings.Builder
			c10TExpr(&sb, e)
			ops = append(ops, fmt.Sprintf("tmparse %d %s %s", errObj, itab, sb.String()))
		}
		ans, err := c.Drv.Ask(ops)
		if err != nil {
			return err
		}
		for _, a := range ans {
			trees = append(trees, c10EncPat(g.enc, errObj, a))
		}
	}
	scope := s.Main.Scope()
	var ops, impl, sops []string
	var inputs []interface{}
	for _, cl := range g.calls {
		if cl.Kind != "implS" {
			continue
		}
		ty := scope.Lookup(cl.A).Type()
		sx, err := g.enc.Enc(ty)
		if err != nil {
			continue
		}
		for i, p := range c10E2EPatterns {
			out := c14Bool(got[fmt.Sprintf("%d/P%d", cl.Line, i)])
			ops = append(ops, fmt.Sprintf("tmmatch %s %s %s", c10ModelVariant, trees[i], sx))
			sops = append(sops, fmt.Sprintf("spec10 %s %s %s", trees[i], sx, out))
			impl = append(impl, out)
			inputs = append(inputs, map[string]interface{}{"group": g.gi, "gotypesalias": g.alias, "pattern": p, "var": cl.A, "type": types.TypeString(ty, nil)})
			res.Count("e2e:Type.Is", fmt.Sprintf("%d/%s/%d", g.gi, cl.A, i), true)
			res.Dist("e2e:Type.Is:" + out)
		}
	}
	if err := res.Compare(c.Drv, "e2e:Type.Is", ops, impl, inputs); err != nil {
		return err
	}
	sans, err := c.Drv.Ask(sops)
	if err != nil {
		return err
	}
	for k, a := range sans {
		if a != "violates" {
			continue
		}
		f := strings.Fields(sops[k])
		label, err := c.Drv.Ask([]string{"blame10 " + strings.Join(f[1:], " ")})
		if err != nil {
			return err
		}
		dir := "matches"
		if impl[k] == "false" {
			dir = "misses"
		}
		res.Violate(hx.Violation{Signature: "Type.Is-filter:" + dir + ":" + label[0], What: "Where(m[\"x\"].Type.Is(pattern)) differs from the denotation of the pattern",
			Input: inputs[k], Impl: impl[k], Spec: sops[k]})
	}
	return nil
}
