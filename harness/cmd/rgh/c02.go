package main

// C02 — Where() predicates mean what the Go type system says they mean.
//
// Probe files (every probe site in its own function) x `Match(<pattern>).Where(<predicate>)` per
// predicate and argument: the verdict of the real engine at every site (Engine.Run; one declaration
// at a time behind a panic) must equal the verdict of the Lean model (`c02`) fed with facts the
// harness computes on its own from go/types and go/ast (type shapes, expression shapes with
// object facts, node tags, answers of the go/types relations the predicates delegate to), and the
// Lean statement of what the predicate means (`spec02`) is evaluated on the implementation's
// verdicts.  The probe file is type-checked under GODEBUG=gotypesalias=0 and =1.

import (
	"fmt"
	"go/ast"
	"go/constant"
	"go/token"
	"go/types"
	"os"
	"path/filepath"
	"regexp"
	"sort"
	"strconv"
	"strings"

	"github.com/quasilyte/go-ruleguard/ruleguard"
	"github.com/quasilyte/go-ruleguard/ruleguard/ir"
	"github.com/quasilyte/gogrep/nodetag"
	"verifharness/hx"
)

// c02Variant: "asis" = the pinned tree; "fixed" = after fixes/ofkind-untyped.diff, fixes/isglobal-nil-object.diff and
// fixes/alias-transparent-type-predicates.diff; "repaired" = in addition after fixes/c02-list-captures.diff,
// c02-typeof-exprstmt.diff, c02-constslice-literal-type.diff, c02-pure-whitelist.diff, c02-variadic-funclit.diff.
const c02Variant = "repaired"

func init() { register("C02", runC02) }

const c02Prelude = `package p

import (
	"fmt"
	"hash"
	"io"
	"testing"
	"unsafe"
)

func probe(a interface{}) int      { return 0 }
func probeN(a ...interface{}) int  { return 0 }
func probe2(a, b interface{}) int  { return 0 }
func fn(x int) int                 { return x }
func fv(xs ...int) int             { return len(xs) }
func gen[T any](x T) T             { return x }

type S1 struct {
	a int8
	b int64
}
type SP struct {
	a int8
	p *int
}
type N8 int8
type NU uint16
type NF float32
type NS string
type A8 = int8
type AS1 = S1
type AP = *int
type ANU = NU
type SA struct {
	a A8
	b AS1
}
type Arr [3]int64
type ArrS [2]string
type E struct{}
type W struct{}

func (W) Write(p []byte) (int, error) { return 0, nil }
func (W) String() string              { return "" }
func (W) Error() string               { return "" }

// method sets that miss an interface of the standard library by one aspect of one signature
type WV struct{} // Write takes ...byte where io.Writer's takes []byte

func (WV) Write(p ...byte) (int, error) { return 0, nil }

type WP struct{} // io.Writer through the pointer receiver only

func (*WP) Write(p []byte) (int, error) { return 0, nil }

type WR struct{} // one result short

func (WR) Write(p []byte) int { return 0 }

type WE struct{ W } // promoted through embedding

type FF struct { // a FIELD named like io.Writer's method, with the identical function type: not a method
	Write func(p []byte) (int, error)
}

type FE struct{ Error func() string } // the same for the predeclared error interface

type FFE struct{ FF } // the field promoted through embedding

type HH struct{} // a hash.Hash

func (HH) Write(p []byte) (int, error) { return 0, nil }
func (HH) Sum(b []byte) []byte         { return b }
func (HH) Reset()                      {}
func (HH) Size() int                   { return 0 }
func (HH) BlockSize() int              { return 0 }

type HV struct{} // Sum takes ...byte

func (HV) Write(p []byte) (int, error) { return 0, nil }
func (HV) Sum(b ...byte) []byte        { return b }
func (HV) Reset()                      {}
func (HV) Size() int                   { return 0 }
func (HV) BlockSize() int              { return 0 }

type LV struct{} // Errorf / Log as testing.TB declares them

func (LV) Errorf(format string, args ...interface{}) {}
func (LV) Log(args ...interface{})                   {}
func (LV) Name() string                              { return "" }

type LS struct{} // the same with slices

func (LS) Errorf(format string, args []interface{}) {}
func (LS) Log(args []interface{})                   {}
func (LS) Name() string                             { return "" }

type LP struct{} // pointer receivers

func (*LP) Errorf(format string, args ...interface{}) {}

type LT struct{} // another element type

func (LT) Errorf(format string, args ...string) {}
func (LT) Log(args ...interface{}) int          { return 0 }

type IV interface {
	Errorf(format string, args ...interface{})
}
type IS interface {
	Errorf(format string, args []interface{})
}

const c5 = 5
const cs = "k"
const cu8 uint8 = 7
const cf = 1.5

var mark bool
var (
	g8   int8
	g16  int16
	g64  int64
	gi   int
	gu   uint
	gu8  uint8
	gup  uintptr
	gf   float64
	gc   complex128
	gb   bool
	gs   string
	gr   rune
	gsl  []int
	gbs  []byte
	garr Arr
	gas  ArrS
	gst  S1
	gsp  SP
	ge   E
	gw   W
	gif  interface{}
	gerr error
	grd  io.Reader
	gp   *int
	gm   map[string]int
	gch  chan int
	gfn  func(int) int
	gup2 unsafe.Pointer
	gn8  N8
	gnu  NU
	gnf  NF
	gns  NS
	ga8  A8
	gas1 AS1
	gap  AP
	ganu ANU
	gsa  SA
	gwv  WV
	gff  FF
	gfe  FE
	gffe FFE
	gwp  WP
	gwr  WR
	gwe  WE
	ghh  HH
	ghv  HV
	glv  LV
	gls  LS
	glp  LP
	glt  LT
	giv  IV
	gis  IS
	gtt  *testing.T
	gfv  func(...int)
	gfs  func([]int)
)

var _ = fmt.Sprint
var _ hash.Hash

`

// expressions for probe($x); %-prefixed ones need the generic frame
var c02Exprs = []string{
	"1", "-3", "c5", "c5 + 1", "cu8", "cu8 + 1", "gu8 + 1", "cf", "1.5", "'a'", "\"str\"", "cs", "true", "nil", "gb", "!gb", "1 << gu",
	"g8", "g16", "g64", "gi", "gu", "gu8", "gup", "gf", "gc", "gs", "gr", "gsl", "gbs", "garr", "gas", "gst", "gsp", "ge", "gw",
	"gif", "gerr", "grd", "gp", "gm", "gch", "gfn", "gup2", "gn8", "gnu", "gnf", "gns", "ga8", "gas1", "gap", "ganu", "gsa",
	"l8", "ls", "(gi)", "((gs))", "gi + 1", "gi + fn(1)", "-gi", "*gp", "&gi", "&gst", "<-gch", "fn(gi)", "fv(1, 2)", "fmt.Sprint(gi)", "fn", "fmt.Sprint",
	"int64(g8)", "N8(g8)", "(N8)(g8)", "[]byte(\"lit\")", "[]byte(gs)", "string(gbs)", "(*int)(nil)", "float64(gi + 1)", "unsafe.Sizeof(gi)", "len(gs)", "io.Reader(nil)",
	"garr[1]", "gsl[gi]", "gm[\"k\"]", "gsl[fn(1)]", "gst.b", "gsa.a", "gsp.p", "(gst).a", "gw.String", "gw.String()",
	"[]int{1, 2}", "[]int{1, gi}", "[]int{}", "[]string{\"a\", cs}", "[...]int{1, 2}", "[2]int{1, 2}", "S1{1, 2}", "S1{a: 1, b: 2}", "S1{}", "map[string]int{\"a\": 1}", "[]int{0: 1, 2: 3}",
	"[]byte{'f', 'o'}", "[][]int{{1}, {2}}", "&S1{a: 1}", "[]interface{}{fn(1)}",
	"gsl[1:2]", "gs[:1]", "garr[:]", "gif.(int)", "gif.(io.Reader)", "func() {}", "func(x int) int { return x }",
	"struct{}{}", "E{}", "new(int)", "make([]int, 1)", "append(gsl, 1)", "gi == 1", "gs + \"x\"", "gs + cs", "gerr == nil", "gfn(1)",
	"gen[[]int]", "gen[int]", "gen[map[string]int](gm)", "gsl[gi:fn(1)]", "gsl[:gi:gi+1]", "gif.(fmt.Stringer).String", "S1{a: int8(fn(1))}", "map[string]int{gs: gi}", "[2]int{c5, 1}", "[...]string{cs}", "AS1{1, 2}",
	"gwv", "gwp", "&gwp", "gwr", "gwe", "&gwe", "ghh", "ghv", "&ghv", "glv", "&glv", "gls", "glp", "&glp", "glt", "giv", "gis", "gtt", "gfv", "gfs", "struct{ LV }{}", "struct{ *LP }{}",
	"gff", "&gff", "gfe", "&gfe", "gffe", "struct{ Error func() string }{}",
	"map[int]string{1: \"a\", fn(1): \"b\"}", "[]map[int]int{{fn(1): 1}}", "map[int]int{gi: 1}", "map[string]int{gs + \"x\": fn(1)}", "[]int{c5: fn(1)}", "map[int]func(){1: func() {}}",
	"%t", "%w", "%ws", "%w + 1", "%tp", "%xs", "%xs[0]",
}

type c02Site struct {
	name    string
	pat     int        // 0 probe($x), 1 probeN($*xs), 2 if mark { $x }, 3 probe2($x, $y), 4 pv.($_)
	class   string     // the input class the generator made the site for (pair and sink sites)
	other   ast.Expr   // $y of probe2($x, $y)
	path    []ast.Node // the ancestors of the match, outermost first (the declaration … the parent)
	decl    *ast.FuncDecl
	match   ast.Node       // the node the pattern matches ($$)
	parent  ast.Node       // its parent
	capture []ast.Node     // the captured node (one), or the elements of $*xs
	lits    []*ast.FuncLit // the function literals on the node path of the match (the match itself, its ancestors)
	tgt     *hx.Target
}

const c02NPat = 5

var c02Patterns = [c02NPat]string{"probe($x)", "probeN($*xs)", "if mark { $x }", "probe2($x, $y)", "pv.($_)"}
var c02Var = [c02NPat]string{"x", "xs", "x", "x", "$$"}

func c02BuildTarget(seed int64, thorough bool) string {
	rng := hx.Rng(seed, "c02-target")
	var sb strings.Builder
	sb.WriteString(c02Prelude)
	k := 0
	frame := func(body string, generic bool) {
		switch {
		case generic:
			fmt.Fprintf(&sb, "func s%d[T any, W ~int](t T, w W, ws []W, tp *T, l8 int8, ls string, xs ...W) {\n\t%s\n}\n\n", k, body)
		case k%3 == 0:
			fmt.Fprintf(&sb, "func s%d(l8 int8, ls string, vs ...int) {\n\t%s\n}\n\n", k, body)
		case k%3 == 1:
			fmt.Fprintf(&sb, "func s%d(l8 int8, ls string) {\n\t%s\n}\n\n", k, body)
		default:
			fmt.Fprintf(&sb, "func (recv *S1) s%d(l8 int8, ls string) {\n\t%s\n}\n\n", k, body)
		}
		k++
	}
	ctx := []string{"%s", "_ = %s", "if %s > 0 {\n\t}", "_ = (%s)", "_ = fn(%s)", "go func() { %s }()"}
	for i, e := range c02Exprs {
		g := strings.HasPrefix(e, "%")
		e = strings.TrimPrefix(e, "%")
		c := ctx[0]
		if i%4 == 3 {
			c = ctx[rng.Intn(len(ctx))]
		}
		frame(fmt.Sprintf(c, "probe("+e+")"), g)
	}
	// variadic parameters: of the enclosing declaration, of a function literal, captured by a closure
	for k%3 != 0 {
		frame("probe(ls)", false)
	}
	frame("probe(vs)", false)
	for k%3 != 0 {
		frame("probe(l8)", false)
	}
	frame("probe(vs)", false)
	frame("f := func(ys ...int) { probe(ys) }\n\t_ = f", false)
	for k%3 != 0 {
		frame("probe(ls)", false)
	}
	frame("f := func() { probe(vs) }\n\t_ = f", false)
	frame("probe(xs)", true)
	frame("f := func(a int, ys ...string) { g := func(zs ...int) { probe(ys) }; _ = g }\n\t_ = f", false)
	frame("f := func(ys ...string) { g := func(ys []int) { probe(ys) }; _ = g }\n\t_ = f", false)
	for k%3 != 0 {
		frame("probe(l8)", false)
	}
	frame("f := func(ys ...int) { probeN(ys, vs) }\n\t_ = f", false)
	frame("f := func(ys ...int) { probeN(ys, ls) }\n\t_ = f", false)
	frame("f := func(ys ...int) { probeN((ys), ys) }\n\t_ = f", false)
	// expression lists
	lists := [][]string{{"1"}, {"1", "2"}, {"1", "gi"}, {"gi", "gs"}, {"gi", "g8", "g64"}, {"ga8"}, {"ga8", "g8"}, {"gsl", "gp"}, {"fn(1)", "gi"}, {"gi", "fn(1)"},
		{"[]int{1}", "[]byte(\"a\")"}, {"fn", "fmt.Sprint"}, {"gi", "l8"}, {"nil"}, {"gerr", "gw"}, {"gst", "ge"}, {"c5", "cs"}, {"%w", "gi"}, {"%t"}, {}}
	for _, l := range lists {
		g := false
		var args []string
		for _, e := range l {
			if strings.HasPrefix(e, "%") {
				g = true
			}
			args = append(args, strings.TrimPrefix(e, "%"))
		}
		frame("probeN("+strings.Join(args, ", ")+")", g)
	}
	// statements
	for _, st := range []string{"fn(gi)", "gi++", "return", "gi = 1", "fv(1, 2)", "<-gch", "_ = gi", "go fn(1)", "var _ int", "{\n\t\t}", "gfn(1)", "fmt.Sprint(gs)"} {
		frame("if mark {\n\t\t"+st+"\n\t}", false)
	}
	if thorough {
		for i := 0; i < 120; i++ {
			a := c02Exprs[rng.Intn(len(c02Exprs))]
			b := c02Exprs[rng.Intn(len(c02Exprs))]
			g := strings.HasPrefix(a, "%") || strings.HasPrefix(b, "%")
			a, b = strings.TrimPrefix(a, "%"), strings.TrimPrefix(b, "%")
			switch i % 3 {
			case 0:
				frame("probeN("+a+", "+b+")", g)
			case 1:
				frame(fmt.Sprintf(ctx[rng.Intn(len(ctx))], "probe(("+a+"))"), g)
			default:
				frame("probe([]interface{}{"+a+", "+b+"})", g)
			}
		}
	}
	sb.WriteString("\n// end\n")
	return sb.String()
}

type c02World struct {
	t     *hx.Target
	sites [c02NPat][]*c02Site
	alias bool
	class map[string]string // site name -> input class (from the generator)
}

func c02Parse(path, src string, alias bool, classes map[string]string) (*c02World, error) {
	if alias {
		os.Setenv("GODEBUG", "gotypesalias=1")
	} else {
		os.Setenv("GODEBUG", "gotypesalias=0")
	}
	t, err := hx.ParseTarget(path, src)
	if err != nil {
		return nil, fmt.Errorf("target: %v", err)
	}
	w := &c02World{t: t, alias: alias, class: classes}
	for _, d := range t.File.Decls {
		fd, ok := d.(*ast.FuncDecl)
		if !ok || !strings.HasPrefix(fd.Name.Name, "s") || fd.Body == nil {
			continue
		}
		if _, err := strconv.Atoi(fd.Name.Name[1:]); err != nil {
			continue
		}
		f2 := *t.File
		f2.Decls = []ast.Decl{d}
		t2 := *t
		t2.File = &f2
		// the single probe site of the declaration
		var stack []ast.Node
		var site *c02Site
		ast.Inspect(fd, func(n ast.Node) bool {
			if n == nil {
				stack = stack[:len(stack)-1]
				return true
			}
			var parent ast.Node
			if len(stack) > 0 {
				parent = stack[len(stack)-1]
			}
			stack = append(stack, n)
			if site != nil {
				return true
			}
			defer func() {
				if site != nil {
					for _, a := range stack {
						if fl, ok := a.(*ast.FuncLit); ok {
							site.lits = append(site.lits, fl)
						}
					}
				}
			}()
			switch n := n.(type) {
			case *ast.IfStmt:
				if id, ok := n.Cond.(*ast.Ident); ok && id.Name == "mark" && len(n.Body.List) == 1 && n.Else == nil && n.Init == nil {
					site = &c02Site{pat: 2, match: n, parent: parent, capture: []ast.Node{n.Body.List[0]}}
				}
			case *ast.TypeAssertExpr:
				if id, ok := n.X.(*ast.Ident); ok && id.Name == "pv" && n.Type != nil {
					site = &c02Site{pat: 4, match: n, parent: parent, capture: []ast.Node{n}}
				}
			case *ast.CallExpr:
				if id, ok := n.Fun.(*ast.Ident); ok && id.Name == "probe" && len(n.Args) == 1 {
					site = &c02Site{pat: 0, match: n, parent: parent, capture: []ast.Node{n.Args[0]}}
				} else if ok && id.Name == "probe2" && len(n.Args) == 2 {
					site = &c02Site{pat: 3, match: n, parent: parent, capture: []ast.Node{n.Args[0]}, other: n.Args[1]}
				} else if ok && id.Name == "probeN" {
					site = &c02Site{pat: 1, match: n, parent: parent}
					for _, a := range n.Args {
						site.capture = append(site.capture, a)
					}
				}
			}
			if site != nil {
				site.path = append([]ast.Node(nil), stack[:len(stack)-1]...)
			}
			return true
		})
		if site == nil {
			return nil, fmt.Errorf("no probe site in %s", fd.Name.Name)
		}
		site.name, site.decl, site.tgt = fd.Name.Name, fd, &t2
		site.class = classes[fd.Name.Name]
		w.sites[site.pat] = append(w.sites[site.pat], site)
	}
	return w, nil
}

// ---------------------------------------------------------------------------------------------
// facts

func (w *c02World) tySexp(t types.Type, depth int) string {
	if t == nil {
		return "(b 0 0)"
	}
	if depth > 12 {
		return "(o)"
	}
	switch t := t.(type) {
	case *types.Basic:
		return fmt.Sprintf("(b %d %d)", int(t.Kind()), int(t.Info()))
	case *types.Named:
		return "(n " + w.tySexp(t.Underlying(), depth+1) + ")"
	case *types.Alias:
		return "(a " + w.tySexp(types.Unalias(t), depth+1) + ")"
	case *types.Struct:
		parts := []string{"st"}
		for i := 0; i < t.NumFields(); i++ {
			parts = append(parts, w.tySexp(t.Field(i).Type(), depth+1))
		}
		return "(" + strings.Join(parts, " ") + ")"
	case *types.Array:
		return "(ar " + w.tySexp(t.Elem(), depth+1) + ")"
	case *types.TypeParam:
		return "(tp)"
	}
	return "(o)"
}

func hasAlias(t types.Type, depth int) bool {
	if t == nil || depth > 12 {
		return false
	}
	switch t := t.(type) {
	case *types.Alias:
		return true
	case *types.Named:
		return hasAlias(t.Underlying(), depth+1)
	case *types.Struct:
		for i := 0; i < t.NumFields(); i++ {
			if hasAlias(t.Field(i).Type(), depth+1) {
				return true
			}
		}
	case *types.Array:
		return hasAlias(t.Elem(), depth+1)
	}
	return false
}

func (w *c02World) objSexp(id *ast.Ident, site *c02Site) string {
	decl := site.decl
	obj := w.t.Info.ObjectOf(id)
	if obj == nil {
		return "-"
	}
	kind := ""
	switch obj.(type) {
	case *types.Func:
		kind = "Func"
	case *types.Var:
		kind = "Var"
	case *types.Const:
		kind = "Const"
	case *types.TypeName:
		kind = "TypeName"
	case *types.Label:
		kind = "Label"
	case *types.PkgName:
		kind = "PkgName"
	case *types.Builtin:
		kind = "Builtin"
	case *types.Nil:
		kind = "Nil"
	default:
		return "-"
	}
	global := obj.Parent() == w.t.Pkg.Scope()
	lastOfDecl := false
	if fobj, ok := w.t.Info.ObjectOf(decl.Name).(*types.Func); ok {
		sig := fobj.Type().(*types.Signature)
		if sig.Params().Len() > 0 && sig.Params().At(sig.Params().Len()-1) == obj {
			lastOfDecl = true
		}
	}
	return fmt.Sprintf("%s:%s:%s:%s:%s", kind, b01(global), b01(lastOfDecl), b01(w.variadicParams()[obj]), b01(w.variadicOfLit(obj, site)))
}

// obj is the `...T` parameter of a function literal on the node path of the site's match
func (w *c02World) variadicOfLit(obj types.Object, site *c02Site) bool {
	for _, fl := range site.lits {
		ps := fl.Type.Params
		if ps == nil || len(ps.List) == 0 {
			continue
		}
		last := ps.List[len(ps.List)-1]
		if _, ok := last.Type.(*ast.Ellipsis); ok && len(last.Names) > 0 && w.t.Info.Defs[last.Names[len(last.Names)-1]] == obj {
			return true
		}
	}
	return false
}

// the identifier the object predicates are about (own copy of the documented rule: the expression up to
// parentheses, or the selected name of a selector)
func c02IdentOf(e ast.Expr) *ast.Ident {
	for {
		switch x := e.(type) {
		case *ast.ParenExpr:
			e = x.X
		case *ast.Ident:
			return x
		case *ast.SelectorExpr:
			return x.Sel
		default:
			return nil
		}
	}
}

var c02VariadicCache = map[*c02World]map[types.Object]bool{}

// every object that is the `...T` parameter of a function declaration or literal of the file
func (w *c02World) variadicParams() map[types.Object]bool {
	if m, ok := c02VariadicCache[w]; ok {
		return m
	}
	m := map[types.Object]bool{}
	ast.Inspect(w.t.File, func(n ast.Node) bool {
		var ft *ast.FuncType
		switch n := n.(type) {
		case *ast.FuncDecl:
			ft = n.Type
		case *ast.FuncLit:
			ft = n.Type
		}
		if ft != nil && ft.Params != nil && len(ft.Params.List) > 0 {
			last := ft.Params.List[len(ft.Params.List)-1]
			if _, ok := last.Type.(*ast.Ellipsis); ok {
				for _, name := range last.Names {
					if obj := w.t.Info.Defs[name]; obj != nil {
						m[obj] = true
					}
				}
			}
		}
		return true
	})
	c02VariadicCache[w] = m
	return m
}

func (w *c02World) isConst(e ast.Expr) bool {
	tv, ok := w.t.Info.Types[e]
	return ok && tv.Value != nil
}

func (w *c02World) exSexp(e ast.Expr, site *c02Site) string {
	rec := func(x ast.Expr) string { return w.exSexp(x, site) }
	list := func(xs []ast.Expr) string {
		var parts []string
		for _, x := range xs {
			parts = append(parts, rec(x))
		}
		if len(parts) == 0 {
			return ""
		}
		return " " + strings.Join(parts, " ")
	}
	switch e := e.(type) {
	case *ast.StarExpr:
		return "(star " + rec(e.X) + ")"
	case *ast.BinaryExpr:
		return "(bin " + rec(e.X) + " " + rec(e.Y) + ")"
	case *ast.UnaryExpr:
		return "(un " + b01(e.Op == token.ARROW) + " " + rec(e.X) + ")"
	case *ast.BasicLit:
		return "(lit " + b01(e.Kind == token.STRING) + ")"
	case *ast.Ident:
		return "(id " + w.objSexp(e, site) + ")"
	case *ast.FuncLit:
		return "(flit)"
	case *ast.IndexExpr:
		return "(idx " + rec(e.X) + " " + rec(e.Index) + ")"
	case *ast.SelectorExpr:
		return "(sel " + rec(e.X) + " " + w.objSexp(e.Sel, site) + ")"
	case *ast.ParenExpr:
		return "(par " + rec(e.X) + ")"
	case *ast.CompositeLit:
		var cs []string
		for _, elt := range e.Elts {
			cs = append(cs, b01(w.isConst(elt)))
		}
		isSlice := false
		if t := w.t.Info.TypeOf(e); t != nil {
			switch t.Underlying().(type) {
			case *types.Slice, *types.Array:
				isSlice = true
			}
		}
		return "(comp " + b01(isSlice) + " (" + strings.Join(cs, " ") + ")" + list(e.Elts) + ")"
	case *ast.CallExpr:
		fbs := false
		if t, ok := w.t.Info.TypeOf(e.Fun).(*types.Slice); ok {
			if b, ok := t.Elem().(*types.Basic); ok && b.Kind() == types.Uint8 {
				fbs = true
			}
		}
		return "(call " + b01(fbs) + " " + rec(e.Fun) + list(e.Args) + ")"
	case *ast.FuncType, *ast.StructType, *ast.InterfaceType, *ast.ArrayType, *ast.MapType, *ast.ChanType:
		return "(tlit)"
	case *ast.KeyValueExpr:
		return "(kv " + rec(e.Key) + " " + rec(e.Value) + ")"
	case *ast.SliceExpr:
		var idx []ast.Expr
		for _, x := range []ast.Expr{e.Low, e.High, e.Max} {
			if x != nil {
				idx = append(idx, x)
			}
		}
		return "(slc " + rec(e.X) + list(idx) + ")"
	case *ast.TypeAssertExpr:
		return "(ta " + rec(e.X) + ")"
	}
	return "(oth)"
}

func nodeFSexp(n ast.Node) string {
	if n == nil {
		return "-"
	}
	tag := strings.TrimPrefix(fmt.Sprintf("%T", n), "*ast.")
	_, isExpr := n.(ast.Expr)
	_, isStmt := n.(ast.Stmt)
	return fmt.Sprintf("(%s %s %s)", tag, b01(isExpr), b01(isStmt))
}

// the expression a predicate reading `subExpr` sees
func subExprOf(n ast.Node) ast.Expr {
	switch n := n.(type) {
	case ast.Expr:
		return n
	case *ast.ExprStmt:
		return n.X
	}
	return nil
}

func (w *c02World) typeOf(e ast.Expr) types.Type {
	if e == nil {
		return types.Typ[types.Invalid]
	}
	if t := w.t.Info.TypeOf(e); t != nil {
		return t
	}
	return types.Typ[types.Invalid]
}

// type of `typeofNode(subNode)`: expressions only (a statement has none)
func (w *c02World) typeOfNode(n ast.Node) types.Type {
	if e, ok := n.(ast.Expr); ok {
		return w.typeOf(e)
	}
	return types.Typ[types.Invalid]
}

func (w *c02World) siteSexp(s *c02Site, oracle string) string {
	var cap string
	if s.pat == 1 {
		parts := []string{"list"}
		for _, n := range s.capture {
			e := n.(ast.Expr)
			parts = append(parts, "("+w.exSexp(e, s)+" "+w.tySexp(w.typeOf(e), 0)+")")
		}
		cap = "(" + strings.Join(parts, " ") + ")"
	} else {
		e := subExprOf(s.capture[0])
		ex := "-"
		if e != nil {
			ex = w.exSexp(e, s)
		}
		cap = "(one " + ex + " " + w.tySexp(w.typeOf(e), 0) + ")"
	}
	node := "-"
	if s.pat != 1 {
		node = nodeFSexp(s.capture[0])
	} else {
		node = "(NodeSlice 0 0)" // *gogrep.NodeSlice: neither an Expr nor a Stmt, no go/ast tag
	}
	cf := "none"
	if fobj, ok := w.t.Info.ObjectOf(s.decl.Name).(*types.Func); ok {
		cf = "v" + b01(fobj.Type().(*types.Signature).Variadic())
	} else {
		cf = "notfunc"
	}
	return fmt.Sprintf("(s %s %s %s %s %s)", cap, node, nodeFSexp(s.parent), cf, oracle)
}

// ---------------------------------------------------------------------------------------------
// predicates

type c02Op struct {
	pred string // driver name
	arg  string
	dsl  string                                           // with %v for the variable name
	rel  func(w *c02World, t types.Type, e ast.Expr) bool // oracle for delegated relations (nil otherwise)
	// oracle of a relation that is about the site as a whole (two captures, the sink of the match, the
	// source text of the capture); ok=false: the property does not constrain the site
	site  func(w *c02World, s *c02Site) (holds, ok bool)
	pats  []int // the patterns the predicate is probed on (nil: 0, 1, 2)
	cache bool  // loading is slow (imports a large package): one engine per pattern for both alias modes
}

func (op c02Op) on(pat int) bool {
	if op.pats == nil {
		return pat <= 2
	}
	for _, p := range op.pats {
		if p == pat {
			return true
		}
	}
	return false
}

func c02EvalType(w *c02World, s string) types.Type {
	tv, err := types.Eval(w.t.Fset, w.t.Pkg, w.t.File.End()-1, s)
	if err != nil {
		panic(fmt.Sprintf("oracle: cannot evaluate type %q: %v", s, err))
	}
	return tv.Type
}

func c02Ops(thorough bool) []c02Op {
	var ops []c02Op
	for _, k := range []string{"integer", "unsigned", "float", "complex", "untyped", "numeric", "signed", "int", "uint", "nonsense", "string", ""} {
		ops = append(ops, c02Op{pred: "ofkind:0", arg: k, dsl: fmt.Sprintf(`m["%%v"].Type.OfKind(%q)`, k)})
		ops = append(ops, c02Op{pred: "ofkind:1", arg: k, dsl: fmt.Sprintf(`m["%%v"].Type.Underlying().OfKind(%q)`, k)})
	}
	ops = append(ops,
		c02Op{pred: "haspointers", dsl: `m["%v"].Type.HasPointers()`},
		c02Op{pred: "pure", dsl: `m["%v"].Pure`},
		c02Op{pred: "constslice", dsl: `m["%v"].ConstSlice`},
		c02Op{pred: "isglobal", dsl: `m["%v"].Object.IsGlobal()`},
		c02Op{pred: "isvariadic", dsl: `m["%v"].Object.IsVariadicParam()`},
		c02Op{pred: "const", dsl: `m["%v"].Const`, rel: func(w *c02World, t types.Type, e ast.Expr) bool { return e != nil && w.isConst(e) }},
		c02Op{pred: "addressable", dsl: `m["%v"].Addressable`, rel: func(w *c02World, t types.Type, e ast.Expr) bool {
			if e == nil {
				return false
			}
			tv, ok := w.t.Info.Types[e]
			return ok && tv.Addressable()
		}},
		c02Op{pred: "comparable", dsl: `m["%v"].Comparable`, rel: func(w *c02World, t types.Type, e ast.Expr) bool { return types.Comparable(t) }},
	)
	for _, k := range []string{"Func", "Var", "Const", "TypeName", "Label", "PkgName", "Builtin", "Nil", "Bogus", ""} {
		ops = append(ops, c02Op{pred: "objectis", arg: k, dsl: fmt.Sprintf(`m["%%v"].Object.Is(%q)`, k)})
	}
	for _, k := range []string{"Expr", "Stmt", "Node", "Ident", "BasicLit", "CallExpr", "BinaryExpr", "ParenExpr", "SelectorExpr", "CompositeLit", "ExprStmt",
		"IncDecStmt", "ReturnStmt", "AssignStmt", "UnaryExpr", "StarExpr", "IndexExpr", "FuncLit", "SliceExpr", "TypeAssertExpr", "GoStmt", "BlockStmt", "DeclStmt", "Bogus"} {
		ops = append(ops, c02Op{pred: "nodeis:v" + b01(nodetag.FromString(k) != nodetag.Unknown), arg: k, dsl: fmt.Sprintf(`m["%%v"].Node.Is(%q)`, k)})
	}
	for _, k := range []string{"ExprStmt", "AssignStmt", "BinaryExpr", "ParenExpr", "CallExpr", "BlockStmt", "Expr", "Stmt", "Node", "IfStmt", "GoStmt", "Bogus",
		"IndexExpr", "KeyValueExpr", "CompositeLit", "ReturnStmt", "ValueSpec", "SelectorExpr", "SendStmt", "UnaryExpr", "SliceExpr"} {
		ops = append(ops, c02Op{pred: "parentis:v" + b01(nodetag.FromString(k) != nodetag.Unknown), arg: k, dsl: fmt.Sprintf(`m["$$"].Node.Parent().Is(%q)`, k), pats: []int{0, 1, 2, 4}})
	}
	for _, ty := range []string{"int", "int8", "uint8", "string", "float64", "[]int", "[]byte", "*int", "map[string]int", "error", "io.Reader", "[3]int64", "interface{}", "func(int) int", "chan int", "struct{}", "bool", "uint16"} {
		ty := ty
		ops = append(ops, c02Op{pred: "typeis", arg: ty, dsl: fmt.Sprintf(`m["%%v"].Type.Is(%q)`, ty),
			rel: func(w *c02World, t types.Type, e ast.Expr) bool { return types.Identical(t, c02EvalType(w, ty)) }})
		ops = append(ops, c02Op{pred: "typeunderlyingis", arg: ty, dsl: fmt.Sprintf(`m["%%v"].Type.Underlying().Is(%q)`, ty),
			rel: func(w *c02World, t types.Type, e ast.Expr) bool {
				return types.Identical(t.Underlying(), c02EvalType(w, ty))
			}})
	}
	for _, ty := range []string{"int", "int8", "string", "float64", "[]byte", "[]int", "*int", "interface{}", "error", "map[string]int", "[3]int64", "uintptr", "complex128"} {
		ty := ty
		ops = append(ops, c02Op{pred: "convertibleto", arg: ty, dsl: fmt.Sprintf(`m["%%v"].Type.ConvertibleTo(%q)`, ty),
			rel: func(w *c02World, t types.Type, e ast.Expr) bool { return types.ConvertibleTo(t, c02EvalType(w, ty)) }})
		ops = append(ops, c02Op{pred: "assignableto", arg: ty, dsl: fmt.Sprintf(`m["%%v"].Type.AssignableTo(%q)`, ty),
			rel: func(w *c02World, t types.Type, e ast.Expr) bool { return types.AssignableTo(t, c02EvalType(w, ty)) }})
	}
	for _, ty := range []string{"error", "io.Reader", "io.Writer", "fmt.Stringer", "hash.Hash"} {
		ty := ty
		ops = append(ops, c02Op{pred: "implements", arg: ty, dsl: fmt.Sprintf(`m["%%v"].Type.Implements(%q)`, ty),
			rel: func(w *c02World, t types.Type, e ast.Expr) bool {
				return types.Implements(t, c02EvalType(w, ty).Underlying().(*types.Interface))
			}})
	}
	// Type.HasMethod(`pkg.Iface.Method`): "it's possible to call F on x" — the method set of an addressable value
	// of the type has a method of that name whose signature is identical to the interface's
	for _, ref := range []string{"io.Writer.Write", "io.Reader.Read", "fmt.Stringer.String", "hash.Hash.Sum", "hash.Hash.Reset", "testing.TB.Errorf", "testing.TB.Log", "testing.TB.Name"} {
		i := strings.LastIndex(ref, ".")
		ifaceName, method := ref[:i], ref[i+1:]
		// (resolving testing.TB makes the loader type-check package testing from source, ~2 s per engine: in the quick
		// tier these predicates are probed on fewer patterns, and one engine serves both alias modes)
		heavy := strings.HasPrefix(ref, "testing.")
		var pats []int
		if heavy && !thorough {
			switch method {
			case "Errorf":
				pats = []int{0, 1}
			case "Log":
				pats = []int{0}
			default:
				continue
			}
		}
		ops = append(ops, c02Op{pred: "hasmethod", arg: ref, dsl: fmt.Sprintf(`m["%%v"].Type.HasMethod(%q)`, ref), cache: heavy && !thorough, pats: pats,
			rel: func(w *c02World, t types.Type, e ast.Expr) bool {
				iface := c02EvalType(w, ifaceName).Underlying().(*types.Interface)
				var want *types.Func
				for k := 0; k < iface.NumMethods(); k++ {
					if iface.Method(k).Name() == method {
						want = iface.Method(k)
					}
				}
				if want == nil {
					panic("oracle: no method " + ref)
				}
				obj, _, _ := types.LookupFieldOrMethod(t, true, want.Pkg(), method)
				got, ok := obj.(*types.Func)
				return ok && types.Identical(got.Type(), want.Type())
			}})
	}
	// Type.IdenticalTo(m["y"]): types.Identical of the two captures' types
	ops = append(ops, c02Op{pred: "identicalto", dsl: `m["%v"].Type.IdenticalTo(m["y"])`, pats: []int{3},
		site: func(w *c02World, s *c02Site) (bool, bool) {
			return types.Identical(w.typeOf(subExprOf(s.capture[0])), w.typeOf(s.other)), true
		}})
	// SinkType.Is(T): the type of the place the value of the match flows into is T
	for _, ty := range []string{"int", "int8", "int64", "string", "float64", "interface{}", "io.Writer", "[]int", "[]byte", "map[string]int", "error", "bool", "func(int) int", "*int", "chan int", "uint8", "[]interface{}"} {
		ty := ty
		ops = append(ops, c02Op{pred: "sinktypeis", arg: ty, dsl: fmt.Sprintf(`m["$$"].SinkType.Is(%q)`, ty), pats: []int{4},
			site: func(w *c02World, s *c02Site) (bool, bool) {
				sink, state := w.sinkOf(s)
				switch state {
				case "free":
					return false, false
				case "none":
					return false, true
				}
				if hasAlias(sink, 0) || mentionsTypeParam(sink, 0) {
					return false, false // typematch territory (C10), as for Type.Is
				}
				return types.Identical(sink, c02EvalType(w, ty)), true
			}})
	}
	// Text: the source text of the capture ("" for a `$*xs` that matched nothing)
	for _, re := range []string{"^$", "x*", "^[0-9, ]*$", "(?s).*", `^\s*$`, "^g", ".", `\(`, "^[a-z0-9]+$", "1", `^\w+, `, "(?i)^GI$"} {
		rx := regexp.MustCompile(re)
		ops = append(ops, c02Op{pred: "textmatches", arg: re, dsl: fmt.Sprintf(`m["%%v"].Text.Matches(%q)`, re),
			site: func(w *c02World, s *c02Site) (bool, bool) { return rx.MatchString(w.capText(s)), true }})
	}
	for _, lit := range []string{"", "1", "gi", "1, 2", "gi, gs", "fn(gi)", "return"} {
		lit := lit
		ops = append(ops, c02Op{pred: "texteq", arg: lit, dsl: fmt.Sprintf(`m["%%v"].Text == %q`, lit),
			site: func(w *c02World, s *c02Site) (bool, bool) { return w.capText(s) == lit, true }})
		ops = append(ops, c02Op{pred: "textneq", arg: lit, dsl: fmt.Sprintf(`m["%%v"].Text != %q`, lit),
			site: func(w *c02World, s *c02Site) (bool, bool) { return w.capText(s) != lit, true }})
	}
	return ops
}

// the source text of the capture of the site's variable: the bytes its nodes span
func (w *c02World) capText(s *c02Site) string {
	if len(s.capture) == 0 {
		return ""
	}
	from := w.t.Fset.Position(s.capture[0].Pos()).Offset
	to := w.t.Fset.Position(s.capture[len(s.capture)-1].End()).Offset
	return string(w.t.Src[from:to])
}

// typematch / xtypes are oracles of this property (C10, C14): where their answer is known to differ
// from go/types' (type parameters and their constraint interfaces, alias types under gotypesalias=1)
// the model is given no answer and the site is not compared; the statement is still evaluated there.
func (w *c02World) masked(op c02Op, s *c02Site) bool {
	if op.site != nil {
		_, ok := op.site(w, s)
		return !ok
	}
	if op.pred != "typeis" && op.pred != "typeunderlyingis" {
		return false
	}
	for _, n := range s.capture {
		t := w.typeOf(subExprOf(n))
		if hasAlias(t, 0) || mentionsTypeParam(t, 0) {
			return true
		}
	}
	return false
}

func mentionsTypeParam(t types.Type, depth int) bool {
	if t == nil || depth > 6 {
		return false
	}
	switch t := t.(type) {
	case *types.TypeParam:
		return true
	case *types.Pointer:
		return mentionsTypeParam(t.Elem(), depth+1)
	case *types.Slice:
		return mentionsTypeParam(t.Elem(), depth+1)
	case *types.Array:
		return mentionsTypeParam(t.Elem(), depth+1)
	}
	return false
}

func (w *c02World) oracleSexp(op c02Op, s *c02Site) string {
	if op.site != nil {
		holds, ok := op.site(w, s)
		if !ok {
			return "-"
		}
		return fmt.Sprintf("(%s %s -)", b01(holds), b01(holds))
	}
	if op.rel == nil {
		return "-"
	}
	safe := func(t types.Type, e ast.Expr) (out string) {
		defer func() {
			if r := recover(); r != nil {
				out = "0"
			}
		}()
		return b01(op.rel(w, t, e))
	}
	if s.pat == 1 {
		inv := types.Typ[types.Invalid]
		var els []string
		for _, n := range s.capture {
			e := n.(ast.Expr)
			els = append(els, safe(w.typeOf(e), e))
		}
		return fmt.Sprintf("(%s %s (%s))", safe(inv, nil), safe(inv, nil), strings.Join(els, " "))
	}
	n := s.capture[0]
	var ne ast.Expr
	if e, ok := n.(ast.Expr); ok {
		ne = e
	}
	se := subExprOf(n)
	return fmt.Sprintf("(%s %s -)", safe(w.typeOfNode(n), ne), safe(w.typeOf(se), se))
}

// ---------------------------------------------------------------------------------------------
// observation (as in C17: whole-file run, then one declaration at a time behind a panic)

func c02Observe(e *ruleguard.Engine, w *c02World, pat int, perSite bool) (string, error) {
	sites := w.sites[pat]
	st := ruleguard.NewRunnerState(e)
	pos := func(s *c02Site) int { return w.t.Fset.Position(s.match.Pos()).Offset }
	reps, pk, _, err := hx.Run(e, w.t, hx.RunOpts{State: st})
	if err != nil {
		return "", err
	}
	verdict := make([]byte, len(sites))
	next := 0
	for _, rep := range reps {
		found := false
		for ; next < len(sites); next++ {
			if pos(sites[next]) == rep.Pos {
				verdict[next] = 't'
				next++
				found = true
				break
			}
			verdict[next] = 'f'
		}
		if !found {
			return "", fmt.Errorf("report at offset %d is not a probe site of %s in source order", rep.Pos, c02Patterns[pat])
		}
	}
	known := len(sites)
	if pk == "" {
		for ; next < len(sites); next++ {
			verdict[next] = 'f'
		}
	} else {
		known = next
	}
	for i, s := range sites {
		if i < known && !perSite {
			continue
		}
		reps, pk1, _, err := hx.Run(e, s.tgt, hx.RunOpts{State: st})
		if err != nil {
			return "", err
		}
		var v byte
		switch {
		case pk1 != "":
			l, ok := c17PanicLetter[pk1]
			if !ok {
				return "", fmt.Errorf("unknown panic kind %q", pk1)
			}
			v = l[0]
		case len(reps) == 0:
			v = 'f'
		case len(reps) == 1 && reps[0].Pos == pos(s):
			v = 't'
		default:
			return "", fmt.Errorf("site %s: unexpected reports %v", s.name, reps)
		}
		if i < known && v != verdict[i] {
			return "", fmt.Errorf("site %s: whole-file run says %c, one-declaration run says %c", s.name, verdict[i], v)
		}
		verdict[i] = v
	}
	if pk != "" {
		l := c17PanicLetter[pk]
		died := -1
		for i := known; i < len(sites); i++ {
			if verdict[i] != 'f' {
				died = i
				break
			}
		}
		if died < 0 || string(verdict[died]) != l {
			return "", fmt.Errorf("whole-file run died with %q but the one-declaration runs say %s", pk, verdict)
		}
	}
	return string(verdict), nil
}

// ---------------------------------------------------------------------------------------------

func runC02(c *Ctx) error {
	res := c.Res
	dir, err := os.MkdirTemp("", "c02-")
	if err != nil {
		return err
	}
	defer os.RemoveAll(dir)
	defer os.Unsetenv("GODEBUG")
	type suite struct {
		name    string
		src     string
		classes map[string]string
		pats    []int
	}
	suites := []suite{{name: "main", src: c02BuildTarget(c.Seed, c.Thorough), pats: []int{0, 1, 2}}}
	psrc, pclasses := c02BuildPairs(c.Seed, c.Thorough)
	suites = append(suites, suite{"pairs", psrc, pclasses, []int{3}})
	ssrc, sclasses := c02BuildSink(c.Seed, c.Thorough)
	suites = append(suites, suite{"sink", ssrc, sclasses, []int{4}})
	ops := c02Ops(c.Thorough)
	res.Rule = fmt.Sprintf("%d predicate/argument pairs x the patterns probe($x), probeN($*xs), if mark { $x } x every probe site of a generated file "+
		"(%d expressions of every type constructor and syntactic form incl. method sets that miss a standard interface by one aspect of one signature, expression lists, statements); "+
		"Type.IdenticalTo on probe2($x, $y) over pairs of variables whose types are signatures (differing in variadic-ness, parameter names, element types, arity, results) under %d type constructors; "+
		"SinkType.Is on the match `pv.($_)` at %d syntactic positions (every child slot of index, call, assignment, composite-literal, return, var, send, selector, slice, unary/binary expressions and statements, plain and parenthesised); "+
		"Text.Matches / Text == / != on every capture incl. the empty `$*xs`; all type-checked under gotypesalias=0 and 1; "+
		"rules converted by irconv in one batch and loaded with LoadFromIR (every 7th through Engine.Load); model op `c02 %s`, statement `spec02`, "+
		"GoVersion filters and ParseGoVersion separately; a case (predicate, argument, site) is non-trivial when the predicate's verdict varies over the sites",
		len(ops), len(c02Exprs), len(c02Wrappers), len(c02SinkTemplates), c02Variant)

	// rules: one irconv batch per pattern
	irs := [c02NPat][]ir.FilterExpr{}
	opIdx := [c02NPat][]int{} // position of op k in the batch of the pattern (-1: not probed on it)
	for pat := 0; pat < c02NPat; pat++ {
		var sb strings.Builder
		n := 0
		for k, op := range ops {
			if !op.on(pat) {
				opIdx[pat] = append(opIdx[pat], -1)
				continue
			}
			opIdx[pat] = append(opIdx[pat], n)
			n++
			fmt.Fprintf(&sb, "func r%d(m dsl.Matcher) {\n\tm.Match(`%s`).Where(%s).Report(\"hit\")\n}\n", k, c02Patterns[pat], strings.ReplaceAll(op.dsl, "%v", c02Var[pat]))
		}
		irf, err := c17ConvertIR(hx.RulesFile(sb.String()))
		if err != nil {
			return fmt.Errorf("irconv of the predicate rules: %v", err)
		}
		if len(irf.RuleGroups) != n {
			return fmt.Errorf("irconv: %d groups for %d rules", len(irf.RuleGroups), n)
		}
		for _, g := range irf.RuleGroups {
			irs[pat] = append(irs[pat], g.Rules[0].WhereExpr)
		}
	}
	type engKey struct{ k, pat int }
	type engVal struct {
		eng  *ruleguard.Engine
		load string
	}
	engCache := map[engKey]engVal{}

	for _, su := range suites {
		path := filepath.Join(dir, "c02target_"+su.name+".go")
		if err := os.WriteFile(path, []byte(su.src), 0o644); err != nil {
			return err
		}
		for _, alias := range []bool{false, true} {
			w, err := c02Parse(path, su.src, alias, su.classes)
			if err != nil {
				return fmt.Errorf("%s: %v", su.name, err)
			}
			mode := "alias=" + b01(alias)
			c02CheckScope(c, w)
			for pat := 0; pat < c02NPat; pat++ {
				if len(w.sites[pat]) > 0 {
					res.Distribution["sites:"+su.name+":"+c02Patterns[pat]] = len(w.sites[pat])
				}
				for _, s := range w.sites[pat] {
					if s.class != "" && !alias {
						res.Dist("site-class:" + su.name + ":" + s.class)
					}
					if pat == 4 && !alias {
						_, state := w.sinkOf(s)
						res.Dist("sink:" + state)
					}
				}
			}
			for _, pat := range su.pats {
				var lines, impl, specOps []string
				var inputs []interface{}
				var cases []struct {
					op       c02Op
					verdicts string
					sites    string
				}
				for k, op := range ops {
					if !op.on(pat) {
						continue
					}
					var eng *ruleguard.Engine
					var load string
					where := strings.ReplaceAll(op.dsl, "%v", c02Var[pat])
					if ev, ok := engCache[engKey{k, pat}]; ok {
						eng, load = ev.eng, ev.load
					} else if (k+pat)%7 == 0 && !alias {
						eng, load, _ = c17LoadDSL(hx.RulesFile(fmt.Sprintf("func r(m dsl.Matcher) {\n\tm.Match(`%s`).Where(%s).Report(\"hit\")\n}\n", c02Patterns[pat], where)))
					} else {
						f := &ir.File{PkgPath: "gorules", RuleGroups: []ir.RuleGroup{{Line: 1, Name: "r", MatcherName: "m",
							Rules: []ir.Rule{{Line: 1, SyntaxPatterns: []ir.PatternString{{Line: 1, Value: c02Patterns[pat]}}, ReportTemplate: "hit", WhereExpr: irs[pat][opIdx[pat][k]]}}}}}
						eng, load, _ = c17LoadIR(f)
					}
					if op.cache {
						engCache[engKey{k, pat}] = engVal{eng, load}
					}
					var parts, mparts []string
					var mask []bool
					for _, s := range w.sites[pat] {
						parts = append(parts, w.siteSexp(s, w.oracleSexp(op, s)))
						if w.masked(op, s) {
							mparts = append(mparts, w.siteSexp(s, "-"))
							mask = append(mask, true)
						} else {
							mparts = append(mparts, parts[len(parts)-1])
							mask = append(mask, false)
						}
					}
					sites := "(sites " + strings.Join(parts, " ") + ")"
					line := fmt.Sprintf("c02 %s %s %s (sites %s)", c02Variant, op.pred, hx.HexS(op.arg), strings.Join(mparts, " "))
					out := load
					if load == "ok" {
						v, err := c02Observe(eng, w, pat, k%9 == 0)
						if err != nil {
							return fmt.Errorf("%s on %s: %v", where, c02Patterns[pat], err)
						}
						out = v
						if v == "" {
							out = "-"
						}
						specOps = append(specOps, fmt.Sprintf("spec02 %s %s %s %s", op.pred, hx.HexS(op.arg), sites, out))
						cases = append(cases, struct {
							op       c02Op
							verdicts string
							sites    string
						}{op, v, sites})
					}
					if load == "ok" && out != "-" {
						b := []byte(out)
						for i := range b {
							if mask[i] {
								b[i] = '?'
								res.Dist("masked:" + op.pred)
							}
						}
						out = string(b)
					}
					lines = append(lines, line)
					impl = append(impl, out)
					inputs = append(inputs, map[string]interface{}{"where": where, "pattern": c02Patterns[pat], "mode": mode})
					judged := strings.ReplaceAll(out, "?", "") // the verdict varies over the judged sites
					nontrivial := load != "ok" || (judged != "" && strings.Trim(judged, judged[:1]) != "")
					for i := range w.sites[pat] {
						res.Count("model:"+mode, fmt.Sprintf("%s/%s/%d/%d", op.pred, op.arg, pat, i), nontrivial)
					}
					res.Dist("pred:" + strings.SplitN(op.pred, ":", 2)[0])
					res.Dist("load:" + load)
					if load == "ok" {
						for _, ch := range "tfn" {
							if strings.ContainsRune(out, ch) {
								res.Dist("verdict-seen:" + strings.SplitN(op.pred, ":", 2)[0] + ":" + string(ch))
							}
						}
					}
				}
				if err := res.Compare(c.Drv, "model:"+mode, lines, impl, inputs); err != nil {
					return err
				}
				ans, err := c.Drv.Ask(specOps)
				if err != nil {
					return err
				}
				for i, a := range ans {
					if strings.HasPrefix(a, "holds") || a == "na" {
						continue
					}
					if a == "bad-op" {
						return fmt.Errorf("spec02: bad-op for %s", cases[i].op.dsl)
					}
					c02Violation(c, w, pat, cases[i].op, cases[i].verdicts, a, mode)
				}
				if pat == 0 && !alias && len(lines) > 0 {
					res.Sample(map[string]interface{}{"where": inputs[0], "impl": impl[0]})
				}
			}
		}
	}
	if err := c02GoVersion(c); err != nil {
		return err
	}
	// SinkType.Is: the Lean model of findSinkRoot / findSinkType and the Lean definition of a sink type (c02_sink.go)
	if err := runC02SinkModel(c, dir); err != nil {
		return err
	}
	// Value.Int(): constants of every integer kind and width against math/big (c02_valueint.go)
	if err := runC02ValueInt(c, dir); err != nil {
		return err
	}
	// predicates whose argument goes through the group's Import() table, in files of several groups (c02_imports.go)
	if err := runC02Imports(c); err != nil {
		return err
	}
	// captures that are part of the declaration the pattern is rooted at (c02_decl.go)
	if err := runC02Decl(c); err != nil {
		return err
	}
	return nil
}

// the contract `C02.ScopeOK` of the object facts (hypothesis of isVariadic_eq_spec / pred_eq_spec), asserted on every
// captured identifier of every site: it denotes a `...T` parameter iff it is the last parameter of the enclosing
// variadic declaration or the `...T` parameter of a function literal on the node path of the match
func c02CheckScope(c *Ctx, w *c02World) {
	for pat := 0; pat < c02NPat; pat++ {
		for _, s := range w.sites[pat] {
			declVariadic := false
			var declLast types.Object
			if fobj, ok := w.t.Info.ObjectOf(s.decl.Name).(*types.Func); ok {
				sig := fobj.Type().(*types.Signature)
				declVariadic = sig.Variadic()
				if sig.Params().Len() > 0 {
					declLast = sig.Params().At(sig.Params().Len() - 1)
				}
			}
			for _, n := range s.capture {
				e := subExprOf(n)
				if e == nil {
					continue
				}
				id := c02IdentOf(e)
				if id == nil {
					continue
				}
				obj := w.t.Info.ObjectOf(id)
				if obj == nil {
					continue
				}
				c.Res.Dist("scope-contract-checked")
				if w.variadicParams()[obj] != ((declVariadic && obj == declLast) || w.variadicOfLit(obj, s)) {
					c.Res.Errorf("facts contract ScopeOK does not hold at site %s (identifier %s)", s.name, id.Name)
				}
			}
		}
	}
}

// all sites where the implementation's verdict differs from the statement, grouped into input classes
func c02Violation(c *Ctx, w *c02World, pat int, op c02Op, verdicts, first, mode string) {
	// ask per site to classify every failing site (the batch answer names only the first)
	var ops []string
	for i, s := range w.sites[pat] {
		ops = append(ops, fmt.Sprintf("spec02 %s %s (sites %s) %c", op.pred, hx.HexS(op.arg), w.siteSexp(s, w.oracleSexp(op, s)), verdicts[i]))
	}
	ans, err := c.Drv.Ask(ops)
	if err != nil {
		c.Res.Errorf("spec02: %v", err)
		return
	}
	for i, a := range ans {
		if !strings.HasPrefix(a, "wrong") {
			continue
		}
		s := w.sites[pat][i]
		parts := strings.Split(a, ":")
		want, got := parts[2], parts[3]
		sig := c02Signature(w, s, op, want, got)
		text := string(w.t.Src[w.t.Fset.Position(s.match.Pos()).Offset:w.t.Fset.Position(s.match.End()).Offset])
		c.Res.Violate(hx.Violation{Signature: sig, What: "the predicate's verdict is not the documented fact",
			Input: map[string]interface{}{"where": strings.ReplaceAll(op.dsl, "%v", c02Var[pat]), "pattern": c02Patterns[pat], "site": s.name + ": " + text, "mode": mode,
				"facts": w.siteSexp(s, w.oracleSexp(op, s))},
			Impl: "verdict " + got, Spec: "spec02 wants " + want})
	}
}

var c02PredName = map[string]string{"ofkind:0": "Type.OfKind", "ofkind:1": "Type.Underlying.OfKind", "haspointers": "Type.HasPointers", "pure": "Pure",
	"constslice": "ConstSlice", "isglobal": "Object.IsGlobal", "isvariadic": "Object.IsVariadicParam", "const": "Const", "addressable": "Addressable",
	"comparable": "Comparable", "objectis": "Object.Is", "nodeis:v1": "Node.Is", "parentis:v1": "Node.Parent.Is", "typeis": "Type.Is",
	"typeunderlyingis": "Type.Underlying.Is", "convertibleto": "Type.ConvertibleTo", "assignableto": "Type.AssignableTo", "implements": "Type.Implements",
	"hasmethod": "Type.HasMethod", "identicalto": "Type.IdenticalTo", "sinktypeis": "SinkType.Is", "textmatches": "Text.Matches", "texteq": "Text.==", "textneq": "Text.!="}

func c02Signature(w *c02World, s *c02Site, op c02Op, want, got string) string {
	name := c02PredName[op.pred]
	if got != "t" && got != "f" {
		cause := "panic " + c17PanicName[got]
		if op.pred == "isglobal" {
			return name + ":no-object:" + cause
		}
		return name + ":" + cause
	}
	switch op.pred {
	case "identicalto":
		return fmt.Sprintf("%s:%s:want-%s", name, s.class, want)
	case "sinktypeis":
		return fmt.Sprintf("%s:%s:want-%s", name, c02SinkGroup(s.class), want)
	case "textmatches", "texteq", "textneq":
		kind := [c02NPat]string{"expression", "expression-list", "statement", "expression", "match"}[s.pat]
		if w.capText(s) == "" {
			return fmt.Sprintf("%s:%s:empty-text:want-%s", name, kind, want)
		}
		return fmt.Sprintf("%s:%s:want-%s", name, kind, want)
	}
	listAware := map[string]bool{"pure": true, "constslice": true, "const": true, "addressable": true, "comparable": true, "objectis": true,
		"typeis": true, "typeunderlyingis": true, "convertibleto": true, "assignableto": true, "implements": true}
	if s.pat == 1 && !listAware[op.pred] {
		if op.pred == "isvariadic" && want == "t" {
			for _, n := range s.capture {
				if id := c02IdentOf(n.(ast.Expr)); id != nil && w.t.Info.ObjectOf(id) != nil && w.variadicOfLit(w.t.Info.ObjectOf(id), s) {
					return name + ":func-literal-param"
				}
			}
		}
		return name + ":list-capture:not-elementwise"
	}
	if s.pat == 2 {
		return name + ":statement-capture"
	}
	var e ast.Expr = &ast.CompositeLit{} // the captured expression, or a container of the captured list
	if s.pat == 1 {
		cl := &ast.CompositeLit{}
		for _, n := range s.capture {
			cl.Elts = append(cl.Elts, n.(ast.Expr))
		}
		e = cl
	} else {
		e = subExprOf(s.capture[0])
	}
	if strings.HasPrefix(op.pred, "ofkind") && op.arg == "untyped" {
		return `Type.OfKind:"untyped"→unsigned-bit`
	}
	anyType := func(f func(types.Type, int) bool) bool {
		for _, n := range s.capture {
			if f(w.typeOf(subExprOf(n)), 0) {
				return true
			}
		}
		return false
	}
	if w.alias && anyType(hasAlias) && (strings.HasPrefix(op.pred, "ofkind") || op.pred == "haspointers" || strings.HasPrefix(op.pred, "type")) {
		return name + ":alias-type"
	}
	if anyType(mentionsTypeParam) && strings.HasPrefix(op.pred, "type") {
		return name + ":type-parameter"
	}
	switch op.pred {
	case "pure":
		kind := ""
		ast.Inspect(e, func(n ast.Node) bool {
			switch n.(type) {
			case *ast.KeyValueExpr:
				kind = "KeyValueExpr"
			case *ast.SliceExpr:
				kind = "SliceExpr"
			case *ast.TypeAssertExpr:
				kind = "TypeAssertExpr"
			case *ast.ArrayType, *ast.MapType, *ast.StructType, *ast.FuncType, *ast.InterfaceType, *ast.ChanType:
				if kind == "" {
					kind = "type-literal-operand"
				}
			}
			return true
		})
		if kind != "" {
			return "Pure:conservative-false:" + kind
		}
	case "constslice":
		if want == "f" {
			return "ConstSlice:non-slice-literal-accepted"
		}
	case "isvariadic":
		return "Object.IsVariadicParam:func-literal-param"
	}
	return fmt.Sprintf("%s:%s:want-%s", name, op.arg, want)
}

// ---------------------------------------------------------------------------------------------
// GoVersion filters and ParseGoVersion

func c02GoVersion(c *Ctx) error {
	res := c.Res
	rng := hx.Rng(c.Seed, "c02-goversion")
	// ParseGoVersion, directly (public API)
	strs := []string{"", "1.16", "1.0", "0.5", "2.0", "1", "1.", ".5", "1.x", "x.1", "1.2.3", "+1.5", "-1.5", "1.+5", "1.-5", " 1.5", "1.5 ", "01.016",
		"9223372036854775807.1", "9223372036854775808.1", "1.9223372036854775808", "-9223372036854775808.0", "-9223372036854775809.0", "1..2", ".", "..", "1.１", "1_0.1", "0x1.2", "+.1", "-.1", "1.+", "go1.16"}
	alphabet := "0123456789.+-x "
	n := 300
	if c.Thorough {
		n = 5000
	}
	for i := 0; i < n; i++ {
		l := 1 + rng.Intn(6)
		var sb strings.Builder
		for j := 0; j < l; j++ {
			if rng.Intn(3) == 0 {
				sb.WriteByte(alphabet[rng.Intn(len(alphabet))])
			} else {
				sb.WriteByte("0123456789."[rng.Intn(11)])
			}
		}
		strs = append(strs, sb.String())
	}
	var ops, impl []string
	var inputs []interface{}
	for _, s := range strs {
		s := s
		out := hx.Safe(func() string {
			v, err := ruleguard.ParseGoVersion(s)
			if err != nil {
				return "err"
			}
			return fmt.Sprintf("ok %d %d", v.Major, v.Minor)
		})
		ops = append(ops, "parsegover "+hx.HexS(s))
		impl = append(impl, out)
		inputs = append(inputs, map[string]interface{}{"version": s})
		res.Count("parsegover", s, true)
		res.Dist("parsegover:" + strings.Fields(out)[0])
	}
	if err := res.Compare(c.Drv, "parsegover", ops, impl, inputs); err != nil {
		return err
	}
	// the filters, end to end: one probe site, every operator, rule versions x target versions
	t, err := hx.ParseTarget("gover.go", "package p\nfunc probe(a interface{}) int { return 0 }\nfunc f() { probe(1) }\n")
	if err != nil {
		return err
	}
	methods := []struct{ name, tok string }{{"Eq", "eql"}, {"LessThan", "lss"}, {"GreaterThan", "gtr"}, {"LessEqThan", "leq"}, {"GreaterEqThan", "geq"}}
	ruleVers := []string{"1.15", "1.16", "1.17", "2.0", "1.0", "0.5", "0.0", "1", "1.x", "", "-1.5", "1.16.1"}
	targets := []string{"", "1.15", "1.16", "1.17", "2.0", "2.1", "0.5", "1.0", "-1.5"}
	ops, impl, inputs = nil, nil, nil
	var specOps []string
	for _, m := range methods {
		for _, rv := range ruleVers {
			e, load, _ := c17LoadDSL(hx.RulesFile(fmt.Sprintf("func r(m dsl.Matcher) {\n\tm.Match(`probe($x)`).Where(m.GoVersion().%s(%q)).Report(\"hit\")\n}\n", m.name, rv)))
			for _, tv := range targets {
				pv, _ := ruleguard.ParseGoVersion(tv)
				out := "err"
				if load == "ok" {
					reps, pk, _, err := hx.Run(e, t, hx.RunOpts{GoVersion: tv})
					if err != nil {
						return err
					}
					switch {
					case pk != "":
						out = pk
					case len(reps) == 1:
						out = "t"
					default:
						out = "f"
					}
				} else if load != "err" {
					out = load
				}
				ops = append(ops, fmt.Sprintf("gover %s %d %d %s", m.tok, pv.Major, pv.Minor, hx.HexS(rv)))
				impl = append(impl, out)
				inputs = append(inputs, map[string]interface{}{"filter": "GoVersion()." + m.name + "(" + rv + ")", "target": tv})
				res.Count("gover", m.name+rv+"/"+tv, true)
				res.Dist("gover:" + out)
				if out == "t" || out == "f" {
					if rvv, err := ruleguard.ParseGoVersion(rv); err == nil {
						specOps = append(specOps, fmt.Sprintf("specgover %s %d %d %d %d %s", m.tok, pv.Major, pv.Minor, rvv.Major, rvv.Minor, out))
					}
				}
			}
		}
	}
	if err := res.Compare(c.Drv, "gover", ops, impl, inputs); err != nil {
		return err
	}
	ans, err := c.Drv.Ask(specOps)
	if err != nil {
		return err
	}
	for i, a := range ans {
		if a != "holds" {
			res.Violate(hx.Violation{Signature: "GoVersion:" + strings.Fields(specOps[i])[1], What: "GoVersion filter is not the lexicographic comparison", Input: specOps[i], Impl: specOps[i], Spec: a})
		}
	}
	_ = sort.Strings
	_ = constant.Int
	return nil
}

// ---------------------------------------------------------------------------------------------
// the sink of a match: where its value flows to

// sinkOf derives, from go/ast and go/types alone, the type of the place the value of the matched expression is
// stored into or passed as: the declared type of `var x T = E`, the i-th result type for `return …, E, …`, the
// left-hand side's type for `lhs = E`, the parameter type for a call argument (the element type for an argument
// in the variadic part, the slice type for `E...`), the target type of a conversion `T(E)`, the key type for
// `m[E]` on a map, the element / key / field type for an element of a composite literal.  Parentheses around
// the expression do not matter.  Everywhere else — operand of an index, slice, selector, star, unary, binary
// or type-assertion expression, the function of a call, a left-hand side, a condition, a range or switch
// operand, a channel operand — the value flows into no typed place: "none".
// "free": positions where no reading of "sink" is settled (`x := E`, `x += E`, `ch <- E`, an index or bound of
// a slice / array / string, elements of a literal whose `&T` is elided); the verdict there is not judged.
func (w *c02World) sinkOf(s *c02Site) (types.Type, string) {
	var child ast.Node = s.match
	i := len(s.path) - 1
	for ; i >= 0; i-- {
		p, ok := s.path[i].(*ast.ParenExpr)
		if !ok {
			break
		}
		child = p
	}
	if i < 0 {
		return nil, "none"
	}
	tv := func(e ast.Expr) types.Type { return w.t.Info.TypeOf(e) }
	role := "" // key / value, under a KeyValueExpr
	var kv *ast.KeyValueExpr
	if k, ok := s.path[i].(*ast.KeyValueExpr); ok && i > 0 {
		kv = k
		if k.Key == child {
			role = "key"
		} else {
			role = "value"
		}
		child = k
		i--
	}
	typed := func(t types.Type) (types.Type, string) {
		if t == nil || t == types.Typ[types.Invalid] {
			return nil, "none"
		}
		return t, "sink"
	}
	switch p := s.path[i].(type) {
	case *ast.ValueSpec:
		for _, v := range p.Values {
			if v == child && p.Type != nil {
				return typed(tv(p.Type))
			}
		}
	case *ast.ReturnStmt:
		var sig *types.Signature
		for j := i - 1; j >= 0 && sig == nil; j-- {
			switch f := s.path[j].(type) {
			case *ast.FuncLit:
				sig, _ = tv(f).(*types.Signature)
			case *ast.FuncDecl:
				sig, _ = w.t.Info.Defs[f.Name].Type().(*types.Signature)
			}
		}
		for k, r := range p.Results {
			if r == child && sig != nil && sig.Results().Len() == len(p.Results) {
				return typed(sig.Results().At(k).Type())
			}
		}
	case *ast.AssignStmt:
		for k, r := range p.Rhs {
			if r != child {
				continue
			}
			if p.Tok != token.ASSIGN {
				return nil, "free"
			}
			if len(p.Lhs) == len(p.Rhs) {
				if id, ok := p.Lhs[k].(*ast.Ident); ok && id.Name == "_" {
					return nil, "none"
				}
				return typed(tv(p.Lhs[k]))
			}
		}
	case *ast.SendStmt:
		if p.Value == child {
			return nil, "free"
		}
	case *ast.IndexExpr:
		if p.Index == child {
			if m, ok := tv(p.X).Underlying().(*types.Map); ok {
				return typed(m.Key())
			}
			return nil, "free"
		}
	case *ast.SliceExpr:
		if p.X != child {
			return nil, "free"
		}
	case *ast.CallExpr:
		for k, a := range p.Args {
			if a != child {
				continue
			}
			sig, ok := tv(p.Fun).(*types.Signature)
			if !ok {
				if ftv, found := w.t.Info.Types[p.Fun]; found && ftv.IsType() {
					return typed(ftv.Type) // a conversion
				}
				return nil, "none"
			}
			n := sig.Params().Len()
			switch {
			case sig.Variadic() && k >= n-1 && p.Ellipsis.IsValid():
				return typed(sig.Params().At(n - 1).Type())
			case sig.Variadic() && k >= n-1:
				return typed(sig.Params().At(n - 1).Type().(*types.Slice).Elem())
			case k < n:
				return typed(sig.Params().At(k).Type())
			}
		}
	case *ast.CompositeLit:
		in := false
		pos := 0
		for k, e := range p.Elts {
			if e == child {
				in, pos = true, k
			}
		}
		if !in {
			break
		}
		lt := tv(p)
		if lt == nil {
			break
		}
		if _, ptr := lt.Underlying().(*types.Pointer); ptr && p.Type == nil {
			return nil, "free" // `[]*T{{…}}`: the literal stands for &T{…}
		}
		switch u := lt.Underlying().(type) {
		case *types.Slice:
			if role != "key" {
				return typed(u.Elem())
			}
		case *types.Array:
			if role != "key" {
				return typed(u.Elem())
			}
		case *types.Map:
			if role == "key" {
				return typed(u.Key())
			}
			if role == "value" {
				return typed(u.Elem())
			}
		case *types.Struct:
			if kv == nil {
				if pos < u.NumFields() {
					return typed(u.Field(pos).Type())
				}
			} else if role == "value" {
				if id, ok := kv.Key.(*ast.Ident); ok {
					for k := 0; k < u.NumFields(); k++ {
						if u.Field(k).Name() == id.Name {
							return typed(u.Field(k).Type())
						}
					}
				}
			}
		}
	}
	return nil, "none"
}

// ---------------------------------------------------------------------------------------------
// generated worlds for the two-capture and the sink predicates

type c02Sig struct {
	params   []string
	variadic bool
	named    bool
	result   string
}

func (g c02Sig) render(fn string) string {
	var ps []string
	for i, p := range g.params {
		if g.variadic && i == len(g.params)-1 {
			p = "..." + p
		}
		if g.named {
			p = fmt.Sprintf("a%d %s", i, p)
		}
		ps = append(ps, p)
	}
	s := fn + "(" + strings.Join(ps, ", ") + ")"
	if g.result != "" {
		s += " " + g.result
	}
	return s
}

// how two signatures relate, from their construction
func c02SigRelation(a, b c02Sig) string {
	flat := func(g c02Sig) string {
		ps := append([]string(nil), g.params...)
		if g.variadic {
			ps[len(ps)-1] = "[]" + ps[len(ps)-1]
		}
		return strings.Join(ps, ",") + "->" + g.result
	}
	switch {
	case flat(a) == flat(b) && a.variadic == b.variadic && a.named == b.named:
		return "same-signature"
	case flat(a) == flat(b) && a.variadic == b.variadic:
		return "parameter-names-differ"
	case flat(a) == flat(b):
		return "variadic-vs-slice"
	}
	return "different-signatures"
}

var c02Sigs = []c02Sig{
	{params: []string{"int"}, variadic: true},
	{params: []string{"[]int"}},
	{params: []string{"int"}, variadic: true, named: true},
	{params: []string{"string"}, variadic: true},
	{params: []string{"[]string"}},
	{params: []string{"int", "int"}, variadic: true},
	{params: []string{"int", "[]int"}},
	{params: []string{"int"}, variadic: true, result: "int"},
	{params: []string{"[]int"}, result: "int"},
	{params: []string{"[]int"}, variadic: true},
	{params: []string{"[][]int"}},
	{params: []string{"interface{}"}, variadic: true},
	{params: []string{"[]interface{}"}},
	{params: []string{"[]int"}, named: true},
	{},
	{params: []string{"int"}},
}

var c02Wrappers = []struct{ name, format string }{
	{"func", "%s"}, {"chan", "chan %s"}, {"slice", "[]%s"}, {"array", "[2]%s"}, {"pointer", "*%s"}, {"map-value", "map[string]%s"},
	{"struct-field", "struct{ f %s }"}, {"parameter", "func(%s)"}, {"result", "func() %s"}, {"interface-method", ""}, {"map-of-slices", "map[int][]%s"},
}

// c02BuildPairs: probe2(x, y) over pairs of variables whose types are a signature under a type constructor;
// within a constructor every ordered pair of a seed-chosen subset of the signatures (all of them in the thorough
// tier), plus pairs across constructors and pairs of non-function types.
func c02BuildPairs(seed int64, thorough bool) (string, map[string]string) {
	rng := hx.Rng(seed, "c02-pairs")
	var sb strings.Builder
	sb.WriteString(c02Prelude)
	typeOf := func(wi, si int) string {
		if c02Wrappers[wi].name == "interface-method" {
			return "interface{ " + c02Sigs[si].render("M") + " }"
		}
		return fmt.Sprintf(c02Wrappers[wi].format, c02Sigs[si].render("func"))
	}
	sb.WriteString("var (\n")
	for wi := range c02Wrappers {
		for si := range c02Sigs {
			fmt.Fprintf(&sb, "\tq%d_%d %s\n", wi, si, typeOf(wi, si))
		}
	}
	sb.WriteString(")\n\n")
	classes := map[string]string{}
	k := 0
	site := func(x, y, class string) {
		name := fmt.Sprintf("s%d", k)
		k++
		fmt.Fprintf(&sb, "func %s() {\n\tprobe2(%s, %s)\n}\n\n", name, x, y)
		classes[name] = class
	}
	for wi, wr := range c02Wrappers {
		pick := rng.Perm(len(c02Sigs))
		// the first signatures (the variadic / slice family) are always in; the rest rotates with the seed
		chosen := []int{0, 1, 2, 3, 4}
		for _, si := range pick {
			if si >= 5 && (thorough || len(chosen) < 9) {
				chosen = append(chosen, si)
			}
		}
		sort.Ints(chosen)
		for _, a := range chosen {
			for _, b := range chosen {
				site(fmt.Sprintf("q%d_%d", wi, a), fmt.Sprintf("q%d_%d", wi, b), wr.name+":"+c02SigRelation(c02Sigs[a], c02Sigs[b]))
			}
		}
	}
	n := 60
	if thorough {
		n = 400
	}
	for i := 0; i < n; i++ { // across constructors: never identical unless it is the same variable
		wa, wb := rng.Intn(len(c02Wrappers)), rng.Intn(len(c02Wrappers))
		a, b := rng.Intn(len(c02Sigs)), rng.Intn(len(c02Sigs))
		site(fmt.Sprintf("q%d_%d", wa, a), fmt.Sprintf("q%d_%d", wb, b), "across-constructors")
	}
	plain := []string{"gi", "g8", "ga8", "gn8", "gs", "gns", "gsl", "gbs", "garr", "gst", "gas1", "gif", "gerr", "gp", "gap", "gm", "gch", "gfn", "gfv", "gfs", "1", "c5", "nil", "gw", "gwe", "giv", "gis"}
	for _, a := range plain {
		site(a, a, "same-expression")
		site(a, plain[rng.Intn(len(plain))], "non-function-types")
	}
	site("gfn", "fn", "func-value-vs-declared-function")
	site("gfv", "fv", "func-value-vs-declared-variadic-function")
	site("gfs", "fv", "func-value-vs-declared-variadic-function")
	site("(gfv)", "gfv", "parenthesised")
	sb.WriteString("\n// end\n")
	return sb.String(), classes
}

const c02SinkDecls = `
var pv interface{}

type NM map[string]int
type NSl []int
type KI map[interface{}]int

var (
	gmi  map[interface{}]int
	gmk  KI
	gnm  NM
	gf64 float64
	gwr2 io.Writer
)

func sinkI(a interface{}) int         { return 0 }
func sinkV(a int, bs ...string) int   { return 0 }
func sinkW(w io.Writer, k int8) int   { return 0 }
func sinkF(f func(int) int, m NM) int { return 0 }

`

// a sink site: class, asserted type, function declaration with # for the name and @ for the match
var c02SinkTemplates = []struct{ class, typ, decl string }{
	{"return:only-result", "int", "func #() int {\n\treturn @\n}"},
	{"return:second-of-two", "string", "func #() (int, string) {\n\treturn 1, @\n}"},
	{"return:first-of-two", "int8", "func #() (int8, error) {\n\treturn @, nil\n}"},
	{"return:interface-result", "W", "func #() (io.Writer, error) {\n\treturn @, nil\n}"},
	{"return:named-results", "float64", "func #() (r float64, e error) {\n\treturn @, nil\n}"},
	{"return:method", "int8", "func (recv *S1) #() int8 {\n\treturn @\n}"},
	{"return:generic-function", "int", "func #[T any](z T) (T, int) {\n\treturn z, @\n}"},
	{"return:func-literal", "string", "func #() int {\n\t_ = func() string {\n\t\treturn @\n\t}\n\treturn 0\n}"},
	{"return:func-literal-in-literal", "bool", "func #() int {\n\t_ = func() string {\n\t\t_ = func() (int, bool) { return 0, @ }\n\t\treturn \"\"\n\t}\n\treturn 0\n}"},
	{"return:called-func-literal-as-argument", "int", "func #() {\n\tsinkI(func() int { return @ }())\n}"},
	{"var:declared-type", "int", "func #() {\n\tvar x interface{} = @\n\t_ = x\n}"},
	{"var:declared-interface", "W", "func #() {\n\tvar x io.Writer = @\n\t_ = x\n}"},
	{"var:declared-type:second-value", "float64", "func #() {\n\tvar a, b float64 = 1, @\n\t_, _ = a, b\n}"},
	{"var:declared-type:same", "int64", "func #() {\n\tvar x int64 = @\n\t_ = x\n}"},
	{"var:no-declared-type", "int", "func #() {\n\tvar x = @\n\t_ = x\n}"},
	{"assign:variable", "int", "func #() {\n\tgif = @\n}"},
	{"assign:variable:same-type", "string", "func #() {\n\tgs = @\n}"},
	{"assign:field", "int64", "func #() {\n\tgst.b = @\n}"},
	{"assign:map-element", "int", "func #() {\n\tgm[\"k\"] = @\n}"},
	{"assign:slice-element", "int", "func #() {\n\tgsl[0] = @\n}"},
	{"assign:through-pointer", "int", "func #() {\n\t*gp = @\n}"},
	{"assign:blank", "int", "func #() {\n\t_ = @\n}"},
	{"assign:second-of-two", "string", "func #() {\n\tgi, gs = 1, @\n}"},
	{"assign:first-of-two", "W", "func #() {\n\tgwr2, gi = @, 1\n}"},
	{"assign:define", "int", "func #() {\n\tx := @\n\t_ = x\n}"},
	{"assign:add-assign", "int", "func #() {\n\tgi += @\n}"},
	{"assign:lhs:index-of-map", "map[string]int", "func #() {\n\t@[\"k\"] = 1\n}"},
	{"assign:lhs:index-of-slice", "[]int", "func #() {\n\t@[0] = 1\n}"},
	{"assign:lhs:star", "*int", "func #() {\n\t*@ = 1\n}"},
	{"assign:lhs:field", "*S1", "func #() {\n\t@.a = 1\n}"},
	{"assign:lhs:index-key", "string", "func #() {\n\tgm[@] = 1\n}"},
	{"assign:lhs:index-key:interface-keyed-map", "int", "func #() {\n\tgmi[@] = 1\n}"},
	{"assign:tuple-call", "func() (int, error)", "func #() {\n\tgi, gerr = @()\n}"},
	{"index:operand:map", "map[string]int", "func #() {\n\t_ = @[\"k\"]\n}"},
	{"index:operand:map:int-key", "map[int]string", "func #() {\n\t_ = @[1]\n}"},
	{"index:operand:map:key-type-is-own-type", "map[interface{}]int", "func #() {\n\t_ = @[1]\n}"},
	{"index:operand:named-map", "NM", "func #() {\n\t_ = @[\"k\"]\n}"},
	{"index:operand:map:comma-ok", "map[string]int", "func #() {\n\t_, ok := @[\"k\"]\n\t_ = ok\n}"},
	{"index:operand:slice", "[]int", "func #() {\n\t_ = @[0]\n}"},
	{"index:operand:array", "[3]int64", "func #() {\n\t_ = @[1]\n}"},
	{"index:operand:pointer-to-array", "*[3]int64", "func #() {\n\t_ = @[1]\n}"},
	{"index:operand:string", "string", "func #() {\n\t_ = @[0]\n}"},
	{"index:operand:map:as-argument", "map[string]int", "func #() {\n\tfn(@[\"k\"])\n}"},
	{"index:operand:map-of-maps", "map[string]map[string]int", "func #() {\n\t_ = @[\"a\"][\"b\"]\n}"},
	{"index:key:map", "string", "func #() {\n\t_ = gm[@]\n}"},
	{"index:key:named-map", "string", "func #() {\n\t_ = gnm[@]\n}"},
	{"index:key:interface-keyed-map", "int", "func #() {\n\t_ = gmi[@]\n}"},
	{"index:key:named-interface-keyed-map", "string", "func #() {\n\t_ = gmk[@]\n}"},
	{"index:key:slice", "int", "func #() {\n\t_ = gsl[@]\n}"},
	{"index:key:array", "int", "func #() {\n\t_ = garr[@]\n}"},
	{"index:key:string", "int", "func #() {\n\t_ = gs[@]\n}"},
	{"index:both:map-operand-of-inner", "map[string]string", "func #() {\n\t_ = gm[@[\"k\"]]\n}"},
	{"slice-expr:operand", "[]int", "func #() {\n\t_ = @[1:]\n}"},
	{"slice-expr:bound", "int", "func #() {\n\t_ = gsl[@:]\n}"},
	{"call:argument", "int", "func #() {\n\tfn(@)\n}"},
	{"call:argument:interface-parameter", "int", "func #() {\n\tsinkI(@)\n}"},
	{"call:argument:second", "int8", "func #() {\n\tsinkW(nil, @)\n}"},
	{"call:argument:first-interface", "W", "func #() {\n\tsinkW(@, 1)\n}"},
	{"call:argument:func-typed", "func(int) int", "func #() {\n\tsinkF(@, nil)\n}"},
	{"call:argument:named-map-typed", "map[string]int", "func #() {\n\tsinkF(nil, @)\n}"},
	{"call:argument:variadic-part", "string", "func #() {\n\tsinkV(1, \"a\", @)\n}"},
	{"call:argument:variadic-part:first", "string", "func #() {\n\tsinkV(1, @)\n}"},
	{"call:argument:before-variadic-part", "int", "func #() {\n\tsinkV(@)\n}"},
	{"call:argument:spread", "[]string", "func #() {\n\tsinkV(1, @...)\n}"},
	{"call:argument:variadic-interface", "int", "func #() {\n\tfmt.Println(1, @)\n}"},
	{"call:argument:only-variadic", "int", "func #() {\n\tfv(@)\n}"},
	{"call:argument:method", "[]byte", "func #() {\n\tgw.Write(@)\n}"},
	{"call:argument:func-value", "int", "func #() {\n\tgfn(@)\n}"},
	{"call:argument:explicit-instance", "int", "func #() {\n\t_ = gen[int](@)\n}"},
	{"call:argument:go-statement", "int", "func #() {\n\tgo fn(@)\n}"},
	{"call:argument:defer-statement", "int", "func #() {\n\tdefer fn(@)\n}"},
	{"call:function", "func(int) int", "func #() {\n\t@(1)\n}"},
	{"call:function:go-statement", "func()", "func #() {\n\tgo @()\n}"},
	{"call:conversion", "int", "func #() {\n\t_ = int64(@)\n}"},
	{"call:conversion:to-interface", "W", "func #() {\n\t_ = io.Writer(@)\n}"},
	{"call:conversion:parenthesised-type", "W", "func #() {\n\t_ = (io.Writer)(@)\n}"},
	{"call:conversion:to-slice", "string", "func #() {\n\t_ = []byte(@)\n}"},
	{"call:conversion:to-named", "int8", "func #() {\n\t_ = N8(@)\n}"},
	{"call:builtin:append-element", "int", "func #() {\n\tgsl = append(gsl, @)\n}"},
	{"call:builtin:append-spread", "[]int", "func #() {\n\tgsl = append(gsl, @...)\n}"},
	{"call:builtin:append-first", "[]int", "func #() {\n\tgsl = append(@, 1)\n}"},
	{"call:builtin:append-string-spread", "string", "func #() {\n\tgbs = append(gbs, @...)\n}"},
	{"call:builtin:copy-from-string", "string", "func #() {\n\tcopy(gbs, @)\n}"},
	{"call:builtin:len", "[]int", "func #() {\n\t_ = len(@)\n}"},
	{"call:builtin:make-size", "int", "func #() {\n\t_ = make([]int, @)\n}"},
	{"call:builtin:delete-key", "string", "func #() {\n\tdelete(gm, @)\n}"},
	{"call:builtin:panic", "int", "func #() {\n\tpanic(@)\n}"},
	{"composite:slice:element", "int64", "func #() {\n\t_ = []int64{1, @}\n}"},
	{"composite:slice:keyed-element", "int64", "func #() {\n\t_ = []int64{3: @}\n}"},
	{"composite:slice:interface-elements", "int", "func #() {\n\t_ = []interface{}{@}\n}"},
	{"composite:named-slice:element", "int", "func #() {\n\t_ = NSl{@}\n}"},
	{"composite:array:element", "string", "func #() {\n\t_ = [4]string{@}\n}"},
	{"composite:array:counted", "string", "func #() {\n\t_ = [...]string{\"a\", @}\n}"},
	{"composite:map:value", "float64", "func #() {\n\t_ = map[string]float64{\"k\": @}\n}"},
	{"composite:map:key", "string", "func #() {\n\t_ = map[string]float64{@: 1}\n}"},
	{"composite:map:interface-key", "int", "func #() {\n\t_ = map[interface{}]int{@: 1}\n}"},
	{"composite:map:key-and-value-types-equal", "string", "func #() {\n\t_ = map[string]string{@: \"v\"}\n}"},
	{"composite:struct:keyed", "int64", "func #() {\n\t_ = S1{b: @}\n}"},
	{"composite:struct:keyed:first", "int8", "func #() {\n\t_ = S1{a: @, b: 1}\n}"},
	{"composite:struct:positional:second", "int64", "func #() {\n\t_ = S1{1, @}\n}"},
	{"composite:struct:positional:first", "int8", "func #() {\n\t_ = S1{@, 2}\n}"},
	{"composite:struct:pointer-field", "*int", "func #() {\n\t_ = SP{p: @}\n}"},
	{"composite:struct:address-of", "int8", "func #() {\n\t_ = &S1{a: @}\n}"},
	{"composite:struct:anonymous", "int", "func #() {\n\t_ = struct{ k interface{} }{k: @}\n}"},
	{"composite:nested:elided-slice", "int64", "func #() {\n\t_ = [][]int64{{@}}\n}"},
	{"composite:nested:elided-struct", "int8", "func #() {\n\t_ = map[string]S1{\"k\": {a: @}}\n}"},
	{"composite:nested:elided-struct-positional", "int64", "func #() {\n\t_ = []S1{{1, @}}\n}"},
	{"composite:nested:elided-pointer", "int8", "func #() {\n\t_ = []*S1{{a: @}}\n}"},
	{"composite:nested:elided-map-key", "int8", "func #() {\n\t_ = map[S1]int{{a: @}: 1}\n}"},
	{"send:value", "int", "func #() {\n\tgch <- @\n}"},
	{"send:channel", "chan int", "func #() {\n\t@ <- 1\n}"},
	{"receive:operand", "chan int", "func #() {\n\t<-@\n}"},
	{"unary:operand", "int", "func #() {\n\t_ = -@\n}"},
	{"star:operand", "*int", "func #() {\n\t_ = *@\n}"},
	{"binary:left", "int", "func #() {\n\t_ = @ + 1\n}"},
	{"binary:right", "int", "func #() {\n\t_ = gi + @\n}"},
	{"binary:comparison", "int", "func #() {\n\t_ = @ == gi\n}"},
	{"selector:operand:field", "*S1", "func #() {\n\t_ = @.a\n}"},
	{"selector:operand:method-call", "W", "func #() {\n\t@.Write(nil)\n}"},
	{"selector:operand:method-value", "W", "func #() {\n\t_ = @.String\n}"},
	{"type-assertion:operand", "interface{}", "func #() {\n\t_ = @.(int)\n}"},
	{"condition:if", "bool", "func #() {\n\tif @ {\n\t}\n}"},
	{"condition:for", "bool", "func #() {\n\tfor @ {\n\t}\n}"},
	{"switch:tag", "int", "func #() {\n\tswitch @ {\n\t}\n}"},
	{"switch:case", "int", "func #() {\n\tswitch gi {\n\tcase @:\n\t}\n}"},
	{"range:operand", "[]int", "func #() {\n\tfor range @ {\n\t}\n}"},
	{"incdec:index-operand", "[]int", "func #() {\n\t@[0]++\n}"},
}

// the position group of a sink site class: "index:operand:map:int-key:parenthesised" -> "index:operand:parenthesised"
func c02SinkGroup(class string) string {
	paren := strings.HasSuffix(class, ":parenthesised")
	parts := strings.Split(strings.TrimSuffix(class, ":parenthesised"), ":")
	g := parts[0]
	switch {
	case parts[0] == "assign" && len(parts) > 1 && parts[1] == "lhs":
		g = "assign:lhs"
	case parts[0] == "assign":
		g = "assign:rhs"
	case len(parts) > 1 && (parts[0] == "index" || parts[0] == "call" || parts[0] == "composite" || parts[0] == "selector" || parts[0] == "slice-expr" || parts[0] == "send"):
		g = parts[0] + ":" + parts[1]
	}
	if paren {
		g += ":parenthesised"
	}
	return g
}

// c02BuildSink: one declaration per (template, parenthesisation); the match is `pv.(T)`, an expression of any type
func c02BuildSink(seed int64, thorough bool) (string, map[string]string) {
	rng := hx.Rng(seed, "c02-sink")
	var sb strings.Builder
	sb.WriteString(c02Prelude)
	sb.WriteString(c02SinkDecls)
	classes := map[string]string{}
	k := 0
	for _, tp := range c02SinkTemplates {
		probe := "pv.(" + tp.typ + ")"
		variants := []string{probe, "(" + probe + ")"}
		if thorough || rng.Intn(4) == 0 {
			variants = append(variants, "(("+probe+"))")
		}
		for vi, v := range variants {
			name := fmt.Sprintf("s%d", k)
			k++
			sb.WriteString(strings.Replace(strings.Replace(tp.decl, "#", name, 1), "@", v, 1))
			sb.WriteString("\n\n")
			classes[name] = tp.class
			if vi > 0 {
				classes[name] += ":parenthesised"
			}
		}
	}
	sb.WriteString("\n// end\n")
	return sb.String(), classes
}
