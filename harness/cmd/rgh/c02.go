package main

// C02 — Where() predicates mean what the Go type system says they mean.
//
// Probe files (every probe site in its own function) x `Match(<pattern>).Where(<predicate>)` per
// predicate and argument: the verdict of the real engine at every site (Engine.Run; one declaration
// at a time behind a panic) must equal the verdict of the Lean model (`c02`) fed with facts the
// harness computes on its own from go/types and go/ast (type shapes, expression shapes with
// object facts, node tags, answers of the go/types relations the predicates delegate to), and the
// Lean statement of what the predicate means (`spec02`) is evaluated on the implementation's
// verdicts.  The probe file is type-checked under GODEBUG=gotypesalias=0 and =1.

import (
	"fmt"
	"go/ast"
	"go/constant"
	"go/token"
	"go/types"
	"os"
	"path/filepath"
	"sort"
	"strconv"
	"strings"

	"github.com/quasilyte/go-ruleguard/ruleguard"
	"github.com/quasilyte/go-ruleguard/ruleguard/ir"
	"github.com/quasilyte/gogrep/nodetag"
	"verifharness/hx"
)

// c02Variant: "asis" = the pinned tree; "fixed" = after fixes/ofkind-untyped.diff, fixes/isglobal-nil-object.diff and
// fixes/alias-transparent-type-predicates.diff; "repaired" = in addition after fixes/c02-list-captures.diff,
// c02-typeof-exprstmt.diff, c02-constslice-literal-type.diff, c02-pure-whitelist.diff, c02-variadic-funclit.diff.
const c02Variant = "repaired"

func init() { register("C02", runC02) }

const c02Prelude = `package p

import (
	"fmt"
	"io"
	"unsafe"
)

func probe(a interface{}) int      { return 0 }
func probeN(a ...interface{}) int  { return 0 }
func fn(x int) int                 { return x }
func fv(xs ...int) int             { return len(xs) }
func gen[T any](x T) T             { return x }

type S1 struct {
	a int8
	b int64
}
type SP struct {
	a int8
	p *int
}
type N8 int8
type NU uint16
type NF float32
type NS string
type A8 = int8
type AS1 = S1
type AP = *int
type ANU = NU
type SA struct {
	a A8
	b AS1
}
type Arr [3]int64
type ArrS [2]string
type E struct{}
type W struct{}

func (W) Write(p []byte) (int, error) { return 0, nil }
func (W) String() string              { return "" }
func (W) Error() string               { return "" }

const c5 = 5
const cs = "k"
const cu8 uint8 = 7
const cf = 1.5

var mark bool
var (
	g8   int8
	g16  int16
	g64  int64
	gi   int
	gu   uint
	gu8  uint8
	gup  uintptr
	gf   float64
	gc   complex128
	gb   bool
	gs   string
	gr   rune
	gsl  []int
	gbs  []byte
	garr Arr
	gas  ArrS
	gst  S1
	gsp  SP
	ge   E
	gw   W
	gif  interface{}
	gerr error
	grd  io.Reader
	gp   *int
	gm   map[string]int
	gch  chan int
	gfn  func(int) int
	gup2 unsafe.Pointer
	gn8  N8
	gnu  NU
	gnf  NF
	gns  NS
	ga8  A8
	gas1 AS1
	gap  AP
	ganu ANU
	gsa  SA
)

var _ = fmt.Sprint

`

// expressions for probe($x); %-prefixed ones need the generic frame
var c02Exprs = []string{
	"1", "-3", "c5", "c5 + 1", "cu8", "cu8 + 1", "gu8 + 1", "cf", "1.5", "'a'", "\"str\"", "cs", "true", "nil", "gb", "!gb", "1 << gu",
	"g8", "g16", "g64", "gi", "gu", "gu8", "gup", "gf", "gc", "gs", "gr", "gsl", "gbs", "garr", "gas", "gst", "gsp", "ge", "gw",
	"gif", "gerr", "grd", "gp", "gm", "gch", "gfn", "gup2", "gn8", "gnu", "gnf", "gns", "ga8", "gas1", "gap", "ganu", "gsa",
	"l8", "ls", "(gi)", "((gs))", "gi + 1", "gi + fn(1)", "-gi", "*gp", "&gi", "&gst", "<-gch", "fn(gi)", "fv(1, 2)", "fmt.Sprint(gi)", "fn", "fmt.Sprint",
	"int64(g8)", "N8(g8)", "(N8)(g8)", "[]byte(\"lit\")", "[]byte(gs)", "string(gbs)", "(*int)(nil)", "float64(gi + 1)", "unsafe.Sizeof(gi)", "len(gs)", "io.Reader(nil)",
	"garr[1]", "gsl[gi]", "gm[\"k\"]", "gsl[fn(1)]", "gst.b", "gsa.a", "gsp.p", "(gst).a", "gw.String", "gw.String()",
	"[]int{1, 2}", "[]int{1, gi}", "[]int{}", "[]string{\"a\", cs}", "[...]int{1, 2}", "[2]int{1, 2}", "S1{1, 2}", "S1{a: 1, b: 2}", "S1{}", "map[string]int{\"a\": 1}", "[]int{0: 1, 2: 3}",
	"[]byte{'f', 'o'}", "[][]int{{1}, {2}}", "&S1{a: 1}", "[]interface{}{fn(1)}",
	"gsl[1:2]", "gs[:1]", "garr[:]", "gif.(int)", "gif.(io.Reader)", "func() {}", "func(x int) int { return x }",
	"struct{}{}", "E{}", "new(int)", "make([]int, 1)", "append(gsl, 1)", "gi == 1", "gs + \"x\"", "gs + cs", "gerr == nil", "gfn(1)",
	"gen[[]int]", "gen[int]", "gen[map[string]int](gm)", "gsl[gi:fn(1)]", "gsl[:gi:gi+1]", "gif.(fmt.Stringer).String", "S1{a: int8(fn(1))}", "map[string]int{gs: gi}", "[2]int{c5, 1}", "[...]string{cs}", "AS1{1, 2}",
	"%t", "%w", "%ws", "%w + 1", "%tp", "%xs", "%xs[0]",
}

type c02Site struct {
	name    string
	pat     int // 0 probe($x), 1 probeN($*xs), 2 if mark { $x }
	decl    *ast.FuncDecl
	match   ast.Node   // the node the pattern matches ($$)
	parent  ast.Node   // its parent
	capture []ast.Node // the captured node (one), or the elements of $*xs
	lits    []*ast.FuncLit // the function literals on the node path of the match (the match itself, its ancestors)
	tgt     *hx.Target
}

var c02Patterns = [3]string{"probe($x)", "probeN($*xs)", "if mark { $x }"}
var c02Var = [3]string{"x", "xs", "x"}

func c02BuildTarget(seed int64, thorough bool) string {
	rng := hx.Rng(seed, "c02-target")
	var sb strings.Builder
	sb.WriteString(c02Prelude)
	k := 0
	frame := func(body string, generic bool) {
		switch {
		case generic:
			fmt.Fprintf(&sb, "func s%d[T any, W ~int](t T, w W, ws []W, tp *T, l8 int8, ls string, xs ...W) {\n\t%s\n}\n\n", k, body)
		case k%3 == 0:
			fmt.Fprintf(&sb, "func s%d(l8 int8, ls string, vs ...int) {\n\t%s\n}\n\n", k, body)
		case k%3 == 1:
			fmt.Fprintf(&sb, "func s%d(l8 int8, ls string) {\n\t%s\n}\n\n", k, body)
		default:
			fmt.Fprintf(&sb, "func (recv *S1) s%d(l8 int8, ls string) {\n\t%s\n}\n\n", k, body)
		}
		k++
	}
	ctx := []string{"%s", "_ = %s", "if %s > 0 {\n\t}", "_ = (%s)", "_ = fn(%s)", "go func() { %s }()"}
	for i, e := range c02Exprs {
		g := strings.HasPrefix(e, "%")
		e = strings.TrimPrefix(e, "%")
		c := ctx[0]
		if i%4 == 3 {
			c = ctx[rng.Intn(len(ctx))]
		}
		frame(fmt.Sprintf(c, "probe("+e+")"), g)
	}
	// variadic parameters: of the enclosing declaration, of a function literal, captured by a closure
	for k%3 != 0 {
		frame("probe(ls)", false)
	}
	frame("probe(vs)", false)
	for k%3 != 0 {
		frame("probe(l8)", false)
	}
	frame("probe(vs)", false)
	frame("f := func(ys ...int) { probe(ys) }\n\t_ = f", false)
	for k%3 != 0 {
		frame("probe(ls)", false)
	}
	frame("f := func() { probe(vs) }\n\t_ = f", false)
	frame("probe(xs)", true)
	frame("f := func(a int, ys ...string) { g := func(zs ...int) { probe(ys) }; _ = g }\n\t_ = f", false)
	frame("f := func(ys ...string) { g := func(ys []int) { probe(ys) }; _ = g }\n\t_ = f", false)
	for k%3 != 0 {
		frame("probe(l8)", false)
	}
	frame("f := func(ys ...int) { probeN(ys, vs) }\n\t_ = f", false)
	frame("f := func(ys ...int) { probeN(ys, ls) }\n\t_ = f", false)
	frame("f := func(ys ...int) { probeN((ys), ys) }\n\t_ = f", false)
	// expression lists
	lists := [][]string{{"1"}, {"1", "2"}, {"1", "gi"}, {"gi", "gs"}, {"gi", "g8", "g64"}, {"ga8"}, {"ga8", "g8"}, {"gsl", "gp"}, {"fn(1)", "gi"}, {"gi", "fn(1)"},
		{"[]int{1}", "[]byte(\"a\")"}, {"fn", "fmt.Sprint"}, {"gi", "l8"}, {"nil"}, {"gerr", "gw"}, {"gst", "ge"}, {"c5", "cs"}, {"%w", "gi"}, {"%t"}, {}}
	for _, l := range lists {
		g := false
		var args []string
		for _, e := range l {
			if strings.HasPrefix(e, "%") {
				g = true
			}
			args = append(args, strings.TrimPrefix(e, "%"))
		}
		frame("probeN("+strings.Join(args, ", ")+")", g)
	}
	// statements
	for _, st := range []string{"fn(gi)", "gi++", "return", "gi = 1", "fv(1, 2)", "<-gch", "_ = gi", "go fn(1)", "var _ int", "{\n\t\t}", "gfn(1)", "fmt.Sprint(gs)"} {
		frame("if mark {\n\t\t"+st+"\n\t}", false)
	}
	if thorough {
		for i := 0; i < 120; i++ {
			a := c02Exprs[rng.Intn(len(c02Exprs))]
			b := c02Exprs[rng.Intn(len(c02Exprs))]
			g := strings.HasPrefix(a, "%") || strings.HasPrefix(b, "%")
			a, b = strings.TrimPrefix(a, "%"), strings.TrimPrefix(b, "%")
			switch i % 3 {
			case 0:
				frame("probeN("+a+", "+b+")", g)
			case 1:
				frame(fmt.Sprintf(ctx[rng.Intn(len(ctx))], "probe(("+a+"))"), g)
			default:
				frame("probe([]interface{}{"+a+", "+b+"})", g)
			}
		}
	}
	sb.WriteString("\n// end\n")
	return sb.String()
}

type c02World struct {
	t     *hx.Target
	sites [3][]*c02Site
	alias bool
}

func c02Parse(path, src string, alias bool) (*c02World, error) {
	if alias {
		os.Setenv("GODEBUG", "gotypesalias=1")
	} else {
		os.Setenv("GODEBUG", "gotypesalias=0")
	}
	t, err := hx.ParseTarget(path, src)
	if err != nil {
		return nil, fmt.Errorf("target: %v", err)
	}
	w := &c02World{t: t, alias: alias}
	for _, d := range t.File.Decls {
		fd, ok := d.(*ast.FuncDecl)
		if !ok || !strings.HasPrefix(fd.Name.Name, "s") || fd.Body == nil {
			continue
		}
		if _, err := strconv.Atoi(fd.Name.Name[1:]); err != nil {
			continue
		}
		f2 := *t.File
		f2.Decls = []ast.Decl{d}
		t2 := *t
		t2.File = &f2
		// the single probe site of the declaration
		var stack []ast.Node
		var site *c02Site
		ast.Inspect(fd, func(n ast.Node) bool {
			if n == nil {
				stack = stack[:len(stack)-1]
				return true
			}
			var parent ast.Node
			if len(stack) > 0 {
				parent = stack[len(stack)-1]
			}
			stack = append(stack, n)
			if site != nil {
				return true
			}
			defer func() {
				if site != nil {
					for _, a := range stack {
						if fl, ok := a.(*ast.FuncLit); ok {
							site.lits = append(site.lits, fl)
						}
					}
				}
			}()
			switch n := n.(type) {
			case *ast.IfStmt:
				if id, ok := n.Cond.(*ast.Ident); ok && id.Name == "mark" && len(n.Body.List) == 1 && n.Else == nil && n.Init == nil {
					site = &c02Site{pat: 2, match: n, parent: parent, capture: []ast.Node{n.Body.List[0]}}
				}
			case *ast.CallExpr:
				if id, ok := n.Fun.(*ast.Ident); ok && id.Name == "probe" && len(n.Args) == 1 {
					site = &c02Site{pat: 0, match: n, parent: parent, capture: []ast.Node{n.Args[0]}}
				} else if ok && id.Name == "probeN" {
					site = &c02Site{pat: 1, match: n, parent: parent}
					for _, a := range n.Args {
						site.capture = append(site.capture, a)
					}
				}
			}
			return true
		})
		if site == nil {
			return nil, fmt.Errorf("no probe site in %s", fd.Name.Name)
		}
		site.name, site.decl, site.tgt = fd.Name.Name, fd, &t2
		w.sites[site.pat] = append(w.sites[site.pat], site)
	}
	return w, nil
}

// ---------------------------------------------------------------------------------------------
// facts

func (w *c02World) tySexp(t types.Type, depth int) string {
	if t == nil {
		return "(b 0 0)"
	}
	if depth > 12 {
		return "(o)"
	}
	switch t := t.(type) {
	case *types.Basic:
		return fmt.Sprintf("(b %d %d)", int(t.Kind()), int(t.Info()))
	case *types.Named:
		return "(n " + w.tySexp(t.Underlying(), depth+1) + ")"
	case *types.Alias:
		return "(a " + w.tySexp(types.Unalias(t), depth+1) + ")"
	case *types.Struct:
		parts := []string{"st"}
		for i := 0; i < t.NumFields(); i++ {
			parts = append(parts, w.tySexp(t.Field(i).Type(), depth+1))
		}
		return "(" + strings.Join(parts, " ") + ")"
	case *types.Array:
		return "(ar " + w.tySexp(t.Elem(), depth+1) + ")"
	case *types.TypeParam:
		return "(tp)"
	}
	return "(o)"
}

func hasAlias(t types.Type, depth int) bool {
	if t == nil || depth > 12 {
		return false
	}
	switch t := t.(type) {
	case *types.Alias:
		return true
	case *types.Named:
		return hasAlias(t.Underlying(), depth+1)
	case *types.Struct:
		for i := 0; i < t.NumFields(); i++ {
			if hasAlias(t.Field(i).Type(), depth+1) {
				return true
			}
		}
	case *types.Array:
		return hasAlias(t.Elem(), depth+1)
	}
	return false
}

func (w *c02World) objSexp(id *ast.Ident, site *c02Site) string {
	decl := site.decl
	obj := w.t.Info.ObjectOf(id)
	if obj == nil {
		return "-"
	}
	kind := ""
	switch obj.(type) {
	case *types.Func:
		kind = "Func"
	case *types.Var:
		kind = "Var"
	case *types.Const:
		kind = "Const"
	case *types.TypeName:
		kind = "TypeName"
	case *types.Label:
		kind = "Label"
	case *types.PkgName:
		kind = "PkgName"
	case *types.Builtin:
		kind = "Builtin"
	case *types.Nil:
		kind = "Nil"
	default:
		return "-"
	}
	global := obj.Parent() == w.t.Pkg.Scope()
	lastOfDecl := false
	if fobj, ok := w.t.Info.ObjectOf(decl.Name).(*types.Func); ok {
		sig := fobj.Type().(*types.Signature)
		if sig.Params().Len() > 0 && sig.Params().At(sig.Params().Len()-1) == obj {
			lastOfDecl = true
		}
	}
	return fmt.Sprintf("%s:%s:%s:%s:%s", kind, b01(global), b01(lastOfDecl), b01(w.variadicParams()[obj]), b01(w.variadicOfLit(obj, site)))
}

// obj is the `...T` parameter of a function literal on the node path of the site's match
func (w *c02World) variadicOfLit(obj types.Object, site *c02Site) bool {
	for _, fl := range site.lits {
		ps := fl.Type.Params
		if ps == nil || len(ps.List) == 0 {
			continue
		}
		last := ps.List[len(ps.List)-1]
		if _, ok := last.Type.(*ast.Ellipsis); ok && len(last.Names) > 0 && w.t.Info.Defs[last.Names[len(last.Names)-1]] == obj {
			return true
		}
	}
	return false
}

// the identifier the object predicates are about (own copy of the documented rule: the expression up to
// parentheses, or the selected name of a selector)
func c02IdentOf(e ast.Expr) *ast.Ident {
	for {
		switch x := e.(type) {
		case *ast.ParenExpr:
			e = x.X
		case *ast.Ident:
			return x
		case *ast.SelectorExpr:
			return x.Sel
		default:
			return nil
		}
	}
}

var c02VariadicCache = map[*c02World]map[types.Object]bool{}

// every object that is the `...T` parameter of a function declaration or literal of the file
func (w *c02World) variadicParams() map[types.Object]bool {
	if m, ok := c02VariadicCache[w]; ok {
		return m
	}
	m := map[types.Object]bool{}
	ast.Inspect(w.t.File, func(n ast.Node) bool {
		var ft *ast.FuncType
		switch n := n.(type) {
		case *ast.FuncDecl:
			ft = n.Type
		case *ast.FuncLit:
			ft = n.Type
		}
		if ft != nil && ft.Params != nil && len(ft.Params.List) > 0 {
			last := ft.Params.List[len(ft.Params.List)-1]
			if _, ok := last.Type.(*ast.Ellipsis); ok {
				for _, name := range last.Names {
					if obj := w.t.Info.Defs[name]; obj != nil {
						m[obj] = true
					}
				}
			}
		}
		return true
	})
	c02VariadicCache[w] = m
	return m
}

func (w *c02World) isConst(e ast.Expr) bool {
	tv, ok := w.t.Info.Types[e]
	return ok && tv.Value != nil
}

func (w *c02World) exSexp(e ast.Expr, site *c02Site) string {
	rec := func(x ast.Expr) string { return w.exSexp(x, site) }
	list := func(xs []ast.Expr) string {
		var parts []string
		for _, x := range xs {
			parts = append(parts, rec(x))
		}
		if len(parts) == 0 {
			return ""
		}
		return " " + strings.Join(parts, " ")
	}
	switch e := e.(type) {
	case *ast.StarExpr:
		return "(star " + rec(e.X) + ")"
	case *ast.BinaryExpr:
		return "(bin " + rec(e.X) + " " + rec(e.Y) + ")"
	case *ast.UnaryExpr:
		return "(un " + b01(e.Op == token.ARROW) + " " + rec(e.X) + ")"
	case *ast.BasicLit:
		return "(lit " + b01(e.Kind == token.STRING) + ")"
	case *ast.Ident:
		return "(id " + w.objSexp(e, site) + ")"
	case *ast.FuncLit:
		return "(flit)"
	case *ast.IndexExpr:
		return "(idx " + rec(e.X) + " " + rec(e.Index) + ")"
	case *ast.SelectorExpr:
		return "(sel " + rec(e.X) + " " + w.objSexp(e.Sel, site) + ")"
	case *ast.ParenExpr:
		return "(par " + rec(e.X) + ")"
	case *ast.CompositeLit:
		var cs []string
		for _, elt := range e.Elts {
			cs = append(cs, b01(w.isConst(elt)))
		}
		isSlice := false
		if t := w.t.Info.TypeOf(e); t != nil {
			switch t.Underlying().(type) {
			case *types.Slice, *types.Array:
				isSlice = true
			}
		}
		return "(comp " + b01(isSlice) + " (" + strings.Join(cs, " ") + ")" + list(e.Elts) + ")"
	case *ast.CallExpr:
		fbs := false
		if t, ok := w.t.Info.TypeOf(e.Fun).(*types.Slice); ok {
			if b, ok := t.Elem().(*types.Basic); ok && b.Kind() == types.Uint8 {
				fbs = true
			}
		}
		return "(call " + b01(fbs) + " " + rec(e.Fun) + list(e.Args) + ")"
	case *ast.FuncType, *ast.StructType, *ast.InterfaceType, *ast.ArrayType, *ast.MapType, *ast.ChanType:
		return "(tlit)"
	case *ast.KeyValueExpr:
		return "(kv " + rec(e.Key) + " " + rec(e.Value) + ")"
	case *ast.SliceExpr:
		var idx []ast.Expr
		for _, x := range []ast.Expr{e.Low, e.High, e.Max} {
			if x != nil {
				idx = append(idx, x)
			}
		}
		return "(slc " + rec(e.X) + list(idx) + ")"
	case *ast.TypeAssertExpr:
		return "(ta " + rec(e.X) + ")"
	}
	return "(oth)"
}

func nodeFSexp(n ast.Node) string {
	if n == nil {
		return "-"
	}
	tag := strings.TrimPrefix(fmt.Sprintf("%T", n), "*ast.")
	_, isExpr := n.(ast.Expr)
	_, isStmt := n.(ast.Stmt)
	return fmt.Sprintf("(%s %s %s)", tag, b01(isExpr), b01(isStmt))
}

// the expression a predicate reading `subExpr` sees
func subExprOf(n ast.Node) ast.Expr {
	switch n := n.(type) {
	case ast.Expr:
		return n
	case *ast.ExprStmt:
		return n.X
	}
	return nil
}

func (w *c02World) typeOf(e ast.Expr) types.Type {
	if e == nil {
		return types.Typ[types.Invalid]
	}
	if t := w.t.Info.TypeOf(e); t != nil {
		return t
	}
	return types.Typ[types.Invalid]
}

// type of `typeofNode(subNode)`: expressions only (a statement has none)
func (w *c02World) typeOfNode(n ast.Node) types.Type {
	if e, ok := n.(ast.Expr); ok {
		return w.typeOf(e)
	}
	return types.Typ[types.Invalid]
}

func (w *c02World) siteSexp(s *c02Site, oracle string) string {
	var cap string
	if s.pat == 1 {
		parts := []string{"list"}
		for _, n := range s.capture {
			e := n.(ast.Expr)
			parts = append(parts, "("+w.exSexp(e, s)+" "+w.tySexp(w.typeOf(e), 0)+")")
		}
		cap = "(" + strings.Join(parts, " ") + ")"
	} else {
		e := subExprOf(s.capture[0])
		ex := "-"
		if e != nil {
			ex = w.exSexp(e, s)
		}
		cap = "(one " + ex + " " + w.tySexp(w.typeOf(e), 0) + ")"
	}
	node := "-"
	if s.pat != 1 {
		node = nodeFSexp(s.capture[0])
	} else {
		node = "(NodeSlice 0 0)" // *gogrep.NodeSlice: neither an Expr nor a Stmt, no go/ast tag
	}
	cf := "none"
	if fobj, ok := w.t.Info.ObjectOf(s.decl.Name).(*types.Func); ok {
		cf = "v" + b01(fobj.Type().(*types.Signature).Variadic())
	} else {
		cf = "notfunc"
	}
	return fmt.Sprintf("(s %s %s %s %s %s)", cap, node, nodeFSexp(s.parent), cf, oracle)
}

// ---------------------------------------------------------------------------------------------
// predicates

type c02Op struct {
	pred string // driver name
	arg  string
	dsl  string                                           // with %v for the variable name
	rel  func(w *c02World, t types.Type, e ast.Expr) bool // oracle for delegated relations (nil otherwise)
}

func c02EvalType(w *c02World, s string) types.Type {
	tv, err := types.Eval(w.t.Fset, w.t.Pkg, w.t.File.End()-1, s)
	if err != nil {
		panic(fmt.Sprintf("oracle: cannot evaluate type %q: %v", s, err))
	}
	return tv.Type
}

func c02Ops() []c02Op {
	var ops []c02Op
	for _, k := range []string{"integer", "unsigned", "float", "complex", "untyped", "numeric", "signed", "int", "uint", "nonsense", "string", ""} {
		ops = append(ops, c02Op{pred: "ofkind:0", arg: k, dsl: fmt.Sprintf(`m["%%v"].Type.OfKind(%q)`, k)})
		ops = append(ops, c02Op{pred: "ofkind:1", arg: k, dsl: fmt.Sprintf(`m["%%v"].Type.Underlying().OfKind(%q)`, k)})
	}
	ops = append(ops,
		c02Op{pred: "haspointers", dsl: `m["%v"].Type.HasPointers()`},
		c02Op{pred: "pure", dsl: `m["%v"].Pure`},
		c02Op{pred: "constslice", dsl: `m["%v"].ConstSlice`},
		c02Op{pred: "isglobal", dsl: `m["%v"].Object.IsGlobal()`},
		c02Op{pred: "isvariadic", dsl: `m["%v"].Object.IsVariadicParam()`},
		c02Op{pred: "const", dsl: `m["%v"].Const`, rel: func(w *c02World, t types.Type, e ast.Expr) bool { return e != nil && w.isConst(e) }},
		c02Op{pred: "addressable", dsl: `m["%v"].Addressable`, rel: func(w *c02World, t types.Type, e ast.Expr) bool {
			if e == nil {
				return false
			}
			tv, ok := w.t.Info.Types[e]
			return ok && tv.Addressable()
		}},
		c02Op{pred: "comparable", dsl: `m["%v"].Comparable`, rel: func(w *c02World, t types.Type, e ast.Expr) bool { return types.Comparable(t) }},
	)
	for _, k := range []string{"Func", "Var", "Const", "TypeName", "Label", "PkgName", "Builtin", "Nil", "Bogus", ""} {
		ops = append(ops, c02Op{pred: "objectis", arg: k, dsl: fmt.Sprintf(`m["%%v"].Object.Is(%q)`, k)})
	}
	for _, k := range []string{"Expr", "Stmt", "Node", "Ident", "BasicLit", "CallExpr", "BinaryExpr", "ParenExpr", "SelectorExpr", "CompositeLit", "ExprStmt",
		"IncDecStmt", "ReturnStmt", "AssignStmt", "UnaryExpr", "StarExpr", "IndexExpr", "FuncLit", "SliceExpr", "TypeAssertExpr", "GoStmt", "BlockStmt", "DeclStmt", "Bogus"} {
		ops = append(ops, c02Op{pred: "nodeis:v" + b01(nodetag.FromString(k) != nodetag.Unknown), arg: k, dsl: fmt.Sprintf(`m["%%v"].Node.Is(%q)`, k)})
	}
	for _, k := range []string{"ExprStmt", "AssignStmt", "BinaryExpr", "ParenExpr", "CallExpr", "BlockStmt", "Expr", "Stmt", "Node", "IfStmt", "GoStmt", "Bogus"} {
		ops = append(ops, c02Op{pred: "parentis:v" + b01(nodetag.FromString(k) != nodetag.Unknown), arg: k, dsl: fmt.Sprintf(`m["$$"].Node.Parent().Is(%q)`, k)})
	}
	for _, ty := range []string{"int", "int8", "uint8", "string", "float64", "[]int", "[]byte", "*int", "map[string]int", "error", "io.Reader", "[3]int64", "interface{}", "func(int) int", "chan int", "struct{}", "bool", "uint16"} {
		ty := ty
		ops = append(ops, c02Op{pred: "typeis", arg: ty, dsl: fmt.Sprintf(`m["%%v"].Type.Is(%q)`, ty),
			rel: func(w *c02World, t types.Type, e ast.Expr) bool { return types.Identical(t, c02EvalType(w, ty)) }})
		ops = append(ops, c02Op{pred: "typeunderlyingis", arg: ty, dsl: fmt.Sprintf(`m["%%v"].Type.Underlying().Is(%q)`, ty),
			rel: func(w *c02World, t types.Type, e ast.Expr) bool {
				return types.Identical(t.Underlying(), c02EvalType(w, ty))
			}})
	}
	for _, ty := range []string{"int", "int8", "string", "float64", "[]byte", "[]int", "*int", "interface{}", "error", "map[string]int", "[3]int64", "uintptr", "complex128"} {
		ty := ty
		ops = append(ops, c02Op{pred: "convertibleto", arg: ty, dsl: fmt.Sprintf(`m["%%v"].Type.ConvertibleTo(%q)`, ty),
			rel: func(w *c02World, t types.Type, e ast.Expr) bool { return types.ConvertibleTo(t, c02EvalType(w, ty)) }})
		ops = append(ops, c02Op{pred: "assignableto", arg: ty, dsl: fmt.Sprintf(`m["%%v"].Type.AssignableTo(%q)`, ty),
			rel: func(w *c02World, t types.Type, e ast.Expr) bool { return types.AssignableTo(t, c02EvalType(w, ty)) }})
	}
	for _, ty := range []string{"error", "io.Reader", "io.Writer", "fmt.Stringer"} {
		ty := ty
		ops = append(ops, c02Op{pred: "implements", arg: ty, dsl: fmt.Sprintf(`m["%%v"].Type.Implements(%q)`, ty),
			rel: func(w *c02World, t types.Type, e ast.Expr) bool {
				return types.Implements(t, c02EvalType(w, ty).Underlying().(*types.Interface))
			}})
	}
	return ops
}

// typematch / xtypes are oracles of this property (C10, C14): where their answer is known to differ
// from go/types' (type parameters and their constraint interfaces, alias types under gotypesalias=1)
// the model is given no answer and the site is not compared; the statement is still evaluated there.
func (w *c02World) masked(op c02Op, s *c02Site) bool {
	if op.pred != "typeis" && op.pred != "typeunderlyingis" {
		return false
	}
	for _, n := range s.capture {
		t := w.typeOf(subExprOf(n))
		if hasAlias(t, 0) || mentionsTypeParam(t, 0) {
			return true
		}
	}
	return false
}

func mentionsTypeParam(t types.Type, depth int) bool {
	if t == nil || depth > 6 {
		return false
	}
	switch t := t.(type) {
	case *types.TypeParam:
		return true
	case *types.Pointer:
		return mentionsTypeParam(t.Elem(), depth+1)
	case *types.Slice:
		return mentionsTypeParam(t.Elem(), depth+1)
	case *types.Array:
		return mentionsTypeParam(t.Elem(), depth+1)
	}
	return false
}

func (w *c02World) oracleSexp(op c02Op, s *c02Site) string {
	if op.rel == nil {
		return "-"
	}
	safe := func(t types.Type, e ast.Expr) (out string) {
		defer func() {
			if r := recover(); r != nil {
				out = "0"
			}
		}()
		return b01(op.rel(w, t, e))
	}
	if s.pat == 1 {
		inv := types.Typ[types.Invalid]
		var els []string
		for _, n := range s.capture {
			e := n.(ast.Expr)
			els = append(els, safe(w.typeOf(e), e))
		}
		return fmt.Sprintf("(%s %s (%s))", safe(inv, nil), safe(inv, nil), strings.Join(els, " "))
	}
	n := s.capture[0]
	var ne ast.Expr
	if e, ok := n.(ast.Expr); ok {
		ne = e
	}
	se := subExprOf(n)
	return fmt.Sprintf("(%s %s -)", safe(w.typeOfNode(n), ne), safe(w.typeOf(se), se))
}

// ---------------------------------------------------------------------------------------------
// observation (as in C17: whole-file run, then one declaration at a time behind a panic)

func c02Observe(e *ruleguard.Engine, w *c02World, pat int, perSite bool) (string, error) {
	sites := w.sites[pat]
	st := ruleguard.NewRunnerState(e)
	pos := func(s *c02Site) int { return w.t.Fset.Position(s.match.Pos()).Offset }
	reps, pk, _, err := hx.Run(e, w.t, hx.RunOpts{State: st})
	if err != nil {
		return "", err
	}
	verdict := make([]byte, len(sites))
	next := 0
	for _, rep := range reps {
		found := false
		for ; next < len(sites); next++ {
			if pos(sites[next]) == rep.Pos {
				verdict[next] = 't'
				next++
				found = true
				break
			}
			verdict[next] = 'f'
		}
		if !found {
			return "", fmt.Errorf("report at offset %d is not a probe site of %s in source order", rep.Pos, c02Patterns[pat])
		}
	}
	known := len(sites)
	if pk == "" {
		for ; next < len(sites); next++ {
			verdict[next] = 'f'
		}
	} else {
		known = next
	}
	for i, s := range sites {
		if i < known && !perSite {
			continue
		}
		reps, pk1, _, err := hx.Run(e, s.tgt, hx.RunOpts{State: st})
		if err != nil {
			return "", err
		}
		var v byte
		switch {
		case pk1 != "":
			l, ok := c17PanicLetter[pk1]
			if !ok {
				return "", fmt.Errorf("unknown panic kind %q", pk1)
			}
			v = l[0]
		case len(reps) == 0:
			v = 'f'
		case len(reps) == 1 && reps[0].Pos == pos(s):
			v = 't'
		default:
			return "", fmt.Errorf("site %s: unexpected reports %v", s.name, reps)
		}
		if i < known && v != verdict[i] {
			return "", fmt.Errorf("site %s: whole-file run says %c, one-declaration run says %c", s.name, verdict[i], v)
		}
		verdict[i] = v
	}
	if pk != "" {
		l := c17PanicLetter[pk]
		died := -1
		for i := known; i < len(sites); i++ {
			if verdict[i] != 'f' {
				died = i
				break
			}
		}
		if died < 0 || string(verdict[died]) != l {
			return "", fmt.Errorf("whole-file run died with %q but the one-declaration runs say %s", pk, verdict)
		}
	}
	return string(verdict), nil
}

// ---------------------------------------------------------------------------------------------

func runC02(c *Ctx) error {
	res := c.Res
	dir, err := os.MkdirTemp("", "c02-")
	if err != nil {
		return err
	}
	defer os.RemoveAll(dir)
	defer os.Unsetenv("GODEBUG")
	src := c02BuildTarget(c.Seed, c.Thorough)
	path := filepath.Join(dir, "c02target.go")
	if err := os.WriteFile(path, []byte(src), 0o644); err != nil {
		return err
	}
	ops := c02Ops()
	res.Rule = fmt.Sprintf("%d predicate/argument pairs x 3 patterns (probe($x), probeN($*xs), if mark { $x }) x every probe site of a generated file "+
		"(%d expressions of every type constructor and syntactic form, expression lists, statements), type-checked under gotypesalias=0 and 1; "+
		"rules converted by irconv in one batch and loaded with LoadFromIR (every 7th through Engine.Load); model op `c02 %s`, statement `spec02`, "+
		"GoVersion filters and ParseGoVersion separately; a case (predicate, argument, site) is non-trivial when the predicate's verdict varies over the sites", len(ops), len(c02Exprs), c02Variant)

	// rules: one irconv batch per pattern
	irs := [3][]ir.FilterExpr{}
	irErr := [3][]string{}
	for pat := 0; pat < 3; pat++ {
		var sb strings.Builder
		for k, op := range ops {
			fmt.Fprintf(&sb, "func r%d(m dsl.Matcher) {\n\tm.Match(`%s`).Where(%s).Report(\"hit\")\n}\n", k, c02Patterns[pat], strings.ReplaceAll(op.dsl, "%v", c02Var[pat]))
		}
		irf, err := c17ConvertIR(hx.RulesFile(sb.String()))
		if err != nil {
			return fmt.Errorf("irconv of the predicate rules: %v", err)
		}
		if len(irf.RuleGroups) != len(ops) {
			return fmt.Errorf("irconv: %d groups for %d rules", len(irf.RuleGroups), len(ops))
		}
		for _, g := range irf.RuleGroups {
			irs[pat] = append(irs[pat], g.Rules[0].WhereExpr)
			irErr[pat] = append(irErr[pat], "")
		}
	}

	for _, alias := range []bool{false, true} {
		w, err := c02Parse(path, src, alias)
		if err != nil {
			return err
		}
		mode := "alias=" + b01(alias)
		c02CheckScope(c, w)
		for pat := 0; pat < 3; pat++ {
			var lines, impl, specOps []string
			var inputs []interface{}
			var cases []struct {
				op       c02Op
				verdicts string
				sites    string
			}
			for k, op := range ops {
				var eng *ruleguard.Engine
				var load string
				where := strings.ReplaceAll(op.dsl, "%v", c02Var[pat])
				if (k+pat)%7 == 0 && !alias {
					eng, load, _ = c17LoadDSL(hx.RulesFile(fmt.Sprintf("func r(m dsl.Matcher) {\n\tm.Match(`%s`).Where(%s).Report(\"hit\")\n}\n", c02Patterns[pat], where)))
				} else {
					f := &ir.File{PkgPath: "gorules", RuleGroups: []ir.RuleGroup{{Line: 1, Name: "r", MatcherName: "m",
						Rules: []ir.Rule{{Line: 1, SyntaxPatterns: []ir.PatternString{{Line: 1, Value: c02Patterns[pat]}}, ReportTemplate: "hit", WhereExpr: irs[pat][k]}}}}}
					eng, load, _ = c17LoadIR(f)
				}
				var parts, mparts []string
				var mask []bool
				for _, s := range w.sites[pat] {
					parts = append(parts, w.siteSexp(s, w.oracleSexp(op, s)))
					if w.masked(op, s) {
						mparts = append(mparts, w.siteSexp(s, "-"))
						mask = append(mask, true)
					} else {
						mparts = append(mparts, parts[len(parts)-1])
						mask = append(mask, false)
					}
				}
				sites := "(sites " + strings.Join(parts, " ") + ")"
				line := fmt.Sprintf("c02 %s %s %s (sites %s)", c02Variant, op.pred, hx.HexS(op.arg), strings.Join(mparts, " "))
				out := load
				if load == "ok" {
					v, err := c02Observe(eng, w, pat, k%9 == 0)
					if err != nil {
						return fmt.Errorf("%s on %s: %v", where, c02Patterns[pat], err)
					}
					out = v
					if v == "" {
						out = "-"
					}
					specOps = append(specOps, fmt.Sprintf("spec02 %s %s %s %s", op.pred, hx.HexS(op.arg), sites, out))
					cases = append(cases, struct {
						op       c02Op
						verdicts string
						sites    string
					}{op, v, sites})
				}
				if load == "ok" && out != "-" {
					b := []byte(out)
					for i := range b {
						if mask[i] {
							b[i] = '?'
							res.Dist("masked:" + op.pred)
						}
					}
					out = string(b)
				}
				lines = append(lines, line)
				impl = append(impl, out)
				inputs = append(inputs, map[string]interface{}{"where": where, "pattern": c02Patterns[pat], "mode": mode})
				nontrivial := load != "ok" || strings.Trim(out, out[:1]) != ""
				for i := range w.sites[pat] {
					res.Count("model:"+mode, fmt.Sprintf("%s/%s/%d/%d", op.pred, op.arg, pat, i), nontrivial)
				}
				res.Dist("pred:" + strings.SplitN(op.pred, ":", 2)[0])
				res.Dist("load:" + load)
				if load == "ok" {
					for _, ch := range "tfn" {
						if strings.ContainsRune(out, ch) {
							res.Dist("verdict-seen:" + strings.SplitN(op.pred, ":", 2)[0] + ":" + string(ch))
						}
					}
				}
			}
			if err := res.Compare(c.Drv, "model:"+mode, lines, impl, inputs); err != nil {
				return err
			}
			ans, err := c.Drv.Ask(specOps)
			if err != nil {
				return err
			}
			for i, a := range ans {
				if strings.HasPrefix(a, "holds") || a == "na" {
					continue
				}
				if a == "bad-op" {
					return fmt.Errorf("spec02: bad-op for %s", cases[i].op.dsl)
				}
				c02Violation(c, w, pat, cases[i].op, cases[i].verdicts, a, mode)
			}
			if pat == 0 && !alias && len(lines) > 0 {
				res.Sample(map[string]interface{}{"where": inputs[0], "impl": impl[0]})
			}
		}
	}
	if err := c02GoVersion(c); err != nil {
		return err
	}
	return nil
}

// the contract `C02.ScopeOK` of the object facts (hypothesis of isVariadic_eq_spec / pred_eq_spec), asserted on every
// captured identifier of every site: it denotes a `...T` parameter iff it is the last parameter of the enclosing
// variadic declaration or the `...T` parameter of a function literal on the node path of the match
func c02CheckScope(c *Ctx, w *c02World) {
	for pat := 0; pat < 3; pat++ {
		for _, s := range w.sites[pat] {
			declVariadic := false
			var declLast types.Object
			if fobj, ok := w.t.Info.ObjectOf(s.decl.Name).(*types.Func); ok {
				sig := fobj.Type().(*types.Signature)
				declVariadic = sig.Variadic()
				if sig.Params().Len() > 0 {
					declLast = sig.Params().At(sig.Params().Len() - 1)
				}
			}
			for _, n := range s.capture {
				e := subExprOf(n)
				if e == nil {
					continue
				}
				id := c02IdentOf(e)
				if id == nil {
					continue
				}
				obj := w.t.Info.ObjectOf(id)
				if obj == nil {
					continue
				}
				c.Res.Dist("scope-contract-checked")
				if w.variadicParams()[obj] != ((declVariadic && obj == declLast) || w.variadicOfLit(obj, s)) {
					c.Res.Errorf("facts contract ScopeOK does not hold at site %s (identifier %s)", s.name, id.Name)
				}
			}
		}
	}
}

// all sites where the implementation's verdict differs from the statement, grouped into input classes
func c02Violation(c *Ctx, w *c02World, pat int, op c02Op, verdicts, first, mode string) {
	// ask per site to classify every failing site (the batch answer names only the first)
	var ops []string
	for i, s := range w.sites[pat] {
		ops = append(ops, fmt.Sprintf("spec02 %s %s (sites %s) %c", op.pred, hx.HexS(op.arg), w.siteSexp(s, w.oracleSexp(op, s)), verdicts[i]))
	}
	ans, err := c.Drv.Ask(ops)
	if err != nil {
		c.Res.Errorf("spec02: %v", err)
		return
	}
	for i, a := range ans {
		if !strings.HasPrefix(a, "wrong") {
			continue
		}
		s := w.sites[pat][i]
		parts := strings.Split(a, ":")
		want, got := parts[2], parts[3]
		sig := c02Signature(w, s, op, want, got)
		text := string(w.t.Src[w.t.Fset.Position(s.match.Pos()).Offset:w.t.Fset.Position(s.match.End()).Offset])
		c.Res.Violate(hx.Violation{Signature: sig, What: "the predicate's verdict is not the documented fact",
			Input: map[string]interface{}{"where": strings.ReplaceAll(op.dsl, "%v", c02Var[pat]), "pattern": c02Patterns[pat], "site": s.name + ": " + text, "mode": mode,
				"facts": w.siteSexp(s, w.oracleSexp(op, s))},
			Impl: "verdict " + got, Spec: "spec02 wants " + want})
	}
}

var c02PredName = map[string]string{"ofkind:0": "Type.OfKind", "ofkind:1": "Type.Underlying.OfKind", "haspointers": "Type.HasPointers", "pure": "Pure",
	"constslice": "ConstSlice", "isglobal": "Object.IsGlobal", "isvariadic": "Object.IsVariadicParam", "const": "Const", "addressable": "Addressable",
	"comparable": "Comparable", "objectis": "Object.Is", "nodeis:v1": "Node.Is", "parentis:v1": "Node.Parent.Is", "typeis": "Type.Is",
	"typeunderlyingis": "Type.Underlying.Is", "convertibleto": "Type.ConvertibleTo", "assignableto": "Type.AssignableTo", "implements": "Type.Implements"}

func c02Signature(w *c02World, s *c02Site, op c02Op, want, got string) string {
	name := c02PredName[op.pred]
	if got != "t" && got != "f" {
		cause := "panic " + c17PanicName[got]
		if op.pred == "isglobal" {
			return name + ":no-object:" + cause
		}
		return name + ":" + cause
	}
	listAware := map[string]bool{"pure": true, "constslice": true, "const": true, "addressable": true, "comparable": true, "objectis": true,
		"typeis": true, "typeunderlyingis": true, "convertibleto": true, "assignableto": true, "implements": true}
	if s.pat == 1 && !listAware[op.pred] {
		if op.pred == "isvariadic" && want == "t" {
			for _, n := range s.capture {
				if id := c02IdentOf(n.(ast.Expr)); id != nil && w.t.Info.ObjectOf(id) != nil && w.variadicOfLit(w.t.Info.ObjectOf(id), s) {
					return name + ":func-literal-param"
				}
			}
		}
		return name + ":list-capture:not-elementwise"
	}
	if s.pat == 2 {
		return name + ":statement-capture"
	}
	var e ast.Expr = &ast.CompositeLit{} // the captured expression, or a container of the captured list
	if s.pat == 1 {
		cl := &ast.CompositeLit{}
		for _, n := range s.capture {
			cl.Elts = append(cl.Elts, n.(ast.Expr))
		}
		e = cl
	} else {
		e = subExprOf(s.capture[0])
	}
	if strings.HasPrefix(op.pred, "ofkind") && op.arg == "untyped" {
		return `Type.OfKind:"untyped"→unsigned-bit`
	}
	anyType := func(f func(types.Type, int) bool) bool {
		for _, n := range s.capture {
			if f(w.typeOf(subExprOf(n)), 0) {
				return true
			}
		}
		return false
	}
	if w.alias && anyType(hasAlias) && (strings.HasPrefix(op.pred, "ofkind") || op.pred == "haspointers" || strings.HasPrefix(op.pred, "type")) {
		return name + ":alias-type"
	}
	if anyType(mentionsTypeParam) && strings.HasPrefix(op.pred, "type") {
		return name + ":type-parameter"
	}
	switch op.pred {
	case "pure":
		kind := ""
		ast.Inspect(e, func(n ast.Node) bool {
			switch n.(type) {
			case *ast.KeyValueExpr:
				kind = "KeyValueExpr"
			case *ast.SliceExpr:
				kind = "SliceExpr"
			case *ast.TypeAssertExpr:
				kind = "TypeAssertExpr"
			case *ast.ArrayType, *ast.MapType, *ast.StructType, *ast.FuncType, *ast.InterfaceType, *ast.ChanType:
				if kind == "" {
					kind = "type-literal-operand"
				}
			}
			return true
		})
		if kind != "" {
			return "Pure:conservative-false:" + kind
		}
	case "constslice":
		if want == "f" {
			return "ConstSlice:non-slice-literal-accepted"
		}
	case "isvariadic":
		return "Object.IsVariadicParam:func-literal-param"
	}
	return fmt.Sprintf("%s:%s:want-%s", name, op.arg, want)
}

// ---------------------------------------------------------------------------------------------
// GoVersion filters and ParseGoVersion

func c02GoVersion(c *Ctx) error {
	res := c.Res
	rng := hx.Rng(c.Seed, "c02-goversion")
	// ParseGoVersion, directly (public API)
	strs := []string{"", "1.16", "1.0", "0.5", "2.0", "1", "1.", ".5", "1.x", "x.1", "1.2.3", "+1.5", "-1.5", "1.+5", "1.-5", " 1.5", "1.5 ", "01.016",
		"9223372036854775807.1", "9223372036854775808.1", "1.9223372036854775808", "-9223372036854775808.0", "-9223372036854775809.0", "1..2", ".", "..", "1.１", "1_0.1", "0x1.2", "+.1", "-.1", "1.+", "go1.16"}
	alphabet := "0123456789.+-x "
	n := 300
	if c.Thorough {
		n = 5000
	}
	for i := 0; i < n; i++ {
		l := 1 + rng.Intn(6)
		var sb strings.Builder
		for j := 0; j < l; j++ {
			if rng.Intn(3) == 0 {
				sb.WriteByte(alphabet[rng.Intn(len(alphabet))])
			} else {
				sb.WriteByte("0123456789."[rng.Intn(11)])
			}
		}
		strs = append(strs, sb.String())
	}
	var ops, impl []string
	var inputs []interface{}
	for _, s := range strs {
		s := s
		out := hx.Safe(func() string {
			v, err := ruleguard.ParseGoVersion(s)
			if err != nil {
				return "err"
			}
			return fmt.Sprintf("ok %d %d", v.Major, v.Minor)
		})
		ops = append(ops, "parsegover "+hx.HexS(s))
		impl = append(impl, out)
		inputs = append(inputs, map[string]interface{}{"version": s})
		res.Count("parsegover", s, true)
		res.Dist("parsegover:" + strings.Fields(out)[0])
	}
	if err := res.Compare(c.Drv, "parsegover", ops, impl, inputs); err != nil {
		return err
	}
	// the filters, end to end: one probe site, every operator, rule versions x target versions
	t, err := hx.ParseTarget("gover.go", "package p\nfunc probe(a interface{}) int { return 0 }\nfunc f() { probe(1) }\n")
	if err != nil {
		return err
	}
	methods := []struct{ name, tok string }{{"Eq", "eql"}, {"LessThan", "lss"}, {"GreaterThan", "gtr"}, {"LessEqThan", "leq"}, {"GreaterEqThan", "geq"}}
	ruleVers := []string{"1.15", "1.16", "1.17", "2.0", "1.0", "0.5", "0.0", "1", "1.x", "", "-1.5", "1.16.1"}
	targets := []string{"", "1.15", "1.16", "1.17", "2.0", "2.1", "0.5", "1.0", "-1.5"}
	ops, impl, inputs = nil, nil, nil
	var specOps []string
	for _, m := range methods {
		for _, rv := range ruleVers {
			e, load, _ := c17LoadDSL(hx.RulesFile(fmt.Sprintf("func r(m dsl.Matcher) {\n\tm.Match(`probe($x)`).Where(m.GoVersion().%s(%q)).Report(\"hit\")\n}\n", m.name, rv)))
			for _, tv := range targets {
				pv, _ := ruleguard.ParseGoVersion(tv)
				out := "err"
				if load == "ok" {
					reps, pk, _, err := hx.Run(e, t, hx.RunOpts{GoVersion: tv})
					if err != nil {
						return err
					}
					switch {
					case pk != "":
						out = pk
					case len(reps) == 1:
						out = "t"
					default:
						out = "f"
					}
				} else if load != "err" {
					out = load
				}
				ops = append(ops, fmt.Sprintf("gover %s %d %d %s", m.tok, pv.Major, pv.Minor, hx.HexS(rv)))
				impl = append(impl, out)
				inputs = append(inputs, map[string]interface{}{"filter": "GoVersion()." + m.name + "(" + rv + ")", "target": tv})
				res.Count("gover", m.name+rv+"/"+tv, true)
				res.Dist("gover:" + out)
				if out == "t" || out == "f" {
					if rvv, err := ruleguard.ParseGoVersion(rv); err == nil {
						specOps = append(specOps, fmt.Sprintf("specgover %s %d %d %d %d %s", m.tok, pv.Major, pv.Minor, rvv.Major, rvv.Minor, out))
					}
				}
			}
		}
	}
	if err := res.Compare(c.Drv, "gover", ops, impl, inputs); err != nil {
		return err
	}
	ans, err := c.Drv.Ask(specOps)
	if err != nil {
		return err
	}
	for i, a := range ans {
		if a != "holds" {
			res.Violate(hx.Violation{Signature: "GoVersion:" + strings.Fields(specOps[i])[1], What: "GoVersion filter is not the lexicographic comparison", Input: specOps[i], Impl: specOps[i], Spec: a})
		}
	}
	_ = sort.Strings
	_ = constant.Int
	return nil
}
