package main

// C06, generator of custom filter / Do function declarations over the Go grammar (statements).
//
// A statement production returns the lines of one statement (nested blocks included); it takes care that what it
// writes type-checks: every local it declares is used (at the end of the block that declares it), every label is
// the target of a jump, break / continue only where they are allowed, no jump over a variable declaration.

import (
	"fmt"
	"strings"
)

type c06fStmt struct {
	kind string
	sub  bool // inside the subset quasigo accepts
	ok   func(g *c06fGen) bool
	gen  func(g *c06fGen, d int) []string
}

var c06fStmts []c06fStmt

func (g *c06fGen) newName() string {
	g.nloc++
	return fmt.Sprintf("v%d", g.nloc)
}

func (g *c06fGen) newLabel() string {
	g.nlab++
	return fmt.Sprintf("L%d", g.nlab)
}

func (g *c06fGen) declare(name, ty string) { g.locals = append(g.locals, c06fVar{name, ty}) }

func (g *c06fGen) localsOf(ty string) []string {
	var vs []string
	for _, v := range g.locals {
		if v.ty == ty {
			vs = append(vs, v.name)
		}
	}
	return vs
}

func (g *c06fGen) pickS(xs ...string) string { return xs[g.r.Intn(len(xs))] }

// retStmt: a return statement of the enclosing function, inside the subset
func (g *c06fGen) retStmt() string {
	switch g.ret {
	case "":
		return "return"
	case "bool":
		return "return " + g.pickS("true", "false")
	case "int":
		return "return 0"
	case "string":
		return `return ""`
	case "ty":
		return "return t"
	}
	return "return " + g.expr(g.ret, 0)
}

// use: a statement that uses a local (subset mode: one the compiler accepts)
func (g *c06fGen) use(v c06fVar) []string {
	if !g.subset && !g.wild {
		return []string{"_ = " + v.name}
	}
	switch v.ty {
	case "int":
		return []string{"if " + v.name + " == 0 {", g.retStmt(), "}"}
	case "string":
		return []string{"if " + v.name + ` == "" {`, g.retStmt(), "}"}
	case "bool":
		return []string{"if " + v.name + " {", g.retStmt(), "}"}
	case "ty":
		return []string{"if " + v.name + " == nil {", g.retStmt(), "}"}
	}
	return []string{"_ = " + v.name}
}

// block: n statements in a scope of their own, then the uses of what the scope declared
func (g *c06fGen) block(d, n int) []string {
	mark := len(g.locals)
	var out []string
	for i := 0; i < n; i++ {
		out = append(out, g.stmt(d)...)
	}
	for _, v := range g.locals[mark:] {
		out = append(out, g.use(v)...)
	}
	g.locals = g.locals[:mark]
	return out
}

func (g *c06fGen) smallBlock(d int) []string {
	if d <= 0 {
		return g.block(0, g.r.Intn(2))
	}
	return g.block(d-1, 1+g.r.Intn(2))
}

// closure: a nested function body (own result type, no enclosing loops)
func (g *c06fGen) closure(ret string, d int) []string {
	sr, sl, sb := g.ret, g.loop, g.brk
	g.ret, g.loop, g.brk = ret, 0, 0
	out := g.smallBlock(d)
	if ret != "" {
		out = append(out, "return "+g.expr(ret, 1))
	}
	g.ret, g.loop, g.brk = sr, sl, sb
	return out
}

// stmt: one statement
func (g *c06fGen) stmt(d int) []string {
	if g.wild && !g.subset && g.r.Intn(2) == 0 {
		g.subset = true
		defer func() { g.subset = false }()
	}
	var cands []*c06fStmt
	for i := range c06fStmts {
		s := &c06fStmts[i]
		if g.subset && !s.sub {
			continue
		}
		if s.ok != nil && !s.ok(g) {
			continue
		}
		cands = append(cands, s)
	}
	s := cands[g.r.Intn(len(cands))]
	g.hit("stmt:" + s.kind)
	return s.gen(g, d)
}

func c06fStmtByKind(kind string) *c06fStmt {
	for i := range c06fStmts {
		if c06fStmts[i].kind == kind {
			return &c06fStmts[i]
		}
	}
	return nil
}

func cat(parts ...interface{}) []string {
	var out []string
	for _, p := range parts {
		switch x := p.(type) {
		case string:
			out = append(out, x)
		case []string:
			out = append(out, x...)
		}
	}
	return out
}

var c06fExotic = []string{"float64", "uint64", "complex128", "byte", "[]int", "[]string", "[]byte", "map[string]int", "*S", "S", "P", "I", "error", "any", "chan int", "[3]int", "*int", "T", "Str", "func() int"}

func init() {
	add := func(kind string, sub bool, ok func(g *c06fGen) bool, gen func(g *c06fGen, d int) []string) {
		c06fStmts = append(c06fStmts, c06fStmt{kind, sub, ok, gen})
	}
	one := func(f func(g *c06fGen, d int) string) func(g *c06fGen, d int) []string {
		return func(g *c06fGen, d int) []string { return []string{f(g, d)} }
	}
	tpl := func(tpls ...string) func(g *c06fGen, d int) []string {
		return func(g *c06fGen, d int) []string { return []string{g.fill(tpls[g.r.Intn(len(tpls))], 1)} }
	}
	hasLocal := func(ty string) func(g *c06fGen) bool { return func(g *c06fGen) bool { return len(g.localsOf(ty)) > 0 } }
	roomForLocal := func(g *c06fGen) bool { return !g.subset || g.nloc < 8 }
	inLoop := func(g *c06fGen) bool { return g.loop > 0 }
	isHelper := func(g *c06fGen) bool { return g.ctx == "helper" }
	isDo := func(g *c06fGen) bool { return g.ctx == "do" }
	hasCtx := func(g *c06fGen) bool { return g.ctx == "filter" || g.ctx == "do" }
	basic := []string{"int", "string", "bool"}

	// ---------- inside the subset
	add("return", true, nil, func(g *c06fGen, d int) []string {
		if g.ret == "" || g.ret == "ty" {
			return []string{g.retStmt()}
		}
		return []string{"return " + g.expr(g.ret, d)}
	})
	add("define", true, roomForLocal, func(g *c06fGen, d int) []string {
		ty := basic[g.r.Intn(3)]
		e := g.expr(ty, d)
		v := g.newName()
		g.declare(v, ty)
		return []string{v + " := " + e}
	})
	add("define-native", true, func(g *c06fGen) bool { return roomForLocal(g) && g.ctx != "none" }, func(g *c06fGen, d int) []string {
		e := g.expr("ty", d)
		v := g.newName()
		g.declare(v, "ty")
		return []string{v + " := " + e}
	})
	add("assign", true, func(g *c06fGen) bool { return hasLocal("int")(g) || hasLocal("string")(g) || hasLocal("bool")(g) }, func(g *c06fGen, d int) []string {
		for {
			ty := basic[g.r.Intn(3)]
			if vs := g.localsOf(ty); len(vs) > 0 {
				return []string{vs[g.r.Intn(len(vs))] + " = " + g.expr(ty, d)}
			}
		}
	})
	add("incdec", true, hasLocal("int"), func(g *c06fGen, d int) []string {
		vs := g.localsOf("int")
		return []string{vs[g.r.Intn(len(vs))] + g.pickS("++", "--")}
	})
	add("if", true, nil, func(g *c06fGen, d int) []string {
		return cat("if "+g.expr("bool", d)+" {", g.smallBlock(d), "}")
	})
	add("if-else", true, nil, func(g *c06fGen, d int) []string {
		return cat("if "+g.expr("bool", d)+" {", g.smallBlock(d), "} else {", g.smallBlock(d), "}")
	})
	add("if-else-if", true, nil, func(g *c06fGen, d int) []string {
		return cat("if "+g.expr("bool", d)+" {", g.smallBlock(d), "} else if "+g.expr("bool", d)+" {", g.smallBlock(d), "} else {", g.smallBlock(d), "}")
	})
	add("for-cond", true, nil, func(g *c06fGen, d int) []string {
		c := g.expr("bool", d)
		g.loop++
		g.brk++
		b := g.smallBlock(d)
		g.loop--
		g.brk--
		return cat("for "+c+" {", b, "}")
	})
	add("for-infinite", true, nil, func(g *c06fGen, d int) []string {
		g.loop++
		g.brk++
		b := g.smallBlock(d)
		g.loop--
		g.brk--
		return cat("for {", b, "break", "}")
	})
	add("break", true, func(g *c06fGen) bool { return g.loop > 0 && g.brk == g.loop }, one(func(g *c06fGen, d int) string { return "break" }))
	add("call-void", true, nil, func(g *c06fGen, d int) []string {
		if g.ctx == "do" && g.r.Intn(2) == 0 {
			return []string{g.fill(g.pickS("ctx.SetReport($string$)", "ctx.SetSuggest($string$)"), d)}
		}
		return []string{g.fill("hV($string$)", d)}
	})
	add("block", true, nil, func(g *c06fGen, d int) []string { return cat("{", g.smallBlock(d), "}") })

	// ---------- outside the subset: declarations
	add("var-decl", false, nil, func(g *c06fGen, d int) []string {
		v := g.newName()
		switch g.r.Intn(6) {
		case 0:
			g.declare(v, "int")
			return []string{"var " + v + " int"}
		case 1:
			e := g.expr("string", d)
			g.declare(v, "string")
			return []string{"var " + v + " = " + e}
		case 2:
			w := g.newName()
			g.declare(v, "bool")
			g.declare(w, "bool")
			return []string{"var " + v + ", " + w + " bool"}
		case 3:
			w := g.newName()
			e := g.expr("string", d)
			g.declare(v, "int")
			g.declare(w, "string")
			return []string{"var (", v + " int", w + " = " + e, ")"}
		case 4:
			ty := c06fExotic[g.r.Intn(len(c06fExotic))]
			g.declare(v, ty)
			return []string{"var " + v + " " + ty}
		default:
			e := g.expr("int", d)
			g.declare(v, "int")
			return []string{"var " + v + " int = " + e}
		}
	})
	add("const-decl", false, nil, func(g *c06fGen, d int) []string {
		g.nloc++
		return []string{fmt.Sprintf("const k%d = %s", g.nloc, g.pickS("3", `"s"`, "1.5", "true", "'r'", "1 << 70", "iota"))}
	})
	add("type-decl", false, nil, func(g *c06fGen, d int) []string {
		g.nloc++
		return []string{fmt.Sprintf("type t%d %s", g.nloc, g.pickS("int", "struct{ a int }", "= string", "interface{ M() }", "[]S", "func(int) bool", "map[string][]*S", "chan<- int", "[2]G[string]"))}
	})
	add("define-exotic", false, nil, func(g *c06fGen, d int) []string {
		ty := c06fExotic[g.r.Intn(len(c06fExotic))]
		e := g.expr(ty, d)
		v := g.newName()
		g.declare(v, ty)
		return []string{v + " := " + e}
	})
	add("define-tuple", false, nil, func(g *c06fGen, d int) []string {
		v, w := g.newName(), g.newName()
		var line, tv, tw string
		switch g.r.Intn(7) {
		case 0:
			line, tv, tw = v+", "+w+" := gtwo()", "int", "string"
		case 1:
			line, tv, tw = v+", "+w+" := gm["+g.expr("string", d)+"]", "int", "bool"
		case 2:
			line, tv, tw = v+", "+w+" := gany.(int)", "int", "bool"
		case 3:
			line, tv, tw = v+", "+w+" := <-gch", "int", "bool"
		case 4:
			line, tv, tw = v+", "+w+" := "+g.expr("int", d)+", "+g.expr("string", d), "int", "string"
		case 5:
			g.declare(v, "int")
			return []string{v + ", _ := gtwo()"}
		default:
			line, tv, tw = v+", "+w+" := gany.(error)", "error", "bool"
		}
		g.declare(v, tv)
		g.declare(w, tw)
		return []string{line}
	})
	add("define-redeclare", false, hasLocal("int"), func(g *c06fGen, d int) []string {
		vs := g.localsOf("int")
		e1, e2 := g.expr("int", d), g.expr("string", d)
		w := g.newName()
		g.declare(w, "string")
		v := vs[g.r.Intn(len(vs))] // in an inner scope this declares a new variable of the same name: use it
		return []string{v + ", " + w + " := " + e1 + ", " + e2, "_ = " + v}
	})
	// ---------- assignments
	add("assign-op", false, func(g *c06fGen) bool { return hasLocal("int")(g) || hasLocal("string")(g) }, func(g *c06fGen, d int) []string {
		if vs := g.localsOf("int"); len(vs) > 0 && (g.r.Intn(4) != 0 || len(g.localsOf("string")) == 0) {
			v := vs[g.r.Intn(len(vs))]
			return []string{v + " " + g.pickS("+= "+g.expr("int", d), "-= "+g.expr("int", d), "*= "+g.expr("int", d), "/= 3", "%= 3", "&= "+g.expr("int", d), "|= 1", "^= 1", "<<= 1", ">>= 1", "&^= 1")}
		}
		vs := g.localsOf("string")
		return []string{vs[g.r.Intn(len(vs))] + " += " + g.expr("string", d)}
	})
	add("assign-multi", false, hasLocal("int"), func(g *c06fGen, d int) []string {
		vs := g.localsOf("int")
		v := vs[g.r.Intn(len(vs))]
		if len(vs) > 1 {
			w := vs[g.r.Intn(len(vs))]
			if w != v {
				return []string{v + ", " + w + " = " + w + ", " + v}
			}
		}
		return []string{g.pickS(v+", gi = gi, "+v, v+", _ = gtwo()", v+", gb = gm[\"k\"]", v+", gs = "+g.expr("int", d)+", "+g.expr("string", d))}
	})
	add("assign-blank", false, nil, func(g *c06fGen, d int) []string {
		tys := append([]string{"int", "string", "bool"}, c06fExotic...)
		return []string{"_ = " + g.expr(tys[g.r.Intn(len(tys))], d)}
	})
	add("assign-global", false, nil, tpl("gi = $int$", "gs = $string$", "gb = $bool$", "gxs = $[]int$", "gp = $*S$", "gany = $int$", "gif = gt", "gfv = func() {}", "gi, gs = $int$, $string$"))
	add("assign-nonvar", false, nil, tpl("gxs[$nat$] = $int$", "gst.n = $int$", "*gpi = $int$", "gm[$string$] = $int$", "gp.p.n = $int$", "garr[$nat$] = $int$", "(*gp).s = $string$", "gxs[0], gxs[1] = gxs[1], gxs[0]", "*(&gi) = $int$", "gg.v = $int$"))
	add("assign-param", false, func(g *c06fGen) bool { return g.ctx != "none" }, func(g *c06fGen, d int) []string {
		if g.ctx == "helper" {
			return []string{g.fill(g.pickS("a = $int$", "s = $string$", "t = t.Underlying()", "a += 1", "a, s = $int$, $string$"), d)}
		}
		return []string{g.pickS("ctx = nil", "ctx = ctx")}
	})
	add("incdec-nonvar", false, nil, tpl("gxs[$nat$]++", "gst.n--", "*gpi++", `gm["k"]++`, "gp.n++", "garr[1]--", "(*gpi)--"))
	add("incdec-global", false, nil, tpl("gi++", "gi--", "gfl++", "gby--"))
	add("incdec-param", false, isHelper, tpl("a++", "a--"))
	// ---------- control flow
	add("if-init", false, nil, func(g *c06fGen, d int) []string {
		v := g.newName()
		init := g.fill(g.pickS(v+" := $int$; "+v+" > 0", v+" := $string$; "+v+` != ""`, v+", ok := gm[$string$]; ok && "+v+" > 0", "gi++; gi > 0", "hV(\"a\"); $bool$", "; $bool$"), d)
		if !strings.Contains(init, v) {
			g.nloc--
		}
		return cat("if "+init+" {", g.smallBlock(d), "}")
	})
	loopBody := func(g *c06fGen, d int, pre ...string) []string {
		g.loop++
		g.brk++
		b := g.smallBlock(d)
		g.loop--
		g.brk--
		return cat(pre, b)
	}
	add("for-c-style", false, nil, func(g *c06fGen, d int) []string {
		v := g.newName()
		h := g.fill(g.pickS(v+" := 0; "+v+" < $int$; "+v+"++", v+" := $int$; "+v+" > 0; "+v+" -= 2", v+", w := 0, 10; "+v+" < w; "+v+", w = "+v+"+1, w-1", "; $bool$; ", "gi = 0; gi < 3; gi++", v+" := 0; ; "+v+"++", ";;"), d)
		if !strings.Contains(h, v) {
			g.nloc--
		}
		return cat("for "+h+" {", loopBody(g, d), "break", "}")
	})
	add("for-range", false, nil, func(g *c06fGen, d int) []string {
		v, w := g.newName(), g.newName()
		forms := []struct{ head, use string }{
			{"range gxs", ""}, {v + " := range gxs", v}, {v + ", " + w + " := range gm", v + ", " + w}, {"_, " + v + " := range $nstr$", v},
			{v + " := range gch", v}, {v + " := range 3", v}, {v + " := range $nint$", v}, {"range garr", ""}, {v + ", " + w + " := range garr", v + ", " + w},
			{v + " := range func(yield func(int) bool) { yield(1) }", v}, {"range func(yield func() bool) {}", ""}, {"gi = range gxs", ""}, {"gi, gs = range gss", ""},
			{v + ", " + w + " := range $[]string$", v + ", " + w}, {v + " := range $map[string]int$", v}, {"_, _ = range gxs", ""}, {v + ", " + w + " := range gstr", v + ", " + w},
			{v + " := range &garr", v}, {v + " := range $[3]int$", v}, {"range $nint$", ""},
		}
		f := forms[g.r.Intn(len(forms))]
		var pre []string
		if f.use != "" {
			us := strings.Split(f.use, ", ")
			pre = append(pre, strings.Repeat("_, ", len(us)-1)+"_ = "+f.use)
		}
		return cat("for "+g.fill(f.head, d)+" {", loopBody(g, d, pre...), "}")
	})
	add("continue", false, inLoop, one(func(g *c06fGen, d int) string { return "continue" }))
	add("break-in-switch", false, func(g *c06fGen) bool { return g.brk > g.loop }, one(func(g *c06fGen, d int) string { return "break" }))
	caseBody := func(g *c06fGen, d int) []string {
		g.brk++
		b := g.smallBlock(d)
		g.brk--
		return b
	}
	add("switch-tag", false, nil, func(g *c06fGen, d int) []string {
		if g.r.Intn(2) == 0 {
			return cat("switch "+g.expr("nint", d)+" {", "case 1:", caseBody(g, d), "case 2, 3:", caseBody(g, d), "default:", caseBody(g, d), "}")
		}
		return cat("switch "+g.expr("nstr", d)+" {", `case "a", cs:`, caseBody(g, d), "case "+g.expr("nstr", d)+":", caseBody(g, d), "}")
	})
	add("switch-tagless", false, nil, func(g *c06fGen, d int) []string {
		return cat("switch {", "case "+g.expr("bool", d)+":", caseBody(g, d), "case "+g.expr("bool", d)+", "+g.expr("bool", d)+":", caseBody(g, d), "default:", caseBody(g, d), "}")
	})
	add("switch-init", false, nil, func(g *c06fGen, d int) []string {
		v := g.newName()
		return cat("switch "+v+" := "+g.expr("int", d)+"; "+g.pickS(v+" {", v+" > 0 {"), "default:", caseBody(g, d), "}")
	})
	add("switch-fallthrough", false, nil, func(g *c06fGen, d int) []string {
		return cat("switch "+g.expr("nint", d)+" {", "case 1:", caseBody(g, d), "fallthrough", "case 2:", caseBody(g, d), "}")
	})
	add("switch-empty", false, nil, tpl("switch {\n}", "switch $nint$ {\n}", "switch gi++; {\n}", "switch {\ndefault:\n}"))
	add("type-switch", false, nil, func(g *c06fGen, d int) []string {
		v := g.newName()
		switch g.r.Intn(4) {
		case 0:
			return cat("switch "+v+" := gany.(type) {", "case int:", "_ = "+v+" + 1", caseBody(g, d), "case string, bool:", "_ = "+v, "case nil:", "default:", "_ = "+v, "}")
		case 1:
			g.nloc--
			return cat("switch gany.(type) {", "case error:", caseBody(g, d), "case I, *S:", "}")
		case 2:
			return cat("switch "+v+" := "+g.expr("any", d)+".(type) {", "case []int:", "_ = len("+v+")", "case func():", v+"()", "}")
		default:
			w := g.newName()
			return cat("switch "+w+" := gif; "+v+" := "+w+".(type) {", "case T:", "_ = "+v+".M()", "}")
		}
	})
	add("select", false, nil, func(g *c06fGen, d int) []string {
		v := g.newName()
		switch g.r.Intn(4) {
		case 0:
			return cat("select {", "case "+v+" := <-gch:", "_ = "+v, caseBody(g, d), "case gch <- "+g.expr("int", d)+":", caseBody(g, d), "default:", "}")
		case 1:
			g.nloc--
			return cat("select {", "case <-gch:", caseBody(g, d), "}")
		case 2:
			w := g.newName()
			return cat("select {", "case "+v+", "+w+" := <-gchb:", "_, _ = "+v+", "+w, "case gi = <-gch:", "}")
		default:
			g.nloc--
			return cat("select {", "default:", caseBody(g, d), "}")
		}
	})
	add("go", false, nil, func(g *c06fGen, d int) []string {
		switch g.r.Intn(4) {
		case 0:
			return []string{g.fill("go hV($string$)", d)}
		case 1:
			return cat("go func() {", g.closure("", d), "}()")
		case 2:
			return []string{"go gfv()"}
		default:
			return cat("go func(a int) {", "_ = a", "}("+g.expr("int", d)+")")
		}
	})
	add("defer", false, nil, func(g *c06fGen, d int) []string {
		switch g.r.Intn(5) {
		case 0:
			return []string{g.fill("defer hV($string$)", d)}
		case 1:
			return cat("defer func() {", g.closure("", d), "}()")
		case 2:
			return []string{"defer func() { recover() }()"}
		case 3:
			if hasCtx(g) && isDo(g) {
				return []string{`defer ctx.SetReport("x")`}
			}
			return []string{"defer gf()"}
		default:
			return []string{`defer println("x")`}
		}
	})
	add("goto", false, nil, func(g *c06fGen, d int) []string {
		l := g.newLabel()
		if g.r.Intn(2) == 0 {
			return cat("{", "goto "+l, l+":", g.fill("hV($string$)", d), "}")
		}
		return cat(l+":", "if "+g.expr("bool", d)+" {", "goto "+l, "}")
	})
	add("labeled-break", false, nil, func(g *c06fGen, d int) []string {
		l := g.newLabel()
		switch g.r.Intn(3) {
		case 0:
			return cat(l+":", "for "+g.expr("bool", d)+" {", loopBody(g, d), "break "+l, "}")
		case 1:
			return cat(l+":", "switch {", "default:", "break "+l, "}")
		default:
			return cat(l+":", "for {", "for {", "break "+l, "}", "}")
		}
	})
	add("labeled-continue", false, nil, func(g *c06fGen, d int) []string {
		l := g.newLabel()
		return cat(l+":", "for "+g.expr("bool", d)+" {", loopBody(g, d), "continue "+l, "}")
	})
	add("labeled-stmt", false, nil, func(g *c06fGen, d int) []string {
		l := g.newLabel()
		return cat(l+":", "{", "if "+g.expr("bool", d)+" {", "goto "+l, "}", "}")
	})
	// ---------- simple statements
	add("send", false, nil, tpl("gch <- $int$", "gchb <- $bool$"))
	add("receive-stmt", false, nil, tpl("<-gch", "<-$chan int$"))
	add("call-nonvoid-stmt", false, nil, tpl("hI($int$, $string$)", "hS($string$)", "hB($int$)", "gt.M()", "copy(gxs, gxs)", "recover()", "gfi()", "gid($int$)", "types.Identical(nil, nil)", "gtwo()"))
	add("call-builtin-stmt", false, nil, tpl("panic($string$)", "print($string$)", "println($string$, $int$)", "println()", "println($string$)", "println($int$)", "delete(gm, $string$)", "close(gch)", "clear(gm)", "clear(gxs)", "(println)($string$)", "panic(nil)"))
	add("call-func-value-stmt", false, nil, tpl("gf()", "gfv()", "func() {}()", "(func() {})()", "gt.V()", "T.V(gt)", "(gt.V)()", "gst.p.PM()", "F(gfv)()", "func(f F) { f() }(gf)"))
	add("call-native-void", false, isDo, tpl(`ctx.Var("x").Text()`, `ctx.Var("x")`))
	add("empty", false, nil, one(func(g *c06fGen, d int) string { return ";" }))
	add("return-closure", false, nil, func(g *c06fGen, d int) []string {
		if g.ret == "" || g.ret == "ty" {
			return cat("func() {", g.closure("", d), "}()", g.retStmt())
		}
		return cat("return func() "+g.ret+" {", g.closure(g.ret, d), "}()")
	})
}
