package main

import (
	"fmt"
	"math/rand"
	"os"
	"strings"
	"time"

	"github.com/quasilyte/go-ruleguard/ruleguard"
	"verifharness/hx"
)

// Suite "top": the top of the file.  Patterns that are matched against the *ast.File itself (declaration lists,
// `package $p`: the ancestor stack holds one node while their filters run), top-level declarations and specs (parent =
// the file / a GenDecl), the package name, import paths, initializer expressions of package-level variables (the
// shallowest identifiers, literals and expressions a file has) x every `$$`-level and per-capture predicate x payloads
// x context settings, on files made of every kind of top-level declaration in seeded orders, an empty package, a file
// of imports only, one-declaration files, files that cannot be read from disk.

type c07TopShape struct {
	name    string
	pattern string
	vars    []string // named captures the filters are applied to
}

var c07TopShapes = []c07TopShape{
	// matched against *ast.File (nodePath = [File])
	{"file:package-clause", "package $x", []string{"x"}},
	{"file:decl-list:two-empty-funcs", "func $x() {}; func $y() {}", []string{"x", "y"}},
	{"file:decl-list:any-two-funcs", "func $x($*_) $_ { $*_ }; func $y($*_) $_ { $*_ }", []string{"x", "y"}},
	{"file:decl-list:func-bodies", "func $_() { $*x }; func $_() { $*y }", []string{"x", "y"}},
	{"file:decl-list:func-params", "func $_($*x) {}; func $_($*y) {}", []string{"x", "y"}},
	{"file:decl-list:var-then-func", "var $x = $y; func $_() {}", []string{"x", "y"}},
	{"file:decl-list:func-then-var", "func $x() {}; var $_ = $y", []string{"x", "y"}},
	{"file:decl-list:type-then-func", "type $x $y; func $_() {}", []string{"x", "y"}},
	{"file:decl-list:func-then-const", "func $_() {}; const $x = $y", []string{"x", "y"}},
	{"file:decl-list:three-funcs", "func $x() {}; func $_() {}; func $y() {}", []string{"x", "y"}},
	{"file:decl-list:method-then-func", "func ($_ $x) $y() {}; func $_() {}", []string{"x", "y"}},
	{"file:decl-list:unnamed-receiver-method-then-func", "func ($x) $y() {}; func $_() {}", []string{"x", "y"}},
	{"file:decl-list:same-name-twice", "func $x() {}; func $x() {}", []string{"x"}},
	// top-level declarations (nodePath = [File, decl])
	{"decl:func", "func $x($*y) $_ { $*_ }", []string{"x", "y"}},
	{"decl:func-body", "func $x() { $*y }", []string{"x", "y"}},
	{"decl:func-results", "func $_($*_) $x { $*y }", []string{"x", "y"}},
	{"decl:method", "func ($x $y) $_($*_) $_ { $*_ }", []string{"x", "y"}},
	{"decl:var-init", "var $x = $y", []string{"x", "y"}},
	{"decl:var-typed", "var $x $y", []string{"x", "y"}},
	{"decl:var-typed-init", "var $x $y = $_", []string{"x", "y"}},
	{"decl:const", "const $x = $y", []string{"x", "y"}},
	{"decl:type", "type $x $y", []string{"x", "y"}},
	{"decl:type-alias", "type $x = $y", []string{"x", "y"}},
	{"decl:type-struct-fields", "type $x struct { $*y }", []string{"x", "y"}},
	{"decl:type-interface-methods", "type $x interface { $*y }", []string{"x", "y"}},
	{"decl:import", "import $x", []string{"x"}},
	{"decl:any-import", "import $_", nil},
	// specs inside a declaration group (nodePath = [File, GenDecl, spec])
	{"spec:value", "$x $y = $_", []string{"x", "y"}},
	{"spec:value-two-names", "$x, $y int = $_, $_", []string{"x", "y"}},
	// the shallowest identifiers, literals and expressions
	{"shallow:package-name-ident", "p", nil},
	{"shallow:import-path-literal", `"fmt"`, nil},
	{"shallow:int-literal", "10", nil},
	{"shallow:initializer-call", "probe($*x)", []string{"x"}},
	{"shallow:initializer-call-fun", "$x($*y)", []string{"x", "y"}},
	{"shallow:initializer-composite", "$x{$*y}", []string{"x", "y"}},
	{"shallow:initializer-func-lit", "func($*x) { $*y }", []string{"x", "y"}},
	{"shallow:initializer-selector", "$x.$y", []string{"x", "y"}},
	{"shallow:initializer-binary", "$x + $y", []string{"x", "y"}},
	{"shallow:struct-type", "struct { $*x }", []string{"x"}},
	{"shallow:func-type-params", "func($*x) $y", []string{"x", "y"}},
}

// every node kind Node.Is / Node.Parent().Is can name that occurs near the top of a file, the generic classes, and one
// deep kind
var c07TopNodeKinds = []string{"File", "GenDecl", "FuncDecl", "ImportSpec", "ValueSpec", "TypeSpec", "Ident", "BasicLit", "FuncType", "BlockStmt",
	"CallExpr", "CompositeLit", "Node", "Expr", "Stmt", "DeclStmt", "ExprStmt"}

func c07TopRootFilters() []string {
	fs := append([]string{}, c07RootFilters...)
	for _, k := range c07TopNodeKinds {
		fs = append(fs, `m["$$"].Node.Parent().Is("`+k+`")`, `m["$$"].Node.Is("`+k+`")`)
	}
	fs = append(fs,
		`!m["$$"].Node.Parent().Is("File")`, `!m["$$"].Node.Parent().Is("Node")`,
		`m["$$"].Node.Parent().Is("File") || m["$$"].Node.Parent().Is("GenDecl")`,
		`m["$$"].Line > 0 && !m["$$"].Node.Parent().Is("FuncDecl")`,
		`!m.Deadcode() && m["$$"].Node.Parent().Is("Expr")`,
		`m["$$"].SinkType.Is("[]int")`, `m["$$"].SinkType.Is("$t")`, `!m["$$"].SinkType.Is("error")`,
		`m["$$"].Node.Parent().Is("ValueSpec") && m["$$"].SinkType.Is("int")`,
		`m["$$"].Line == 1`, `m["$$"].Text == "package p"`, `m["$$"].Text.Matches("^func")`,
		`m["$$"].Contains("func $_($*_) $_ { $*_ }")`, `m["$$"].Contains("return $*_")`, `m["$$"].Contains("import $_")`, `m["$$"].Contains("package $_")`,
		`m["$$"].Filter(isSmall)`, `m["$$"].Filter(hasElem)`,
	)
	// every per-capture predicate applied to the whole match
	for _, f := range c07VarFilters {
		fs = append(fs, strings.ReplaceAll(f, "%s", "$$"))
	}
	seen := map[string]bool{}
	out := fs[:0]
	for _, f := range fs {
		if !seen[f] {
			seen[f] = true
			out = append(out, f)
		}
	}
	return out
}

var c07TopExtraVarFilters = []string{
	`m["%s"].Node.Is("File")`, `m["%s"].Node.Is("FuncDecl")`, `m["%s"].Node.Is("GenDecl")`, `m["%s"].Node.Is("ImportSpec")`, `m["%s"].Node.Is("Node")`, `m["%s"].Node.Is("Expr")`,
	`m["%s"].Contains("return $*_")`, `m["%s"].Contains("$_($*_)")`, `m["%s"].Contains("$_ $_")`,
	`m["%s"].Object.Is("PkgName")`, `m["%s"].Object.Is("Const")`, `m["%s"].Text == "p"`, `m["%s"].Line == 1`,
	`m["%s"].Type.Is("func($*_) $*_")`, `m["%s"].Filter(isErr)`,
	`m["%s"].Object.IsVariadicParam() || m["$$"].Node.Parent().Is("File")`,
}

// top-level declarations the generated files are made of: any order type-checks (package scope); every item declares
// names of its own.  `%d` is replaced by a serial number where an item can be repeated.
var c07TopDeclMenu = []string{
	"func e%d() {}",
	"func e%d() {}",
	"func e%d() {}",
	"func init() {}",
	"func body%d() { probe(1); probe(2) }",
	"func ret%d() int { return probe(3) }",
	"func par%d(a int, b ...string) {}",
	"func vp%d(xs ...int) { probe(xs); _ = func(ys ...int) { probe(ys, xs) } }",
	"func gen%d[E any](v E) E { return v }",
	"func (T) m%d() {}",
	"func (t *T) n%d(xs ...int) int { return len(xs) + t.a }",
	"var v%d = 10",
	"var w%d = probe(10)",
	"var z%d int",
	"var y%d int = probe(4)",
	"var s%d = []int{1, probe(5)}",
	"var l%d = T{1, 2}",
	"var kv%d = T{a: probe(6)}",
	"var mp%d = map[string]int{\"a\": probe(7)}",
	"var fl%d = func(xs ...int) { probe(xs) }",
	"var sel%d = utf8.RuneLen",
	"var bin%d = probe(8) + 10",
	"var p1x%d, p2x%d = pair()",
	"var a%d, b%d = 1, \"s\"",
	"var (\n\tga%d = 10\n\tgb%d T\n\tgc%d, gd%d int = 1, probe(9)\n)",
	"var ()",
	"var _ = probe",
	"const k%d = 10",
	"const kt%d int = 10",
	"const (\n\tia%d = iota\n\tib%d\n)",
	"type N%d int",
	"type A%d = T",
	"type S%d struct {\n\tx, y int\n\tf    func(...int)\n}",
	"type E%d struct{}",
	"type J%d interface {\n\tM()\n\terror\n}",
	"type B%d[E any] struct{ v E }",
	"type (\n\tP%d *T\n\tQ%d []T\n)",
	"// doc comment of d%d\nfunc d%d() {} // trailing",
	"/* block */ var c%d = 'x' // trailing comment",
}

const c07TopPrelude = `type T struct{ a, b int }

func probe(xs ...interface{}) int { return 0 }

func pair() (int, error) { return 0, nil }

var _ = utf8.RuneLen
`

func c07TopGenFile(rng *rand.Rand, pkgDoc bool, n int) string {
	var sb strings.Builder
	if pkgDoc {
		sb.WriteString("// Package p is generated.\n")
	}
	sb.WriteString("package p\n\n")
	switch rng.Intn(3) {
	case 0:
		sb.WriteString("import \"unicode/utf8\"\n\n")
	case 1:
		sb.WriteString("import (\n\t\"unicode/utf8\"\n\t_ \"unsafe\"\n)\n\n")
	default:
		sb.WriteString("import u8 \"unicode/utf8\"\nimport . \"unicode/utf16\"\n\nvar _ = u8.RuneLen\nvar _ = IsSurrogate\n\n")
		sb.WriteString("var utf8 = struct{ RuneLen func(rune) int }{u8.RuneLen}\n\n")
	}
	serial := 0
	items := []string{}
	for _, it := range strings.Split(strings.TrimSpace(c07TopPrelude), "\n\n") {
		items = append(items, it)
	}
	for i := 0; i < n; i++ {
		it := c07TopDeclMenu[rng.Intn(len(c07TopDeclMenu))]
		serial++
		it = strings.ReplaceAll(it, "%d", fmt.Sprint(serial))
		// names like p1x%d, p2x%d in one item must differ: they carry different prefixes already
		items = append(items, it)
	}
	rng.Shuffle(len(items), func(i, j int) { items[i], items[j] = items[j], items[i] })
	for _, it := range items {
		sb.WriteString(it)
		if rng.Intn(4) == 0 {
			sb.WriteString("\n") // adjacent without a blank line
		} else {
			sb.WriteString("\n\n")
		}
	}
	return sb.String()
}

const c07TopFixed = `// Package p: every kind of top-level declaration, adjacent pairs of each combination.
package p

import "fmt"
import (
	"unicode/utf8"
	_ "unsafe"
)

func first() {}
func second() {}
func third() {}
func first2() {}

var beforeFunc = 10

func afterVar() {}

var afterFunc = probe(10)

type beforeFunc2 int

func afterType() {}

const afterFunc2 = 10

func (T) method() {}
func afterMethod() {}
func (t T) named() {}
func afterNamed() {}
func init() {}
func init() {}

type T struct{ a, b int }

type U = T

type I interface {
	M()
	error
}

type G[E any] struct{ v E }

var typed int
var typedInit int = probe(1)
var a, b = pair()
var c, d = 1, "s"
var (
	g1        = []int{1, probe(2)}
	g2 T
	g3, g4 int = 1, probe(3)
)

const (
	k1 = iota
	k2
)

var lit = T{1, 2}
var kv = T{a: probe(4)}
var mp = map[string]int{"a": probe(5)}
var fl = func(xs ...int) { probe(xs) }
var sel = utf8.RuneLen
var sum = probe(6) + 10
var _ = fmt.Sprint
var st struct{ x, y int }
var ft func(a int, b ...string) error

func probe(xs ...interface{}) int { return 0 }
func pair() (int, error)          { return 0, nil }
func variadic(xs ...int) int      { probe(xs); return len(xs) }
func gen[E any](v E) E            { return v }
func (t *T) n(xs ...int) int      { return len(xs) + t.a }
func results() (x int, err error) { return 1, nil }
func last() {}
`

func c07TopTargets(c *Ctx) ([]*c07xTarget, error) {
	type spec struct {
		label, src string
		mem        bool
	}
	specs := []spec{
		{"empty-package", "package p\n", false},
		{"empty-package:no-newline", "package p", false},
		{"empty-package:comments-only", "// Package p has nothing.\npackage p // nothing\n\n// the end\n", false},
		{"empty-package:not-on-disk", "package p\n", true},
		{"imports-only", "package p\n\nimport _ \"unsafe\"\nimport (\n\t_ \"unicode/utf8\"\n)\n", false},
		{"one-declaration:func", "package p\n\nfunc only() {}\n", false},
		{"one-declaration:var", "package p\n\nvar only = 10\n", false},
		{"two-empty-funcs", "package p\n\nfunc one() {}\nfunc two() {}\n", false},
		{"two-empty-funcs:not-on-disk", "package p\n\nfunc one() {}\nfunc two() {}\n", true},
		{"every-declaration-kind", c07TopFixed, false},
		{"every-declaration-kind:not-on-disk", c07TopFixed, true},
	}
	rng := hx.Rng(c.Seed, "c07-top-files")
	nGen := 3
	if c.Thorough {
		nGen = 12
	}
	for i := 0; i < nGen; i++ {
		n := 4 + rng.Intn(20)
		specs = append(specs, spec{fmt.Sprintf("generated-%d(%d declarations)", i, n), c07TopGenFile(rng, i%2 == 0, n), i%4 == 3})
	}
	var out []*c07xTarget
	for i, s := range specs {
		t, err := c07xParse(s.label, fmt.Sprintf("c07top%d.go", i), s.src, s.mem)
		if err != nil {
			return nil, err
		}
		out = append(out, t)
	}
	return out, nil
}

func c07TopCore(label string) bool {
	return label == "empty-package" || label == "two-empty-funcs" || label == "every-declaration-kind"
}

func runC07Top(c *Ctx) error {
	targets, err := c07TopTargets(c)
	if err != nil {
		return err
	}
	if err := c07ShapeSuite(c, "top", c07TopShapes, targets, c07TopCore); err != nil {
		return err
	}
	// matches that are a part of a statement (gogrep.PartialNode: `range $x`, `for $k, $v := range $x`), the one kind of
	// whole-match node that is no go/ast node: the same predicates and payloads, on the file of the first product space
	// (on disk and not) and a file of range statements over every kind of operand
	var ptargets []*c07xTarget
	for i, sp := range []struct {
		label, src string
		mem        bool
	}{{"product-space-file", c07Target, false}, {"range-statements", c07PartialTarget, false}, {"range-statements:not-on-disk", c07PartialTarget, true}} {
		t, err := c07xParse(sp.label, fmt.Sprintf("c07partial%d.go", i), sp.src, sp.mem)
		if err != nil {
			return err
		}
		ptargets = append(ptargets, t)
	}
	return c07ShapeSuite(c, "partial", c07PartialShapes, ptargets, func(label string) bool { return label != "product-space-file" })
}

var c07PartialShapes = []c07TopShape{
	{"partial:range-clause", "range $x", []string{"x"}},
	{"partial:range-header", "for range $x", []string{"x"}},
	{"partial:range-key-header", "for $x := range $y", []string{"x", "y"}},
	{"partial:range-key-assign-header", "for $x = range $y", []string{"x", "y"}},
	{"partial:range-key-value-header", "for $x, $y := range $_", []string{"x", "y"}},
	{"partial:range-key-value-operand", "for $_, $x := range $y", []string{"x", "y"}},
}

const c07PartialTarget = `package p

type T struct{ a, b int }

func probe(xs ...interface{}) int { return 0 }
func keys() []string              { return nil }

var global = []int{1, 2}

func ranges(s []int, m map[string]T, ch chan int, str string, arr [3]int, n int, fn func(func(int) bool)) int {
	for range s {
	}
	for i := range s {
		probe(i)
	}
	for i, v := range s {
		probe(i, v)
	}
	for _, v := range m {
		probe(v.a)
	}
	for k := range m {
		probe(k)
	}
	for v := range ch {
		probe(v)
	}
	for i, r := range str {
		probe(i, r)
	}
	for i, v := range arr {
		probe(i, v)
	}
	for i, v := range []int{1, probe(2)} {
		probe(i, v)
	}
	for i, k := range keys() {
		probe(i, k)
	}
	for range global {
	}
	for i := range n {
		probe(i)
	}
	for v := range fn {
		probe(v)
	}
	var i, v int
	for i = range s {
	}
	for i, v = range s {
	}
	for i, v = range append(s, probe(1), 2) {
	}
	for _, f := range []func(...int) int{func(xs ...int) int { return len(xs) }} {
		for j := range f(1, 2) {
			probe(j)
		}
	}
	for  i  :=  range   s {
		probe(i)
	}
	for i:=range s {
		probe(i)
	}
	return i + v
}
`

// c07ShapeSuite: every shape x every $$-level predicate, every per-capture predicate, the pair predicates and the
// payloads, one rule per engine, every engine run on every file under the context settings.
func c07ShapeSuite(c *Ctx, suite string, shapes []c07TopShape, targets []*c07xTarget, core func(label string) bool) error {
	res := c.Res
	rootFilters := c07TopRootFilters()
	var cells []c07xCell
	firstOfShape := map[string]int{}
	for si, sh := range shapes {
		firstOfShape[sh.name] = len(cells)
		add := func(filter, action string) {
			// loading HasMethod("io.Reader.Read") type-checks package io from source in every fresh engine (~0.1 s): the
			// quick tier keeps it for every 5th shape
			if !c.Thorough && si%5 != 0 && strings.Contains(filter, "HasMethod(") {
				return
			}
			// custom filters are compiled at load (~15 ms): every 3rd shape in the quick tier
			if !c.Thorough && si%3 != 0 && strings.Contains(filter, ".Filter(") {
				return
			}
			cells = append(cells, c07xCell{shape: sh.name, pattern: sh.pattern, filter: filter, action: action})
		}
		// the pattern alone first: tells whether the shape matches anything in a file (the filters of the other cells are
		// evaluated exactly then)
		add("", `Report("$$")`)
		for _, f := range rootFilters {
			add(f, `Report("$$")`)
		}
		for vi, v := range sh.vars {
			for _, f := range append(append([]string{}, c07VarFilters...), c07TopExtraVarFilters...) {
				add(strings.ReplaceAll(f, "%s", v), `Report("$`+v+`|$$")`)
			}
			add("", `Report("$`+v+`").At(m["`+v+`"])`)
			add("", `Report("r $`+v+`").Suggest("$`+v+`")`)
			add("", `Report("r").At(m["`+v+`"]).Suggest("s($`+v+`)")`)
			add(`m["$$"].Node.Parent().Is("File") || m["`+v+`"].Line > 0`, `Report("$`+v+`").At(m["`+v+`"]).Suggest("$$")`)
			if vi == 1 {
				for _, f := range c07PairFilters {
					add(f, `Report("$x $y")`)
				}
				add("", `Report("$y").At(m["y"]).Suggest("$y$x")`)
			}
		}
		add("", `Suggest("$$")`)
		add("", `Report("r").Suggest("")`)
		add(`!m["$$"].Node.Parent().Is("Node")`, `Suggest("$$ // $$")`)
	}
	tConv := time.Now()
	batch := c07xConvert(cells)
	dConv := time.Since(tConv)
	var dLoad, dRun time.Duration
	res.Distribution[suite+":cells"] = len(cells)
	res.Distribution[suite+":files"] = len(targets)
	res.Distribution[suite+":irconv-runs"] = batch.runs

	type ctxCfg struct {
		trunc int
		gover string
		reuse bool
	}
	ctxs := []ctxCfg{{0, "", false}, {-1, "1.17", true}, {1, "", true}, {3, "1.21", false}, {5, "", false}, {60, "1.9", true}}
	if !c.Thorough {
		ctxs = ctxs[:3]
	}
	shapeMatches := map[string]bool{}
	for i, cl := range cells {
		res.Dist(suite + ":shape:" + cl.shape)
		tLoad := time.Now()
		e, fromIR, lerr := batch.load(cells, i, i%31 == 0)
		dLoad += time.Since(tLoad)
		tRun := time.Now()
		if fromIR {
			res.Dist(suite + ":cells:loaded-from-IR")
		}
		if lerr != nil {
			c07xLoadViolation(res, cl, lerr)
			res.Count(suite, fmt.Sprint(i), false)
			res.Dist(suite + ":cell:load-error")
			if os.Getenv("VERIF_C07_ALL") != "" {
				fmt.Fprintf(os.Stderr, "LOADERR\t%s\t%s\t%s\t%s\t%v\n", suite, cl.pattern, cl.filter, cl.action, lerr)
			}
			continue
		}
		// one state per engine, made once and reused for every file and every context that asks for a state
		var state *ruleguard.RunnerState
		reports := 0
	runs:
		for ti, t := range targets {
			for ci, cx := range ctxs {
				// quick tier: the full context product on the core files, one context (rotating) on the others
				if !c.Thorough && !core(t.label) && (ti+i)%len(ctxs) != ci {
					continue
				}
				opts := hx.RunOpts{TruncateLen: cx.trunc, GoVersion: cx.gover}
				st := "nil"
				if cx.reuse {
					if state == nil {
						state = ruleguard.NewRunnerState(e)
					}
					opts.State = state
					st = "NewRunnerState(engine), reused across files and runs"
				}
				rs, ok := c07xRun(res, suite, cl, e, t.t, opts, c07xInput(cl, t, cx.trunc, cx.gover, st))
				if !ok {
					// the cell is a witness already (a panic costs a stack dump; thousands of them cost minutes)
					res.Dist(suite + ":cells-abandoned-after-a-panic")
					break runs
				}
				if ok {
					reports += len(rs)
					if len(rs) > 0 {
						if i == firstOfShape[cl.shape] {
							shapeMatches[cl.shape] = true
							res.Dist(suite + ":shape-matches-in:" + strings.SplitN(t.label, "(", 2)[0])
						}
						res.Dist(suite + ":runs-with-reports")
					}
				}
			}
		}
		// non-trivial: the rule loads and its pattern matches in some file, so the filter was evaluated on that match (with
		// the ancestor stack the shape implies); distinct by (shape, filter, action)
		dRun += time.Since(tRun)
		res.Count(suite, fmt.Sprint(i), shapeMatches[cl.shape])
		if reports > 0 {
			res.Dist(suite + ":cells-with-reports")
		}
		if i == 1 {
			res.Sample(c07xInput(cl, targets[0], 0, "", "nil"))
		}
	}
	res.Notes = append(res.Notes, fmt.Sprintf(suite+": %d cells on %d files: irconv %.1fs, loads %.1fs, runs %.1fs", len(cells), len(targets), dConv.Seconds(), dLoad.Seconds(), dRun.Seconds()))
	for _, sh := range shapes {
		if !shapeMatches[sh.name] {
			res.Notes = append(res.Notes, suite+": shape "+sh.name+" (`"+sh.pattern+"`) matched in no file (or did not load): its cells are trivial")
		}
	}
	return nil
}
