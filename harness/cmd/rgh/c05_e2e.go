package main

// C05 end to end: for a rules file, engine A = Engine.Load(source) and
// engine B = irconv.ConvertFile -> irprint.File -> evaluate the printed literal -> Engine.LoadFromIR
// must expose equal LoadedGroups() and produce equal report streams on the same target files.
// (Engine C = LoadFromIR of the converter's value directly separates printer defects from loader differences.)

import (
	"fmt"
	"go/ast"
	"go/importer"
	"go/parser"
	"go/token"
	"go/types"
	"math/rand"
	"os"
	"path/filepath"
	"runtime"
	"sort"
	"strings"
	"sync"
	"sync/atomic"

	"github.com/quasilyte/go-ruleguard/ruleguard"
	"github.com/quasilyte/go-ruleguard/ruleguard/goutil"
	"github.com/quasilyte/go-ruleguard/ruleguard/ir"
	"github.com/quasilyte/go-ruleguard/ruleguard/irconv"
	"verifharness/hx"
)

type e2eFile struct {
	name   string
	src    string
	irfile *ir.File
}

var c05SrcImporterFset = token.NewFileSet()
var c05SrcImporter = importer.ForCompiler(c05SrcImporterFset, "source", nil)

// c05Convert = what `gorules precompile` does up to the IR value.
func c05Convert(filename, src string) (f *ir.File, err error) {
	return c05ConvertWith(nil, token.NewFileSet(), filename, src)
}

func c05ConvertWith(imp types.Importer, fset *token.FileSet, filename, src string) (f *ir.File, err error) {
	defer func() {
		if r := recover(); r != nil {
			err = fmt.Errorf("PANIC %s: %v", hx.PanicKind(r), r)
		}
	}()
	lf, err := goutil.LoadGoFile(goutil.LoadConfig{Fset: fset, Filename: filename, Data: src, Importer: imp})
	if err != nil {
		return nil, err
	}
	ctx := &irconv.Context{Pkg: lf.Pkg, Types: lf.Types, Fset: fset, Src: []byte(src)}
	return irconv.ConvertFile(ctx, lf.Syntax)
}

func c05LoadIR(filename string, f *ir.File) (e *ruleguard.Engine, err error) {
	defer func() {
		if r := recover(); r != nil {
			err = fmt.Errorf("PANIC %s: %v", hx.PanicKind(r), r)
		}
	}()
	e = ruleguard.NewEngine()
	ctx := &ruleguard.LoadContext{Fset: token.NewFileSet()}
	err = e.LoadFromIR(ctx, filename, f)
	return e, err
}

func c05Groups(e *ruleguard.Engine) (s string) {
	defer func() {
		if r := recover(); r != nil {
			s = "PANIC " + hx.PanicKind(r)
		}
	}()
	var parts []string
	for _, g := range e.LoadedGroups() {
		parts = append(parts, fmt.Sprintf("%+v", g))
	}
	return strings.Join(parts, "\n")
}

// lenient target: type errors are tolerated (fixture packages import fixture-local packages)
func c05ParseTarget(filename, src string) (*hx.Target, error) {
	fset := token.NewFileSet()
	f, err := parser.ParseFile(fset, filename, src, parser.ParseComments)
	if err != nil {
		return nil, err
	}
	info := &types.Info{
		Types:      map[ast.Expr]types.TypeAndValue{},
		Uses:       map[*ast.Ident]types.Object{},
		Defs:       map[*ast.Ident]types.Object{},
		Selections: map[*ast.SelectorExpr]*types.Selection{},
		Implicits:  map[ast.Node]types.Object{},
		Scopes:     map[ast.Node]*types.Scope{},
		Instances:  map[*ast.Ident]types.Instance{},
	}
	cfg := types.Config{Importer: c05SrcImporter, Error: func(error) {}}
	pkg, _ := cfg.Check(f.Name.Name, fset, []*ast.File{f}, info)
	if pkg == nil {
		return nil, fmt.Errorf("no package")
	}
	return &hx.Target{Fset: fset, File: f, Info: info, Pkg: pkg, Src: []byte(src), Name: filename}, nil
}

func c05RunAll(e *ruleguard.Engine, targets []*hx.Target, goVersion string) string {
	var sb strings.Builder
	for _, t := range targets {
		reports, pk, _, err := hx.Run(e, t, hx.RunOpts{GoVersion: goVersion})
		fmt.Fprintf(&sb, "== %s\n", t.Name)
		if err != nil {
			fmt.Fprintf(&sb, "error: %v\n", err)
		}
		if pk != "" {
			fmt.Fprintf(&sb, "%s\n", pk)
		}
		for _, r := range reports {
			sb.WriteString(r.String())
			sb.WriteByte('\n')
		}
	}
	return sb.String()
}

const c05GenTarget = `package target

import (
	"errors"
	"fmt"
	"io"
	"strings"
)

type point struct{ x, y int }

type reader struct{}

func (reader) Read(p []byte) (int, error) { return 0, io.EOF }

var global = 10

const konst = 3

func f(args ...interface{}) int { return len(args) }
func g(a int, b string) string  { return b }

func variadic(xs ...int) int {
	return f(xs)
}

func sample(a, b int, s, t string, p *point, r reader, e error) {
	_ = a + b
	_ = a + 1
	_ = 1 + 2
	_ = 0 + a
	_ = a == b
	_ = s == t
	_ = s == "foo"
	_ = s + "a\"b"
	_ = a * -1
	_ = a - 0
	f(a)
	f(1)
	f(s)
	f("str")
	f(p)
	f(r)
	f(e)
	f(global)
	f(konst)
	f([]int{1, 2})
	f([]int{a, 2})
	f(a, b)
	f(s, t)
	_ = g(a, s)
	_ = g(10, "x")
	_ = fmt.Sprint(a)
	_ = fmt.Sprintf("%d", a)
	_ = strings.ToUpper(s)
	_ = errors.New("x")
	if a > 0 {
		f(a)
	}
	if false {
		f("dead")
		_ = a + b
	}
	var arr [4]int
	_ = arr[0] + arr[1]
	_ = p.x + p.y
	_ = int64(a) + 4
	for i := 0; i < a; i++ {
		f(i)
	}
	x := a
	x = x
	_ = x
	// TODO: comment rule target
	// FIXME(user): another one
}
`

// ---- generated rules files ----

type rulesGen struct {
	r   *rand.Rand
	res *hx.Result
}

// filters over the pattern variables x and y (both always bound by the generated patterns)
var c05FilterAtoms = []string{
	`m["x"].Pure`, `m["x"].Const`, `m["y"].Const`, `m["x"].ConstSlice`, `m["x"].Addressable`, `m["x"].Comparable`,
	`m["x"].Text == "a"`, `m["x"].Text != m["y"].Text`, `m["x"].Text == m["y"].Text`, `m["x"].Text.Matches("^[a-z]$")`, `"1" == m["x"].Text`,
	`m["x"].Text == ""`, `m["x"].Text != "quo\"te"`, "m[\"x\"].Text != `back\\slash`", `m["x"].Text.Matches("a|b")`,
	`m["x"].Line == m["y"].Line`, `m["x"].Line > 30`, `m["x"].Line >= 0`, `m["x"].Line < -1`, `m["x"].Line <= 1000000`,
	`m["x"].Value.Int() >= -1`, `m["x"].Value.Int() == 0`, `m["x"].Value.Int() == m["y"].Value.Int()`, `m["x"].Value.Int() < 9223372036854775807`,
	`m["x"].Value.Int() > -9223372036854775808`, `0 != m["x"].Value.Int()`,
	`m["x"].Type.Size >= 8`, `m["x"].Type.Size == m["y"].Type.Size`, `m["x"].Type.HasPointers()`,
	`m["x"].Type.Is("string")`, `m["x"].Type.Is("int")`, `m["x"].Type.Is("[]$t")`, `m["x"].Type.Underlying().Is("struct{$*_}")`,
	`m["x"].Type.OfKind("integer")`, `m["x"].Type.OfKind("signed")`, `m["x"].Type.Underlying().OfKind("numeric")`,
	`m["x"].Type.ConvertibleTo("string")`, `m["x"].Type.AssignableTo("interface{}")`, `m["x"].Type.Implements("error")`,
	`m["x"].Type.Implements("io.Reader")`, `m["x"].Type.HasMethod("io.Reader.Read")`, `m["x"].Type.IdenticalTo(m["y"])`,
	`m["x"].Node.Is("BasicLit")`, `m["x"].Node.Is("Ident")`, `m["$$"].Node.Parent().Is("ExprStmt")`, `m["$$"].SinkType.Is("int")`,
	`m["x"].Object.Is("Var")`, `m["x"].Object.Is("Const")`, `m["x"].Object.IsGlobal()`, `m["x"].Object.IsVariadicParam()`,
	`m["x"].Contains("$y")`, `m["x"].Contains("1")`, `m["x"].Filter(isIntType)`, `m["y"].Filter(hasLongText)`,
	`m.Deadcode()`, `m.GoVersion().Eq("1.16")`, `m.GoVersion().LessThan("1.18")`, `m.GoVersion().GreaterThan("1.10")`,
	`m.GoVersion().LessEqThan("1.16")`, `m.GoVersion().GreaterEqThan("1.16")`,
	`m.File().Imports("fmt")`, `m.File().Imports("os")`, `m.File().PkgPath.Matches("tar")`, `m.File().Name.Matches("gen")`,
	// constant spellings
	`m["x"].Text == "a" + "b"`, `m["x"].Text == strConst`, `m["x"].Value.Int() == 1+2`, `m["x"].Value.Int() == intConst`, `m["x"].Line > -intConst`,
	`m["x"].Value.Int() == 0x10`, `m["x"].Type.Is(typeConst)`, `m["x"].Value.Int() == 1_000`,
	// helpers
	`isConstInt(m["x"])`, `bothPure(m["x"], m["y"])`, `textIs(m["x"], "a")`, `importsFmt()`, `isConstInt(m["y"]) && !isConstInt(m["x"])`,
}

var c05Patterns = []string{"$x + $y", "$x == $y", "f($x, $y)", "g($x, $y)", "$x - $y", "$x * $y", "$y[$x]", "$x = $y", "$x := $y", "$x.$y"}
var c05Messages = []string{"msg", "$x and $y", "$$", "quo\"te `tick` $x", "", "x=$x y=$y", "tab\there", "100% $x"}

const c05RulesHeader = `package gorules

import (
	"strings"

	"github.com/quasilyte/go-ruleguard/dsl"
	"github.com/quasilyte/go-ruleguard/dsl/types"
)

const strConst = "ab"
const intConst = 3
const typeConst = "int"

func isIntType(ctx *dsl.VarFilterContext) bool {
	return types.Identical(ctx.Type, ctx.GetType("int"))
}

func hasLongText(ctx *dsl.VarFilterContext) bool {
	return len(strings.TrimPrefix(ctx.Type.String(), "*")) > 3
}

func reportText(ctx *dsl.DoContext) {
	ctx.SetReport("do: " + ctx.Var("x").Text())
}

`

func (g *rulesGen) filter(depth int) string {
	r := g.r
	if depth <= 0 || r.Intn(3) == 0 {
		return c05FilterAtoms[r.Intn(len(c05FilterAtoms))]
	}
	switch r.Intn(5) {
	case 0:
		return "!" + g.filterParen(depth-1)
	case 1:
		return g.filterParen(depth-1) + " && " + g.filterParen(depth-1)
	case 2:
		return g.filterParen(depth-1) + " || " + g.filterParen(depth-1)
	case 3:
		return "(" + g.filter(depth-1) + ")"
	}
	return g.filter(depth - 1)
}

func (g *rulesGen) filterParen(depth int) string {
	s := g.filter(depth)
	if strings.Contains(s, " ") {
		return "(" + s + ")"
	}
	return s
}

func quoteGo(r *rand.Rand, s string) string {
	if r.Intn(3) == 0 && !strings.Contains(s, "`") && !strings.Contains(s, "\r") {
		return "`" + s + "`"
	}
	return fmt.Sprintf("%q", s)
}

func (g *rulesGen) file(idx int) string {
	r := g.r
	var sb strings.Builder
	sb.WriteString(c05RulesHeader)
	ngroups := 1 + r.Intn(3)
	for gi := 0; gi < ngroups; gi++ {
		matcher := []string{"m", "m", "m", "mm"}[r.Intn(4)]
		if r.Intn(3) == 0 {
			fmt.Fprintf(&sb, "//doc:summary group %d of file %d\n", gi, idx)
			switch r.Intn(4) {
			case 0:
				sb.WriteString("//doc:tags a b  c\n")
			case 1:
				sb.WriteString("//doc:tags\n") // empty, non-nil DocTags
			case 2:
				sb.WriteString("//doc:tags diagnostic\n//doc:before x + 0\n//doc:after  x\n//doc:note \"quoted\" `note`\n")
			}
		}
		fmt.Fprintf(&sb, "func group%d_%d(%s dsl.Matcher) {\n", idx, gi, matcher)
		if r.Intn(4) == 0 {
			sb.WriteString("\t" + matcher + ".Import(`io`)\n")
			if r.Intn(2) == 0 {
				sb.WriteString("\t" + matcher + ".Import(\"text/template\")\n")
			}
		}
		body := func(s string) string {
			if matcher == "m" {
				return s
			}
			s = strings.ReplaceAll(s, `m["`, matcher+`["`)
			s = strings.ReplaceAll(s, `m.`, matcher+`.`)
			return s
		}
		groupStart := sb.Len()
		nrules := 1 + r.Intn(4)
		for ri := 0; ri < nrules; ri++ {
			if r.Intn(9) == 0 {
				fmt.Fprintf(&sb, "\t%s.MatchComment(%s).Report(%s)\n", matcher, quoteGo(r, []string{`TODO`, `FIXME\((?P<who>\w+)\)`, `^// `}[r.Intn(3)]),
					quoteGo(r, []string{"comment", "who=$who", "$$"}[r.Intn(3)]))
				g.res.Dist("rules:MatchComment")
				continue
			}
			np := 1 + r.Intn(2)
			var pats []string
			for i := 0; i < np; i++ {
				pats = append(pats, quoteGo(r, c05Patterns[r.Intn(len(c05Patterns))]))
			}
			fmt.Fprintf(&sb, "\t%s.Match(%s)", matcher, strings.Join(pats, ", "))
			if r.Intn(5) != 0 {
				fmt.Fprintf(&sb, ".\n\t\tWhere(%s)", body(g.filter(2)))
				g.res.Dist("rules:Where")
			}
			if r.Intn(6) == 0 {
				fmt.Fprintf(&sb, ".\n\t\tAt(%s[\"x\"])", matcher)
				g.res.Dist("rules:At")
			}
			switch r.Intn(6) {
			case 0:
				fmt.Fprintf(&sb, ".\n\t\tSuggest(%s)\n", quoteGo(r, []string{"$y", "$x", "f($x)", ""}[r.Intn(4)]))
				g.res.Dist("rules:Suggest")
			case 1:
				fmt.Fprintf(&sb, ".\n\t\tReport(%s).\n\t\tSuggest(%s)\n", quoteGo(r, c05Messages[r.Intn(len(c05Messages))]), quoteGo(r, "$y"))
				g.res.Dist("rules:Report+Suggest")
			case 2:
				sb.WriteString(".\n\t\tDo(reportText)\n")
				g.res.Dist("rules:Do")
			default:
				fmt.Fprintf(&sb, ".\n\t\tReport(%s)\n", quoteGo(r, c05Messages[r.Intn(len(c05Messages))]))
				g.res.Dist("rules:Report")
			}
		}
		// helpers: only those the rules use (an unused variable does not type-check)
		rulesText := sb.String()[groupStart:]
		var defs strings.Builder
		for _, h := range []struct{ name, def string }{
			{"isConstInt", "\tisConstInt := func(v dsl.Var) bool { return v.Const && v.Type.Is(`int`) }\n"},
			{"bothPure", "\tbothPure := func(a, b dsl.Var) bool { return a.Pure && b.Pure }\n"},
			{"textIs", "\ttextIs := func(v dsl.Var, s string) bool { return v.Text.Matches(s) }\n"},
			{"importsFmt", "\timportsFmt := func() bool { return m.File().Imports(\"fmt\") }\n"},
		} {
			if strings.Contains(rulesText, h.name+"(") {
				defs.WriteString(body(h.def))
				g.res.Dist("rules:helper:" + h.name)
			}
		}
		all := sb.String()
		sb.Reset()
		sb.WriteString(all[:groupStart] + defs.String() + rulesText)
		sb.WriteString("}\n\n")
	}
	return sb.String()
}

// c05E2E runs the end-to-end suite and returns the converted files (their IR feeds the IR suites too).
func c05E2E(c *Ctx) ([]e2eFile, error) {
	res := c.Res
	var files []e2eFile
	type job struct {
		name, src string
		targets   []*hx.Target
		goVersion string
	}
	var jobs []job

	genTarget, err := c05ParseTarget("target.go", c05GenTarget)
	if err != nil {
		return nil, fmt.Errorf("generated target: %v", err)
	}

	// fixtures
	root := filepath.Join(repoDir(), "analyzer", "testdata", "src")
	matches, _ := filepath.Glob(filepath.Join(root, "*", "rules*.go"))
	more, _ := filepath.Glob(filepath.Join(root, "*", "*", "rules*.go"))
	matches = append(matches, more...)
	sort.Strings(matches)
	for _, m := range matches {
		b, err := os.ReadFile(m)
		if err != nil {
			return nil, err
		}
		dir := filepath.Dir(m)
		var targets []*hx.Target
		entries, _ := os.ReadDir(dir)
		for _, e := range entries {
			if e.IsDir() || !strings.HasSuffix(e.Name(), ".go") || strings.HasPrefix(e.Name(), "rules") {
				continue
			}
			tb, err := os.ReadFile(filepath.Join(dir, e.Name()))
			if err != nil {
				continue
			}
			t, err := c05ParseTarget(e.Name(), string(tb))
			if err != nil {
				res.Dist("e2e:fixture-target-unparsable")
				continue
			}
			targets = append(targets, t)
		}
		targets = append(targets, genTarget)
		rel, _ := filepath.Rel(root, m)
		gv := ""
		if strings.HasPrefix(rel, "goversion") {
			gv = "1.16"
		}
		jobs = append(jobs, job{name: "fixture:" + rel, src: string(b), targets: targets, goVersion: gv})
	}
	// bundle imports: dsl.ImportRules of verifharness/c05bundle (resolved by `go list` from the harness directory)
	for i, prefix := range []string{"pfx", "", "a/b"} {
		src := "package gorules\n\nimport (\n\t\"github.com/quasilyte/go-ruleguard/dsl\"\n\tbundle \"verifharness/c05bundle\"\n)\n\n" +
			"func init() {\n\tdsl.ImportRules(" + fmt.Sprintf("%q", prefix) + ", bundle.Bundle)\n}\n\n" +
			"func own(m dsl.Matcher) {\n\tm.Match(`$x - 0`).Report(`own: $x minus zero`)\n}\n"
		jobs = append(jobs, job{name: fmt.Sprintf("bundle#%d", i), src: src, targets: []*hx.Target{genTarget}})
	}
	nFixtures := len(jobs) - 3
	if nFixtures < 20 {
		res.Errorf("only %d fixture rules files found under %s", nFixtures, root)
	}
	// generated
	nGen := 40
	if c.Thorough {
		nGen = 1500
	}
	g := &rulesGen{r: hx.Rng(c.Seed, "c05-rules"), res: res}
	for i := 0; i < nGen; i++ {
		gv := []string{"", "1.16", "1.20"}[g.r.Intn(3)]
		jobs = append(jobs, job{name: fmt.Sprintf("generated#%d", i), src: g.file(i), targets: []*hx.Target{genTarget}, goVersion: gv})
	}

	// phase 1 (parallel): the loads and the conversion; phase 2 (sequential): comparison and runs
	type loaded struct {
		eA, eB           *ruleguard.Engine
		errA, errB       error
		irf, evaluated   *ir.File
		errConv, errEval error
		text, pres       string
	}
	out := make([]loaded, len(jobs))
	nw := runtime.NumCPU()
	if nw > 12 {
		nw = 12
	}
	var wg sync.WaitGroup
	next := int64(-1)
	for w := 0; w < nw; w++ {
		wg.Add(1)
		go func() {
			defer wg.Done()
			fset := token.NewFileSet()
			imp := importer.ForCompiler(fset, "source", nil)
			for {
				i := int(atomic.AddInt64(&next, 1))
				if i >= len(jobs) {
					return
				}
				j := jobs[i]
				o := &out[i]
				o.eA = ruleguard.NewEngine()
				o.errA = hx.LoadInto(o.eA, "rules.go", j.src, nil)
				o.irf, o.errConv = c05ConvertWith(imp, fset, "rules.go", j.src)
				if o.errConv != nil {
					continue
				}
				o.text, o.pres = printIR(o.irf)
				if o.pres != "ok" {
					continue
				}
				o.evaluated, o.errEval = evalIRText(o.text)
				if o.errEval != nil {
					continue
				}
				o.eB, o.errB = c05LoadIR("rules.go", o.evaluated)
			}
		}()
	}
	wg.Wait()

	for ji, j := range jobs {
		kind := strings.SplitN(j.name, ":", 2)[0]
		kind = strings.SplitN(kind, "#", 2)[0]
		o := out[ji]
		eA, errA, irf, errConv := o.eA, o.errA, o.irf, o.errConv
		res.Count("e2e", j.name, true)
		if errConv != nil {
			if errA == nil {
				res.Disagree(hx.Disagreement{Suite: "e2e", Op: "convert " + j.name, Impl: "precompile: " + errConv.Error(), Model: "Load: ok",
					Input: map[string]interface{}{"rules": j.src}})
			}
			res.Dist("e2e:" + kind + ":convert-error")
			if errA == nil || firstLine(errA.Error()) != "irconv error: "+firstLine(errConv.Error()) {
				res.Dist("e2e:" + kind + ":convert-error:" + firstLine(errConv.Error()))
			}
			continue
		}
		files = append(files, e2eFile{name: j.name, src: j.src, irfile: irf})
		text, pres := o.text, o.pres
		if pres != "ok" {
			res.Violate(hx.Violation{Signature: "e2e:irprint:" + pres, What: "irprint.File panics on a converted rules file",
				Input: map[string]interface{}{"rules": j.src}, Impl: pres, Spec: "prints"})
			res.Dist("e2e:" + kind + ":print-panic")
			continue
		}
		errEval := o.errEval
		if errEval != nil {
			sig := "e2e:printed-text-does-not-evaluate"
			if len(irf.BundleImports) > 0 {
				sig = "e2e:BundleImports:printed-text-does-not-evaluate"
			}
			res.Violate(hx.Violation{Signature: sig, What: "the text printed for a converted rules file is not a valid ir.File literal",
				Input: map[string]interface{}{"file": j.name, "rules": j.src, "printed": text}, Impl: "evaluate: " + errEval.Error(), Spec: "evaluates to the converted value"})
			res.Dist("e2e:" + kind + ":eval-error")
			continue
		}
		eB, errB := o.eB, o.errB
		var eC *ruleguard.Engine
		var errC error
		needC := func() {
			if eC == nil && errC == nil {
				eC, errC = c05LoadIR("rules.go", irf)
			}
		}
		errStr := func(e error) string {
			if e == nil {
				return "ok"
			}
			return "error: " + e.Error()
		}
		if errStr(errA) != errStr(errB) {
			sig := "e2e:load-outcome-differs"
			needC()
			if errStr(errC) == errStr(errB) {
				sig = "e2e:LoadFromIR-outcome-differs-from-Load"
			}
			res.Violate(hx.Violation{Signature: sig, What: "Load(source) and LoadFromIR(printed IR) do not agree on success",
				Input: map[string]interface{}{"file": j.name, "rules": j.src}, Impl: "LoadFromIR: " + errStr(errB) + " / direct IR: " + errStr(errC), Spec: "Load: " + errStr(errA)})
			res.Dist("e2e:" + kind + ":load-outcome-differs")
			continue
		}
		if errA != nil {
			res.Dist("e2e:" + kind + ":both-load-errors")
			continue
		}
		gA, gB := c05Groups(eA), c05Groups(eB)
		if gA != gB {
			res.Violate(hx.Violation{Signature: "e2e:LoadedGroups-differ", What: "LoadedGroups() of the two engines differ",
				Input: map[string]interface{}{"file": j.name, "rules": j.src}, Impl: gB, Spec: gA})
			continue
		}
		rA, rB := c05RunAll(eA, j.targets, j.goVersion), c05RunAll(eB, j.targets, j.goVersion)
		nrep := strings.Count(rA, "\n") - len(j.targets)
		if rA != rB {
			needC()
			sig := "e2e:reports-differ"
			if errC == nil && c05RunAll(eC, j.targets, j.goVersion) == rB {
				sig = "e2e:reports-differ:LoadFromIR-vs-Load"
			}
			res.Violate(hx.Violation{Signature: sig, What: "report streams of the two engines differ",
				Input: map[string]interface{}{"file": j.name, "rules": j.src, "diff": firstDiff(rA, rB)}, Impl: "see diff (second)", Spec: "see diff (first)"})
			res.Dist("e2e:" + kind + ":reports-differ")
			continue
		}
		if nrep > 0 {
			res.Dist("e2e:" + kind + ":equal-with-reports")
		} else {
			res.Dist("e2e:" + kind + ":equal-no-reports")
		}
		if len(res.Samples) < 6 && kind == "generated" {
			res.Sample(map[string]interface{}{"rules": j.src, "reports": nrep})
		}
	}
	return files, nil
}

func firstLine(s string) string {
	if i := strings.IndexByte(s, '\n'); i >= 0 {
		s = s[:i]
	}
	if len(s) > 160 {
		s = s[:160]
	}
	return s
}

func firstDiff(a, b string) string {
	la, lb := strings.Split(a, "\n"), strings.Split(b, "\n")
	for i := 0; i < len(la) || i < len(lb); i++ {
		var x, y string
		if i < len(la) {
			x = la[i]
		}
		if i < len(lb) {
			y = lb[i]
		}
		if x != y {
			return fmt.Sprintf("line %d: %q vs %q", i, x, y)
		}
	}
	return ""
}

// c05SrcImporterFor returns a source importer bound to fset (one per file set: positions of imported
// packages are recorded in it).
func c05SrcImporterFor(fset *token.FileSet) types.Importer {
	return importer.ForCompiler(fset, "source", nil)
}
