package main

// C05 end to end: for a load history (1..3 rules files loaded in order into one engine), engine A =
// Engine.Load(source) of every file and engine B = `gorules precompile` (parse, type-check as "gorules",
// irconv.ConvertFile) -> irprint.File -> evaluate the printed literal -> Engine.LoadFromIR of every file
// must agree on the outcome of every load call, expose equal LoadedGroups() and produce equal report
// streams (same reports, same order) on the same target files.
// (Engine C = LoadFromIR of the converter's values directly separates printer defects from loader differences.)
// Histories: the 23 fixture rules files, bundle imports and generated files one per engine; generated
// histories of 1..3 files (c05_hist.go: package clauses other than gorules, per-file custom function
// names and bodies, files competing for the same nodes, colliding group names, equal file names, a
// bundle import first or after an earlier load); 2..3 fixture files in one engine.

import (
	"go/build"
	"fmt"
	"go/ast"
	"go/importer"
	"go/parser"
	"go/token"
	"go/types"
	"math/rand"
	"os"
	"path/filepath"
	"regexp"
	"runtime"
	"runtime/debug"
	"sort"
	"strconv"
	"strings"
	"sync"
	"sync/atomic"
	"time"

	"github.com/quasilyte/go-ruleguard/ruleguard"
	"github.com/quasilyte/go-ruleguard/ruleguard/ir"
	"github.com/quasilyte/go-ruleguard/ruleguard/irconv"
	"verifharness/hx"
)

type e2eFile struct {
	name   string
	src    string
	irfile *ir.File
}

var c05SrcImporterFset = token.NewFileSet()
var c05SrcImporter = importer.ForCompiler(c05SrcImporterFset, "source", nil)

// c05Convert = what `gorules precompile` does up to the IR value.
func c05Convert(filename, src string) (f *ir.File, err error) {
	return c05ConvertWith(nil, token.NewFileSet(), filename, src)
}

// c05ConvertWith follows precompileCommand of cmd/gorules/main.go step by step: parse with comments,
// type-check the file under the package path that command uses ("gorules", whatever the package clause
// says; read from the command's source by c05PrecompilePkgPath), types.Info with Types/Uses/Defs,
// irconv.ConvertFile.  (goutil.LoadGoFile would type-check under the name of the
// package clause; the two coincide only for `package gorules`.)
func c05ConvertWith(imp types.Importer, fset *token.FileSet, filename, src string) (f *ir.File, err error) {
	defer func() {
		if r := recover(); r != nil {
			err = fmt.Errorf("PANIC %s: %v", hx.PanicKind(r), r)
		}
	}()
	if imp == nil {
		imp = importer.ForCompiler(fset, "source", nil)
	}
	af, err := parser.ParseFile(fset, filename, src, parser.ParseComments)
	if err != nil {
		return nil, fmt.Errorf("parse file error: %w", err)
	}
	typechecker := types.Config{Importer: imp}
	info := &types.Info{
		Types: map[ast.Expr]types.TypeAndValue{},
		Uses:  map[*ast.Ident]types.Object{},
		Defs:  map[*ast.Ident]types.Object{},
	}
	pkgPath, err := c05PrecompilePkgPath(af)
	if err != nil {
		return nil, err
	}
	pkg, err := typechecker.Check(pkgPath, fset, []*ast.File{af}, info)
	if err != nil {
		return nil, fmt.Errorf("typechecker error: %w", err)
	}
	ctx := &irconv.Context{Pkg: pkg, Types: info, Fset: fset, Src: []byte(src)}
	return irconv.ConvertFile(ctx, af)
}

var c05PrecompileOnce sync.Once
var c05PrecompileLit, c05PrecompileExpr string
var c05PrecompileErr error

// c05PrecompilePkgPath: the package path precompileCommand type-checks a rules file under, read from
// cmd/gorules/main.go of the tree under test (that command is a module of its own and is not linked
// into the harness): a string literal (today "gorules"), or the name in the file's package clause.
func c05PrecompilePkgPath(af *ast.File) (string, error) {
	c05PrecompileOnce.Do(func() {
		path := filepath.Join(repoDir(), "cmd", "gorules", "main.go")
		f, err := parser.ParseFile(token.NewFileSet(), path, nil, 0)
		if err != nil {
			c05PrecompileErr = fmt.Errorf("cannot read precompileCommand: %v", err)
			return
		}
		found := false
		for _, d := range f.Decls {
			fd, ok := d.(*ast.FuncDecl)
			if !ok || fd.Name.Name != "precompileCommand" || fd.Body == nil {
				continue
			}
			ast.Inspect(fd.Body, func(n ast.Node) bool {
				call, ok := n.(*ast.CallExpr)
				if !ok || found {
					return true
				}
				if sel, ok := call.Fun.(*ast.SelectorExpr); ok && sel.Sel.Name == "Check" && len(call.Args) == 4 {
					found = true
					if lit, ok := call.Args[0].(*ast.BasicLit); ok && lit.Kind == token.STRING {
						c05PrecompileLit, _ = strconv.Unquote(lit.Value)
					} else {
						c05PrecompileExpr = types.ExprString(call.Args[0])
					}
				}
				return true
			})
		}
		if !found {
			c05PrecompileErr = fmt.Errorf("cannot follow precompileCommand in %s: no types.Config.Check call", path)
		}
	})
	switch {
	case c05PrecompileErr != nil:
		return "", c05PrecompileErr
	case c05PrecompileExpr == "":
		return c05PrecompileLit, nil
	case c05PrecompileExpr == "f.Name.Name" || c05PrecompileExpr == "f.Name.String()":
		return af.Name.Name, nil
	}
	return "", fmt.Errorf("cannot follow precompileCommand: package path %s", c05PrecompileExpr)
}

func c05LoadIR(filename string, f *ir.File) (e *ruleguard.Engine, err error) {
	e = ruleguard.NewEngine()
	return e, c05LoadIRInto(e, filename, f)
}

// c05LoadIRInto = one LoadFromIR call on e (a panic is returned as an error starting with "PANIC").
func c05LoadIRInto(e *ruleguard.Engine, filename string, f *ir.File) (err error) {
	defer func() {
		if r := recover(); r != nil { // same form as hx.LoadInto: equal panics of the two engines are equal outcomes
			err = fmt.Errorf("PANIC %s at %s: %v", hx.PanicKind(r), hx.Frame(debug.Stack()), r)
		}
	}()
	ctx := &ruleguard.LoadContext{Fset: token.NewFileSet()}
	return e.LoadFromIR(ctx, filename, f)
}

func c05Groups(e *ruleguard.Engine) (s string) {
	defer func() {
		if r := recover(); r != nil {
			s = "PANIC " + hx.PanicKind(r)
		}
	}()
	var parts []string
	for _, g := range e.LoadedGroups() {
		parts = append(parts, fmt.Sprintf("%+v", g))
	}
	return strings.Join(parts, "\n")
}

// lenient target: type errors are tolerated (fixture packages import fixture-local packages)
func c05ParseTarget(filename, src string) (*hx.Target, error) {
	fset := token.NewFileSet()
	f, err := parser.ParseFile(fset, filename, src, parser.ParseComments)
	if err != nil {
		return nil, err
	}
	info := &types.Info{
		Types:      map[ast.Expr]types.TypeAndValue{},
		Uses:       map[*ast.Ident]types.Object{},
		Defs:       map[*ast.Ident]types.Object{},
		Selections: map[*ast.SelectorExpr]*types.Selection{},
		Implicits:  map[ast.Node]types.Object{},
		Scopes:     map[ast.Node]*types.Scope{},
		Instances:  map[*ast.Ident]types.Instance{},
	}
	cfg := types.Config{Importer: c05SrcImporter, Error: func(error) {}}
	pkg, _ := cfg.Check(f.Name.Name, fset, []*ast.File{f}, info)
	if pkg == nil {
		return nil, fmt.Errorf("no package")
	}
	return &hx.Target{Fset: fset, File: f, Info: info, Pkg: pkg, Src: []byte(src), Name: filename}, nil
}

func c05RunAll(e *ruleguard.Engine, targets []*hx.Target, goVersion string) string {
	var sb strings.Builder
	for _, t := range targets {
		reports, pk, _, err := hx.Run(e, t, hx.RunOpts{GoVersion: goVersion})
		fmt.Fprintf(&sb, "== %s\n", t.Name)
		if err != nil {
			fmt.Fprintf(&sb, "error: %v\n", err)
		}
		if pk != "" {
			fmt.Fprintf(&sb, "%s\n", pk)
		}
		for _, r := range reports {
			sb.WriteString(r.String())
			sb.WriteByte('\n')
		}
	}
	return sb.String()
}

const c05GenTarget = `package target

import (
	"errors"
	"fmt"
	"io"
	"strings"
)

type point struct{ x, y int }

type reader struct{}

func (reader) Read(p []byte) (int, error) { return 0, io.EOF }

var global = 10

const konst = 3

func f(args ...interface{}) int { return len(args) }
func g(a int, b string) string  { return b }

func variadic(xs ...int) int {
	return f(xs)
}

func sample(a, b int, s, t string, p *point, r reader, e error) {
	_ = a + b
	_ = a + 1
	_ = 1 + 2
	_ = 0 + a
	_ = a == b
	_ = s == t
	_ = s == "foo"
	_ = s + "a\"b"
	_ = a * -1
	_ = a - 0
	f(a)
	f(1)
	f(s)
	f("str")
	f(p)
	f(r)
	f(e)
	f(global)
	f(konst)
	f([]int{1, 2})
	f([]int{a, 2})
	f(a, b)
	f(s, t)
	_ = g(a, s)
	_ = g(10, "x")
	_ = fmt.Sprint(a)
	_ = fmt.Sprintf("%d", a)
	_ = strings.ToUpper(s)
	_ = errors.New("x")
	if a > 0 {
		f(a)
	}
	if false {
		f("dead")
		_ = a + b
	}
	var arr [4]int
	_ = arr[0] + arr[1]
	_ = p.x + p.y
	_ = int64(a) + 4
	for i := 0; i < a; i++ {
		f(i)
	}
	x := a
	x = x
	_ = x
	// TODO: comment rule target
	// FIXME(user): another one
}
`

// ---- generated rules files ----

type rulesGen struct {
	r   *rand.Rand
	res *hx.Result
	// options of the file being generated (c05_hist.go); the zero value is the plain single-file generator
	opt rulesOpts
}

// rulesOpts: what varies between the files of one load history.
type rulesOpts struct {
	pkg        string   // package clause ("" = gorules)
	fnSuffix   string   // appended to the names of the custom functions (files of one engine may or may not share names)
	tag        string   // spliced into the text reported by the Do function
	variant    int      // bodies of the custom functions (0 = those of c05RulesHeader)
	patterns   []string // pattern pool (nil = c05Patterns); a small shared pool makes the files compete for nodes
	fewFilters bool     // most rules without Where: more nodes accepted by several rules
	customBias bool     // prefer Filter(fn) atoms and Do(fn) actions
	noStrings  bool     // no `import "strings"` (every load call type-checks that package from source: ten times the cost of a file without it)
}

// filters that call a custom function of the file
var c05CustomAtoms = []string{`m["x"].Filter(isIntType)`, `m["y"].Filter(hasLongText)`, `m["x"].Filter(hasLongText)`, `m["y"].Filter(isIntType)`}

// filters over the pattern variables x and y (both always bound by the generated patterns)
var c05FilterAtoms = []string{
	`m["x"].Pure`, `m["x"].Const`, `m["y"].Const`, `m["x"].ConstSlice`, `m["x"].Addressable`, `m["x"].Comparable`,
	`m["x"].Text == "a"`, `m["x"].Text != m["y"].Text`, `m["x"].Text == m["y"].Text`, `m["x"].Text.Matches("^[a-z]$")`, `"1" == m["x"].Text`,
	`m["x"].Text == ""`, `m["x"].Text != "quo\"te"`, "m[\"x\"].Text != `back\\slash`", `m["x"].Text.Matches("a|b")`,
	`m["x"].Line == m["y"].Line`, `m["x"].Line > 30`, `m["x"].Line >= 0`, `m["x"].Line < -1`, `m["x"].Line <= 1000000`,
	`m["x"].Value.Int() >= -1`, `m["x"].Value.Int() == 0`, `m["x"].Value.Int() == m["y"].Value.Int()`, `m["x"].Value.Int() < 9223372036854775807`,
	`m["x"].Value.Int() > -9223372036854775808`, `0 != m["x"].Value.Int()`,
	`m["x"].Type.Size >= 8`, `m["x"].Type.Size == m["y"].Type.Size`, `m["x"].Type.HasPointers()`,
	`m["x"].Type.Is("string")`, `m["x"].Type.Is("int")`, `m["x"].Type.Is("[]$t")`, `m["x"].Type.Underlying().Is("struct{$*_}")`,
	`m["x"].Type.OfKind("integer")`, `m["x"].Type.OfKind("signed")`, `m["x"].Type.Underlying().OfKind("numeric")`,
	`m["x"].Type.ConvertibleTo("string")`, `m["x"].Type.AssignableTo("interface{}")`, `m["x"].Type.Implements("error")`,
	`m["x"].Type.Implements("io.Reader")`, `m["x"].Type.HasMethod("io.Reader.Read")`, `m["x"].Type.IdenticalTo(m["y"])`,
	`m["x"].Node.Is("BasicLit")`, `m["x"].Node.Is("Ident")`, `m["$$"].Node.Parent().Is("ExprStmt")`, `m["$$"].SinkType.Is("int")`,
	`m["x"].Object.Is("Var")`, `m["x"].Object.Is("Const")`, `m["x"].Object.IsGlobal()`, `m["x"].Object.IsVariadicParam()`,
	`m["x"].Contains("$y")`, `m["x"].Contains("1")`, `m["x"].Filter(isIntType)`, `m["y"].Filter(hasLongText)`,
	`m.Deadcode()`, `m.GoVersion().Eq("1.16")`, `m.GoVersion().LessThan("1.18")`, `m.GoVersion().GreaterThan("1.10")`,
	`m.GoVersion().LessEqThan("1.16")`, `m.GoVersion().GreaterEqThan("1.16")`,
	`m.File().Imports("fmt")`, `m.File().Imports("os")`, `m.File().PkgPath.Matches("tar")`, `m.File().Name.Matches("gen")`,
	// constant spellings
	`m["x"].Text == "a" + "b"`, `m["x"].Text == strConst`, `m["x"].Value.Int() == 1+2`, `m["x"].Value.Int() == intConst`, `m["x"].Line > -intConst`,
	`m["x"].Value.Int() == 0x10`, `m["x"].Type.Is(typeConst)`, `m["x"].Value.Int() == 1_000`,
	// helpers
	`isConstInt(m["x"])`, `bothPure(m["x"], m["y"])`, `textIs(m["x"], "a")`, `importsFmt()`, `isConstInt(m["y"]) && !isConstInt(m["x"])`,
}

var c05Patterns = []string{"$x + $y", "$x == $y", "f($x, $y)", "g($x, $y)", "$x - $y", "$x * $y", "$y[$x]", "$x = $y", "$x := $y", "$x.$y"}
var c05Messages = []string{"msg", "$x and $y", "$$", "quo\"te `tick` $x", "", "x=$x y=$y", "tab\there", "100% $x",
	"first line\r\nsecond line $x", "unix\nbreak", "\r\n", "old mac\rbreak $y"}

const c05RulesHeader = `package gorules

import (
	"strings"

	"github.com/quasilyte/go-ruleguard/dsl"
	"github.com/quasilyte/go-ruleguard/dsl/types"
)

const strConst = "ab"
const intConst = 3
const typeConst = "int"

func isIntType(ctx *dsl.VarFilterContext) bool {
	return types.Identical(ctx.Type, ctx.GetType("int"))
}

func hasLongText(ctx *dsl.VarFilterContext) bool {
	return len(strings.TrimPrefix(ctx.Type.String(), "*")) > 3
}

func reportText(ctx *dsl.DoContext) {
	ctx.SetReport("do: " + ctx.Var("x").Text())
}

`

func (g *rulesGen) filter(depth int) string {
	r := g.r
	if depth <= 0 || r.Intn(3) == 0 {
		if g.opt.customBias && r.Intn(3) == 0 {
			return c05CustomAtoms[r.Intn(len(c05CustomAtoms))]
		}
		return c05FilterAtoms[r.Intn(len(c05FilterAtoms))]
	}
	switch r.Intn(5) {
	case 0:
		return "!" + g.filterParen(depth-1)
	case 1:
		return g.filterParen(depth-1) + " && " + g.filterParen(depth-1)
	case 2:
		return g.filterParen(depth-1) + " || " + g.filterParen(depth-1)
	case 3:
		return "(" + g.filter(depth-1) + ")"
	}
	return g.filter(depth - 1)
}

func (g *rulesGen) filterParen(depth int) string {
	s := g.filter(depth)
	if strings.Contains(s, " ") {
		return "(" + s + ")"
	}
	return s
}

func quoteGo(r *rand.Rand, s string) string {
	if r.Intn(3) == 0 && !strings.Contains(s, "`") && !strings.Contains(s, "\r") {
		return "`" + s + "`"
	}
	return fmt.Sprintf("%q", s)
}

func (g *rulesGen) file(idx int) string {
	r := g.r
	var sb strings.Builder
	sb.WriteString(c05HeaderFor(g.opt))
	patterns := c05Patterns
	if g.opt.patterns != nil {
		patterns = g.opt.patterns
	}
	ngroups := 1 + r.Intn(3)
	for gi := 0; gi < ngroups; gi++ {
		matcher := []string{"m", "m", "m", "mm"}[r.Intn(4)]
		if r.Intn(3) == 0 {
			fmt.Fprintf(&sb, "//doc:summary group %d of file %d\n", gi, idx)
			switch r.Intn(4) {
			case 0:
				sb.WriteString("//doc:tags a b  c\n")
			case 1:
				sb.WriteString("//doc:tags\n") // empty, non-nil DocTags
			case 2:
				sb.WriteString("//doc:tags diagnostic\n//doc:before x + 0\n//doc:after  x\n//doc:note \"quoted\" `note`\n")
			}
		}
		fmt.Fprintf(&sb, "func group%d_%d(%s dsl.Matcher) {\n", idx, gi, matcher)
		if r.Intn(4) == 0 {
			sb.WriteString("\t" + matcher + ".Import(`io`)\n")
			if r.Intn(2) == 0 {
				sb.WriteString("\t" + matcher + ".Import(\"text/template\")\n")
			}
		}
		body := func(s string) string {
			if matcher == "m" {
				return s
			}
			s = strings.ReplaceAll(s, `m["`, matcher+`["`)
			s = strings.ReplaceAll(s, `m.`, matcher+`.`)
			return s
		}
		groupStart := sb.Len()
		nrules := 1 + r.Intn(4)
		for ri := 0; ri < nrules; ri++ {
			if r.Intn(9) == 0 {
				fmt.Fprintf(&sb, "\t%s.MatchComment(%s).Report(%s)\n", matcher, quoteGo(r, []string{`TODO`, `FIXME\((?P<who>\w+)\)`, `^// `}[r.Intn(3)]),
					quoteGo(r, []string{"comment", "who=$who", "$$"}[r.Intn(3)]))
				g.res.Dist("rules:MatchComment")
				continue
			}
			np := 1 + r.Intn(2)
			var pats []string
			for i := 0; i < np; i++ {
				pats = append(pats, quoteGo(r, patterns[r.Intn(len(patterns))]))
			}
			fmt.Fprintf(&sb, "\t%s.Match(%s)", matcher, strings.Join(pats, ", "))
			where := r.Intn(5) != 0
			if g.opt.fewFilters {
				where = r.Intn(3) == 0
			}
			if where {
				fmt.Fprintf(&sb, ".\n\t\tWhere(%s)", body(g.filter(2)))
				g.res.Dist("rules:Where")
			}
			if r.Intn(6) == 0 {
				fmt.Fprintf(&sb, ".\n\t\tAt(%s[\"x\"])", matcher)
				g.res.Dist("rules:At")
			}
			action := r.Intn(6)
			if g.opt.customBias && r.Intn(3) == 0 {
				action = 2
			}
			switch action {
			case 0:
				fmt.Fprintf(&sb, ".\n\t\tSuggest(%s)\n", quoteGo(r, []string{"$y", "$x", "f($x)", ""}[r.Intn(4)]))
				g.res.Dist("rules:Suggest")
			case 1:
				fmt.Fprintf(&sb, ".\n\t\tReport(%s).\n\t\tSuggest(%s)\n", quoteGo(r, c05Messages[r.Intn(len(c05Messages))]), quoteGo(r, "$y"))
				g.res.Dist("rules:Report+Suggest")
			case 2:
				sb.WriteString(".\n\t\tDo(reportText)\n")
				g.res.Dist("rules:Do")
			default:
				fmt.Fprintf(&sb, ".\n\t\tReport(%s)\n", quoteGo(r, c05Messages[r.Intn(len(c05Messages))]))
				g.res.Dist("rules:Report")
			}
		}
		// helpers: only those the rules use (an unused variable does not type-check)
		rulesText := sb.String()[groupStart:]
		var defs strings.Builder
		for _, h := range []struct{ name, def string }{
			{"isConstInt", "\tisConstInt := func(v dsl.Var) bool { return v.Const && v.Type.Is(`int`) }\n"},
			{"bothPure", "\tbothPure := func(a, b dsl.Var) bool { return a.Pure && b.Pure }\n"},
			{"textIs", "\ttextIs := func(v dsl.Var, s string) bool { return v.Text.Matches(s) }\n"},
			{"importsFmt", "\timportsFmt := func() bool { return m.File().Imports(\"fmt\") }\n"},
		} {
			if strings.Contains(rulesText, h.name+"(") {
				defs.WriteString(body(h.def))
				g.res.Dist("rules:helper:" + h.name)
			}
		}
		all := sb.String()
		sb.Reset()
		sb.WriteString(all[:groupStart] + defs.String() + rulesText)
		sb.WriteString("}\n\n")
	}
	return c05RenameFuncs(sb.String(), g.opt.fnSuffix)
}

// ---- load histories ----
//
// A job is a *load history*: 1..3 rules files loaded, in order, into ONE engine.  Engine A gets
// Engine.Load(source) for every file, engine B gets LoadFromIR(evaluate(irprint(precompile(source))))
// for every file, in the same order and under the same file names.  The property asks for equal
// per-call outcomes, equal LoadedGroups() and equal report streams (same reports, same order).

type e2eSrc struct{ filename, src string }

type e2eJob struct {
	name      string
	kind      string // fixture | bundle | generated | history | fixture-history
	files     []e2eSrc
	targets   []*hx.Target
	goVersion string
	traits    []string // what the generator put into the history (distribution record only)
	// buildTags, when set: both engines get a BuildContext (build.Default plus these tags) before anything is loaded
	buildTags []string
}

type e2eStep struct {
	errA, errB       error
	irf, evaluated   *ir.File
	errConv, errEval error
	text, pres       string
}

type e2eLoaded struct {
	eA, eB *ruleguard.Engine
	steps  []e2eStep
	built  bool                // every file converted, printed and evaluated: engine B exists
	lone   []*ruleguard.Engine // census only: every file of a multi-file history alone in a fresh engine (nil = did not load)
}

// c05LoadJob performs the loads and conversions of one history (safe to run in parallel with other jobs).
func c05LoadJob(j *e2eJob, imp types.Importer, fset *token.FileSet, census bool) *e2eLoaded {
	o := &e2eLoaded{steps: make([]e2eStep, len(j.files))}
	newEngine := func() *ruleguard.Engine {
		e := ruleguard.NewEngine()
		if j.buildTags != nil {
			bc := build.Default
			bc.BuildTags = append([]string(nil), j.buildTags...)
			e.BuildContext = &bc
		}
		return e
	}
	o.eA = newEngine()
	for i, f := range j.files {
		o.steps[i].errA = hx.LoadInto(o.eA, f.filename, f.src, nil)
	}
	for i, f := range j.files {
		st := &o.steps[i]
		st.irf, st.errConv = c05ConvertWith(imp, fset, f.filename, f.src)
		if st.errConv != nil {
			return o
		}
		st.text, st.pres = printIR(st.irf)
		if st.pres != "ok" {
			return o
		}
		st.evaluated, st.errEval = evalIRText(st.text)
		if st.errEval != nil {
			return o
		}
	}
	o.built = true
	o.eB = newEngine()
	for i, f := range j.files {
		o.steps[i].errB = c05LoadIRInto(o.eB, f.filename, o.steps[i].evaluated)
	}
	if census && len(j.files) > 1 {
		o.lone = make([]*ruleguard.Engine, len(j.files))
		for i, f := range j.files {
			if e := newEngine(); o.steps[i].errA == nil && hx.LoadInto(e, f.filename, f.src, nil) == nil {
				o.lone[i] = e
			}
		}
	}
	return o
}

// e2eVerdict: what the comparison of the two engines of one history says.
type e2eVerdict struct {
	class    string // convert-error | print-panic | eval-error | load-outcome-differs | all-loads-fail | groups-differ | reports-differ | equal
	step     int    // the file the class is about (first failing step)
	sig      string // base signature of a violation ("" = none)
	what     string
	impl     string
	spec     string
	diff     string
	nrep     int
	someFail bool // some (not all) load calls failed in both engines
	disagree bool // convert-error while Load succeeded
}

var c05PosPrefixRe = regexp.MustCompile(`^[^\s:]+:\d+(:\d+)?: `)

// c05ErrClass: the kind of a load error for signatures: the leading plain words of the message, positions dropped.
func c05ErrClass(e error) string {
	if e == nil {
		return "ok"
	}
	s := e.Error()
	if strings.HasPrefix(s, "PANIC ") {
		return "panic-" + strings.TrimSuffix(strings.Fields(s + " ?")[1], ":")
	}
	for c05PosPrefixRe.MatchString(s) {
		s = c05PosPrefixRe.ReplaceAllString(s, "")
	}
	var words []string
	for _, w := range strings.Fields(s) {
		last := strings.HasSuffix(w, ":")
		w = strings.ReplaceAll(strings.TrimSuffix(w, ":"), "'", "")
		if w == "" || strings.IndexFunc(w, func(r rune) bool { return !(r >= 'a' && r <= 'z' || r >= 'A' && r <= 'Z') }) >= 0 {
			break
		}
		words = append(words, w)
		if last || len(words) == 5 {
			break
		}
	}
	if len(words) == 0 {
		return "error"
	}
	return strings.Join(words, "-")
}

func c05ErrStr(e error) string {
	if e == nil {
		return "ok"
	}
	return "error: " + e.Error()
}

// c05Judge compares the engines of a loaded history (sequential: it runs the engines on the targets).
func c05Judge(j *e2eJob, o *e2eLoaded) e2eVerdict {
	for i := range o.steps {
		st := &o.steps[i]
		switch {
		case st.errConv != nil:
			return e2eVerdict{class: "convert-error", step: i, disagree: st.errA == nil}
		case st.pres != "ok":
			return e2eVerdict{class: "print-panic", step: i, sig: "e2e:irprint:" + st.pres, what: "irprint.File panics on a converted rules file",
				impl: st.pres, spec: "prints"}
		case st.errEval != nil:
			sig := "e2e:printed-text-does-not-evaluate"
			if len(st.irf.BundleImports) > 0 {
				sig = "e2e:BundleImports:printed-text-does-not-evaluate"
			}
			return e2eVerdict{class: "eval-error", step: i, sig: sig, what: "the text printed for a converted rules file is not a valid ir.File literal",
				impl: "evaluate: " + st.errEval.Error(), spec: "evaluates to the converted value"}
		}
	}
	// engine C: LoadFromIR of the converter's values directly (separates printer defects from loader differences)
	var eC *ruleguard.Engine
	var errsC []error
	needC := func() {
		if eC != nil {
			return
		}
		eC = ruleguard.NewEngine()
		for i, f := range j.files {
			errsC = append(errsC, c05LoadIRInto(eC, f.filename, o.steps[i].irf))
		}
	}
	nfail := 0
	for i := range o.steps {
		st := &o.steps[i]
		// A load call that redefines several groups at once names the one its map iteration meets first
		// (mergeRuleSets): when the two engines name different groups, every message that can be built
		// from a group of this file and its definition by an earlier file is the same outcome.
		var redef map[string]bool
		outcome := func(e error) string {
			s := c05ErrStr(e)
			if len(redef) > 1 && redef[s] {
				return fmt.Sprintf("error: %s: redefinition of one of %d groups defined by an earlier file", j.files[i].filename, len(redef))
			}
			return s
		}
		if st.errA != nil && st.errB != nil && st.errA.Error() != st.errB.Error() &&
			strings.Contains(st.errA.Error(), ": redefinition of ") && strings.Contains(st.errB.Error(), ": redefinition of ") {
			redef = c05RedefinitionOutcomes(j, o, i)
		}
		if outcome(st.errA) != outcome(st.errB) {
			sig := "e2e:load-outcome-differs"
			needC()
			if outcome(errsC[i]) == outcome(st.errB) {
				sig = "e2e:LoadFromIR-outcome-differs-from-Load"
			}
			sig += ":Load=" + c05ErrClass(st.errA) + "/LoadFromIR=" + c05ErrClass(st.errB)
			return e2eVerdict{class: "load-outcome-differs", step: i, sig: sig,
				what: "Load(source) and LoadFromIR(printed IR) do not agree on the outcome of a load call",
				impl: fmt.Sprintf("call %d (%s): LoadFromIR: %s / direct IR: %s", i, j.files[i].filename, c05ErrStr(st.errB), c05ErrStr(errsC[i])),
				spec: fmt.Sprintf("call %d (%s): Load: %s", i, j.files[i].filename, c05ErrStr(st.errA))}
		}
		if st.errA != nil {
			nfail++
		}
	}
	if nfail == len(o.steps) {
		return e2eVerdict{class: "all-loads-fail"}
	}
	v := e2eVerdict{class: "equal", someFail: nfail > 0}
	gA, gB := c05Groups(o.eA), c05Groups(o.eB)
	if gA != gB {
		return e2eVerdict{class: "groups-differ", sig: "e2e:LoadedGroups-differ", what: "LoadedGroups() of the two engines differ", impl: gB, spec: gA,
			diff: firstDiff(gA, gB), someFail: v.someFail}
	}
	rA, rB := c05RunAll(o.eA, j.targets, j.goVersion), c05RunAll(o.eB, j.targets, j.goVersion)
	v.nrep = strings.Count(rA, "\n") - len(j.targets)
	if rA != rB {
		needC()
		sig := "e2e:reports-differ"
		if c05RunAll(eC, j.targets, j.goVersion) == rB {
			sig = "e2e:reports-differ:LoadFromIR-vs-Load"
		}
		return e2eVerdict{class: "reports-differ", sig: sig, what: "report streams of the two engines differ",
			impl: "see diff (second)", spec: "see diff (first)", diff: firstDiff(rA, rB), someFail: v.someFail}
	}
	return v
}

// c05RedefinitionOutcomes: the messages a redefinition error of load call i may carry, from lone runs:
// every file alone in a fresh engine tells which groups it defines and where (bundle groups included).
func c05RedefinitionOutcomes(j *e2eJob, o *e2eLoaded, i int) map[string]bool {
	groupsOf := func(k int) map[string]string {
		e := ruleguard.NewEngine()
		if hx.LoadInto(e, j.files[k].filename, j.files[k].src, nil) != nil {
			return nil
		}
		m := map[string]string{}
		for _, g := range e.LoadedGroups() {
			m[g.Name] = fmt.Sprintf("%s:%d", g.Filename, g.Line)
		}
		return m
	}
	defined := map[string]string{}
	for k := 0; k < i; k++ {
		if o.steps[k].errA != nil {
			continue
		}
		for name, ref := range groupsOf(k) {
			if _, ok := defined[name]; !ok {
				defined[name] = ref
			}
		}
	}
	out := map[string]bool{}
	for name, ref := range groupsOf(i) {
		if old, ok := defined[name]; ok {
			out[fmt.Sprintf("error: %s: redefinition of %s(), previously defined at %s", ref, name, old)] = true
		}
	}
	return out
}

// c05E2E runs the end-to-end suite and returns the converted files (their IR feeds the IR suites too).
func c05E2E(c *Ctx) ([]e2eFile, error) {
	res := c.Res
	var files []e2eFile
	var jobs []*e2eJob

	genTarget, err := c05ParseTarget("target.go", c05GenTarget)
	if err != nil {
		return nil, fmt.Errorf("generated target: %v", err)
	}

	// fixtures
	root := filepath.Join(repoDir(), "analyzer", "testdata", "src")
	matches, _ := filepath.Glob(filepath.Join(root, "*", "rules*.go"))
	more, _ := filepath.Glob(filepath.Join(root, "*", "*", "rules*.go"))
	matches = append(matches, more...)
	sort.Strings(matches)
	for _, m := range matches {
		b, err := os.ReadFile(m)
		if err != nil {
			return nil, err
		}
		dir := filepath.Dir(m)
		var targets []*hx.Target
		entries, _ := os.ReadDir(dir)
		for _, e := range entries {
			if e.IsDir() || !strings.HasSuffix(e.Name(), ".go") || strings.HasPrefix(e.Name(), "rules") {
				continue
			}
			tb, err := os.ReadFile(filepath.Join(dir, e.Name()))
			if err != nil {
				continue
			}
			t, err := c05ParseTarget(e.Name(), string(tb))
			if err != nil {
				res.Dist("e2e:fixture-target-unparsable")
				continue
			}
			targets = append(targets, t)
		}
		targets = append(targets, genTarget)
		rel, _ := filepath.Rel(root, m)
		gv := ""
		if strings.HasPrefix(rel, "goversion") {
			gv = "1.16"
		}
		jobs = append(jobs, &e2eJob{name: "fixture:" + rel, kind: "fixture", files: []e2eSrc{{"rules.go", string(b)}}, targets: targets, goVersion: gv})
	}
	nFixtures := len(jobs)
	// bundle imports: dsl.ImportRules of verifharness/c05bundle (resolved by `go list` from the harness directory)
	for i, prefix := range []string{"pfx", "", "a/b"} {
		jobs = append(jobs, &e2eJob{name: fmt.Sprintf("bundle#%d", i), kind: "bundle", files: []e2eSrc{{"rules.go", c05BundleRules(prefix, "own")}}, targets: []*hx.Target{genTarget}})
	}
	// an engine configuration other than the default: a build tag without which a type named by the rules does not exist
	for i, tags := range [][]string{{"c05tag"}, {}, {"othertag", "c05tag"}} {
		jobs = append(jobs, &e2eJob{name: fmt.Sprintf("buildctx#%d", i), kind: "buildctx", buildTags: tags, targets: []*hx.Target{genTarget}, files: []e2eSrc{{"rules.go",
			"package gorules\n\nimport \"github.com/quasilyte/go-ruleguard/dsl\"\n\nfunc tagged(m dsl.Matcher) {\n\tm.Import(`verifharness/c05tagged`)\n" +
				"\tm.Match(`f($x)`).Where(m[\"x\"].Type.Implements(`c05tagged.Walker`)).Report(`walker $x`)\n" +
				"\tm.Match(`g($x, $_)`).Where(!m[\"x\"].Type.Implements(`c05tagged.Walker`)).Report(`no walker $x`)\n}\n"}}})
	}
	if nFixtures < 20 {
		res.Errorf("only %d fixture rules files found under %s", nFixtures, root)
	}
	// generated, one file per engine
	nGen, nHist, nFixHist := 40, 36, 8
	if c.Thorough {
		nGen, nHist, nFixHist = 1500, 500, 60
	}
	g := &rulesGen{r: hx.Rng(c.Seed, "c05-rules"), res: res}
	for i := 0; i < nGen; i++ {
		gv := []string{"", "1.16", "1.20"}[g.r.Intn(3)]
		jobs = append(jobs, &e2eJob{name: fmt.Sprintf("generated#%d", i), kind: "generated", files: []e2eSrc{{"rules.go", g.file(i)}}, targets: []*hx.Target{genTarget}, goVersion: gv})
	}
	// load histories: 1..3 files per engine (c05_hist.go)
	jobs = append(jobs, c05Histories(c, nHist, genTarget)...)
	jobs = append(jobs, c05BundleAfterHistories(c, genTarget)...)
	jobs = append(jobs, c05FixtureHistories(c, nFixHist, jobs[:nFixtures])...)

	// phase 1 (parallel): the loads and the conversion; phase 2 (sequential): comparison and runs
	tPhase := time.Now()
	var tJudge, tDist, tShrink time.Duration
	out := make([]*e2eLoaded, len(jobs))
	nw := runtime.NumCPU()
	if nw > 12 {
		nw = 12
	}
	var wg sync.WaitGroup
	next := int64(-1)
	for w := 0; w < nw; w++ {
		wg.Add(1)
		go func() {
			defer wg.Done()
			fset := token.NewFileSet()
			imp := importer.ForCompiler(fset, "source", nil)
			for {
				i := int(atomic.AddInt64(&next, 1))
				if i >= len(jobs) {
					return
				}
				out[i] = c05LoadJob(jobs[i], imp, fset, !c.Thorough || i%3 == 0)
			}
		}()
	}
	wg.Wait()
	tLoad := time.Since(tPhase)
	defer func() {
		res.Notes = append(res.Notes, fmt.Sprintf("e2e: %d jobs; loads %.1fs, comparison and runs %.1fs, contested-node census %.1fs, shrinking %.1fs",
			len(jobs), tLoad.Seconds(), tJudge.Seconds(), tDist.Seconds(), tShrink.Seconds()))
	}()

	shrinkFset := token.NewFileSet()
	shrinkImp := importer.ForCompiler(shrinkFset, "source", nil)
	shrunk := map[string]int{}
	for ji, j := range jobs {
		kind := j.kind
		o := out[ji]
		res.Count("e2e", j.name, true)
		if len(j.files) > 1 || kind == "history" {
			res.Count("e2e-history", j.name, len(j.files) > 1)
		}
		t0 := time.Now()
		v := c05Judge(j, o)
		tJudge += time.Since(t0)
		if kind != "fixture-history" { // those files are already there
			for i := range o.steps {
				if o.steps[i].irf != nil {
					name := j.name
					if len(j.files) > 1 {
						name = fmt.Sprintf("%s/%d", j.name, i)
					}
					files = append(files, e2eFile{name: name, src: j.files[i].src, irfile: o.steps[i].irf})
				}
			}
		}
		t0 = time.Now()
		c05HistoryDist(res, j, o, &v)
		tDist += time.Since(t0)
		switch v.class {
		case "convert-error":
			st := &o.steps[v.step]
			if v.disagree {
				res.Disagree(hx.Disagreement{Suite: "e2e", Op: "convert " + j.name, Impl: "precompile: " + st.errConv.Error(), Model: "Load: ok",
					Input: c05JobInput(j)})
			}
			res.Dist("e2e:" + kind + ":convert-error")
			if st.errA == nil || firstLine(st.errA.Error()) != "irconv error: "+firstLine(st.errConv.Error()) {
				res.Dist("e2e:" + kind + ":convert-error:" + firstLine(st.errConv.Error()))
			}
		case "all-loads-fail":
			res.Dist("e2e:" + kind + ":both-load-errors")
		case "equal":
			if v.nrep > 0 {
				res.Dist("e2e:" + kind + ":equal-with-reports")
			} else {
				res.Dist("e2e:" + kind + ":equal-no-reports")
			}
			if len(res.Samples) < 6 && (kind == "generated" || kind == "history") {
				res.Sample(map[string]interface{}{"rules": c05JobInput(j), "reports": v.nrep})
			}
		default: // a violation of the property
			res.Dist("e2e:" + kind + ":" + v.class)
			pre := v.sig
			if len(j.files) > 1 {
				pre += ":multi"
			}
			sj, sv := j, v
			if v.class == "load-outcome-differs" || v.class == "groups-differ" || v.class == "reports-differ" {
				if shrunk[pre] >= 2 || v.class == "load-outcome-differs" && shrunk[pre] >= 1 {
					continue // witnesses of this kind were shrunk and classified already
				}
				shrunk[pre]++
				t0 = time.Now()
				sj, sv = c05ShrinkHistory(j, v, shrinkImp, shrinkFset)
				tShrink += time.Since(t0)
				sv.sig += c05InputClass(sj)
			}
			in := c05JobInput(sj)
			in["origin"] = j.name
			if sv.diff != "" {
				in["diff"] = sv.diff
			}
			if v.class == "eval-error" {
				in["printed"] = o.steps[v.step].text
			}
			res.Violate(hx.Violation{Signature: sv.sig, What: sv.what, Input: in, Impl: sv.impl, Spec: sv.spec})
		}
	}
	return files, nil
}

func c05BundleRules(prefix, group string) string {
	return "package gorules\n\nimport (\n\t\"github.com/quasilyte/go-ruleguard/dsl\"\n\tbundle \"verifharness/c05bundle\"\n)\n\n" +
		"func init() {\n\tdsl.ImportRules(" + fmt.Sprintf("%q", prefix) + ", bundle.Bundle)\n}\n\n" +
		"func " + group + "(m dsl.Matcher) {\n\tm.Match(`$x - 0`).Report(`" + group + ": $x minus zero`)\n}\n"
}

// c05JobInput: the recorded input of a history ("file"/"rules" for a single file, as before; "history" otherwise).
func c05JobInput(j *e2eJob) map[string]interface{} {
	if len(j.files) == 1 {
		return map[string]interface{}{"file": j.name, "rules": j.files[0].src}
	}
	var hs []interface{}
	for _, f := range j.files {
		hs = append(hs, map[string]interface{}{"filename": f.filename, "rules": f.src})
	}
	return map[string]interface{}{"file": j.name, "history": hs, "engineA": "Load of every file in order", "engineB": "LoadFromIR of every precompiled file in order"}
}

func firstLine(s string) string {
	if i := strings.IndexByte(s, '\n'); i >= 0 {
		s = s[:i]
	}
	if len(s) > 160 {
		s = s[:160]
	}
	return s
}

func firstDiff(a, b string) string {
	la, lb := strings.Split(a, "\n"), strings.Split(b, "\n")
	for i := 0; i < len(la) || i < len(lb); i++ {
		var x, y string
		if i < len(la) {
			x = la[i]
		}
		if i < len(lb) {
			y = lb[i]
		}
		if x != y {
			return fmt.Sprintf("line %d: %q vs %q", i, x, y)
		}
	}
	return ""
}

// c05SrcImporterFor returns a source importer bound to fset (one per file set: positions of imported
// packages are recorded in it).
func c05SrcImporterFor(fset *token.FileSet) types.Importer {
	return importer.ForCompiler(fset, "source", nil)
}
