package main

// C05 plumbing: ir.File <-> S-expression, go/scanner tokenisation of the printed text, a
// reflection-based evaluator of the printed literal (the Go-side counterpart of SpecC05.evalLit),
// nil/empty normalisation, and the generators of IR values.

import (
	"bytes"
	"fmt"
	"go/ast"
	"go/parser"
	"go/scanner"
	"go/token"
	"math/rand"
	"reflect"
	"strconv"
	"strings"

	"github.com/quasilyte/go-ruleguard/ruleguard/ir"
	"github.com/quasilyte/go-ruleguard/ruleguard/irprint"
	"verifharness/hx"
)

// ---------- S-expression encoding (see lean/Drv/IR.lean) ----------

func nnFlag(isNil bool, n int) string {
	if !isNil && n == 0 {
		return "1"
	}
	return "0"
}

func encVal(v interface{}) (string, bool) {
	switch v := v.(type) {
	case nil:
		return "nil", true
	case string:
		return "(s " + hx.HexS(v) + ")", true
	case int64:
		return fmt.Sprintf("(i %d)", v), true
	}
	return "", false
}

func encFilter(sb *strings.Builder, e *ir.FilterExpr) bool {
	v, ok := encVal(e.Value)
	if !ok || e.Op < 0 {
		return false
	}
	fmt.Fprintf(sb, "(f %d %d %s %s (as %s", e.Line, int(e.Op), hx.HexS(e.Src), v, nnFlag(e.Args == nil, len(e.Args)))
	for i := range e.Args {
		sb.WriteByte(' ')
		if !encFilter(sb, &e.Args[i]) {
			return false
		}
	}
	sb.WriteString("))")
	return true
}

func encPatterns(sb *strings.Builder, ps []ir.PatternString) {
	fmt.Fprintf(sb, "(ps %s", nnFlag(ps == nil, len(ps)))
	for _, p := range ps {
		fmt.Fprintf(sb, " (p %d %s)", p.Line, hx.HexS(p.Value))
	}
	sb.WriteString(")")
}

// encFile returns the S-expression of f; ok=false when f is outside the mirror (a Value of
// another dynamic type, a negative op).
func encFile(f *ir.File) (string, bool) {
	var sb strings.Builder
	fmt.Fprintf(&sb, "(file %s (gs %s", hx.HexS(f.PkgPath), nnFlag(f.RuleGroups == nil, len(f.RuleGroups)))
	for gi := range f.RuleGroups {
		g := &f.RuleGroups[gi]
		fmt.Fprintf(&sb, " (g %d %s %s (ts %s", g.Line, hx.HexS(g.Name), hx.HexS(g.MatcherName), nnFlag(g.DocTags == nil, len(g.DocTags)))
		for _, t := range g.DocTags {
			sb.WriteString(" " + hx.HexS(t))
		}
		fmt.Fprintf(&sb, ") %s %s %s %s (is %s", hx.HexS(g.DocSummary), hx.HexS(g.DocBefore), hx.HexS(g.DocAfter), hx.HexS(g.DocNote),
			nnFlag(g.Imports == nil, len(g.Imports)))
		for _, im := range g.Imports {
			fmt.Fprintf(&sb, " (i %s %s)", hx.HexS(im.Path), hx.HexS(im.Name))
		}
		fmt.Fprintf(&sb, ") (rs %s", nnFlag(g.Rules == nil, len(g.Rules)))
		for ri := range g.Rules {
			r := &g.Rules[ri]
			fmt.Fprintf(&sb, " (r %d ", r.Line)
			encPatterns(&sb, r.SyntaxPatterns)
			sb.WriteByte(' ')
			encPatterns(&sb, r.CommentPatterns)
			fmt.Fprintf(&sb, " %s %s %s ", hx.HexS(r.ReportTemplate), hx.HexS(r.SuggestTemplate), hx.HexS(r.DoFuncName))
			if !encFilter(&sb, &r.WhereExpr) {
				return "", false
			}
			fmt.Fprintf(&sb, " %s)", hx.HexS(r.LocationVar))
		}
		sb.WriteString("))")
	}
	fmt.Fprintf(&sb, ") (ds %s", nnFlag(f.CustomDecls == nil, len(f.CustomDecls)))
	for _, d := range f.CustomDecls {
		sb.WriteString(" " + hx.HexS(d))
	}
	fmt.Fprintf(&sb, ") (bs %s", nnFlag(f.BundleImports == nil, len(f.BundleImports)))
	for _, b := range f.BundleImports {
		fmt.Fprintf(&sb, " (b %d %s %s)", b.Line, hx.HexS(b.PkgPath), hx.HexS(b.Prefix))
	}
	sb.WriteString("))")
	return sb.String(), true
}

// ---------- running the real printer ----------

// printIR runs irprint.File; a panic is canonicalised ("panic assert", …).  irprint prints the
// unformatted buffer to stdout before panicking when format.Source fails: that case is reported
// as "panic explicit" like any other explicit panic.
func printIR(f *ir.File) (text string, res string) {
	var buf bytes.Buffer
	res = hx.Safe(func() string {
		irprint.File(&buf, f)
		return "ok"
	})
	return buf.String(), res
}

// tokenize turns Go text into the token fields of the line protocol.  Automatically inserted
// semicolons are dropped; anything outside the literal subset becomes `x:<token>`.
func tokenize(src string) ([]string, error) {
	fset := token.NewFileSet()
	file := fset.AddFile("ir.go", -1, len(src))
	var s scanner.Scanner
	var errs []string
	s.Init(file, []byte(src), func(pos token.Position, msg string) { errs = append(errs, msg) }, 0)
	var out []string
	for {
		_, tok, lit := s.Scan()
		if tok == token.EOF {
			break
		}
		switch tok {
		case token.SEMICOLON:
			if lit == "\n" {
				continue
			}
			out = append(out, "x:;")
		case token.IDENT:
			out = append(out, "id:"+lit)
		case token.STRING:
			v, err := strconv.Unquote(lit)
			if err != nil {
				return nil, fmt.Errorf("unquote %s: %v", lit, err)
			}
			out = append(out, "s:"+hx.HexS(v))
		case token.INT:
			dec := true
			for _, c := range lit {
				if c < '0' || c > '9' {
					dec = false
				}
			}
			if dec && (len(lit) == 1 || lit[0] != '0') {
				out = append(out, "n:"+lit)
			} else {
				out = append(out, "x:"+lit)
			}
		case token.LBRACE:
			out = append(out, "{")
		case token.RBRACE:
			out = append(out, "}")
		case token.LBRACK:
			out = append(out, "[")
		case token.RBRACK:
			out = append(out, "]")
		case token.LPAREN:
			out = append(out, "(")
		case token.RPAREN:
			out = append(out, ")")
		case token.COLON:
			out = append(out, ":")
		case token.COMMA:
			out = append(out, ",")
		case token.PERIOD:
			out = append(out, ".")
		case token.SUB:
			out = append(out, "-")
		default:
			t := tok.String()
			if lit != "" {
				t = lit
			}
			out = append(out, "x:"+strings.ReplaceAll(t, " ", "_"))
		}
	}
	if len(errs) > 0 {
		return nil, fmt.Errorf("scanner: %s", strings.Join(errs, "; "))
	}
	return out, nil
}

// renderTokens is the inverse of tokenize for the literal subset (used for mutated streams).
func renderTokens(toks []string) string {
	var sb strings.Builder
	for _, t := range toks {
		switch {
		case strings.HasPrefix(t, "id:"):
			sb.WriteString(t[3:])
		case strings.HasPrefix(t, "s:"):
			sb.WriteString(strconv.Quote(string(hx.UnHex(t[2:]))))
		case strings.HasPrefix(t, "n:"):
			sb.WriteString(t[2:])
		case strings.HasPrefix(t, "x:"):
			sb.WriteString(t[2:])
		default:
			sb.WriteString(t)
		}
		sb.WriteByte(' ')
	}
	return sb.String()
}

// ---------- the reflection-based evaluator (Go side of SpecC05.evalLit) ----------

var filterOpConsts map[string]int // FilterXOp -> number (from filter_op.gen.go)

func loadFilterOpConsts() error {
	if filterOpConsts != nil {
		return nil
	}
	rows, err := readFilterOps()
	if err != nil {
		return err
	}
	filterOpConsts = map[string]int{}
	for _, r := range rows {
		filterOpConsts["Filter"+r.Name+"Op"] = r.Num
	}
	return nil
}

type evalErr struct{ msg string }

func (e evalErr) Error() string { return e.msg }

func evalFail(format string, a ...interface{}) { panic(evalErr{fmt.Sprintf(format, a...)}) }

// typeMatches: does the type expression te denote t?
func typeMatches(te ast.Expr, t reflect.Type) bool {
	switch te := te.(type) {
	case *ast.ArrayType:
		return te.Len == nil && t.Kind() == reflect.Slice && typeMatches(te.Elt, t.Elem())
	case *ast.SelectorExpr:
		x, ok := te.X.(*ast.Ident)
		return ok && x.Name == "ir" && t.PkgPath() == "github.com/quasilyte/go-ruleguard/ruleguard/ir" && t.Name() == te.Sel.Name
	case *ast.Ident:
		return t.PkgPath() == "" && t.Name() == te.Name && t.Kind() != reflect.Interface
	}
	return false
}

func evalInt(e ast.Expr) (int64, bool) {
	neg := false
	if u, ok := e.(*ast.UnaryExpr); ok && u.Op == token.SUB {
		neg = true
		e = u.X
	}
	bl, ok := e.(*ast.BasicLit)
	if !ok || bl.Kind != token.INT {
		return 0, false
	}
	u, err := strconv.ParseUint(bl.Value, 10, 64)
	if err != nil {
		evalFail("integer %s out of range", bl.Value)
	}
	if neg {
		if u > 1<<63 {
			evalFail("integer -%s out of range", bl.Value)
		}
		return -int64(u), true
	}
	if u > 1<<63-1 {
		evalFail("integer %s out of range", bl.Value)
	}
	return int64(u), true
}

// evalExpr evaluates e as a value of type t (elided: a composite literal may omit its type).
func evalExpr(e ast.Expr, t reflect.Type, elided bool) reflect.Value {
	out := reflect.New(t).Elem()
	switch {
	case t.Name() == "FilterOp":
		sel, ok := e.(*ast.SelectorExpr)
		if !ok {
			evalFail("FilterOp: not a qualified constant")
		}
		x, ok := sel.X.(*ast.Ident)
		if !ok || x.Name != "ir" {
			evalFail("FilterOp: not an ir constant")
		}
		n, ok := filterOpConsts[sel.Sel.Name]
		if !ok {
			evalFail("undefined: ir.%s", sel.Sel.Name)
		}
		out.SetInt(int64(n))
	case t.Kind() == reflect.String:
		bl, ok := e.(*ast.BasicLit)
		if !ok || bl.Kind != token.STRING {
			evalFail("string field: not a string literal")
		}
		s, err := strconv.Unquote(bl.Value)
		if err != nil {
			evalFail("unquote: %v", err)
		}
		out.SetString(s)
	case t.Kind() == reflect.Int:
		n, ok := evalInt(e)
		if !ok {
			evalFail("int field: not an integer literal")
		}
		out.SetInt(n)
	case t.Kind() == reflect.Interface:
		switch e := e.(type) {
		case *ast.BasicLit:
			if e.Kind != token.STRING {
				evalFail("interface field: only string constants and int64(n) are mirrored")
			}
			s, err := strconv.Unquote(e.Value)
			if err != nil {
				evalFail("unquote: %v", err)
			}
			out.Set(reflect.ValueOf(s))
		case *ast.CallExpr:
			fn, ok := e.Fun.(*ast.Ident)
			if !ok || fn.Name != "int64" || len(e.Args) != 1 || e.Ellipsis.IsValid() {
				evalFail("interface field: unsupported call")
			}
			n, ok := evalInt(e.Args[0])
			if !ok {
				evalFail("int64(): not an integer literal")
			}
			out.Set(reflect.ValueOf(n))
		default:
			evalFail("interface field: unsupported expression %T", e)
		}
	case t.Kind() == reflect.Struct:
		cl, ok := e.(*ast.CompositeLit)
		if !ok {
			evalFail("struct %s: not a composite literal", t)
		}
		if cl.Type == nil {
			if !elided {
				evalFail("struct %s: missing type", t)
			}
		} else if !typeMatches(cl.Type, t) {
			evalFail("struct %s: literal of another type", t)
		}
		seen := map[string]bool{}
		for _, el := range cl.Elts {
			kv, ok := el.(*ast.KeyValueExpr)
			if !ok {
				evalFail("struct %s: positional element", t)
			}
			k, ok := kv.Key.(*ast.Ident)
			if !ok {
				evalFail("struct %s: key is not a field name", t)
			}
			if seen[k.Name] {
				evalFail("struct %s: duplicate field %s", t, k.Name)
			}
			seen[k.Name] = true
			sf, ok := t.FieldByName(k.Name)
			if !ok {
				evalFail("struct %s: unknown field %s", t, k.Name)
			}
			out.FieldByIndex(sf.Index).Set(evalExpr(kv.Value, sf.Type, false))
		}
	case t.Kind() == reflect.Slice:
		cl, ok := e.(*ast.CompositeLit)
		if !ok {
			evalFail("slice %s: not a composite literal", t)
		}
		if cl.Type == nil || !typeMatches(cl.Type, t) {
			evalFail("slice %s: missing or different type", t)
		}
		s := reflect.MakeSlice(t, len(cl.Elts), len(cl.Elts))
		for i, el := range cl.Elts {
			if _, ok := el.(*ast.KeyValueExpr); ok {
				evalFail("slice %s: keyed element", t)
			}
			s.Index(i).Set(evalExpr(el, t.Elem(), true))
		}
		out.Set(s)
	default:
		evalFail("unsupported type %s", t)
	}
	return out
}

// evalIRText parses text as one Go expression and evaluates it as an ir.File.
func evalIRText(text string) (f *ir.File, err error) {
	e, perr := parser.ParseExpr(text)
	if perr != nil {
		return nil, perr
	}
	defer func() {
		if r := recover(); r != nil {
			if ee, ok := r.(evalErr); ok {
				f, err = nil, ee
				return
			}
			panic(r)
		}
	}()
	v := evalExpr(e, reflect.TypeOf(ir.File{}), false)
	out := v.Interface().(ir.File)
	return &out, nil
}

// normalizeNil returns a deep copy of v in which every empty slice is nil.
func normalizeNil(v reflect.Value) reflect.Value {
	switch v.Kind() {
	case reflect.Slice:
		if v.Len() == 0 {
			return reflect.Zero(v.Type())
		}
		out := reflect.MakeSlice(v.Type(), v.Len(), v.Len())
		for i := 0; i < v.Len(); i++ {
			out.Index(i).Set(normalizeNil(v.Index(i)))
		}
		return out
	case reflect.Struct:
		out := reflect.New(v.Type()).Elem()
		for i := 0; i < v.NumField(); i++ {
			out.Field(i).Set(normalizeNil(v.Field(i)))
		}
		return out
	case reflect.Interface:
		return v
	}
	return v
}

func normalizeFile(f *ir.File) *ir.File {
	out := normalizeNil(reflect.ValueOf(*f)).Interface().(ir.File)
	return &out
}

// ---------- generators ----------

var c05Strings = []string{
	"", "a", "x", "$x", "$$", "m", "fmt", "io.Reader", "x y", "tab\there", "new\nline", `quo"te`, "back`tick", `back\slash`,
	"\x00", "\xff\xfe", "日本語", "'", `"`, " ", "\r", "a/b", "github.com/x/y", "$x.String()", "f($*args)", "1.18", "^foo$",
	"// comment", "}", "{", ",", "ir.File{}", "int64(1)", strings.Repeat("long", 40),
	// line breaks of every kind, alone and inside text (a printer that chooses between quoted and raw literals must not lose them)
	"\r\n", "a\r\nb", "line1\r\nline2\r\n", "mixed\n\rorder", "x\ry", "two\n\nlines", "\n", "trailing\n", "\tindented\r\n\ttext", "quo\"te\r\nand `tick`",
}

var c05Ints = []int{0, 1, 2, 3, -1, 7, 10, 42, 100, 4095, -7, 1 << 31, -(1 << 31), 1<<63 - 1, -1 << 63}

func c05Pick(r *rand.Rand, xs []string) string { return xs[r.Intn(len(xs))] }

func genStr(r *rand.Rand, nonEmpty bool) string {
	for {
		var s string
		switch r.Intn(10) {
		case 0:
			// random bytes
			n := r.Intn(6)
			b := make([]byte, n)
			for i := range b {
				b[i] = byte(r.Intn(256))
			}
			s = string(b)
		case 1, 2:
			s = ""
		default:
			s = c05Pick(r, c05Strings)
		}
		if s != "" || !nonEmpty {
			return s
		}
	}
}

func genInt(r *rand.Rand, nonZero bool) int {
	for {
		var n int
		switch r.Intn(4) {
		case 0:
			n = c05Ints[r.Intn(len(c05Ints))]
		case 1:
			n = 0
		default:
			n = 1 + r.Intn(300)
		}
		if n != 0 || !nonZero {
			return n
		}
	}
}

// irGenMode selects the stream.
type irGenMode int

const (
	genValid     irGenMode = iota // inside the schema, no zero-valued slice elements, no bundle imports
	genBundle                     // genValid + bundle imports
	genZeroElems                  // inside the schema, slices may hold zero-valued elements
	genMalformed                  // outside the schema: numbers without a name, wrong Value types, Args on leaves
)

type irGen struct {
	r    *rand.Rand
	mode irGenMode
	ops  []filterOpRow
	res  *hx.Result
}

// emptyOrNil returns (use nil?, use empty-non-nil?) for a slice that is going to be empty.
func (g *irGen) emptyNonNil() bool { return g.r.Intn(3) == 0 }

func (g *irGen) zeroElem() bool { return g.mode == genZeroElems && g.r.Intn(4) == 0 }

func (g *irGen) filter(depth int) ir.FilterExpr {
	r := g.r
	if g.zeroElem() {
		g.res.Dist("ir:zero-filter-elem")
		return ir.FilterExpr{}
	}
	row := g.ops[1+r.Intn(len(g.ops)-1)] // never Invalid here
	e := ir.FilterExpr{Op: ir.FilterOp(row.Num)}
	if r.Intn(8) != 0 {
		e.Line = genInt(r, false)
	}
	if r.Intn(4) != 0 {
		e.Src = genStr(r, false)
	}
	name := row.Name
	bin := row.Flags&1 != 0
	strArg := func() ir.FilterExpr {
		a := ir.FilterExpr{Op: ir.FilterOp(filterOpConsts["FilterStringOp"]), Value: genStr(r, false)}
		if r.Intn(2) == 0 {
			a.Line = genInt(r, false)
		}
		if r.Intn(2) == 0 {
			a.Src = genStr(r, false)
		}
		return a
	}
	sub := func() ir.FilterExpr {
		if depth <= 0 {
			leaf := []string{"FilterVarPureOp", "FilterVarTextOp", "FilterVarLineOp", "FilterDeadcodeOp", "FilterStringOp", "FilterIntOp", "FilterVarConstOp"}
			c := leaf[r.Intn(len(leaf))]
			x := ir.FilterExpr{Op: ir.FilterOp(filterOpConsts[c]), Line: genInt(r, false), Src: genStr(r, false)}
			switch c {
			case "FilterIntOp":
				x.Value = int64(c05Ints[r.Intn(len(c05Ints))])
			case "FilterDeadcodeOp":
			default:
				x.Value = genStr(r, false)
			}
			return x
		}
		return g.filter(depth - 1)
	}
	switch {
	case name == "Not":
		e.Args = []ir.FilterExpr{sub()}
	case bin:
		e.Args = []ir.FilterExpr{sub(), sub()}
	case name == "Int":
		e.Value = int64(c05Ints[r.Intn(len(c05Ints))])
		if r.Intn(3) == 0 {
			e.Value = int64(r.Intn(2000) - 1000)
		}
	case name == "String" || name == "FilterFuncRef":
		e.Value = genStr(r, false)
	case name == "Deadcode":
	case name == "RootNodeParentIs":
		e.Args = []ir.FilterExpr{strArg()}
	case name == "RootSinkTypeIs":
		e.Value = "$$"
		e.Args = []ir.FilterExpr{strArg()}
	case strings.HasPrefix(name, "GoVersion") || strings.HasPrefix(name, "File"):
		e.Value = genStr(r, false)
	case row.Flags&4 != 0: // HasVar
		e.Value = genStr(r, false)
		switch name {
		case "VarAddressable", "VarComparable", "VarPure", "VarConst", "VarConstSlice", "VarText", "VarLine",
			"VarTypeSize", "VarTypeHasPointers", "VarObjectIsGlobal", "VarObjectIsVariadicParam":
			// leaves
		case "VarValueInt":
			if r.Intn(2) == 0 {
				e.Args = nil
			} else {
				e.Args = []ir.FilterExpr{}
			}
		case "VarFilter":
			e.Args = []ir.FilterExpr{{Op: ir.FilterOp(filterOpConsts["FilterFilterFuncRefOp"]), Value: genStr(r, true)}}
		default:
			e.Args = []ir.FilterExpr{strArg()}
		}
	default:
		e.Value = genStr(r, false)
	}
	compact := name == "String" || name == "VarPure" || name == "VarText"
	if e.Args == nil && !compact && r.Intn(6) == 0 {
		e.Args = []ir.FilterExpr{} // empty, non-nil
		g.res.Dist("ir:args-empty-nonnil")
	}
	if g.mode == genMalformed {
		switch r.Intn(7) {
		case 0: // a number without a name
			e.Op = ir.FilterOp(len(g.ops) + r.Intn(5))
			g.res.Dist("ir:malformed:op-without-name")
		case 1: // wrong Value type on a one-line op
			e.Op = ir.FilterOp(filterOpConsts[[]string{"FilterStringOp", "FilterVarPureOp", "FilterVarTextOp"}[r.Intn(3)]])
			if r.Intn(2) == 0 {
				e.Value = nil
			} else {
				e.Value = int64(r.Intn(9))
			}
			e.Args = nil
			g.res.Dist("ir:malformed:one-line-op-nonstring-value")
		case 2: // Args on a one-line op
			e.Op = ir.FilterOp(filterOpConsts[[]string{"FilterStringOp", "FilterVarPureOp", "FilterVarTextOp"}[r.Intn(3)]])
			e.Value = genStr(r, false)
			if r.Intn(3) == 0 {
				e.Args = []ir.FilterExpr{}
			} else {
				e.Args = []ir.FilterExpr{strArg()}
			}
			g.res.Dist("ir:malformed:one-line-op-with-args")
		case 3: // Invalid op with content
			e.Op = 0
			g.res.Dist("ir:malformed:invalid-op-with-content")
		}
	}
	g.res.Dist("ir:op:" + ir.FilterOp(e.Op).String())
	switch e.Value.(type) {
	case nil:
		g.res.Dist("ir:value:nil")
	case string:
		if e.Value.(string) == "" {
			g.res.Dist("ir:value:empty-string")
		} else {
			g.res.Dist("ir:value:string")
		}
	case int64:
		switch v := e.Value.(int64); {
		case v == 0:
			g.res.Dist("ir:value:int64-zero")
		case v < 0:
			g.res.Dist("ir:value:int64-negative")
		default:
			g.res.Dist("ir:value:int64-positive")
		}
	}
	return e
}

func (g *irGen) patterns() []ir.PatternString {
	r := g.r
	n := []int{0, 1, 1, 1, 2, 3, 5}[r.Intn(7)]
	if n == 0 {
		if g.emptyNonNil() {
			return []ir.PatternString{}
		}
		return nil
	}
	out := make([]ir.PatternString, n)
	for i := range out {
		if g.zeroElem() {
			g.res.Dist("ir:zero-pattern-elem")
			continue
		}
		out[i] = ir.PatternString{Line: genInt(r, false), Value: genStr(r, false)}
		if out[i].Line == 0 && out[i].Value == "" && g.mode != genZeroElems {
			out[i].Line = 1
		}
	}
	return out
}

func (g *irGen) rule() ir.Rule {
	r := g.r
	if g.zeroElem() {
		g.res.Dist("ir:zero-rule-elem")
		return ir.Rule{}
	}
	ru := ir.Rule{Line: genInt(r, false)}
	if r.Intn(4) != 0 {
		ru.SyntaxPatterns = g.patterns()
	} else {
		ru.CommentPatterns = g.patterns()
	}
	if r.Intn(8) == 0 {
		ru.CommentPatterns = g.patterns()
	}
	switch r.Intn(4) {
	case 0:
		ru.DoFuncName = genStr(r, true)
	case 1:
		ru.SuggestTemplate = genStr(r, false)
		ru.ReportTemplate = "suggestion: " + ru.SuggestTemplate
	case 2:
		ru.ReportTemplate = genStr(r, false)
		ru.SuggestTemplate = genStr(r, false)
	default:
		ru.ReportTemplate = genStr(r, false)
	}
	if r.Intn(3) != 0 {
		ru.WhereExpr = g.filter(r.Intn(4))
		// a zero WhereExpr means "no filter" in every mode
	}
	if r.Intn(4) == 0 {
		ru.LocationVar = genStr(r, false)
	}
	if reflect.ValueOf(ru).IsZero() && g.mode != genZeroElems {
		ru.Line = 1
	}
	return ru
}

func (g *irGen) group() ir.RuleGroup {
	r := g.r
	if g.zeroElem() {
		g.res.Dist("ir:zero-group-elem")
		return ir.RuleGroup{}
	}
	gr := ir.RuleGroup{Line: genInt(r, false), Name: genStr(r, false), MatcherName: genStr(r, false)}
	switch r.Intn(5) {
	case 0:
		gr.DocTags = []string{}
		g.res.Dist("ir:doctags-empty-nonnil")
	case 1, 2:
		n := 1 + r.Intn(6)
		for i := 0; i < n; i++ {
			if g.zeroElem() {
				g.res.Dist("ir:zero-string-elem")
				gr.DocTags = append(gr.DocTags, "")
			} else {
				gr.DocTags = append(gr.DocTags, genStr(r, true))
			}
		}
	}
	if r.Intn(2) == 0 {
		gr.DocSummary = genStr(r, false)
	}
	if r.Intn(3) == 0 {
		gr.DocBefore = genStr(r, false)
		gr.DocAfter = genStr(r, false)
	}
	if r.Intn(4) == 0 {
		gr.DocNote = genStr(r, false)
	}
	switch r.Intn(4) {
	case 0:
		n := 1 + r.Intn(3)
		for i := 0; i < n; i++ {
			if g.zeroElem() {
				g.res.Dist("ir:zero-import-elem")
				gr.Imports = append(gr.Imports, ir.PackageImport{})
				continue
			}
			im := ir.PackageImport{Path: genStr(r, false), Name: genStr(r, false)}
			if im.Path == "" && im.Name == "" {
				im.Name = "."
			}
			gr.Imports = append(gr.Imports, im)
		}
	case 1:
		if g.emptyNonNil() {
			gr.Imports = []ir.PackageImport{}
		}
	}
	n := []int{0, 1, 1, 2, 3}[r.Intn(5)]
	if n == 0 && g.emptyNonNil() {
		gr.Rules = []ir.Rule{}
	}
	for i := 0; i < n; i++ {
		gr.Rules = append(gr.Rules, g.rule())
	}
	if reflect.ValueOf(gr).IsZero() && g.mode != genZeroElems {
		gr.Line = 1
	}
	return gr
}

func (g *irGen) file() *ir.File {
	r := g.r
	f := &ir.File{PkgPath: genStr(r, false)}
	if r.Intn(3) != 0 {
		f.PkgPath = "gorules"
	}
	n := []int{0, 1, 1, 1, 2, 3}[r.Intn(6)]
	if n == 0 && g.emptyNonNil() {
		f.RuleGroups = []ir.RuleGroup{}
	}
	for i := 0; i < n; i++ {
		f.RuleGroups = append(f.RuleGroups, g.group())
	}
	switch r.Intn(4) {
	case 0:
		f.CustomDecls = []string{}
	case 1:
		m := 1 + r.Intn(5)
		for i := 0; i < m; i++ {
			f.CustomDecls = append(f.CustomDecls, genStr(r, false)) // hand-printed: "" is kept
		}
	}
	if g.mode == genBundle {
		m := 1 + r.Intn(3)
		for i := 0; i < m; i++ {
			f.BundleImports = append(f.BundleImports, ir.BundleImport{Line: genInt(r, false), PkgPath: genStr(r, false), Prefix: genStr(r, false)})
		}
		g.res.Dist("ir:bundle-imports")
	} else if r.Intn(5) == 0 {
		f.BundleImports = []ir.BundleImport{}
	}
	return f
}
