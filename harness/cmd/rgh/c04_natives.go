package main

// Part 2 of C04: the dsl/types helper API available inside custom filters and Do functions returns
// what the corresponding go/types operation returns.  Differential only (the natives are opaque in
// the bytecode model): custom filters written with the API vs (a) an oracle the harness computes with
// go/types itself and (b) the built-in predicate each one mirrors.  Called by runC04.

import (
	"fmt"
	"go/ast"
	"go/types"
	"runtime"
	"sort"
	"strings"

	"verifharness/hx"
)

type c04Mirror struct {
	name    string
	body    string                                  // body of `func <name>(ctx *dsl.VarFilterContext) bool`
	builtin string                                  // mirrored built-in predicate over m["x"] ("" = none)
	oracle  func(t types.Type, tg *hx.Target) bool  // go/types says
}

func c04Named(tg *hx.Target, name string) types.Type {
	if obj := tg.Pkg.Scope().Lookup(name); obj != nil {
		return obj.Type()
	}
	return types.Universe.Lookup(name).Type()
}

var c04Mirrors = []c04Mirror{
	{"implErr", `return types.Implements(ctx.Type, ctx.GetInterface("error"))`, `m["x"].Type.Implements("error")`,
		func(t types.Type, tg *hx.Target) bool {
			return types.Implements(t, types.Universe.Lookup("error").Type().Underlying().(*types.Interface))
		}},
	{"isIntSlice", `return types.Identical(ctx.Type, types.NewSlice(ctx.GetType("int")))`, `m["x"].Type.Is("[]int")`,
		func(t types.Type, tg *hx.Target) bool { return types.Identical(t, types.NewSlice(types.Typ[types.Int])) }},
	{"isIntPtr", `return types.Identical(ctx.Type, types.NewPointer(ctx.GetType("int")))`, `m["x"].Type.Is("*int")`,
		func(t types.Type, tg *hx.Target) bool { return types.Identical(t, types.NewPointer(types.Typ[types.Int])) }},
	{"isArr3", `return types.Identical(ctx.Type, types.NewArray(ctx.GetType("int"), 3))`, `m["x"].Type.Is("[3]int")`,
		func(t types.Type, tg *hx.Target) bool { return types.Identical(t, types.NewArray(types.Typ[types.Int], 3)) }},
	{"isStruct", `return types.AsStruct(ctx.Type.Underlying()) != nil`, `m["x"].Type.Underlying().Is("struct{$*_}")`,
		func(t types.Type, tg *hx.Target) bool { _, ok := t.Underlying().(*types.Struct); return ok }},
	{"isPtr", `return types.AsPointer(ctx.Type) != nil`, `m["x"].Type.Is("*$_")`,
		func(t types.Type, tg *hx.Target) bool { _, ok := t.(*types.Pointer); return ok }},
	{"isSliceU", `return types.AsSlice(ctx.Type.Underlying()) != nil`, `m["x"].Type.Underlying().Is("[]$_")`,
		func(t types.Type, tg *hx.Target) bool { _, ok := t.Underlying().(*types.Slice); return ok }},
	{"isArrayU", `return types.AsArray(ctx.Type.Underlying()) != nil`, `m["x"].Type.Underlying().Is("[$_]$_")`,
		func(t types.Type, tg *hx.Target) bool { _, ok := t.Underlying().(*types.Array); return ok }},
	{"isIface", `return types.AsInterface(ctx.Type.Underlying()) != nil`, ``,
		func(t types.Type, tg *hx.Target) bool { _, ok := t.Underlying().(*types.Interface); return ok }},
	{"size8", `return ctx.SizeOf(ctx.Type) == 8`, `m["x"].Type.Size == 8`,
		func(t types.Type, tg *hx.Target) bool { return sizeOfOracle(t) == 8 }},
	{"sizeGe16", `return ctx.SizeOf(ctx.Type) >= 16`, `m["x"].Type.Size >= 16`,
		func(t types.Type, tg *hx.Target) bool { return sizeOfOracle(t) >= 16 }},
	{"elemIsString", `s := types.AsSlice(ctx.Type.Underlying()); return s != nil && types.Identical(s.Elem(), ctx.GetType("string"))`, `m["x"].Type.Underlying().Is("[]string")`,
		func(t types.Type, tg *hx.Target) bool {
			s, ok := t.Underlying().(*types.Slice)
			return ok && types.Identical(s.Elem(), types.Typ[types.String])
		}},
	{"arrLen3", `a := types.AsArray(ctx.Type.Underlying()); return a != nil && a.Len() == 3`, ``,
		func(t types.Type, tg *hx.Target) bool { a, ok := t.Underlying().(*types.Array); return ok && a.Len() == 3 }},
	{"ptrToStruct", `p := types.AsPointer(ctx.Type); return p != nil && types.AsStruct(p.Elem().Underlying()) != nil`, `m["x"].Type.Is("*$t") && !m["x"].Type.Is("*int")`,
		func(t types.Type, tg *hx.Target) bool {
			p, ok := t.(*types.Pointer)
			if !ok {
				return false
			}
			_, ok = p.Elem().Underlying().(*types.Struct)
			return ok
		}},
	{"twoFields", `s := types.AsStruct(ctx.Type.Underlying()); return s != nil && s.NumFields() == 2`, ``,
		func(t types.Type, tg *hx.Target) bool { s, ok := t.Underlying().(*types.Struct); return ok && s.NumFields() == 2 }},
	{"firstFieldInt", `s := types.AsStruct(ctx.Type.Underlying()); return s != nil && s.NumFields() > 0 && types.Identical(s.Field(0).Type(), ctx.GetType("int"))`, ``,
		func(t types.Type, tg *hx.Target) bool {
			s, ok := t.Underlying().(*types.Struct)
			return ok && s.NumFields() > 0 && types.Identical(s.Field(0).Type(), types.Typ[types.Int])
		}},
	{"firstEmbedded", `s := types.AsStruct(ctx.Type.Underlying()); return s != nil && s.NumFields() > 0 && s.Field(0).Embedded()`, ``,
		func(t types.Type, tg *hx.Target) bool {
			s, ok := t.Underlying().(*types.Struct)
			return ok && s.NumFields() > 0 && s.Field(0).Embedded()
		}},
	{"identLocalNamed", `return types.Identical(ctx.Type, ctx.GetType("error"))`, `m["x"].Type.Is("error")`,
		func(t types.Type, tg *hx.Target) bool { return types.Identical(t, types.Universe.Lookup("error").Type()) }},
	{"typeString", `return ctx.Type.String() == "[]string"`, ``,
		func(t types.Type, tg *hx.Target) bool { return t.String() == "[]string" }},
}

func sizeOfOracle(t types.Type) int64 {
	if b, ok := t.(*types.Basic); ok && b.Info()&types.IsUntyped != 0 {
		t = types.Default(t)
		if b, ok := t.(*types.Basic); ok && b.Info()&types.IsUntyped != 0 {
			return 0
		}
	}
	return types.SizesFor("gc", runtime.GOARCH).Sizeof(t)
}

const c04NativesTarget = `package p

type S2 struct{ a, b int }
type S1 struct{ s string }
type E struct {
	S2
	x int
}
type MyErr struct{}

func (MyErr) Error() string { return "" }

type Strs []string
type A3 [3]int
type I interface{ M() }

func probe(interface{}) {}

func f(i int, s string, is []int, ss []string, st Strs, a3 A3, arr [3]int, arr4 [4]int, pi *int, ps *S2, s2 S2, s1 S1, e E,
	err error, me MyErr, pme *MyErr, ii I, any interface{}, f64 float64, u8 uint8, m map[string]int, ch chan int, fn func()) {
	probe(i)
	probe(s)
	probe(is)
	probe(ss)
	probe(st)
	probe(a3)
	probe(arr)
	probe(arr4)
	probe(pi)
	probe(ps)
	probe(s2)
	probe(s1)
	probe(e)
	probe(err)
	probe(me)
	probe(pme)
	probe(ii)
	probe(any)
	probe(f64)
	probe(u8)
	probe(m)
	probe(ch)
	probe(fn)
	probe(&s2)
	probe([]int{1})
	probe([3]int{})
	probe(struct{ p, q int }{})
	probe("lit")
	probe(42)
	probe(i + 1)
	probe(nil)
}
`

// c04Natives runs the mirror suite; violations carry signature `natives:<mirror>`.
func c04Natives(c *Ctx) error {
	res := c.Res
	tg, err := hx.ParseTarget("c04n.go", c04NativesTarget)
	if err != nil {
		return fmt.Errorf("natives target: %v", err)
	}
	// probe sites in order
	type site struct {
		text string
		typ  types.Type
		pos  int
	}
	var sites []site
	ast.Inspect(tg.File, func(n ast.Node) bool {
		call, ok := n.(*ast.CallExpr)
		if !ok {
			return true
		}
		if id, ok := call.Fun.(*ast.Ident); !ok || id.Name != "probe" || len(call.Args) != 1 {
			return true
		}
		arg := call.Args[0]
		from, to := tg.Fset.Position(arg.Pos()).Offset, tg.Fset.Position(arg.End()).Offset
		sites = append(sites, site{text: string(tg.Src[from:to]), typ: tg.Info.TypeOf(arg), pos: tg.Fset.Position(call.Pos()).Offset})
		return true
	})
	// one engine per rule: the first accepting rule wins per node across all groups of an engine
	header := "package gorules\n\nimport (\n\t\"github.com/quasilyte/go-ruleguard/dsl\"\n\t\"github.com/quasilyte/go-ruleguard/dsl/types\"\n)\n\nvar _ = types.Identical\n\n"
	got := map[string]map[int]bool{} // message -> set of site positions
	describe := map[int]string{}
	runOne := func(decl, rule string) error {
		full := header + decl + "func g(m dsl.Matcher) {\n\t" + rule + "\n}\n"
		e, lerr := hx.LoadRules(full)
		if lerr != nil {
			return fmt.Errorf("natives rules do not load: %v\n%s", lerr, full)
		}
		rs, pk, frame, rerr := hx.Run(e, tg, hx.RunOpts{})
		if rerr != nil {
			return rerr
		}
		if pk != "" {
			res.Violate(hx.Violation{Signature: "natives:run-" + pk + "@" + frame, What: "Run panics in the dsl/types API", Input: map[string]interface{}{"rules": full}, Impl: pk, Spec: "reports"})
			return nil
		}
		for _, r := range rs {
			if strings.Contains(r.Message, " :: ") {
				describe[r.Pos] = r.Message
				continue
			}
			if got[r.Message] == nil {
				got[r.Message] = map[int]bool{}
			}
			got[r.Message][r.Pos] = true
		}
		return nil
	}
	for _, m := range c04Mirrors {
		decl := fmt.Sprintf("func %s(ctx *dsl.VarFilterContext) bool {\n\t%s\n}\n\n", m.name, strings.ReplaceAll(m.body, "; ", "\n\t"))
		if err := runOne(decl, fmt.Sprintf("m.Match(`probe($x)`).Where(m[\"x\"].Filter(%s)).Report(\"custom %s\")", m.name, m.name)); err != nil {
			return err
		}
		if m.builtin != "" {
			if err := runOne("", fmt.Sprintf("m.Match(`probe($x)`).Where(%s).Report(\"builtin %s\")", m.builtin, m.name)); err != nil {
				return err
			}
		}
	}
	if err := runOne("func describe(ctx *dsl.DoContext) {\n\tctx.SetReport(ctx.Var(\"x\").Text() + \" :: \" + ctx.Var(\"x\").Type().String())\n}\n\n", "m.Match(`probe($x)`).Do(describe)"); err != nil {
		return err
	}
	for _, m := range c04Mirrors {
		for _, s := range sites {
			want := m.oracle(s.typ, tg)
			have := got["custom "+m.name][s.pos]
			res.Count("natives", m.name+"/"+s.text, want)
			in := map[string]interface{}{"helper": m.name, "body": m.body, "site": "probe(" + s.text + ")", "type": s.typ.String()}
			if have != want {
				res.Violate(hx.Violation{Signature: "natives:" + m.name, What: "custom filter built on the dsl/types API disagrees with go/types", Input: in,
					Impl: fmt.Sprint(have), Spec: fmt.Sprint(want)})
			}
			if m.builtin != "" {
				if hb := got["builtin "+m.name][s.pos]; hb != have {
					res.Violate(hx.Violation{Signature: "natives:" + m.name + "-vs-builtin", What: "custom filter and the built-in predicate it mirrors (" + m.builtin + ") disagree", Input: in,
						Impl: fmt.Sprintf("custom=%v builtin=%v", have, hb), Spec: "equal"})
				}
			}
		}
	}
	// DoVar.Text / DoVar.Type
	for _, s := range sites {
		want := s.text + " :: " + s.typ.String()
		res.Count("natives", "describe/"+s.text, true)
		if describe[s.pos] != want {
			res.Violate(hx.Violation{Signature: "natives:DoVar.Text/Type", What: "Do function sees a different text/type than the source and go/types", Input: map[string]interface{}{"site": s.text},
				Impl: describe[s.pos], Spec: want})
		}
	}
	var names []string
	for _, m := range c04Mirrors {
		names = append(names, m.name)
	}
	sort.Strings(names)
	res.Sample(map[string]interface{}{"natives_helpers": names, "sites": len(sites)})
	res.Distribution["natives:helpers"] = len(c04Mirrors)
	res.Distribution["natives:sites"] = len(sites)
	return nil
}
