package main

// Part 2 of C04: the dsl/types helper API available inside custom filters and Do functions returns
// what the corresponding go/types operation returns.  Differential only (the natives are opaque in
// the bytecode model): custom filters written with the API vs (a) an oracle the harness computes with
// go/types itself and (b) the built-in predicate each one mirrors.  Called by runC04.

import (
	"fmt"
	"go/ast"
	"go/token"
	"go/types"
	"runtime"
	"sort"
	"strconv"
	"strings"

	"verifharness/hx"
)

type c04Mirror struct {
	name    string
	body    string                                 // body of `func <name>(ctx *dsl.VarFilterContext) bool`
	builtin string                                 // mirrored built-in predicate over m["x"] ("" = none)
	oracle  func(t types.Type, tg *hx.Target) bool // go/types says
}

func c04Named(tg *hx.Target, name string) types.Type {
	if obj := tg.Pkg.Scope().Lookup(name); obj != nil {
		return obj.Type()
	}
	return types.Universe.Lookup(name).Type()
}

var c04Mirrors = []c04Mirror{
	{"implErr", `return types.Implements(ctx.Type, ctx.GetInterface("error"))`, `m["x"].Type.Implements("error")`,
		func(t types.Type, tg *hx.Target) bool {
			return types.Implements(t, types.Universe.Lookup("error").Type().Underlying().(*types.Interface))
		}},
	{"isIntSlice", `return types.Identical(ctx.Type, types.NewSlice(ctx.GetType("int")))`, `m["x"].Type.Is("[]int")`,
		func(t types.Type, tg *hx.Target) bool {
			return types.Identical(t, types.NewSlice(types.Typ[types.Int]))
		}},
	{"isIntPtr", `return types.Identical(ctx.Type, types.NewPointer(ctx.GetType("int")))`, `m["x"].Type.Is("*int")`,
		func(t types.Type, tg *hx.Target) bool {
			return types.Identical(t, types.NewPointer(types.Typ[types.Int]))
		}},
	{"isArr3", `return types.Identical(ctx.Type, types.NewArray(ctx.GetType("int"), 3))`, `m["x"].Type.Is("[3]int")`,
		func(t types.Type, tg *hx.Target) bool {
			return types.Identical(t, types.NewArray(types.Typ[types.Int], 3))
		}},
	{"isStruct", `return types.AsStruct(ctx.Type.Underlying()) != nil`, `m["x"].Type.Underlying().Is("struct{$*_}")`,
		func(t types.Type, tg *hx.Target) bool { _, ok := t.Underlying().(*types.Struct); return ok }},
	{"isPtr", `return types.AsPointer(ctx.Type) != nil`, `m["x"].Type.Is("*$_")`,
		func(t types.Type, tg *hx.Target) bool { _, ok := t.(*types.Pointer); return ok }},
	{"isSliceU", `return types.AsSlice(ctx.Type.Underlying()) != nil`, `m["x"].Type.Underlying().Is("[]$_")`,
		func(t types.Type, tg *hx.Target) bool { _, ok := t.Underlying().(*types.Slice); return ok }},
	{"isArrayU", `return types.AsArray(ctx.Type.Underlying()) != nil`, `m["x"].Type.Underlying().Is("[$_]$_")`,
		func(t types.Type, tg *hx.Target) bool { _, ok := t.Underlying().(*types.Array); return ok }},
	{"isIface", `return types.AsInterface(ctx.Type.Underlying()) != nil`, ``,
		func(t types.Type, tg *hx.Target) bool { _, ok := t.Underlying().(*types.Interface); return ok }},
	{"size8", `return ctx.SizeOf(ctx.Type) == 8`, `m["x"].Type.Size == 8`,
		func(t types.Type, tg *hx.Target) bool { return sizeOfOracle(t) == 8 }},
	{"sizeGe16", `return ctx.SizeOf(ctx.Type) >= 16`, `m["x"].Type.Size >= 16`,
		func(t types.Type, tg *hx.Target) bool { return sizeOfOracle(t) >= 16 }},
	{"elemIsString", `s := types.AsSlice(ctx.Type.Underlying()); return s != nil && types.Identical(s.Elem(), ctx.GetType("string"))`, `m["x"].Type.Underlying().Is("[]string")`,
		func(t types.Type, tg *hx.Target) bool {
			s, ok := t.Underlying().(*types.Slice)
			return ok && types.Identical(s.Elem(), types.Typ[types.String])
		}},
	{"arrLen3", `a := types.AsArray(ctx.Type.Underlying()); return a != nil && a.Len() == 3`, ``,
		func(t types.Type, tg *hx.Target) bool {
			a, ok := t.Underlying().(*types.Array)
			return ok && a.Len() == 3
		}},
	{"ptrToStruct", `p := types.AsPointer(ctx.Type); return p != nil && types.AsStruct(p.Elem().Underlying()) != nil`, `m["x"].Type.Is("*$t") && !m["x"].Type.Is("*int")`,
		func(t types.Type, tg *hx.Target) bool {
			p, ok := t.(*types.Pointer)
			if !ok {
				return false
			}
			_, ok = p.Elem().Underlying().(*types.Struct)
			return ok
		}},
	{"twoFields", `s := types.AsStruct(ctx.Type.Underlying()); return s != nil && s.NumFields() == 2`, ``,
		func(t types.Type, tg *hx.Target) bool {
			s, ok := t.Underlying().(*types.Struct)
			return ok && s.NumFields() == 2
		}},
	{"firstFieldInt", `s := types.AsStruct(ctx.Type.Underlying()); return s != nil && s.NumFields() > 0 && types.Identical(s.Field(0).Type(), ctx.GetType("int"))`, ``,
		func(t types.Type, tg *hx.Target) bool {
			s, ok := t.Underlying().(*types.Struct)
			return ok && s.NumFields() > 0 && types.Identical(s.Field(0).Type(), types.Typ[types.Int])
		}},
	{"firstEmbedded", `s := types.AsStruct(ctx.Type.Underlying()); return s != nil && s.NumFields() > 0 && s.Field(0).Embedded()`, ``,
		func(t types.Type, tg *hx.Target) bool {
			s, ok := t.Underlying().(*types.Struct)
			return ok && s.NumFields() > 0 && s.Field(0).Embedded()
		}},
	{"identLocalNamed", `return types.Identical(ctx.Type, ctx.GetType("error"))`, `m["x"].Type.Is("error")`,
		func(t types.Type, tg *hx.Target) bool {
			return types.Identical(t, types.Universe.Lookup("error").Type())
		}},
	{"typeString", `return ctx.Type.String() == "[]string"`, ``,
		func(t types.Type, tg *hx.Target) bool { return t.String() == "[]string" }},
}

func sizeOfOracle(t types.Type) int64 {
	if b, ok := t.(*types.Basic); ok && b.Info()&types.IsUntyped != 0 {
		t = types.Default(t)
		if b, ok := t.(*types.Basic); ok && b.Info()&types.IsUntyped != 0 {
			return 0
		}
	}
	return types.SizesFor("gc", runtime.GOARCH).Sizeof(t)
}

const c04NativesTarget = `package p

type S2 struct{ a, b int }
type S1 struct{ s string }
type E struct {
	S2
	x int
}
type MyErr struct{}

func (MyErr) Error() string { return "" }

type Strs []string
type A3 [3]int
type I interface{ M() }

func probe(interface{}) {}

func f(i int, s string, is []int, ss []string, st Strs, a3 A3, arr [3]int, arr4 [4]int, pi *int, ps *S2, s2 S2, s1 S1, e E,
	err error, me MyErr, pme *MyErr, ii I, any interface{}, f64 float64, u8 uint8, m map[string]int, ch chan int, fn func()) {
	probe(i)
	probe(s)
	probe(is)
	probe(ss)
	probe(st)
	probe(a3)
	probe(arr)
	probe(arr4)
	probe(pi)
	probe(ps)
	probe(s2)
	probe(s1)
	probe(e)
	probe(err)
	probe(me)
	probe(pme)
	probe(ii)
	probe(any)
	probe(f64)
	probe(u8)
	probe(m)
	probe(ch)
	probe(fn)
	probe(&s2)
	probe([]int{1})
	probe([3]int{})
	probe(struct{ p, q int }{})
	probe("lit")
	probe(42)
	probe(i + 1)
	probe(nil)
}

// captures that are not a single expression: expression lists, statements, absent optional parts

var mark bool

func probeN(...interface{}) {}
func fn(int) int         { return 0 }
func fv(...int)          {}
func ferr() error        { return nil }
func fptr() *S2          { return nil }
func fss() []string      { return nil }
func fme() MyErr         { return MyErr{} }
func fa3() [3]int        { return [3]int{} }

func lists(i int, s string, ss []string, is []int, ps *S2, err error, a3 A3, s2 S2, u8 uint8) {
	probeN()
	probeN(i)
	probeN(s)
	probeN(ss)
	probeN(is)
	probeN(ps)
	probeN(err)
	probeN(a3)
	probeN(s2)
	probeN(u8)
	probeN(nil)
	probeN(i, s)
	probeN(i, i)
	probeN(ss, ss)
	probeN(is, ps)
	probeN(err, err, err)
	probeN(a3, ps, 1)
	probeN(ps, &s2)
}

func stmts(i int, ss []string, ps *S2, ch chan int, chs chan []string) {
	if mark {
		fn(i)
	}
	if mark {
		ferr()
	}
	if mark {
		fptr()
	}
	if mark {
		fss()
	}
	if mark {
		fme()
	}
	if mark {
		fa3()
	}
	if mark {
		fv(1, 2)
	}
	if mark {
		<-ch
	}
	if mark {
		<-chs
	}
	if mark {
		(fn(i))
	}
	if mark {
		i++
	}
	if mark {
		i = 1
	}
	if mark {
		return
	}
	if mark {
		ps.a = 2
	}
	if mark {
		var _ int
	}
	if mark {
		go fn(1)
	}
	if mark {
		ss = append(ss, "x")
	}
	if mark {
		ch <- 1
	}
}

func opt(i int, ss []string) {
	if i > 0 {
	}
	if x := fn(1); x > 0 {
	}
	if i++; i > 0 {
	}
	if ss = nil; i > 0 {
	}
}

func r0()                    {}
func r1() int                { return 1 }
func r1e() error             { return nil }
func r1p() *S2               { return nil }
func r1s() []string          { return nil }
func r1a() [3]int            { return [3]int{} }
func r1m() MyErr             { return MyErr{} }
func r2() (int, string)      { return 1, "" }
func r3() (n int, err error) { return }
`

// Capture classes of the natives suite: the pattern, and how the capture `x` of a match is derived from the
// syntax tree by the harness itself (gogrep's matching is trusted; what the natives make of the capture is not).
var c04CapturePatterns = []string{
	"probe($x)",            // a single expression
	"probeN($*x)",          // an expression list (0, 1, several elements)
	"if mark { $x }",       // a statement: expression statements (typed like their expression) and others
	"if $*x; $_ { $*_ }",   // an optional part: absent (nil capture) or a statement
	"func $_() $x { $*_ }", // an optional part: absent (typed nil capture), a type expression, a field list
}

// c04Site is one match of one capture pattern, with what the property says about the capture `x`.
type c04Site struct {
	pat   int
	pos   int        // offset of the matched node ($$)
	text  string     // source text of the capture ("" when absent / empty)
	typ   types.Type // go/types type of the capture (types.Typ[types.Invalid] when it has none)
	class string
	show  string
}

func c04CollectSites(tg *hx.Target) []c04Site {
	var sites []c04Site
	off := func(p token.Pos) int { return tg.Fset.Position(p).Offset }
	text := func(from, to token.Pos) string { return string(tg.Src[off(from):off(to)]) }
	invalid := types.Typ[types.Invalid]
	typeOf := func(e ast.Expr) types.Type {
		if t := tg.Info.TypeOf(e); t != nil {
			return t
		}
		return invalid
	}
	ast.Inspect(tg.File, func(n ast.Node) bool {
		switch n := n.(type) {
		case *ast.CallExpr:
			id, ok := n.Fun.(*ast.Ident)
			if !ok {
				return true
			}
			switch {
			case id.Name == "probe" && len(n.Args) == 1:
				a := n.Args[0]
				sites = append(sites, c04Site{pat: 0, pos: off(n.Pos()), text: text(a.Pos(), a.End()), typ: typeOf(a), class: "expr"})
			case id.Name == "probeN":
				st := c04Site{pat: 1, pos: off(n.Pos()), typ: invalid, class: fmt.Sprintf("list-of-%d", len(n.Args))}
				if len(n.Args) > 2 {
					st.class = "list-of-many"
				}
				if len(n.Args) > 0 {
					st.text = text(n.Args[0].Pos(), n.Args[len(n.Args)-1].End())
				}
				sites = append(sites, st)
			}
		case *ast.IfStmt:
			if n.Else != nil {
				return true
			}
			if id, ok := n.Cond.(*ast.Ident); ok && id.Name == "mark" && n.Init == nil && len(n.Body.List) == 1 {
				b := n.Body.List[0]
				st := c04Site{pat: 2, pos: off(n.Pos()), text: text(b.Pos(), b.End()), typ: invalid, class: "stmt-other"}
				if es, ok := b.(*ast.ExprStmt); ok {
					// an expression statement has the type of its expression
					st.typ, st.class = typeOf(es.X), "stmt-expr"
				}
				sites = append(sites, st)
			}
			st := c04Site{pat: 3, pos: off(n.Pos()), typ: invalid, class: "optional-absent"}
			if n.Init != nil {
				st.text, st.class = text(n.Init.Pos(), n.Init.End()), "optional-stmt"
			}
			sites = append(sites, st)
		case *ast.FuncDecl:
			if n.Recv != nil || n.Type.Params.NumFields() != 0 || n.Body == nil || n.Type.TypeParams != nil {
				return true
			}
			st := c04Site{pat: 4, pos: off(n.Pos()), typ: invalid, class: "optional-absent-typed-nil"}
			if r := n.Type.Results; r != nil {
				if len(r.List) == 1 && len(r.List[0].Names) == 0 && !r.Opening.IsValid() {
					st.text, st.typ, st.class = text(r.List[0].Type.Pos(), r.List[0].Type.End()), typeOf(r.List[0].Type), "type-expr"
				} else {
					st.text, st.class = text(r.Pos(), r.End()), "field-list"
				}
			}
			sites = append(sites, st)
		}
		return true
	})
	for i := range sites {
		sites[i].show = fmt.Sprintf("%s: x = %q", c04CapturePatterns[sites[i].pat], sites[i].text)
	}
	return sites
}

// c04Natives runs the mirror suite; violations carry signature `natives:<mirror>` (single-expression captures)
// or `natives:<mirror>@<capture class>`.
func c04Natives(c *Ctx) error {
	res := c.Res
	tg, err := hx.ParseTarget("c04n.go", c04NativesTarget)
	if err != nil {
		return fmt.Errorf("natives target: %v", err)
	}
	sites := c04CollectSites(tg)
	// one engine per rule: the first accepting rule wins per node across all groups of an engine
	header := "package gorules\n\nimport (\n\t\"github.com/quasilyte/go-ruleguard/dsl\"\n\t\"github.com/quasilyte/go-ruleguard/dsl/types\"\n)\n\nvar _ = types.Identical\n\n"
	type key struct {
		msg string
		pos int
	}
	got := map[key]bool{}
	describe := map[key]string{}
	suggest := map[key]string{}
	runOne := func(decl, rule string) error {
		full := header + decl + "func g(m dsl.Matcher) {\n\t" + rule + "\n}\n"
		e, lerr := hx.LoadRules(full)
		if lerr != nil {
			return fmt.Errorf("natives rules do not load: %v\n%s", lerr, full)
		}
		rs, pk, frame, rerr := hx.Run(e, tg, hx.RunOpts{})
		if rerr != nil {
			return rerr
		}
		if pk != "" {
			res.Violate(hx.Violation{Signature: "natives:run-" + pk + "@" + frame, What: "Run panics in the dsl/types API", Input: map[string]interface{}{"rules": full}, Impl: pk, Spec: "reports"})
			return nil
		}
		for _, r := range rs {
			if i := strings.Index(r.Message, " :: "); i >= 0 {
				k := key{r.Message[:strings.Index(r.Message, "|")], r.Pos}
				describe[k] = r.Message[strings.Index(r.Message, "|")+1:]
				if r.HasSugg {
					suggest[k] = r.Repl
				}
				continue
			}
			got[key{r.Message, r.Pos}] = true
		}
		return nil
	}
	for pi, pat := range c04CapturePatterns {
		for _, m := range c04Mirrors {
			decl := fmt.Sprintf("func %s(ctx *dsl.VarFilterContext) bool {\n\t%s\n}\n\n", m.name, strings.ReplaceAll(m.body, "; ", "\n\t"))
			if err := runOne(decl, fmt.Sprintf("m.Match(`%s`).Where(m[\"x\"].Filter(%s)).Report(\"custom %d %s\")", pat, m.name, pi, m.name)); err != nil {
				return err
			}
			if m.builtin != "" {
				if err := runOne("", fmt.Sprintf("m.Match(`%s`).Where(%s).Report(\"builtin %d %s\")", pat, m.builtin, pi, m.name)); err != nil {
					return err
				}
			}
		}
		// DoContext.Var / SetReport / SetSuggest, DoVar.Text / Type
		if err := runOne("func describe(ctx *dsl.DoContext) {\n\tctx.SetReport(\""+fmt.Sprint(pi)+"|\" + ctx.Var(\"x\").Text() + \" :: \" + ctx.Var(\"x\").Type().String())\n"+
			"\tctx.SetSuggest(\"<\" + ctx.Var(\"x\").Text() + \">\")\n}\n\n", "m.Match(`"+pat+"`).Do(describe)"); err != nil {
			return err
		}
	}
	for _, s := range sites {
		res.Dist("natives:capture:" + s.class)
	}
	for _, m := range c04Mirrors {
		for _, s := range sites {
			want := m.oracle(s.typ, tg)
			have := got[key{fmt.Sprintf("custom %d %s", s.pat, m.name), s.pos}]
			res.Count("natives", fmt.Sprintf("%s/%d/%d", m.name, s.pat, s.pos), want || s.pat != 0)
			sig := "natives:" + m.name
			in := map[string]interface{}{"helper": m.name, "body": m.body, "site": "probe(" + s.text + ")", "type": s.typ.String()}
			if s.pat != 0 {
				sig += "@" + s.class
				in["site"], in["capture_class"] = s.show, s.class
			}
			if have != want {
				res.Violate(hx.Violation{Signature: sig, What: "custom filter built on the dsl/types API disagrees with go/types", Input: in,
					Impl: fmt.Sprint(have), Spec: fmt.Sprint(want)})
			}
			// the built-in predicates hold for every element of a list capture (C02): only captures that are
			// one node or none are expected to be mirrored
			if m.builtin != "" && s.pat != 1 {
				if hb := got[key{fmt.Sprintf("builtin %d %s", s.pat, m.name), s.pos}]; hb != have {
					res.Violate(hx.Violation{Signature: sig + "-vs-builtin", What: "custom filter and the built-in predicate it mirrors (" + m.builtin + ") disagree", Input: in,
						Impl: fmt.Sprintf("custom=%v builtin=%v", have, hb), Spec: "equal"})
				}
			}
		}
	}
	// DoVar.Text / DoVar.Type / SetSuggest on every capture class; the Do rule has no filter: it reports every match
	seen := map[key]bool{}
	for _, s := range sites {
		k := key{fmt.Sprint(s.pat), s.pos}
		seen[k] = true
		want := s.text + " :: " + s.typ.String()
		res.Count("natives", fmt.Sprintf("describe/%d/%d", s.pat, s.pos), true)
		sig := "natives:DoVar.Text/Type"
		if s.pat != 0 {
			sig += "@" + s.class
		}
		have, ok := describe[k]
		if !ok {
			have = "(no report)"
		}
		if have != want {
			res.Violate(hx.Violation{Signature: sig, What: "Do function sees a different text/type than the source and go/types", Input: map[string]interface{}{"site": s.show},
				Impl: have, Spec: want})
		}
		if sg := suggest[k]; ok && sg != "<"+s.text+">" {
			res.Violate(hx.Violation{Signature: strings.Replace(sig, "DoVar.Text/Type", "DoContext.SetSuggest", 1), What: "the suggestion set by a Do function from DoVar.Text is not the capture's text",
				Input: map[string]interface{}{"site": s.show}, Impl: sg, Spec: "<" + s.text + ">"})
		}
	}
	for k := range describe {
		if !seen[k] {
			// the harness derives the matches of each pattern from the syntax tree itself: a match it did not expect
			// means that derivation is wrong, not the code
			return fmt.Errorf("natives suite: pattern %s matched at offset %d, which the harness did not derive as a site", c04CapturePatterns[atoiOr(k.msg, 0)], k.pos)
		}
	}
	var names []string
	for _, m := range c04Mirrors {
		names = append(names, m.name)
	}
	sort.Strings(names)
	res.Sample(map[string]interface{}{"natives_helpers": names, "sites": len(sites), "capture_patterns": c04CapturePatterns})
	res.Distribution["natives:helpers"] = len(c04Mirrors)
	res.Distribution["natives:sites"] = len(sites)
	// the kinds target, generated filters over the API, Do functions with several DoVar values alive (c04_api.go)
	return c04API(c)
}

func atoiOr(s string, d int) int {
	n, err := strconv.Atoi(s)
	if err != nil {
		return d
	}
	return n
}
