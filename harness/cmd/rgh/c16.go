package main

import (
	"fmt"
	"go/ast"
	"go/constant"
	"sort"
	"strings"

	"github.com/quasilyte/go-ruleguard/ruleguard"
	"verifharness/hx"
)

func init() { register("C16", runC16) }

// oracleDead computes, independently of ruleguard and of the model, whether node n lies in the
// body of an enclosing `if` with a false constant condition or in the else part of one with a true
// constant condition (ancestors from a parent map, conditions from types.Info).
func oracleDead(t *hx.Target, parents map[ast.Node]ast.Node, n ast.Node) bool {
	child := n
	for p := parents[n]; p != nil; child, p = p, parents[p] {
		ifs, ok := p.(*ast.IfStmt)
		if !ok {
			continue
		}
		cv := t.Info.Types[ifs.Cond].Value
		if cv == nil || cv.Kind() != constant.Bool {
			continue
		}
		val := constant.BoolVal(cv)
		if child == ast.Node(ifs.Body) && !val {
			return true
		}
		if ifs.Else != nil && child == ifs.Else && val {
			return true
		}
	}
	return false
}

func parentMap(f *ast.File) map[ast.Node]ast.Node {
	parents := map[ast.Node]ast.Node{}
	var stack []ast.Node
	ast.Inspect(f, func(n ast.Node) bool {
		if n == nil {
			stack = stack[:len(stack)-1]
			return true
		}
		if len(stack) > 0 {
			parents[n] = stack[len(stack)-1]
		}
		stack = append(stack, n)
		return true
	})
	return parents
}

func runC16(c *Ctx) error {
	res := c.Res
	nFiles, depth := 60, 5
	if c.Thorough {
		nFiles, depth = 1500, 9
	}
	res.Rule = fmt.Sprintf("%d generated files of nested if / else-if / else (constant true/false/named-constant/non-constant conditions, init statements, "+
		"function literals, loops, methods), depth <= %d: (1) real walker trace incl. the deadcode flag per visit == Lean model trace == declarative reference "+
		"(flag = Dead(ancestor chain)); (2) end to end: Match(probe($x)).Where(m.Deadcode()) and its negation through Engine.Run, report set == oracle computed "+
		"from types.Info constant conditions over a parent map; a file is non-trivial when it contains a constant-condition if; distinct by content hash", nFiles, depth)
	e, err := hx.LoadRules(hx.RulesFile(`
func r(m dsl.Matcher) {
	m.Match("probe($x)").Where(m.Deadcode()).Report("dead $x")
	m.Match("probe($x)").Where(!m.Deadcode()).Report("live $x")
}`))
	if err != nil {
		return fmt.Errorf("load: %v", err)
	}
	rng := hx.Rng(c.Seed, "c16-files")
	var cases []*walkCase
	for i := 0; i < nFiles; i++ {
		src := genIfFile(rng, 1+rng.Intn(depth))
		name := fmt.Sprintf("gen%d.go", i)
		t, err := hx.ParseTarget(name, src)
		if err != nil {
			return fmt.Errorf("generated file does not type-check: %v\n%s", err, src)
		}
		tree := hx.BuildTree(t.File, t.Info)
		wc := &walkCase{name: name, t: t, tree: tree}
		wc.impl, _ = implTrace(t, tree)
		cases = append(cases, wc)
		nconst := 0
		for _, n := range tree.Nodes {
			if n.Attr != 0 {
				nconst++
			}
		}
		res.Count("walk-dead", src, nconst > 0)
		res.Dist(fmt.Sprintf("const-ifs:%d", min(nconst, 5)))

		// end to end
		reports, pk, frame, err := hx.Run(e, t, hx.RunOpts{})
		if err != nil {
			return err
		}
		if pk != "" {
			res.Violate(hx.Violation{Signature: "deadcode:run-" + pk, What: "Run panics at " + frame, Input: map[string]interface{}{"src": src}, Impl: pk, Spec: "no panic"})
			continue
		}
		parents := parentMap(t.File)
		var want []string
		ast.Inspect(t.File, func(n ast.Node) bool {
			call, ok := n.(*ast.CallExpr)
			if !ok {
				return true
			}
			if id, ok := call.Fun.(*ast.Ident); !ok || id.Name != "probe" {
				return true
			}
			arg := call.Args[0].(*ast.BasicLit).Value
			if oracleDead(t, parents, call) {
				want = append(want, "dead "+arg)
			} else {
				want = append(want, "live "+arg)
			}
			return true
		})
		var have []string
		for _, r := range reports {
			have = append(have, r.Message)
		}
		sort.Strings(want)
		sort.Strings(have)
		res.Count("e2e-deadcode", src, nconst > 0)
		if strings.Join(want, ";") != strings.Join(have, ";") {
			// find the first differing probe
			diff := ""
			hm := map[string]bool{}
			for _, h := range have {
				hm[h] = true
			}
			for _, w := range want {
				if !hm[w] {
					diff = w
					break
				}
			}
			sig := "deadcode:live-reported-dead"
			if strings.HasPrefix(diff, "dead") {
				sig = "deadcode:dead-reported-live"
			}
			if len(have) != len(want) {
				sig = "deadcode:report-count"
			}
			res.Violate(hx.Violation{Signature: sig, What: "Deadcode() verdict differs from the oracle at probe `" + diff + "`",
				Input: map[string]interface{}{"src": src}, Impl: strings.Join(have, ";"), Spec: strings.Join(want, ";")})
		}
		if i == 0 {
			res.Sample(map[string]interface{}{"src": src, "reports": have})
		}
	}
	// a run aborted inside a dead branch (the user's Report callback panics there) must not leave the flag set
	// for the next file analysed with the same RunnerState
	for i := 0; i+1 < len(cases) && i < 12; i++ {
		a, b := cases[i], cases[i+1]
		first, _, _, _ := hx.Run(e, a.t, hx.RunOpts{})
		deadAt := 0
		for k, r := range first {
			if strings.HasPrefix(r.Message, "dead") {
				deadAt = k + 1
				break
			}
		}
		if deadAt == 0 {
			continue
		}
		st := ruleguard.NewRunnerState(e)
		_, pk, _, _ := hx.Run(e, a.t, hx.RunOpts{State: st, OnReport: func(n int) {
			if n == deadAt {
				panic("verif-callback abort inside a dead branch")
			}
		}})
		if pk == "" {
			res.Errorf("c16: the aborting callback did not abort the run")
			continue
		}
		fresh, _, _, _ := hx.Run(e, b.t, hx.RunOpts{})
		after, pk2, _, _ := hx.Run(e, b.t, hx.RunOpts{State: st})
		key := func(rs []hx.Report) string {
			var sb strings.Builder
			for _, r := range rs {
				sb.WriteString(r.Message + ";")
			}
			return sb.String()
		}
		res.Count("after-abort-in-dead-branch", a.name+"->"+b.name, true)
		if pk2 != "" || key(fresh) != key(after) {
			res.Violate(hx.Violation{Signature: "deadcode:flag-survives-aborted-run", What: "after a run aborted inside a dead branch the next file's Deadcode() verdicts differ",
				Input: map[string]interface{}{"aborted_file": string(a.t.Src), "abort_at_report": deadAt, "next_file": string(b.t.Src)}, Impl: pk2 + key(after), Spec: key(fresh)})
		}
	}
	return walkSuite(c, "walk-dead", cases)
}
