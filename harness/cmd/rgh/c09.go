package main

import (
	"fmt"
	"strings"

	"github.com/quasilyte/go-ruleguard/ruleguard"
	"verifharness/hx"
)

func init() { register("C09", runC09) }

const c09Rules = `
func filters(m dsl.Matcher) {
	m.Match("probe($x)").Where(m.Deadcode()).Report("dead $x")
	m.Match("probe($x)").Where(m["x"].Text.Matches("^[0-9]*7$")).Report("seven $x")
	m.Match("probe($x)").Where(m["x"].Const && m["x"].Value.Int() > 40).Report("big $x")
	m.Match("for $*_ { $*body }").Where(m["body"].Contains("probe($y)")).Report("loop with probe")
	m.Match("if $c { $*_ }").Where(m["c"].Type.Is("bool") && m["c"].Pure).Report("if $c")
	m.Match("$x := $y").Where(m["y"].Contains("$x")).Report("self-assign $x")
	m.Match("func() { $*_ }()").Where(m["$$"].Contains("probe($x)")).Report("iife with probe")
	m.Match("func() { $*_ }()").Report("iife")
	m.Match("probeT($x)").Where(m["x"].Type.Is("map[$t]$t")).Report("same-kv $x")
	m.Match("probeT($x, $y)").Where(m["x"].Type.Is("[]$t") && m["y"].Type.Is("$t")).Report("elem $x $y")
	m.MatchComment("//\\s*(?P<w>\\w+)").Report("comment $w")
}

func isSmall(ctx *dsl.VarFilterContext) bool {
	return len(ctx.GetType("string").String()) == 6
}

// documented to panic: GetType on a name that cannot be resolved (only for values of type p.Boom)
func boom(ctx *dsl.VarFilterContext) bool {
	if ctx.Type.String() == "p.Boom" {
		return ctx.SizeOf(ctx.GetType("nosuch/pkg.Type")) == 1
	}
	return false
}

func custom(m dsl.Matcher) {
	m.Match("probe($x)").Where(m["x"].Filter(isSmall) && m["x"].Text == "1").Report("custom $x")
	m.Match("boomer($x)").Where(m["x"].Filter(boom)).Report("never")
}
`

func reportsKey(rs []hx.Report) string {
	var sb strings.Builder
	for _, r := range rs {
		sb.WriteString(r.String())
		sb.WriteString("|" + r.FuncName + "\n")
	}
	return sb.String()
}

func runC09(c *Ctx) error {
	res := c.Res
	nHist, maxLen := 40, 6
	if c.Thorough {
		nHist, maxLen = 600, 30
	}
	res.Rule = fmt.Sprintf("%d histories (length 1..%d) of Engine.Run calls sharing one RunnerState over a pool of generated files, some calls aborted by a "+
		"Report callback that panics at the j-th report; after every history the reports of a probe file with the used state must equal those with a fresh state, "+
		"with a nil state, and a repeated call; plus walker trace == model trace on the pool (context per visit is a function of the ancestor chain). "+
		"A history is non-trivial when it contains >= 2 runs; distinct by (files, abort points)", nHist, maxLen)
	e, err := hx.LoadRules(hx.RulesFile(c09Rules))
	if err != nil {
		return fmt.Errorf("load: %v", err)
	}
	rng := hx.Rng(c.Seed, "c09")
	var pool []*hx.Target
	var cases []*walkCase
	for i := 0; i < 12; i++ {
		typed := []string{"probeT(map[int]int{})", "probeT(map[string]int{})", "probeT(map[string]string{})", "probeT([]int{}, 1)", "probeT([]string{}, 1)", "probeT([]string{}, \"s\")", "probeT(map[int]string{})"}
		rng.Shuffle(len(typed), func(a, b int) { typed[a], typed[b] = typed[b], typed[a] })
		src := genIfFile(rng, 2+rng.Intn(4)) + "\nfunc probeT(...interface{}) {}\n\nfunc typedProbes() {\n\t" + strings.Join(typed[:4+rng.Intn(4)], "\n\t") + "\n}\n\n// trailing " + fmt.Sprint(i) + "\n"
		t, err := hx.ParseTarget(fmt.Sprintf("pool%d.go", i), src)
		if err != nil {
			return fmt.Errorf("pool file: %v", err)
		}
		pool = append(pool, t)
		tree := hx.BuildTree(t.File, t.Info)
		wc := &walkCase{name: t.Name, t: t, tree: tree}
		wc.impl, _ = implTrace(t, tree)
		cases = append(cases, wc)
	}
	// files whose analysis panics inside a custom filter (bytecode frames left on the shared stack);
	// used as history steps only, never as the probe
	nGood := len(pool)
	for i := 0; i < 2; i++ {
		src := genIfFile(rng, 2) + "\ntype Boom struct{}\n\nfunc boomer(interface{}) {}\n\nfunc useBoom() {\n\tprobe(1)\n\tboomer(Boom{})\n\tprobe(2)\n}\n"
		t, err := hx.ParseTarget(fmt.Sprintf("boom%d.go", i), src)
		if err != nil {
			return fmt.Errorf("boom file: %v", err)
		}
		pool = append(pool, t)
	}
	// baselines with fresh state
	base := make([]string, nGood)
	for i, t := range pool[:nGood] {
		rs, pk, frame, err := hx.Run(e, t, hx.RunOpts{State: ruleguard.NewRunnerState(e)})
		if err != nil {
			return err
		}
		if pk != "" {
			res.Violate(hx.Violation{Signature: "run-state:baseline-" + pk, What: "fresh run panics at " + frame, Input: map[string]interface{}{"src": string(t.Src)}, Impl: pk, Spec: "reports"})
			return nil
		}
		base[i] = reportsKey(rs)
		res.Dist(fmt.Sprintf("baseline-reports:%d", min(len(rs)/10*10, 50)))
	}
	check := func(kind string, hist []string, probe int, got []hx.Report, pk string) {
		if pk != "" || reportsKey(got) != base[probe] {
			res.Violate(hx.Violation{Signature: "run-state:" + kind, What: "reports depend on what ran before",
				Input: map[string]interface{}{"history": hist, "probe": pool[probe].Name, "probe_src": string(pool[probe].Src)},
				Impl: pk + reportsKey(got), Spec: base[probe]})
		}
	}
	for h := 0; h < nHist; h++ {
		st := ruleguard.NewRunnerState(e)
		n := 1 + rng.Intn(maxLen)
		var hist []string
		lastKind := "after-completed-run"
		for s := 0; s < n; s++ {
			fi := rng.Intn(len(pool))
			opts := hx.RunOpts{State: st}
			if rng.Intn(3) == 0 {
				j := 1 + rng.Intn(6)
				opts.OnReport = func(k int) {
					if k == j {
						panic("verif-callback abort")
					}
				}
				hist = append(hist, fmt.Sprintf("%s abort@%d", pool[fi].Name, j))
				lastKind = "after-aborted-run"
				res.Dist("step:aborted")
			} else {
				hist = append(hist, pool[fi].Name)
				lastKind = "after-completed-run"
				res.Dist("step:completed")
			}
			_, spk, _, err := hx.Run(e, pool[fi], opts)
			if err != nil {
				return err
			}
			if fi >= nGood {
				lastKind = "after-run-aborted-in-custom-filter"
				res.Dist("step:filter-panic")
				if spk == "" {
					res.Errorf("c09: the boom file did not abort the run (the documented GetType panic did not fire)")
				}
			}
		}
		probe := rng.Intn(nGood)
		got, pk, _, _ := hx.Run(e, pool[probe], hx.RunOpts{State: st})
		check(lastKind, hist, probe, got, pk)
		got2, pk2, _, _ := hx.Run(e, pool[probe], hx.RunOpts{State: st})
		check("repeat", append(hist, pool[probe].Name), probe, got2, pk2)
		got3, pk3, _, _ := hx.Run(e, pool[probe], hx.RunOpts{})
		check("nil-state", nil, probe, got3, pk3)
		res.Count("history", strings.Join(hist, ";"), n >= 2)
		if h == 0 {
			res.Sample(map[string]interface{}{"history": hist, "probe": pool[probe].Name, "reports": len(got)})
		}
	}
	if err := walkSuite(c, "walk-ctx", cases); err != nil {
		return err
	}
	// engine-level history: type-directed predicates over files with colliding type identities
	if err := c09EngineHistories(c); err != nil {
		return err
	}
	// context facts must not leak from one rule or node to the next *inside* a run either: rule sets drawn
	// from a pool of context-sensitive rules (Contains presets, type-pattern variables, custom filters,
	// Deadcode, Node.Parent, SinkType) must report exactly what each rule reports when run alone
	return ruleSetComposition(c, "isolation", "c09-isolation", c09Pool, c09Extra, c09Decls)
}

const c09Decls = `func isBig(ctx *dsl.VarFilterContext) bool {
	return ctx.SizeOf(ctx.Type) > 8
}

`

var c09Pool = []poolRule{
	{"$x := $y", `m["y"].Contains("$x")`},
	{"$x = $y", `m["y"].Contains("$x")`},
	{"func() { $*_ }()", `m["$$"].Contains("probe($x)")`},
	{"func() { $*_ }()", `m["$$"].Contains("$x.Done()")`},
	{"go func() { $*_ }()", `m["$$"].Contains("$x.Done()")`},
	{"for $*_ { $*body }", `m["body"].Contains("probe($y)")`},
	{"if $c { $*_ }", `m["c"].Contains("$x > $y")`},
	{"probe($x)", `m["x"].Type.Is("$t")`},
	{"pair($x, $y)", `m["x"].Type.Is("[]$t") && m["y"].Type.Is("$t")`},
	{"pair($x, $y)", `m["x"].Type.Is("map[$k]$v") && m["y"].Type.Is("$k")`},
	{"pair($x, $y)", `m["x"].Type.IdenticalTo(m["y"])`},
	{"pair($x, $y)", `m["x"].Filter(isBig)`},
	{"probe($x)", `m["x"].Filter(isBig)`},
	{"probe($x)", `m.Deadcode()`},
	{"probe($x)", `m["$$"].Node.Parent().Is("ExprStmt")`},
	{"probe($x)", `m["$$"].SinkType.Is("int")`},
	{"probe($x)", ""},
	{"$x.Done()", ""},
	{"$x > $y", `m["x"].Pure`},
}

const c09Extra = `
type WG struct{}

func (*WG) Done() {}
func (*WG) Wait() {}

func pair(a, b interface{}) {}

func ctxUse(x int, s []int, ss []string, m map[string]int, wg *WG) int {
	a := x
	a = a + 1
	b := probe(a)
	b = x
	go func() { wg.Done() }()
	func() { probe(3) }()
	func() { wg.Done() }()
	pair(s, 1)
	pair(ss, 1)
	pair(ss, "s")
	pair(m, "k")
	pair(m, 2)
	pair(x, x)
	pair(s, ss)
	for i := 0; i < x; i++ {
		probe(i)
	}
	var sink int = probe(9)
	if x > b {
		return probe(10)
	}
	wg.Wait()
	return sink
}
`
