package main

import (
	"fmt"
	"os"
	"path/filepath"
	"sort"
	"strings"

	"github.com/quasilyte/go-ruleguard/ruleguard"
	"verifharness/hx"
)

func init() { register("C09", runC09) }

const c09Rules = `
func filters(m dsl.Matcher) {
	m.Match("probe($x)").Where(m.Deadcode()).Report("dead $x")
	m.Match("probe($x)").Where(m["x"].Text.Matches("^[0-9]*7$")).Report("seven $x")
	m.Match("probe($x)").Where(m["x"].Const && m["x"].Value.Int() > 40).Report("big $x")
	m.Match("for $*_ { $*body }").Where(m["body"].Contains("probe($y)")).Report("loop with probe")
	m.Match("if $c { $*_ }").Where(m["c"].Type.Is("bool") && m["c"].Pure).Report("if $c")
	m.Match("$x := $y").Where(m["y"].Contains("$x")).Report("self-assign $x")
	m.Match("func() { $*_ }()").Where(m["$$"].Contains("probe($x)")).Report("iife with probe")
	m.Match("func() { $*_ }()").Report("iife")
	m.Match("probeT($x)").Where(m["x"].Type.Is("map[$t]$t")).Report("same-kv $x")
	m.Match("probeT($x, $y)").Where(m["x"].Type.Is("[]$t") && m["y"].Type.Is("$t")).Report("elem $x $y")
	m.MatchComment("//\\s*(?P<w>\\w+)").Report("comment $w")
	m.Match("probeT($x)").Where(m["x"].Type.Is("[$n]$elem")).Report("array $x")
	m.Match("probeT($x, $y)").Where(m["x"].Type.Is("[$n]$t") && m["y"].Type.Is("[$n]$u")).Report("same-len $x $y")
	m.Match("longProbe($x)").Report("long $x")
	m.Match("longProbe($x)").Where(m.GoVersion().GreaterEqThan("1.20")).Report("never: the rule above wins")
	m.Match("verProbe($x)").Where(m.GoVersion().LessThan("1.18")).Report("old $x")
	m.Match("verProbe($x)").Where(m.GoVersion().GreaterEqThan("1.18")).Report("new $x")
}

func isSmall(ctx *dsl.VarFilterContext) bool {
	return len(ctx.GetType("string").String()) == 6
}

// documented to panic: GetType on a name that cannot be resolved (only for values of type p.Boom)
func boom(ctx *dsl.VarFilterContext) bool {
	if ctx.Type.String() == "p.Boom" {
		return ctx.SizeOf(ctx.GetType("nosuch/pkg.Type")) == 1
	}
	return false
}

func custom(m dsl.Matcher) {
	m.Match("probe($x)").Where(m["x"].Filter(isSmall) && m["x"].Text == "1").Report("custom $x")
	m.Match("boomer($x)").Where(m["x"].Filter(boom)).Report("never")
}
`

func reportsKey(rs []hx.Report) string {
	var sb strings.Builder
	for _, r := range rs {
		sb.WriteString(r.String())
		sb.WriteString("|" + r.FuncName + "\n")
	}
	return sb.String()
}

func runC09(c *Ctx) error {
	res := c.Res
	nHist, maxLen := 40, 6
	if c.Thorough {
		nHist, maxLen = 600, 30
	}
	res.Rule = fmt.Sprintf("%d histories (length 1..%d) of Engine.Run calls sharing one RunnerState over a pool of generated files, some calls aborted by a "+
		"Report callback that panics at the j-th report; after every history the reports of a probe file with the used state must equal those with a fresh state, "+
		"with a nil state, and a repeated call; plus walker trace == model trace on the pool (context per visit is a function of the ancestor chain). "+
		"A history is non-trivial when it contains >= 2 runs; distinct by (files, abort points)", nHist, maxLen)
	e, err := hx.LoadRules(hx.RulesFile(c09Rules))
	if err != nil {
		return fmt.Errorf("load: %v", err)
	}
	rng := hx.Rng(c.Seed, "c09")
	var pool []*hx.Target
	var cases []*walkCase
	var poolTyped [][]string // the statements of typedProbes() of each pool file
	var poolHead []string    // the file text before typedProbes()
	for i := 0; i < 12; i++ {
		typed := []string{"probeT(map[int]int{})", "probeT(map[string]int{})", "probeT(map[string]string{})", "probeT([]int{}, 1)", "probeT([]string{}, 1)", "probeT([]string{}, \"s\")", "probeT(map[int]string{})",
			"probeT([3]int{}, [3]string{})", "probeT([3]int{}, [4]int{})",
			"longProbe(\"a string literal that is certainly longer than the sixty bytes a message keeps by default\")", "verProbe(1)"}
		// every file has array probes of different lengths and element types (type patterns that bind a length and a type)
		arrays := []string{"probeT([3]int{})", "probeT([4]string{})", "probeT([2][2]bool{})", "probeT([1]float64{})", "probeT([5]*int{})"}
		rng.Shuffle(len(typed), func(a, b int) { typed[a], typed[b] = typed[b], typed[a] })
		rng.Shuffle(len(arrays), func(a, b int) { arrays[a], arrays[b] = arrays[b], arrays[a] })
		typed = append(append([]string{}, arrays[:2+rng.Intn(3)]...), typed[:4+rng.Intn(4)]...)
		rng.Shuffle(len(typed), func(a, b int) { typed[a], typed[b] = typed[b], typed[a] })
		head := genIfFile(rng, 2+rng.Intn(4)) + "\nfunc probeT(...interface{}) {}\n\nfunc longProbe(string) {}\n\nfunc verProbe(int) {}\n\n"
		src := head + "func typedProbes() {\n\t" + strings.Join(typed, "\n\t") + "\n}\n\n// trailing " + fmt.Sprint(i) + "\n"
		poolTyped = append(poolTyped, typed)
		poolHead = append(poolHead, head)
		t, err := hx.ParseTarget(fmt.Sprintf("pool%d.go", i), src)
		if err != nil {
			return fmt.Errorf("pool file: %v", err)
		}
		pool = append(pool, t)
		tree := hx.BuildTree(t.File, t.Info)
		wc := &walkCase{name: t.Name, t: t, tree: tree}
		wc.impl, _ = implTrace(t, tree)
		cases = append(cases, wc)
	}
	// files whose analysis panics inside a custom filter (bytecode frames left on the shared stack);
	// used as history steps only, never as the probe
	nGood := len(pool)
	for i := 0; i < 2; i++ {
		src := genIfFile(rng, 2) + "\ntype Boom struct{}\n\nfunc boomer(interface{}) {}\n\nfunc useBoom() {\n\tprobe(1)\n\tboomer(Boom{})\n\tprobe(2)\n}\n"
		t, err := hx.ParseTarget(fmt.Sprintf("boom%d.go", i), src)
		if err != nil {
			return fmt.Errorf("boom file: %v", err)
		}
		pool = append(pool, t)
	}
	// baselines with fresh state
	base := make([]string, nGood)
	for i, t := range pool[:nGood] {
		rs, pk, frame, err := hx.Run(e, t, hx.RunOpts{State: ruleguard.NewRunnerState(e)})
		if err != nil {
			return err
		}
		if pk != "" {
			res.Violate(hx.Violation{Signature: "run-state:baseline-" + pk, What: "fresh run panics at " + frame, Input: map[string]interface{}{"src": string(t.Src)}, Impl: pk, Spec: "reports"})
			return nil
		}
		base[i] = reportsKey(rs)
		res.Dist(fmt.Sprintf("baseline-reports:%d", min(len(rs)/10*10, 50)))
	}
	check := func(kind string, hist []string, probe int, got []hx.Report, pk string) {
		if pk != "" || reportsKey(got) != base[probe] {
			res.Violate(hx.Violation{Signature: "run-state:" + kind, What: "reports depend on what ran before",
				Input: map[string]interface{}{"history": hist, "probe": pool[probe].Name, "probe_src": string(pool[probe].Src)},
				Impl:  pk + reportsKey(got), Spec: base[probe]})
		}
	}
	for h := 0; h < nHist; h++ {
		st := ruleguard.NewRunnerState(e)
		n := 1 + rng.Intn(maxLen)
		var hist []string
		lastKind := "after-completed-run"
		// half of the histories keep ONE RunContext object for all their runs (as a driver that fills a context once
		// and updates it per file does); every step may run under another TruncateLen / target Go version
		var shared *ruleguard.RunContext
		if rng.Intn(2) == 0 {
			shared = &ruleguard.RunContext{}
			res.Dist("history:one-RunContext-object")
		}
		for s := 0; s < n; s++ {
			fi := rng.Intn(len(pool))
			opts := hx.RunOpts{State: st, Ctx: shared}
			if rng.Intn(2) == 0 {
				opts.TruncateLen = []int{7, 20, 80, -1, 61}[rng.Intn(5)]
				opts.GoVersion = []string{"", "1.16", "1.21"}[rng.Intn(3)]
				res.Dist("step:other-TruncateLen/GoVersion")
			}
			if rng.Intn(3) == 0 {
				j := 1 + rng.Intn(6)
				opts.OnReport = func(k int) {
					if k == j {
						panic("verif-callback abort")
					}
				}
				hist = append(hist, fmt.Sprintf("%s abort@%d trunc=%d go=%q", pool[fi].Name, j, opts.TruncateLen, opts.GoVersion))
				lastKind = "after-aborted-run"
				res.Dist("step:aborted")
			} else {
				hist = append(hist, fmt.Sprintf("%s trunc=%d go=%q", pool[fi].Name, opts.TruncateLen, opts.GoVersion))
				lastKind = "after-completed-run"
				res.Dist("step:completed")
			}
			_, spk, _, err := hx.Run(e, pool[fi], opts)
			if err != nil {
				return err
			}
			if fi >= nGood {
				lastKind = "after-run-aborted-in-custom-filter"
				res.Dist("step:filter-panic")
				if spk == "" {
					res.Errorf("c09: the boom file did not abort the run (the documented GetType panic did not fire)")
				}
			}
		}
		probe := rng.Intn(nGood)
		got, pk, _, _ := hx.Run(e, pool[probe], hx.RunOpts{State: st, Ctx: shared})
		check(lastKind, hist, probe, got, pk)
		got2, pk2, _, _ := hx.Run(e, pool[probe], hx.RunOpts{State: st, Ctx: shared})
		check("repeat", append(hist, pool[probe].Name), probe, got2, pk2)
		got3, pk3, _, _ := hx.Run(e, pool[probe], hx.RunOpts{})
		check("nil-state", nil, probe, got3, pk3)
		res.Count("history", strings.Join(hist, ";"), n >= 2)
		if h == 0 {
			res.Sample(map[string]interface{}{"history": hist, "probe": pool[probe].Name, "reports": len(got)})
		}
	}
	// node-level isolation inside one run: what is reported for a statement of typedProbes() must not depend on the
	// statements evaluated before it — each statement alone in the function (fresh state) vs the whole function
	typedMsgs := func(t *hx.Target, rs []hx.Report) []string {
		from := strings.Index(string(t.Src), "func typedProbes()")
		to := strings.Index(string(t.Src), "// trailing")
		if to < 0 {
			to = len(t.Src)
		}
		var out []string
		for _, r := range rs {
			if r.Pos >= from && r.Pos < to {
				out = append(out, r.Message)
			}
		}
		sort.Strings(out)
		return out
	}
	// with the whole rule set, and with every type-pattern rule alone in its own engine (so that no other rule's
	// evaluation sits between two evaluations of the same pattern)
	isoEngines := []*ruleguard.Engine{e}
	isoNames := []string{"all-rules"}
	for _, line := range strings.Split(c09Rules, "\n") {
		if strings.Contains(line, "m.Match(") && strings.Contains(line, ".Type.Is(") {
			one, err := hx.LoadRules(hx.RulesFile("func one(m dsl.Matcher) {\n" + line + "\n}\n"))
			if err != nil {
				return fmt.Errorf("single-rule engine: %v", err)
			}
			isoEngines = append(isoEngines, one)
			isoNames = append(isoNames, strings.TrimSpace(line))
		}
	}
	for ei, e := range isoEngines {
		for i := 0; i < nGood && i < len(poolTyped); i++ {
			full, pk, _, err := hx.Run(e, pool[i], hx.RunOpts{})
			if err != nil {
				return err
			}
			if pk != "" {
				continue
			}
			var lone []string
			for k, stmt := range poolTyped[i] {
				lt, err := hx.ParseTarget(fmt.Sprintf("lone%d_%d.go", i, k), poolHead[i]+"func typedProbes() {\n\t"+stmt+"\n}\n\n// trailing\n")
				if err != nil {
					return fmt.Errorf("lone file: %v", err)
				}
				rs, lpk, _, err := hx.Run(e, lt, hx.RunOpts{})
				if err != nil {
					return err
				}
				if lpk != "" {
					continue
				}
				lone = append(lone, typedMsgs(lt, rs)...)
			}
			sort.Strings(lone)
			got := typedMsgs(pool[i], full)
			res.Count("node-isolation", isoNames[ei]+pool[i].Name, len(poolTyped[i]) >= 3)
			if strings.Join(got, "\n") != strings.Join(lone, "\n") {
				res.Violate(hx.Violation{Signature: "run-state:node-depends-on-earlier-nodes", What: "what is reported for a statement depends on the statements evaluated before it in the same run",
					Input: map[string]interface{}{"rules": isoNames[ei], "statements": poolTyped[i], "src": string(pool[i].Src)}, Impl: strings.Join(got, " | "), Spec: strings.Join(lone, " | ")})
			}
		}
	}
	// the same file NAME with new content: a driver (an editor integration, a watch mode) lints a file, the file is edited on
	// disk, and the same RunnerState lints it again — what is reported is a function of the new content only
	editDir := filepath.Join(hx.TempDir(), "c09-edit")
	if err := os.MkdirAll(editDir, 0o755); err != nil {
		return err
	}
	nEdit := 12
	if c.Thorough {
		nEdit = 150
	}
	for k := 0; k < nEdit; k++ {
		path := filepath.Join(editDir, fmt.Sprintf("edited%d.go", k))
		st := ruleguard.NewRunnerState(e)
		var shared *ruleguard.RunContext
		if rng.Intn(2) == 0 {
			shared = &ruleguard.RunContext{}
		}
		var hist []string
		versions := 2 + rng.Intn(3)
		last := -1
		for v := 0; v < versions; v++ {
			fi := rng.Intn(nGood)
			if fi == last {
				fi = (fi + 1) % nGood
			}
			last = fi
			if err := os.WriteFile(path, pool[fi].Src, 0o644); err != nil {
				return err
			}
			t, err := hx.ParseTargetMem(path, string(pool[fi].Src))
			if err != nil {
				return fmt.Errorf("edited file: %v", err)
			}
			got, pk, _, err := hx.Run(e, t, hx.RunOpts{State: st, Ctx: shared})
			if err != nil {
				return err
			}
			hist = append(hist, fmt.Sprintf("%s := content of %s", filepath.Base(path), pool[fi].Name))
			res.Count("edit-history", fmt.Sprintf("%d:%s", k, strings.Join(hist, ";")), v >= 1)
			if pk != "" || reportsKey(got) != base[fi] {
				res.Violate(hx.Violation{Signature: "run-state:same-file-name-new-content", What: "after a file was edited on disk, a run with the reused state does not report what its new content calls for",
					Input: map[string]interface{}{"history": hist, "content_src": string(pool[fi].Src)}, Impl: pk + reportsKey(got), Spec: base[fi]})
				break
			}
		}
	}
	if err := walkSuite(c, "walk-ctx", cases); err != nil {
		return err
	}
	// engine-level history: type-directed predicates over files with colliding type identities
	if err := c09EngineHistories(c); err != nil {
		return err
	}
	// context facts must not leak from one rule or node to the next *inside* a run either: rule sets drawn
	// from a pool of context-sensitive rules (Contains presets, type-pattern variables, custom filters,
	// Deadcode, Node.Parent, SinkType) must report exactly what each rule reports when run alone
	return ruleSetComposition(c, "isolation", "c09-isolation", c09Pool, c09Extra, c09Decls)
}

const c09Decls = `func isBig(ctx *dsl.VarFilterContext) bool {
	return ctx.SizeOf(ctx.Type) > 8
}

`

var c09Pool = []poolRule{
	{"$x := $y", `m["y"].Contains("$x")`},
	{"$x = $y", `m["y"].Contains("$x")`},
	{"func() { $*_ }()", `m["$$"].Contains("probe($x)")`},
	{"func() { $*_ }()", `m["$$"].Contains("$x.Done()")`},
	{"go func() { $*_ }()", `m["$$"].Contains("$x.Done()")`},
	{"for $*_ { $*body }", `m["body"].Contains("probe($y)")`},
	{"if $c { $*_ }", `m["c"].Contains("$x > $y")`},
	{"probe($x)", `m["x"].Type.Is("$t")`},
	{"pair($x, $y)", `m["x"].Type.Is("[]$t") && m["y"].Type.Is("$t")`},
	{"pair($x, $y)", `m["x"].Type.Is("map[$k]$v") && m["y"].Type.Is("$k")`},
	{"pair($x, $y)", `m["x"].Type.IdenticalTo(m["y"])`},
	{"pair($x, $y)", `m["x"].Filter(isBig)`},
	{"probe($x)", `m["x"].Filter(isBig)`},
	{"probe($x)", `m.Deadcode()`},
	{"probe($x)", `m["$$"].Node.Parent().Is("ExprStmt")`},
	{"probe($x)", `m["$$"].SinkType.Is("int")`},
	{"probe($x)", ""},
	{"$x.Done()", ""},
	{"$x > $y", `m["x"].Pure`},
}

const c09Extra = `
type WG struct{}

func (*WG) Done() {}
func (*WG) Wait() {}

func pair(a, b interface{}) {}

func ctxUse(x int, s []int, ss []string, m map[string]int, wg *WG) int {
	a := x
	a = a + 1
	b := probe(a)
	b = x
	go func() { wg.Done() }()
	func() { probe(3) }()
	func() { wg.Done() }()
	pair(s, 1)
	pair(ss, 1)
	pair(ss, "s")
	pair(m, "k")
	pair(m, 2)
	pair(x, x)
	pair(s, ss)
	for i := 0; i < x; i++ {
		probe(i)
	}
	var sink int = probe(9)
	if x > b {
		return probe(10)
	}
	wg.Wait()
	return sink
}
`
