package main

// C02, Value.Int(): "m[x].Value.Int() OP k", "k ==/!= m[x].Value.Int()", "m[x].Value.Int() OP m[y].Value.Int()".
//
// The fact (dsl: "compile-time computable int value of the expression; if the value can't be computed the condition
// fails"): the captured expression is a constant of an integer type (typed or untyped, named or not) and the
// comparison holds between the mathematical integers; for a `$*xs` capture: for every element.  The harness reads the
// constant from go/types (Info.Types[e].Value.ExactString()) into a math/big integer and compares there: no width is
// involved anywhere in the oracle.
//
// The generated file holds constants of every integer kind at the edges of its range, around +-2^63 and 2^64, and
// untyped constants wider than 64 bits.  An untyped constant that does not fit `int` cannot be an argument of
// probe(interface{}): it is captured as an operand of a constant comparison (`wide($x > $_)`: the operands of a constant
// comparison are never materialised and keep their untyped type) or as an argument of the constant builtin max
// (`wide(max($*xs) > 0)`).  The literals k of the rules are the edges of int64, small values, and for the constants of
// the file the images under reduction to 64 / 32 / 16 / 8 bits (signed and unsigned reading) with their neighbours, i.e.
// the values any fixed-width treatment of the constant would confuse it with.

import (
	"fmt"
	"go/ast"
	"go/constant"
	"go/types"
	"math/big"
	"math/rand"
	"path/filepath"
	"sort"
	"strings"

	"github.com/quasilyte/go-ruleguard/ruleguard"
	"github.com/quasilyte/go-ruleguard/ruleguard/ir"
	"verifharness/hx"
)

const c02VIPrelude = `package p

import "math"

func probe(a interface{}) int     { return 0 }
func probeN(a ...interface{}) int { return 0 }
func probe2(a, b interface{}) int { return 0 }
func wide(b bool) int             { return 0 }
func fn(x int) int                { return x }

type U64 uint64
type I64 int64
type N8 int8
type A64 = uint64

const (
	cu64top  uint64  = 1 << 63
	cu64max  uint64  = math.MaxUint64
	cfnv64   uint64  = 14695981039346656037
	cU64     U64     = 1<<64 - 1
	cI64min  I64     = math.MinInt64
	ci64max  int64   = math.MaxInt64
	ci8min   int8    = -128
	cn8      N8      = 127
	ca64     A64     = 1<<63 + 1
	cuptr    uintptr = 1<<64 - 2
	c5               = 5
	cneg             = -1
	cf               = 2.0
	cs               = "k"
	wideC            = 1 << 70
	hugeC            = 1<<200 + 7
	topC             = 1 << 63
	maxU64C          = math.MaxUint64
	belowC           = -1<<63 - 1
)

var (
	gi   int
	gu64 uint64
	gs   string
)

var _ = math.Pi

`

// expressions that are legal arguments of probe(interface{})
var c02VIArgs = []string{
	// every sized integer kind at its edges
	"int8(-128)", "int8(127)", "ci8min", "int16(-32768)", "int16(32767)", "int32(math.MinInt32)", "int32(math.MaxInt32)",
	"int64(math.MinInt64)", "int64(math.MinInt64 + 1)", "int64(math.MaxInt64)", "int64(math.MaxInt64 - 1)", "ci64max", "cI64min", "I64(-1)",
	"math.MaxInt", "math.MinInt", "int(math.MaxInt64)", "int(-1)",
	"uint8(0)", "uint8(255)", "byte(128)", "uint16(65535)", "uint32(math.MaxUint32)", "uint32(1 << 31)",
	"uint64(0)", "uint64(1<<63 - 1)", "uint64(1 << 63)", "uint64(1<<63 + 1)", "uint64(math.MaxUint64)", "uint64(math.MaxUint64 - 1)", "^uint64(0)", "^uint64(0) - 63",
	"uint64(1<<64 - 64)", "cu64top", "cu64max", "cfnv64", "cu64top + 5", "cu64max - cu64top", "cu64max >> 1", "cu64max >> 63",
	"uint(math.MaxUint)", "^uint(0)", "uint(1 << 63)", "uintptr(math.MaxUint64)", "^uintptr(0)", "cuptr",
	"U64(1<<64 - 1)", "cU64", "cU64 - 1", "U64(1 << 63)", "A64(1 << 63)", "ca64", "N8(-128)", "cn8",
	"'a'", "rune(math.MaxInt32)", "'\\U0010FFFF'",
	// untyped, in the range of int
	"0", "1", "-1", "2", "5", "c5", "cneg", "64", "127", "128", "255", "256", "-128", "-129", "65535", "1 << 31", "1 << 32", "1<<32 - 1", "1 << 62",
	"math.MaxInt64", "math.MinInt64", "math.MaxInt64 - 1", "math.MinInt64 + 1", "1<<63 - 1", "-1 << 63", "(c5)", "c5 + 1", "-c5", "5 % 3",
	// wide intermediates that fold into the range of int
	"wideC >> 40", "wideC >> 70", "hugeC >> 138", "hugeC - hugeC", "hugeC % 8", "int64(wideC >> 8)", "uint64(wideC >> 7)", "uint64(hugeC >> 137)", "uint64(maxU64C)", "uint64(topC)",
	"len(\"abc\")", "len(cs)",
	// constants that are not integers, and expressions that are no constants
	"1.0", "2.5", "cf", "cs", "\"7\"", "true", "float64(3)", "float32(wideC)", "complex(1, 0)", "nil", "'a' + 0.5",
	"gi", "gu64", "fn(1)", "gi + 1", "len(gs)", "uint64(gi)", "int64(gu64 >> 1)", "gu64 | cu64top", "-gi",
}

// expressions for the operands of a constant comparison / the arguments of max: untyped constants of any width
var c02VIWide = []string{
	"1 << 63", "1<<63 + 1", "1<<64 - 1", "1 << 64", "1<<64 + 1", "1<<64 + 5", "1<<64 + 64", "1<<64 - 64", "1<<65 - 1", "1<<64 + 1<<63", "1<<64 + 1<<63 - 1",
	"math.MaxUint64", "math.MaxUint64 + 1", "maxU64C", "maxU64C - 1", "topC", "topC - 1", "topC + topC", "belowC", "belowC - 1", "belowC + 1", "-1<<63 - 1",
	"-(1 << 64)", "-(1<<64 - 1)", "-(1<<64 + 1)", "-1 << 64", "wideC", "-wideC", "wideC + 1", "wideC - 1", "wideC >> 6", "wideC >> 7", "wideC * wideC",
	"hugeC", "-hugeC", "hugeC >> 136", "hugeC >> 137", "hugeC >> 136 + 255", "1 << 100", "1<<100 + 1<<32", "1<<128 - 1", "1<<96 + 65535",
	"(1 << 64)", "((wideC))", "0", "1", "-1", "5", "math.MaxInt64", "math.MinInt64", "1<<63 - 1", "-1 << 63",
}

// typed constants as operands of a constant comparison
var c02VIWideTyped = []string{"cu64top", "cu64max", "cfnv64", "cU64", "cI64min", "ci64max", "^uint64(0)", "uint64(1 << 63)", "cuptr", "ca64", "ci8min", "int64(math.MinInt64)"}

type c02VISite struct {
	site *c02Site
	caps map[string][]ast.Expr // the captures by variable: one expression, or the elements of a `$*` list
}

// every captured expression of the site
func (s *c02VISite) all() []ast.Expr {
	var names []string
	for n := range s.caps {
		names = append(names, n)
	}
	sort.Strings(names)
	var out []ast.Expr
	for _, n := range names {
		out = append(out, s.caps[n]...)
	}
	return out
}

// a pattern of the suite with its generated file
type c02VIPat struct {
	name    string
	pattern string
	v       string          // the variable the literal forms are about
	list    map[string]bool // the variables that are `$*` lists
	pairs   [][2]string     // the (left, right) variables the var-vs-var form is probed on
	src     string
	sites   []*c02VISite
	w       *c02World
}

func c02VIBuild(seed int64, thorough bool) []*c02VIPat {
	rng := hx.Rng(seed, "c02-valueint")
	pick := func(pool []string) string { return pool[rng.Intn(len(pool))] }
	file := func(calls []string) string {
		var sb strings.Builder
		sb.WriteString(c02VIPrelude)
		for k, c := range calls {
			fmt.Fprintf(&sb, "func s%d() {\n\t%s\n}\n\n", k, c)
		}
		sb.WriteString("\n// end\n")
		return sb.String()
	}
	var single, lists, pairs, cmps, maxes []string
	for _, e := range c02VIArgs {
		single = append(single, "probe("+e+")")
	}
	// lists: the empty one, every length up to 4; all-constant lists of one class and mixed ones
	lists = append(lists, "probeN()")
	for _, e := range []string{"0", "cu64max", "uint64(1 << 63)", "gi", "cf", "int64(math.MinInt64)", "^uint64(0)", "cfnv64"} {
		lists = append(lists, "probeN("+e+")")
	}
	for _, l := range [][]string{{"1", "2"}, {"cu64top", "cu64max"}, {"1", "cu64max"}, {"cu64max", "1"}, {"^uint64(0)", "^uint64(0)"}, {"1", "gi"}, {"gi", "cu64max"}, {"cu64max", "cf"},
		{"uint64(1 << 63)", "uint64(1<<63 - 1)"}, {"int64(math.MinInt64)", "uint64(1 << 63)"}, {"-1", "^uint64(0)"}, {"0", "1", "cU64"}, {"cU64", "0", "1"}, {"5", "c5", "int8(5)", "uint64(5)"},
		{"64", "cfnv64", "64"}, {"cuptr", "cuptr"}, {"cs", "1"}} {
		lists = append(lists, "probeN("+strings.Join(l, ", ")+")")
	}
	n := 24
	if thorough {
		n = 200
	}
	for i := 0; i < n; i++ {
		var l []string
		for j := 1 + rng.Intn(4); j > 0; j-- {
			l = append(l, pick(c02VIArgs[:len(c02VIArgs)-20])) // mostly integer constants: a list with one non-constant is always refused
		}
		if rng.Intn(6) == 0 {
			l = append(l, pick(c02VIArgs))
		}
		lists = append(lists, "probeN("+strings.Join(l, ", ")+")")
	}
	// pairs for the var-vs-var form
	for _, p := range [][2]string{{"cu64max", "cu64max"}, {"cu64max", "-1"}, {"-1", "cu64max"}, {"cu64top", "int64(math.MinInt64)"}, {"int64(math.MinInt64)", "cu64top"}, {"^uint64(0)", "cneg"},
		{"cu64top", "cu64max"}, {"cu64max", "cu64top"}, {"cfnv64", "0"}, {"0", "cfnv64"}, {"cU64", "cuptr"}, {"cuptr", "cU64"}, {"uint64(1 << 63)", "uint64(1<<63 - 1)"}, {"1", "1"}, {"1", "2"}, {"2", "1"},
		{"int8(5)", "uint64(5)"}, {"c5", "5"}, {"gi", "1"}, {"1", "gi"}, {"cf", "2"}, {"2", "cf"}, {"cs", "cs"}, {"ci64max", "cu64top"}, {"cu64top", "ci64max"}, {"cU64", "-1"}} {
		pairs = append(pairs, "probe2("+p[0]+", "+p[1]+")")
	}
	n = 40
	if thorough {
		n = 400
	}
	for i := 0; i < n; i++ {
		pairs = append(pairs, "probe2("+pick(c02VIArgs)+", "+pick(c02VIArgs)+")")
	}
	// operands of constant comparisons: $x > $y
	for _, e := range c02VIWide {
		cmps = append(cmps, "wide("+e+" > 0)")
	}
	for _, e := range c02VIWideTyped {
		cmps = append(cmps, "wide("+e+" > 0)")
	}
	for _, p := range [][2]string{{"1 << 64", "1 << 64"}, {"1 << 64", "0"}, {"0", "1 << 64"}, {"1<<64 + 5", "5"}, {"5", "1<<64 + 5"}, {"math.MaxUint64", "-1"}, {"-1", "math.MaxUint64"},
		{"topC", "math.MinInt64"}, {"math.MinInt64", "topC"}, {"wideC", "hugeC"}, {"hugeC", "wideC"}, {"belowC", "math.MaxInt64"}, {"math.MaxInt64", "belowC"}, {"wideC", "wideC"},
		{"cu64max", "cu64top"}, {"cu64top", "cu64max"}, {"cu64max", "maxU64C"}, {"maxU64C", "cu64max"}, {"-(1 << 64)", "0"}, {"1<<64 + 1<<63", "math.MinInt64"}, {"1<<65 - 1", "-1"}} {
		cmps = append(cmps, "wide("+p[0]+" > "+p[1]+")")
	}
	n = 30
	if thorough {
		n = 300
	}
	for i := 0; i < n; i++ {
		cmps = append(cmps, "wide("+pick(c02VIWide)+" > "+pick(c02VIWide)+")")
	}
	// arguments of the constant builtin max
	for _, e := range []string{"1 << 64", "math.MaxUint64", "wideC", "belowC", "1", "1<<64 + 5", "hugeC", "topC", "cu64max", "-(1 << 64)"} {
		maxes = append(maxes, "wide(max("+e+") > 0)")
	}
	for _, l := range [][]string{{"1", "2"}, {"1 << 64", "1<<64 + 1"}, {"1", "1 << 64"}, {"1 << 64", "1"}, {"math.MaxUint64", "math.MaxUint64"}, {"belowC", "-(1 << 64)"}, {"topC", "math.MaxInt64"},
		{"math.MaxInt64", "topC"}, {"-1", "math.MaxUint64"}, {"cu64top", "cu64max"}, {"cu64max", "cu64top", "cfnv64"}, {"wideC", "hugeC", "0"}, {"0", "wideC", "hugeC"}, {"5", "1<<64 + 5"}, {"1<<65 - 1", "-1"},
		{"cU64", "cU64"}, {"ci8min", "ci8min"}} {
		maxes = append(maxes, "wide(max("+strings.Join(l, ", ")+") > 0)")
	}
	n = 20
	if thorough {
		n = 200
	}
	for i := 0; i < n; i++ {
		var l []string
		for j := 1 + rng.Intn(4); j > 0; j-- {
			l = append(l, pick(c02VIWide))
		}
		maxes = append(maxes, "wide(max("+strings.Join(l, ", ")+") > 0)")
	}
	return []*c02VIPat{
		{name: "arg", pattern: "probe($x)", v: "x", src: file(single)},
		{name: "args", pattern: "probeN($*xs)", v: "xs", list: map[string]bool{"xs": true}, src: file(lists)},
		{name: "pair", pattern: "probe2($x, $y)", v: "x", pairs: [][2]string{{"x", "y"}}, src: file(pairs)},
		{name: "operand", pattern: "wide($x > $y)", v: "x", pairs: [][2]string{{"x", "y"}}, src: file(cmps)},
		{name: "max-args", pattern: "wide(max($*xs) > 0)", v: "xs", list: map[string]bool{"xs": true}, src: file(maxes)},
		// a list behind a single capture; the var-vs-var form with `$*ys` on either side is observed here, not judged (see fact);
		// probeN() has no $x: left out
		{name: "head-rest", pattern: "probeN($x, $*ys)", v: "ys", list: map[string]bool{"ys": true}, pairs: [][2]string{{"x", "ys"}, {"ys", "x"}}, src: file(lists[1:])},
	}
}

// the sites of a generated file: one call per declaration s<k>; the captures are read off the call's own shape
func (p *c02VIPat) parse(dir string, alias bool) error {
	path := filepath.Join(dir, "c02target_valueint_"+p.name+".go")
	t, err := c02ParseTarget(path, p.src, alias)
	if err != nil {
		return fmt.Errorf("valueint target %s: %v", p.name, err)
	}
	p.w = &c02World{t: t, alias: alias}
	p.sites = nil
	for _, d := range t.File.Decls {
		fd, ok := d.(*ast.FuncDecl)
		if !ok || fd.Recv != nil || fd.Body == nil || len(fd.Body.List) != 1 || !strings.HasPrefix(fd.Name.Name, "s") {
			continue
		}
		es, ok := fd.Body.List[0].(*ast.ExprStmt)
		if !ok {
			continue
		}
		call, ok := es.X.(*ast.CallExpr)
		if !ok {
			continue
		}
		f2 := *t.File
		f2.Decls = []ast.Decl{d}
		t2 := *t
		t2.File = &f2
		s := &c02VISite{site: &c02Site{name: fd.Name.Name, decl: fd, match: call, parent: es, tgt: &t2}, caps: map[string][]ast.Expr{}}
		switch p.name {
		case "arg":
			s.caps["x"] = call.Args[:1]
		case "args":
			s.caps["xs"] = call.Args
		case "pair":
			s.caps["x"], s.caps["y"] = call.Args[:1], call.Args[1:2]
		case "operand":
			b := call.Args[0].(*ast.BinaryExpr)
			s.caps["x"], s.caps["y"] = []ast.Expr{b.X}, []ast.Expr{b.Y}
		case "max-args":
			b := call.Args[0].(*ast.BinaryExpr)
			s.caps["xs"] = b.X.(*ast.CallExpr).Args
		case "head-rest":
			s.caps["x"], s.caps["ys"] = call.Args[:1], call.Args[1:]
		}
		p.sites = append(p.sites, s)
		p.w.sites[0] = append(p.w.sites[0], s.site)
	}
	if len(p.sites) == 0 {
		return fmt.Errorf("valueint target %s: no sites", p.name)
	}
	return nil
}

// intFact: what go/types knows about e as an integer constant.
// state "int": v is its value; "none": e is not a constant of an integer type (the condition must fail);
// "unjudged": the recorded type and the recorded value disagree about integer-ness (go/types keeps the exact value of an
// untyped constant under the type its context gave it, e.g. float64 for the operand of float64(1<<70)): not judged.
func (w *c02World) intFact(e ast.Expr) (v *big.Int, state string) {
	tv, ok := w.t.Info.Types[e]
	if !ok || tv.Value == nil || tv.Type == nil {
		return nil, "none"
	}
	b, basic := tv.Type.Underlying().(*types.Basic)
	integer := basic && b.Info()&types.IsInteger != 0
	if integer != (tv.Value.Kind() == constant.Int) {
		return nil, "unjudged"
	}
	if !integer {
		return nil, "none"
	}
	v, ok = new(big.Int).SetString(tv.Value.ExactString(), 10)
	if !ok {
		return nil, "unjudged"
	}
	return v, "int"
}

var c02VITwo63 = new(big.Int).Lsh(big.NewInt(1), 63)
var c02VITwo64 = new(big.Int).Lsh(big.NewInt(1), 64)

// the magnitude class of an integer constant
func c02VIClass(v *big.Int, state string) string {
	switch {
	case state == "unjudged":
		return "unjudged"
	case v == nil:
		return "no-integer-constant"
	case v.Cmp(c02VITwo64) >= 0:
		return "above-uint64"
	case v.Cmp(c02VITwo63) >= 0:
		return "uint64-above-int64"
	case v.Cmp(new(big.Int).Neg(c02VITwo63)) < 0:
		return "below-int64"
	case v.IsInt64() && (v.Int64() >= 1<<63-2 || v.Int64() <= -1<<63+1):
		return "int64-edge"
	}
	return "int64-range"
}

var c02VIClassRank = map[string]int{"int64-range": 0, "int64-edge": 1, "no-integer-constant": 2, "uint64-above-int64": 3, "below-int64": 4, "above-uint64": 5, "unjudged": 6}

func c02VIWiden(a, b string) string {
	if c02VIClassRank[b] > c02VIClassRank[a] {
		return b
	}
	return a
}

func c02VICmp(op string, a, b *big.Int) bool {
	c := a.Cmp(b)
	switch op {
	case "==":
		return c == 0
	case "!=":
		return c != 0
	case "<":
		return c < 0
	case "<=":
		return c <= 0
	case ">":
		return c > 0
	case ">=":
		return c >= 0
	}
	panic("oracle: operator " + op)
}

type c02VIRule struct {
	form string // const-rhs | const-lhs | var-var
	op   string
	k    int64
	a, b string // var-var: the left and the right variable
	pat  *c02VIPat
}

func (r c02VIRule) where() string {
	switch r.form {
	case "const-rhs":
		return fmt.Sprintf(`m[%q].Value.Int() %s %d`, r.pat.v, r.op, r.k)
	case "const-lhs":
		return fmt.Sprintf(`%d %s m[%q].Value.Int()`, r.k, r.op, r.pat.v)
	}
	return fmt.Sprintf(`m[%q].Value.Int() %s m[%q].Value.Int()`, r.a, r.op, r.b)
}

// the form with ":list" when a variable of the comparison is a `$*` capture
func (r c02VIRule) formClass() string {
	if r.form == "var-var" {
		if r.pat.list[r.a] || r.pat.list[r.b] {
			return r.form + ":list"
		}
		return r.form
	}
	if r.pat.list[r.pat.v] {
		return r.form + ":list"
	}
	return r.form
}

// fact: does the documented condition hold at the site; ok=false: not judged
func (r c02VIRule) fact(w *c02World, s *c02VISite) (holds, ok bool, class string) {
	class = "int64-range"
	holds = true
	if r.form == "var-var" {
		// every element of the one capture against every element of the other
		for _, e := range append(append([]ast.Expr(nil), s.caps[r.a]...), s.caps[r.b]...) {
			v, state := w.intFact(e)
			class = c02VIWiden(class, c02VIClass(v, state))
			if state == "unjudged" {
				return false, false, class
			}
		}
		// A list on either side of a two-variable comparison: neither the dsl documentation nor the statement of the
		// comparisons (SpecC17.semCmp: `each` against a non-literal is unconstrained) settles what it means: observed
		// (no panic), not judged.  (The code as it is refuses every such match, even `probeN(1, 1)` with == and an
		// empty list: makeValueIntFilter has no list case.)
		if r.pat.list[r.a] || r.pat.list[r.b] {
			return false, false, class
		}
		// both values must be computable, and the comparison must hold
		for _, e := range append(append([]ast.Expr(nil), s.caps[r.a]...), s.caps[r.b]...) {
			if _, state := w.intFact(e); state != "int" {
				return false, true, class
			}
		}
		for _, x := range s.caps[r.a] {
			for _, y := range s.caps[r.b] {
				xv, _ := w.intFact(x)
				yv, _ := w.intFact(y)
				holds = holds && c02VICmp(r.op, xv, yv)
			}
		}
		return holds, true, class
	}
	for _, e := range s.caps[r.pat.v] {
		v, state := w.intFact(e)
		class = c02VIWiden(class, c02VIClass(v, state))
		if state == "unjudged" {
			return false, false, class
		}
		if state != "int" {
			holds = false
			continue
		}
		if r.form == "const-rhs" {
			holds = holds && c02VICmp(r.op, v, big.NewInt(r.k))
		} else {
			holds = holds && c02VICmp(r.op, big.NewInt(r.k), v)
		}
	}
	return holds, true, class
}

// the literals of the rules: edges of int64 and of the narrower kinds, small values, and the images of the file's
// constants under reduction to a fixed width (with both neighbours)
func c02VILiterals(pats []*c02VIPat, rng *rand.Rand, thorough bool) []int64 {
	core := []int64{0, 1, -1, 5, 64, 1<<63 - 1, -1 << 63}
	more := map[int64]bool{2: true, 7: true, 127: true, 128: true, -128: true, 255: true, 256: true, 65535: true, 1 << 31: true, 1<<31 - 1: true, 1 << 32: true, 1<<32 - 1: true, 1 << 62: true,
		1<<63 - 2: true, -1<<63 + 1: true, -64: true, -5: true}
	images := map[int64]bool{}
	for _, p := range pats {
		for _, s := range p.sites {
			for _, e := range s.all() {
				v, state := p.w.intFact(e)
				if state != "int" || v.IsInt64() {
					continue
				}
				for _, bits := range []uint{64, 32, 16, 8} {
					mod := new(big.Int).Lsh(big.NewInt(1), bits)
					u := new(big.Int).Mod(v, mod) // unsigned reading
					sgn := new(big.Int).Set(u)    // signed reading
					if sgn.Cmp(new(big.Int).Rsh(mod, 1)) >= 0 {
						sgn.Sub(sgn, mod)
					}
					for _, img := range []*big.Int{u, sgn} {
						for d := int64(-1); d <= 1; d++ {
							x := new(big.Int).Add(img, big.NewInt(d))
							if x.IsInt64() {
								images[x.Int64()] = true
							}
						}
					}
				}
			}
		}
	}
	seen := map[int64]bool{}
	var out []int64
	for _, k := range core {
		seen[k] = true
		out = append(out, k)
	}
	var rest []int64
	for k := range more {
		if !seen[k] {
			seen[k] = true
			rest = append(rest, k)
		}
	}
	var imgs []int64
	for k := range images {
		if !seen[k] {
			seen[k] = true
			imgs = append(imgs, k)
		}
	}
	sort.Slice(rest, func(i, j int) bool { return rest[i] < rest[j] })
	sort.Slice(imgs, func(i, j int) bool { return imgs[i] < imgs[j] })
	if thorough {
		return append(append(out, rest...), imgs...)
	}
	// quick tier: the core, and a seed-chosen part of the rest
	rng.Shuffle(len(rest), func(i, j int) { rest[i], rest[j] = rest[j], rest[i] })
	rng.Shuffle(len(imgs), func(i, j int) { imgs[i], imgs[j] = imgs[j], imgs[i] })
	if len(rest) > 4 {
		rest = rest[:4]
	}
	if len(imgs) > 5 {
		imgs = imgs[:5]
	}
	return append(append(out, rest...), imgs...)
}

var c02VIOps = []string{"==", "!=", "<", "<=", ">", ">="}

func runC02ValueInt(c *Ctx, dir string) error {
	res := c.Res
	pats := c02VIBuild(c.Seed, c.Thorough)
	modes := []bool{false}
	if c.Thorough {
		modes = append(modes, true)
	}
	var nLits int
	for _, alias := range modes {
		mode := "alias=" + b01(alias)
		for _, p := range pats {
			if err := p.parse(dir, alias); err != nil {
				return err
			}
			if !alias {
				res.Distribution["valueint:sites:"+p.pattern] = len(p.sites)
				for _, s := range p.sites {
					for _, e := range s.all() {
						v, state := p.w.intFact(e)
						res.Dist("valueint:constant:" + c02VIClass(v, state))
						if tv, ok := p.w.t.Info.Types[e]; ok && tv.Value != nil && state == "int" {
							res.Dist("valueint:kind:" + tv.Type.Underlying().String())
						}
					}
					for name := range p.list {
						res.Dist(fmt.Sprintf("valueint:list-length:%d", len(s.caps[name])))
					}
				}
			}
		}
		lits := c02VILiterals(pats, hx.Rng(c.Seed, "c02-valueint-literals"), c.Thorough)
		nLits = len(lits)
		// the rules
		var rules []c02VIRule
		for _, p := range pats {
			for _, op := range c02VIOps {
				for _, k := range lits {
					rules = append(rules, c02VIRule{form: "const-rhs", op: op, k: k, pat: p})
				}
				for _, ab := range p.pairs {
					rules = append(rules, c02VIRule{form: "var-var", op: op, a: ab[0], b: ab[1], pat: p})
				}
			}
			for _, op := range []string{"==", "!="} {
				for i, k := range lits {
					if c.Thorough || i < 7 || i%2 == 0 {
						rules = append(rules, c02VIRule{form: "const-lhs", op: op, k: k, pat: p})
					}
				}
			}
		}
		// one irconv batch for all of them
		var sb strings.Builder
		for k, r := range rules {
			fmt.Fprintf(&sb, "func r%d(m dsl.Matcher) {\n\tm.Match(`%s`).Where(%s).Report(\"hit\")\n}\n", k, r.pat.pattern, r.where())
		}
		irf, err := c17ConvertIR(hx.RulesFile(sb.String()))
		if err != nil {
			return fmt.Errorf("irconv of the Value.Int rules: %v", err)
		}
		if len(irf.RuleGroups) != len(rules) {
			return fmt.Errorf("irconv: %d groups for %d Value.Int rules", len(irf.RuleGroups), len(rules))
		}
		for k, r := range rules {
			w := r.pat.w
			where := r.where()
			var eng *ruleguard.Engine
			var load, errText, route string
			if k%7 == 3 {
				route = "Engine.Load"
				eng, load, errText = c17LoadDSL(hx.RulesFile(fmt.Sprintf("func r(m dsl.Matcher) {\n\tm.Match(`%s`).Where(%s).Report(\"hit\")\n}\n", r.pat.pattern, where)))
			} else {
				route = "LoadFromIR"
				eng, load, errText = c17LoadIR(&ir.File{PkgPath: "gorules", RuleGroups: []ir.RuleGroup{irf.RuleGroups[k]}})
			}
			input := map[string]interface{}{"where": where, "pattern": r.pat.pattern, "mode": mode, "route": route}
			res.Dist("valueint:load:" + load)
			if load != "ok" {
				// every rule of this suite is a documented form: refusing it is a failure of the predicate
				input["error"] = errText
				res.Violate(hx.Violation{Signature: "Value.Int:" + r.form + ":" + r.op + ":not-loaded", What: "a documented Value.Int() comparison is refused by the loader", Input: input, Impl: load, Spec: "loads"})
				continue
			}
			verdicts, err := c02Observe(eng, w, 0, k%9 == 0)
			if err != nil {
				return fmt.Errorf("%s on %s: %v", where, r.pat.pattern, err)
			}
			nontrivial := strings.Trim(verdicts, verdicts[:1]) != ""
			res.Dist("valueint:form:" + r.formClass() + ":" + r.pat.name)
			res.Dist("valueint:op:" + r.op)
			for i, s := range r.pat.sites {
				got := string(verdicts[i])
				holds, ok, class := r.fact(w, s)
				res.Count("valueint:"+mode, fmt.Sprintf("%s/%s/%s", where, r.pat.name, s.site.name), nontrivial)
				want := "f"
				if holds {
					want = "t"
				}
				if !ok {
					res.Dist("valueint:unjudged:" + r.formClass() + ":" + got)
					if got == "t" || got == "f" {
						continue
					}
					want = "no panic"
				}
				res.Dist("valueint:verdict-seen:" + class + ":" + got)
				if got == want {
					continue
				}
				sig := fmt.Sprintf("Value.Int:%s:%s:want-%s", r.formClass(), class, want)
				if got != "t" && got != "f" {
					sig = "Value.Int:panic " + c17PanicName[got]
				}
				text := string(w.t.Src[w.t.Fset.Position(s.site.match.Pos()).Offset:w.t.Fset.Position(s.site.match.End()).Offset])
				var vals []string
				for _, e := range s.site.match.(*ast.CallExpr).Args {
					ast.Inspect(e, func(n ast.Node) bool {
						for _, c := range s.all() {
							if c == n {
								if v, state := w.intFact(c); state == "int" {
									vals = append(vals, v.String())
								} else {
									vals = append(vals, "-")
								}
								return false
							}
						}
						return true
					})
				}
				input := map[string]interface{}{"where": where, "pattern": r.pat.pattern, "mode": mode, "route": route, "site": s.site.name + ": " + text,
					"values (go/types, exact)": strings.Join(vals, ", "), "target": c02VIPrelude + c02DeclText(w.t, s.site.decl)}
				res.Violate(hx.Violation{Signature: sig, What: "Value.Int() comparison: the verdict is not the comparison of the integer constants go/types records", Input: input,
					Impl: "verdict " + got, Spec: "the fact computed with math/big wants " + want})
			}
		}
	}
	res.Rule += fmt.Sprintf("; Value.Int(): the six comparisons with %d literals (edges of int64 / the narrower kinds, and the 64/32/16/8-bit images of the file's constants) on the right, == / != with the literal on the left, "+
		"and the var-vs-var form, on probe($x), probeN($*xs), probe2($x, $y), wide($x > $y), wide(max($*xs) > 0), probeN($x, $*ys) (var-vs-var with a list on either side: observed for panics only) over %d + %d expressions: constants of every integer kind at the edges of its range, "+
		"uint64 / uintptr / named / alias constants >= 1<<63, untyped constants around 2^63, 2^64 and wider (captured as operands of constant comparisons and arguments of the constant max), "+
		"non-integer constants and non-constants; fact: go/types' exact constant read into math/big, for every element of a list", nLits, len(c02VIArgs), len(c02VIWide)+len(c02VIWideTyped))
	return nil
}
