package main

// C20, second half: (1) histories — several rule files loaded into ONE engine, some of them rejected inside a
// group that has Import() declarations; every file's names must still resolve through its own groups' tables
// only, i.e. each file must behave exactly as the Lean model / the executable statement say for that file alone
// (and as it does on a fresh engine).  (2) fully-qualified names given to GetType / GetInterface in custom
// filters, naming packages the analysed package reaches directly, indirectly (a -> b -> c) or not at all
// through its imports, with the engine's own build context seeing no copy or a different copy of them.

import (
	"fmt"
	"go/ast"
	"go/parser"
	"go/token"
	"go/types"
	"math/rand"
	"os"
	"path/filepath"
	"runtime"
	"sort"
	"strconv"
	"strings"
	"sync"

	"github.com/quasilyte/go-ruleguard/ruleguard"
	"verifharness/hx"
)

// ---------------------------------------------------------------------------------------------
// (1) histories

// the first Load of an engine is the expensive one (dsl is type-checked from source), the following ones cost
// next to nothing: few, long histories
const c20HistMaxFiles = 8

// rules that cannot be loaded, whatever the group imports (the loader must reject them inside the group, after
// the group's Import() declarations were entered)
var c20FailingRules = []c20Rule{
	{"is", "unknownpkg.T"}, {"is", "*unknownpkg.T"}, {"uis", "unknownpkg.T"}, {"impl", "unknownpkg.I"}, {"impl", "io.Nope"},
	{"impl", "template.Template"}, {"hasm", "io.Reader.Nope"}, {"hasm", "unknownpkg.I.M"}, {"impl", "fmt.Nope"}, {"is", "bar.T"},
}

// packages whose base name shadows a name that also resolves without Import() (stdlib default) or through
// another group's Import()
var c20ShadowImports = []string{"html/template", "c20m/p4/template", "c20m/p3/io", "c20m/p1/foo", "c20m/p2/foo"}

// c20GenFailing: a generated file in which one accepted group carries Import() declarations and a rule that
// cannot be loaded, at a random position among the group's rules and the file's groups.
func c20GenFailing(rng *rand.Rand) *c20File {
	f := c20GenFile(rng)
	gi := rng.Intn(len(f.Groups))
	g := &f.Groups[gi]
	g.Rejected = false
	for n := 1 + rng.Intn(2); n > 0; n-- {
		g.Imports = append(g.Imports, c20ShadowImports[rng.Intn(len(c20ShadowImports))])
	}
	bad := c20FailingRules[rng.Intn(len(c20FailingRules))]
	if len(g.Rules) == 0 {
		g.Rules = []c20Rule{bad}
	} else {
		g.Rules[rng.Intn(len(g.Rules))] = bad
	}
	return f
}

type c20Hist struct {
	files  []*c20File
	outs   []string // observation of file i inside the history
	errs   []string
	alone  []string // observation of the same text on a fresh engine
	extra  string   // anomaly of the run as a whole
	failed []bool
}

func (h *c20Hist) exec(w *c20World) {
	n := len(h.files)
	h.outs, h.errs, h.alone, h.failed = make([]string, n), make([]string, n), make([]string, n), make([]bool, n)
	e := ruleguard.NewEngine()
	anyLoaded := false
	for i, f := range h.files {
		if err := hx.LoadInto(e, fmt.Sprintf("rules%d.go", i), f.src, f.filter()); err != nil {
			h.errs[i] = err.Error()
			h.outs[i] = c20ErrClass(h.errs[i])
			h.failed[i] = true
			continue
		}
		anyLoaded = true
	}
	if anyLoaded {
		reports, pk, _, err := hx.Run(e, w.target, hx.RunOpts{})
		var sets [][]int
		anomaly := ""
		if err != nil || pk != "" {
			anomaly = fmt.Sprintf("run-failed:%v:%s", err, pk)
		} else {
			sets, anomaly = c20Sets(w, reports)
		}
		for i, f := range h.files {
			switch {
			case h.failed[i]:
				if anomaly == "" {
					k := f.k0
					for _, g := range f.Groups {
						for range g.Rules {
							if len(sets[k]) > 0 {
								h.extra = fmt.Sprintf("rejected-file-reports:file=%d:rule=R%d", i, k)
							}
							k++
						}
					}
				}
			case anomaly != "":
				h.outs[i] = anomaly
			default:
				h.outs[i] = f.canon(sets)
			}
		}
	}
}

// execAlone: file i of the history, the same text, on a fresh engine
func (h *c20Hist) execAlone(w *c20World, i int) {
	cp := *h.files[i]
	cp.exec(w)
	h.alone[i] = cp.out
}

func (h *c20Hist) input() map[string]interface{} {
	var files []map[string]interface{}
	for i, f := range h.files {
		m := f.input()
		m["step"] = i
		m["file"] = fmt.Sprintf("rules%d.go", i)
		m["error"] = h.errs[i]
		m["observed-in-history"] = h.outs[i]
		if h.alone[i] != "" {
			m["observed-on-fresh-engine"] = h.alone[i]
		}
		delete(m, "target")
		files = append(files, m)
	}
	return map[string]interface{}{"history (Load calls on one engine, in order)": files,
		"target": "every p<k>(v<i>) with v<i> of type " + strings.Join(c20Values, " | ")}
}

func c20Histories(c *Ctx, w1 *c20World, dir string) error {
	res := c.Res
	nHist := 50
	if c.Thorough {
		nHist = 500
	}
	w, err := c20BuildWorldN(c20HistMaxFiles * c20NumRules)
	if err != nil {
		return fmt.Errorf("history target: %v", err)
	}
	if w.sexp != w1.sexp {
		return fmt.Errorf("history target: the value universe differs from the single-file one")
	}
	rng := hx.Rng(c.Seed, "c20-histories")
	var hists []*c20Hist
	for len(hists) < nHist {
		h := &c20Hist{}
		n := 2 + rng.Intn(c20HistMaxFiles-1)
		if rng.Intn(4) == 0 {
			n = 2 + rng.Intn(2)
		}
		for i := 0; i < n; i++ {
			var f *c20File
			if rng.Intn(100) < 35 {
				f = c20GenFailing(rng)
			} else {
				f = c20GenFile(rng)
			}
			f.k0, f.gBase = i*c20NumRules, i*10
			f.render()
			h.files = append(h.files, f)
		}
		hists = append(hists, h)
	}
	var wg sync.WaitGroup
	sem := make(chan struct{}, runtime.GOMAXPROCS(0))
	for _, h := range hists {
		h := h
		wg.Add(1)
		sem <- struct{}{}
		go func() {
			defer wg.Done()
			defer func() { <-sem }()
			defer func() {
				if rec := recover(); rec != nil {
					h.extra = fmt.Sprintf("harness-panic:%v", rec)
				}
			}()
			h.exec(w)
		}()
	}
	wg.Wait()

	fx := b01(c20CompareFixed)
	type ref struct{ h, i int }
	var ops, impl, specOps []string
	var inputs []interface{}
	var refs []ref
	for hi, h := range hists {
		if strings.HasPrefix(h.extra, "harness-panic") || len(h.outs) != len(h.files) {
			res.Errorf("history %d: %s", hi, h.extra)
			continue
		}
		in := h.input()
		failedWithImports, interesting := false, false
		for i, f := range h.files {
			sx := f.sexp(w)
			ops = append(ops, "c20file "+fx+" "+sx)
			impl = append(impl, h.outs[i])
			inputs = append(inputs, in)
			specOps = append(specOps, "spec20 "+h.outs[i]+" "+sx)
			refs = append(refs, ref{hi, i})
			if h.failed[i] {
				res.Dist("hist:file:rejected")
				for _, g := range f.Groups {
					if !g.Rejected && len(g.Imports) > 0 {
						failedWithImports = true
					}
				}
			} else {
				res.Dist("hist:file:loaded")
				if failedWithImports {
					interesting = true
				}
			}
		}
		if interesting {
			res.Dist("hist:loaded-after-rejected-file-with-Import()")
		}
		res.Dist(fmt.Sprintf("hist:len=%d", len(h.files)))
		var key []string
		for _, f := range h.files {
			key = append(key, f.src)
		}
		res.Count("histories", strings.Join(key, "\x00"), interesting)
		if h.extra != "" {
			res.Violate(hx.Violation{Signature: "history:rejected-file-reports", What: "a rule of a file whose Load returned an error reports",
				Input: in, Impl: h.extra, Spec: "a failed Load adds nothing"})
		}
	}
	if len(hists) > 0 {
		res.Sample(map[string]interface{}{"history": hists[0].input()})
	}
	// model: every file of a history behaves as the model says for that file alone
	mans, err := c.Drv.Ask(ops)
	if err != nil {
		return err
	}
	// property: the executable statement on the observation of every file inside its history.  What the file
	// does on a fresh engine is the files suite's business; here only what the history changes is reported:
	// wherever the model or the statement objects, the same text is loaded into a fresh engine and compared.
	ans, err := c.Drv.Ask(specOps)
	if err != nil {
		return err
	}
	var suspects []int
	for k := range ops {
		if mans[k] != impl[k] || ans[k] != "holds" {
			suspects = append(suspects, k)
		}
	}
	for _, k := range suspects {
		k := k
		wg.Add(1)
		sem <- struct{}{}
		go func() {
			defer wg.Done()
			defer func() { <-sem }()
			defer func() {
				if rec := recover(); rec != nil {
					hists[refs[k].h].alone[refs[k].i] = fmt.Sprintf("harness-panic:%v", rec)
				}
			}()
			hists[refs[k].h].execAlone(w, refs[k].i)
		}()
	}
	wg.Wait()
	res.Dist(fmt.Sprintf("hist:files-rechecked-on-a-fresh-engine=%d", len(suspects)))
	for _, k := range suspects {
		h, i := hists[refs[k].h], refs[k].i
		a := ans[k]
		if mans[k] != impl[k] {
			in := h.input()
			res.Disagree(hx.Disagreement{Suite: "histories", Op: ops[k], Impl: impl[k], Model: mans[k], Input: in})
			inputs[k] = in
		}
		if h.outs[i] == h.alone[i] {
			continue
		}
		f := h.files[i]
		sig := "history:observation-differs-from-fresh-engine"
		if strings.HasPrefix(a, "violates ") {
			// name the first departure from the statement that the same file does not show on a fresh engine
			aloneAns, err := c.Drv.Ask([]string{"spec20 " + h.alone[i] + " " + f.sexp(w)})
			if err != nil {
				return err
			}
			onFresh := map[string]bool{}
			for _, v := range strings.Split(strings.TrimPrefix(aloneAns[0], "violates "), ",") {
				onFresh[v] = true
			}
			for _, v := range strings.Split(strings.TrimPrefix(a, "violates "), ",") {
				if onFresh[v] {
					continue
				}
				p := strings.SplitN(v, ":", 2)
				gr := strings.SplitN(p[0], ".", 2)
				gi, _ := strconv.Atoi(gr[0])
				ri, _ := strconv.Atoi(gr[1])
				aspect, exp := p[1], ""
				if j := strings.Index(aspect, ":exp="); j >= 0 {
					aspect, exp = aspect[:j], aspect[j+5:]
				}
				s := c20Signature(f, gi, ri, aspect)
				if aspect == "wrong-matches" && s == "opNamed:nested-vendor" {
					s = c20VendorOrBinding(f, gi, ri, h.outs[i], exp)
				}
				sig = "history:" + s
				break
			}
		}
		res.Violate(hx.Violation{Signature: sig,
			What:  fmt.Sprintf("file %d of a history of %d Load calls on one engine resolves its names differently than on a fresh engine", i, len(h.files)),
			Input: h.input(), Impl: h.outs[i], Spec: "fresh engine: " + h.alone[i] + "; spec20: " + a})
	}
	return nil
}

// ---------------------------------------------------------------------------------------------
// (2) fully-qualified names in GetType / GetInterface

// A dependency world: the analysed package app imports l1 (and, for the levels listed in direct, l<j> too);
// l<j> imports l<j+1>.  Every level declares T, I (M(T)), Impl (implements its own I) and re-exports values of the
// deeper levels' T and Impl without importing them (`var V3 = l2.V3`), so values of every level reach app through l1.
// The packages exist only in the harness' type-check (the "host"); the engine's own build context (the throw-away
// module on disk) sees nothing of them, except the levels listed in onDisk, of which it sees a DIFFERENT copy.
type c20DepWorld struct {
	id     int
	depth  int
	direct map[int]bool
	onDisk map[int]bool
	// filled by build
	srcs   map[string]string
	rules  string
	target *hx.Target
	values []string
	vtypes []types.Type
	pkgs   map[string]*types.Package
	// rule k: kind (GetType|GetInterface), level
	rk []c20DepRule
	// results
	out, errTxt string
	sets        [][]int
}

type c20DepRule struct {
	kind  string
	level int
}

func (w *c20DepWorld) path(j int) string {
	if j == 0 {
		return fmt.Sprintf("c20m/dw%d/app", w.id)
	}
	return fmt.Sprintf("c20m/dw%d/l%d", w.id, j)
}

func (w *c20DepWorld) levelSrc(j int) string {
	var sb strings.Builder
	fmt.Fprintf(&sb, "package l%d\n\n", j)
	if j < w.depth {
		fmt.Fprintf(&sb, "import next %q\n\n", w.path(j+1))
	}
	fmt.Fprintf(&sb, "type T struct{ N%d int }\n\ntype I interface{ M(T) }\n\ntype Impl struct{}\n\nfunc (Impl) M(T) {}\n\ntype Other struct{}\n\n", j)
	if j < w.depth {
		fmt.Fprintf(&sb, "var V%d next.T\nvar W%d next.Impl\n", j+1, j+1)
		for k := j + 2; k <= w.depth; k++ {
			fmt.Fprintf(&sb, "var V%d = next.V%d\nvar W%d = next.W%d\n", k, k, k, k)
		}
	}
	return sb.String()
}

// diskSrc: the copy of level j the engine's build context sees: same names, other declarations
func (w *c20DepWorld) diskSrc(j int) string {
	return fmt.Sprintf("package l%d\n\ntype T struct{ N%d int }\n\ntype I interface {\n\tM(T)\n\tOnlyInTheEnginesCopy()\n}\n\ntype Impl struct{}\n\nfunc (Impl) M(T) {}\n\ntype Other struct{}\n", j, j)
}

func (w *c20DepWorld) build(dir string) error {
	w.srcs = map[string]string{}
	for j := 1; j <= w.depth; j++ {
		w.srcs[w.path(j)] = w.levelSrc(j)
	}
	// the analysed package
	var sb strings.Builder
	sb.WriteString("package app\n\nimport (\n")
	fmt.Fprintf(&sb, "\tl1 %q\n", w.path(1))
	var dl []int
	for j := range w.direct {
		dl = append(dl, j)
	}
	sort.Ints(dl)
	for _, j := range dl {
		if j >= 2 && j <= w.depth {
			fmt.Fprintf(&sb, "\tl%d %q\n", j, w.path(j))
		}
	}
	sb.WriteString(")\n\ntype T struct{ N0 int }\n\ntype I interface{ M(T) }\n\ntype Impl struct{}\n\nfunc (Impl) M(T) {}\n\n")
	for _, j := range dl {
		if j >= 2 && j <= w.depth {
			fmt.Fprintf(&sb, "var _ l%d.Other\n", j)
		}
	}
	w.values = []string{"T{}", "Impl{}", "l1.T{}", "l1.Impl{}", "l1.Other{}", "&l1.T{}"}
	for k := 2; k <= w.depth; k++ {
		w.values = append(w.values, fmt.Sprintf("l1.V%d", k), fmt.Sprintf("l1.W%d", k))
	}
	for j := 0; j <= w.depth; j++ {
		w.rk = append(w.rk, c20DepRule{"GetType", j}, c20DepRule{"GetInterface", j})
	}
	sb.WriteString("\n")
	for i, v := range w.values {
		fmt.Fprintf(&sb, "var v%d = %s\n", i, v)
	}
	for k := range w.rk {
		fmt.Fprintf(&sb, "func p%d(interface{}) {}\n", k)
	}
	sb.WriteString("\nfunc f() {\n")
	for k := range w.rk {
		for i := range w.values {
			fmt.Fprintf(&sb, "\tp%d(v%d)\n", k, i)
		}
	}
	sb.WriteString("}\n")
	appSrc := sb.String()
	w.srcs[w.path(0)] = appSrc
	// rules: one custom filter per (kind, level)
	var rb strings.Builder
	rb.WriteString("package gorules\n\nimport (\n\t\"github.com/quasilyte/go-ruleguard/dsl\"\n\t\"github.com/quasilyte/go-ruleguard/dsl/types\"\n)\n\n")
	for k, r := range w.rk {
		fqn := w.path(r.level)
		if r.kind == "GetType" {
			fmt.Fprintf(&rb, "func f%d(ctx *dsl.VarFilterContext) bool {\n\treturn types.Identical(ctx.Type, ctx.GetType(%q))\n}\n\n", k, fqn+".T")
		} else {
			fmt.Fprintf(&rb, "func f%d(ctx *dsl.VarFilterContext) bool {\n\treturn types.Implements(ctx.Type, ctx.GetInterface(%q))\n}\n\n", k, fqn+".I")
		}
	}
	rb.WriteString("func g(m dsl.Matcher) {\n")
	for k := range w.rk {
		fmt.Fprintf(&rb, "\tm.Match(\"p%d($x)\").Where(m[\"x\"].Filter(f%d)).Report(\"R%d\")\n", k, k, k)
	}
	rb.WriteString("}\n")
	w.rules = rb.String()
	// host type-check, dependencies first
	fset := token.NewFileSet()
	imp := mapImporter{}
	w.pkgs = map[string]*types.Package{}
	info := &types.Info{
		Types:      map[ast.Expr]types.TypeAndValue{},
		Uses:       map[*ast.Ident]types.Object{},
		Defs:       map[*ast.Ident]types.Object{},
		Selections: map[*ast.SelectorExpr]*types.Selection{},
		Implicits:  map[ast.Node]types.Object{},
		Scopes:     map[ast.Node]*types.Scope{},
		Instances:  map[*ast.Ident]types.Instance{},
	}
	for j := w.depth; j >= 0; j-- {
		p := w.path(j)
		f, err := parser.ParseFile(fset, filepath.Base(p)+".go", w.srcs[p], parser.ParseComments)
		if err != nil {
			return fmt.Errorf("parse %s: %v\n%s", p, err, w.srcs[p])
		}
		var inf *types.Info
		if j == 0 {
			inf = info
		}
		pkg, err := (&types.Config{Importer: imp}).Check(p, fset, []*ast.File{f}, inf)
		if err != nil {
			return fmt.Errorf("check %s: %v\n%s", p, err, w.srcs[p])
		}
		imp[p] = pkg
		w.pkgs[p] = pkg
		if j == 0 {
			w.target = &hx.Target{Fset: fset, File: f, Info: info, Pkg: pkg, Src: []byte(appSrc), Name: "app.go"}
			for i := range w.values {
				w.vtypes = append(w.vtypes, pkg.Scope().Lookup(fmt.Sprintf("v%d", i)).Type())
			}
		}
	}
	// what the engine's own build context sees
	for j := range w.onDisk {
		if j < 1 || j > w.depth {
			continue
		}
		d := filepath.Join(dir, fmt.Sprintf("dw%d", w.id), fmt.Sprintf("l%d", j))
		if err := os.MkdirAll(d, 0o755); err != nil {
			return err
		}
		if err := os.WriteFile(filepath.Join(d, "l.go"), []byte(w.diskSrc(j)), 0o644); err != nil {
			return err
		}
	}
	return nil
}

// graphPkg: the package with that path among the analysed package and everything it imports, transitively
// (the harness' own search over go/types' Imports(); nil = the analysed program does not use such a package)
func c20GraphPkg(root *types.Package, path string) *types.Package {
	seen := map[*types.Package]bool{root: true}
	queue := []*types.Package{root}
	for len(queue) > 0 {
		p := queue[0]
		queue = queue[1:]
		if p.Path() == path {
			return p
		}
		for _, q := range p.Imports() {
			if !seen[q] {
				seen[q] = true
				queue = append(queue, q)
			}
		}
	}
	return nil
}

// expected: per rule the set of values the filter must accept — go/types on the analysed program's own packages
func (w *c20DepWorld) expected() ([][]int, error) {
	out := make([][]int, len(w.rk))
	for k, r := range w.rk {
		pkg := c20GraphPkg(w.target.Pkg, w.path(r.level))
		if pkg == nil {
			return nil, fmt.Errorf("%s is not in the import graph of the analysed package", w.path(r.level))
		}
		for i, vt := range w.vtypes {
			var ok bool
			if r.kind == "GetType" {
				ok = types.Identical(vt, pkg.Scope().Lookup("T").Type())
			} else {
				ok = types.Implements(vt, pkg.Scope().Lookup("I").Type().Underlying().(*types.Interface))
			}
			if ok {
				out[k] = append(out[k], i)
			}
		}
	}
	return out, nil
}

func (w *c20DepWorld) exec() {
	e := ruleguard.NewEngine()
	if err := hx.LoadInto(e, "rules.go", w.rules, nil); err != nil {
		w.errTxt = err.Error()
		w.out = "load-failed"
		return
	}
	reports, pk, _, err := hx.Run(e, w.target, hx.RunOpts{})
	if err != nil || pk != "" {
		w.errTxt = fmt.Sprintf("%v %s", err, pk)
		w.out = "run-failed"
		return
	}
	w.sets = make([][]int, len(w.rk))
	for _, r := range reports {
		m := c20ReportRe.FindStringSubmatch(string(w.target.Src[r.Pos:r.End]))
		if m == nil || r.Message != "R"+m[1] {
			w.out = "unexpected-report:" + strings.ReplaceAll(r.String(), " ", "_")
			return
		}
		k, _ := strconv.Atoi(m[1])
		i, _ := strconv.Atoi(m[2])
		w.sets[k] = append(w.sets[k], i)
	}
	for k := range w.sets {
		sort.Ints(w.sets[k])
	}
	w.out = "ok"
}

// c20Graph: the import graph of the analysed package as go/types holds it (breadth-first from root; Imports() as
// indices, Complete()), for the model op c20dep
func c20Graph(root *types.Package) ([]*types.Package, string) {
	nodes := []*types.Package{root}
	idx := map[*types.Package]int{root: 0}
	for i := 0; i < len(nodes); i++ {
		for _, q := range nodes[i].Imports() {
			if _, ok := idx[q]; !ok {
				idx[q] = len(nodes)
				nodes = append(nodes, q)
			}
		}
	}
	var sb strings.Builder
	sb.WriteString("(graph")
	for _, p := range nodes {
		fmt.Fprintf(&sb, " (pkg %s %s (", hx.HexS(p.Path()), b01(p.Complete()))
		for k, q := range p.Imports() {
			if k > 0 {
				sb.WriteByte(' ')
			}
			sb.WriteString(strconv.Itoa(idx[q]))
		}
		sb.WriteString("))")
	}
	sb.WriteString(")")
	return nodes, sb.String()
}

// findTypeSources drives engineState.FindType (hook VerifFindType, a fresh engine: cold caches) with the full name of
// T of every level and reports where the package of the answer came from: `graph:<i>` (the very package object of the
// analysed program) or `importer` (anything else, an error included: the fallback was taken).
func (w *c20DepWorld) findTypeSources(extra []string) (paths, obs []string, graph string) {
	nodes, graph := c20Graph(w.target.Pkg)
	e := ruleguard.NewEngine()
	imp := ruleguard.VerifNewImporter(e, token.NewFileSet())
	for j := 0; j <= w.depth; j++ {
		paths = append(paths, w.path(j))
	}
	paths = append(paths, extra...)
	for _, path := range paths {
		o := "importer"
		func() {
			defer func() {
				if rec := recover(); rec != nil {
					o = "panic"
				}
			}()
			typ, err := ruleguard.VerifFindType(e, imp, w.target.Pkg, path+".T")
			if err != nil {
				return
			}
			if n, ok := typ.(*types.Named); ok && n.Obj().Pkg() != nil {
				for i, p := range nodes {
					if p == n.Obj().Pkg() {
						o = fmt.Sprintf("graph:%d", i)
					}
				}
			}
		}()
		obs = append(obs, o)
	}
	return paths, obs, graph
}

func (w *c20DepWorld) relation(level int) string {
	switch {
	case level == 0:
		return "the-analysed-package-itself"
	case level == 1 || w.direct[level]:
		return "direct-dependency"
	}
	return "indirect-dependency"
}

func (w *c20DepWorld) input() map[string]interface{} {
	var disk []string
	for j := 1; j <= w.depth; j++ {
		if w.onDisk[j] {
			disk = append(disk, w.path(j)+":\n"+w.diskSrc(j))
		}
	}
	return map[string]interface{}{"rules": w.rules, "host-packages (type-checked from these sources, not on disk)": w.srcs,
		"engine-build-context-sees-instead": disk, "values": w.values, "error": w.errTxt}
}

func c20SetStr(s []int) string {
	if len(s) == 0 {
		return "-"
	}
	var parts []string
	for _, i := range s {
		parts = append(parts, strconv.Itoa(i))
	}
	return strings.Join(parts, ",")
}

func c20Deps(c *Ctx, dir string) error {
	res := c.Res
	nWorlds := 24
	if c.Thorough {
		nWorlds = 120
	}
	rng := hx.Rng(c.Seed, "c20-deps")
	var worlds []*c20DepWorld
	for id := 0; id < nWorlds; id++ {
		w := &c20DepWorld{id: id, depth: 1 + rng.Intn(4), direct: map[int]bool{}, onDisk: map[int]bool{}}
		if id < 4 {
			w.depth = id + 1 // every depth in every run
		}
		for j := 2; j <= w.depth; j++ {
			if rng.Intn(4) == 0 {
				w.direct[j] = true
			}
		}
		for j := 1; j <= w.depth; j++ {
			if rng.Intn(3) == 0 {
				w.onDisk[j] = true
			}
		}
		if err := w.build(dir); err != nil {
			return fmt.Errorf("dependency world %d: %v", id, err)
		}
		worlds = append(worlds, w)
	}
	var wg sync.WaitGroup
	sem := make(chan struct{}, runtime.GOMAXPROCS(0))
	for _, w := range worlds {
		w := w
		wg.Add(1)
		sem <- struct{}{}
		go func() {
			defer wg.Done()
			defer func() { <-sem }()
			defer func() {
				if rec := recover(); rec != nil {
					w.out, w.errTxt = "harness-panic", fmt.Sprint(rec)
				}
			}()
			w.exec()
		}()
	}
	wg.Wait()
	for _, w := range worlds {
		exp, err := w.expected()
		if err != nil {
			return err
		}
		in := w.input()
		res.Dist(fmt.Sprintf("deps:depth=%d", w.depth))
		if w.out == "harness-panic" || w.out == "load-failed" {
			res.Errorf("dependency world %d: %s: %s", w.id, w.out, w.errTxt)
			continue
		}
		// which relation the deepest level has to the analysed package (for the signature of a failed run)
		for k, r := range w.rk {
			rel := w.relation(r.level)
			seen := "engine-sees-no-copy"
			if w.onDisk[r.level] {
				seen = "engine-sees-another-copy"
			}
			res.Dist("deps:" + r.kind + ":" + rel + ":" + seen)
			res.Count("fqn-dependencies", fmt.Sprintf("%d/%d/%v/%v", w.id, k, w.direct, w.onDisk), rel == "indirect-dependency")
			if w.out != "ok" {
				continue
			}
			if got, want := c20SetStr(w.sets[k]), c20SetStr(exp[k]); got != want {
				in2 := map[string]interface{}{}
				for a, b := range in {
					in2[a] = b
				}
				in2["rule"] = fmt.Sprintf("R%d: %s(%q)", k, r.kind, w.path(r.level)+map[string]string{"GetType": ".T", "GetInterface": ".I"}[r.kind])
				res.Violate(hx.Violation{Signature: "custom-filter:" + r.kind + ":fqn-of-" + rel + ":wrong-matches:" + seen,
					What:  "a fully-qualified name in a custom filter does not denote the package of that path the analysed program uses",
					Input: in2, Impl: got, Spec: "go/types on the analysed program's own packages: " + want})
			}
		}
		if w.out != "ok" {
			// the run as a whole failed: every name is resolvable in the analysed program, so this is a violation;
			// name the weakest relation among the levels (the one a lookup is most likely to miss)
			rel := "direct-dependency"
			for j := 2; j <= w.depth; j++ {
				if !w.direct[j] {
					rel = "indirect-dependency"
				}
			}
			res.Violate(hx.Violation{Signature: "custom-filter:GetType/GetInterface:fqn-of-" + rel + ":" + w.out,
				What:  "a run with custom filters naming packages of the analysed program by their full path fails",
				Input: in, Impl: w.out + ": " + w.errTxt, Spec: "every named package is in the import graph of the analysed package: the names resolve"})
		}
	}
	if len(worlds) > 0 {
		res.Sample(map[string]interface{}{"dependency-world": worlds[len(worlds)-1].input()})
	}
	// the package choice itself: engineState.FindType against the model's findDependency (c20dep) and the statement
	// (spec20dep: a package the analysed program uses is never looked for through the engine's importer)
	var ops, impl, specOps []string
	var inputs []interface{}
	var rels []string
	for _, w := range worlds {
		var extra []string
		if w.id < 3 {
			extra = []string{"c20m/p1/foo", "c20m/nonexistent/bar"}[:1+w.id%2] // on disk only / nowhere: not packages of the program
		}
		paths, obs, graph := w.findTypeSources(extra)
		for k, path := range paths {
			rel := "not-in-the-import-graph"
			if k <= w.depth {
				rel = w.relation(k)
			}
			ops = append(ops, fmt.Sprintf("c20dep 0 %s %s", hx.HexS(path), graph))
			impl = append(impl, obs[k])
			specOps = append(specOps, fmt.Sprintf("spec20dep %s 0 %s %s", obs[k], hx.HexS(path), graph))
			in := w.input()
			delete(in, "rules")
			in["FindType"] = path + ".T"
			in["current package"] = w.path(0)
			inputs = append(inputs, in)
			rels = append(rels, rel)
			res.Count("find-dependency", fmt.Sprintf("%d/%s/%v", w.id, path, w.direct), rel == "indirect-dependency")
			res.Dist("finddep:" + rel)
		}
	}
	if err := res.Compare(c.Drv, "find-dependency", ops, impl, inputs); err != nil {
		return err
	}
	sans, err := c.Drv.Ask(specOps)
	if err != nil {
		return err
	}
	for k, a := range sans {
		if a == "holds" {
			continue
		}
		res.Violate(hx.Violation{Signature: "FindType:fqn-of-" + rels[k] + ":package-not-taken-from-the-analysed-program",
			What:  "engineState.FindType does not resolve a fully-qualified name to the package of that path the analysed program uses",
			Input: inputs[k], Impl: impl[k], Spec: specOps[k] + " => " + a})
	}
	return nil
}
