package main

import (
	"bytes"
	"fmt"
	"go/ast"
	"go/importer"
	"go/parser"
	"go/token"
	"go/types"
	"math/rand"
	"os"
	"os/exec"
	"path/filepath"
	"regexp"
	"sort"
	"strconv"
	"strings"
	"sync"
	"time"

	"github.com/quasilyte/go-ruleguard/ruleguard/quasigo"
	"github.com/quasilyte/go-ruleguard/ruleguard/quasigo/stdlib/qfmt"
	"github.com/quasilyte/go-ruleguard/ruleguard/quasigo/stdlib/qstrconv"
	"github.com/quasilyte/go-ruleguard/ruleguard/quasigo/stdlib/qstrings"
	"verifharness/hx"
)

func init() { register("C04", runC04) }

// c04Fixes selects the variant of the Lean model the correspondence compares the code with:
// one digit per repair, in the order of Q.Fixes
// (frame, ifJump, orPop, range, shadow, forClause, assignOp, ifInit, argSig).
// "000000000" = the code as it is; set a digit to 1 after applying the matching verif/fixes/*.diff.
const c04Fixes = "110111111"

const c04Fuel = 200000

type qNative struct {
	qual, name string
	f          func(*quasigo.ValueStack)
}

var qNatives = []qNative{
	{"strings", "Replace", qstrings.Replace},
	{"strings", "ReplaceAll", qstrings.ReplaceAll},
	{"strings", "TrimPrefix", qstrings.TrimPrefix},
	{"strings", "TrimSuffix", qstrings.TrimSuffix},
	{"strings", "HasPrefix", qstrings.HasPrefix},
	{"strings", "HasSuffix", qstrings.HasSuffix},
	{"strings", "Contains", qstrings.Contains},
	{"strconv", "Atoi", qstrconv.Atoi},
	{"strconv", "Itoa", qstrconv.Itoa},
	{"fmt", "Sprintf", qfmt.Sprintf},
}

// qCase is one program with everything observed about it on the implementation side.
type qCase struct {
	id       int
	prog     qProgram
	file     string
	sexp     string
	decls    []*ast.FuncDecl
	sigs     []*types.Signature
	funcs    []*quasigo.Func // compiled prefix
	env      *quasigo.Env
	compile  string     // impl answer of the compile op
	tuples   [][]string // per function: argument tuples in protocol form
	args     [][][]interface{}
	evals    [][]string // per function, per tuple: impl answer
	model    [][]string // per function, per tuple: model answer (op qeval)
	order    []int      // registration order of the natives (indices into qNatives)
	offsets  [][2]int   // per declared function: byte range of its declaration in file
	wideFrom []int      // per function: index of the first tuple added by the wide search (len(tuples) if none)
	wideWhy  []string   // per function: why the wide search looked at it ("" = it did not)
	features map[string]int
}

var qImporterOnce sync.Once
var qImporter types.Importer
var qImporterMu sync.Mutex

func qCheck(pkgPath, filename, src string) (*token.FileSet, *ast.File, *types.Package, *types.Info, error) {
	qImporterOnce.Do(func() { qImporter = importer.ForCompiler(token.NewFileSet(), "source", nil) })
	fset := token.NewFileSet()
	f, err := parser.ParseFile(fset, filename, src, 0)
	if err != nil {
		return nil, nil, nil, nil, err
	}
	info := &types.Info{
		Types: map[ast.Expr]types.TypeAndValue{},
		Uses:  map[*ast.Ident]types.Object{},
		Defs:  map[*ast.Ident]types.Object{},
	}
	qImporterMu.Lock()
	defer qImporterMu.Unlock()
	cfg := types.Config{Importer: qImporter}
	pkg, err := cfg.Check(pkgPath, fset, []*ast.File{f}, info)
	if err != nil {
		return nil, nil, nil, nil, err
	}
	return fset, f, pkg, info, nil
}

func qFormatFunc(fn *quasigo.Func) string {
	d := quasigo.VerifDump(fn)
	var cs, ics []string
	for _, c := range d.Constants {
		if s, ok := c.(string); ok {
			cs = append(cs, hx.HexS(s))
		} else {
			cs = append(cs, fmt.Sprintf("?%T", c))
		}
	}
	for _, c := range d.IntConstants {
		ics = append(ics, fmt.Sprint(c))
	}
	return fmt.Sprintf("%s/%s/%s/%d/%d", hx.Hex(d.Code), commaList(cs), commaList(ics), d.NumObjectParams, d.NumIntParams)
}

func commaList(xs []string) string {
	if len(xs) == 0 {
		return "-"
	}
	return strings.Join(xs, ",")
}

// qBuild type-checks the program, compiles it with the real compiler (functions in order, each one
// registered after it compiled, like ir_loader.compileFilterFuncs) and serialises it for the model.
func qBuild(id int, p qProgram, r *rand.Rand) (*qCase, error) {
	return qBuildOrder(id, p, func() []int { return r.Perm(len(qNatives)) })
}

// qBuildOrder is qBuild with a given registration order of the natives (the child process repeats the
// parent's build with the parent's order).
func qBuildOrder(id int, p qProgram, orderOf func() []int) (*qCase, error) {
	c := &qCase{id: id, prog: p, file: p.file("qprog")}
	if p.Raw != "" {
		c.file = p.Raw
	}
	fset, f, pkg, info, err := qCheck("qprog", "qprog.go", c.file)
	if err != nil {
		return nil, err
	}
	ser := newQSer(info)
	env := quasigo.NewEnv()
	var nat []string
	c.order = orderOf() // drawn after the type check: a rejected program consumes nothing from the stream
	for _, i := range c.order {
		if i < 0 || i >= len(qNatives) {
			return nil, fmt.Errorf("bad native index %d", i)
		}
		n := qNatives[i]
		env.AddNativeFunc(n.qual, n.name, n.f)
		nat = append(nat, fmt.Sprintf("(%d %s.%s)", ser.key(n.qual, n.name), n.qual, n.name))
	}
	c.env = env
	var fns []string
	for _, d := range f.Decls {
		fd, ok := d.(*ast.FuncDecl)
		if !ok || fd.Body == nil {
			continue
		}
		c.decls = append(c.decls, fd)
		c.offsets = append(c.offsets, [2]int{fset.Position(fd.Pos()).Offset, fset.Position(fd.End()).Offset})
		c.sigs = append(c.sigs, info.ObjectOf(fd.Name).Type().(*types.Signature))
		fns = append(fns, ser.funcDecl(pkg.Path(), fd))
	}
	c.sexp = "(prog (natives" + spaced(nat) + ")" + spaced(fns) + ")"
	status := "ok"
	for _, fd := range c.decls {
		fd := fd
		var fn *quasigo.Func
		st := hx.Safe(func() string {
			ctx := &quasigo.CompileContext{Env: env, Package: pkg, Types: info, Fset: fset}
			var err error
			fn, err = quasigo.Compile(ctx, fd)
			if err != nil {
				return "err"
			}
			return "ok"
		})
		if st != "ok" {
			status = fmt.Sprintf("%s %d", st, len(c.funcs))
			break
		}
		env.AddFunc(pkg.Path(), fd.Name.String(), fn)
		c.funcs = append(c.funcs, fn)
	}
	var fs []string
	for _, fn := range c.funcs {
		fs = append(fs, qFormatFunc(fn))
	}
	c.compile = status + spaced(fs)
	n := len(c.funcs)
	c.tuples, c.args = make([][]string, n), make([][][]interface{}, n)
	c.evals, c.model = make([][]string, n), make([][]string, n)
	c.wideFrom, c.wideWhy = make([]int, n), make([]string, n)
	return c, nil
}

// addTuples appends argument tuples to function fi (duplicates of tuples it already has are dropped) and
// returns the index range of the new ones.
func (c *qCase) addTuples(fi int, ts []string, as [][]interface{}) (lo, hi int) {
	seen := map[string]bool{}
	for _, t := range c.tuples[fi] {
		seen[t] = true
	}
	lo = len(c.tuples[fi])
	for i, t := range ts {
		if seen[t] {
			continue
		}
		seen[t] = true
		c.tuples[fi] = append(c.tuples[fi], t)
		c.args[fi] = append(c.args[fi], as[i])
		c.evals[fi] = append(c.evals[fi], "")
		c.model[fi] = append(c.model[fi], "")
	}
	return lo, len(c.tuples[fi])
}

var qArgInts = []int{0, 1, -1, 2, 3, 4, 5, 7, 10, -7, 100, 255, 256, 9223372036854775807, -9223372036854775808}
var qArgStrs = []string{"", "a", "b", "ab", "abc", "hello", "hello, world", "x", "é", "foo bar", "\xff\x00"}

func qGenArgs(sig *types.Signature, r *rand.Rand) ([]interface{}, string) {
	var vals []interface{}
	var parts []string
	for i := 0; i < sig.Params().Len(); i++ {
		switch qTyS(sig.Params().At(i).Type()) {
		case "int":
			v := qArgInts[r.Intn(len(qArgInts))]
			if r.Intn(6) == 0 {
				v = r.Intn(41) - 20
			}
			vals = append(vals, v)
			parts = append(parts, fmt.Sprintf("i:%d", v))
		case "str":
			v := qArgStrs[r.Intn(len(qArgStrs))]
			vals = append(vals, v)
			parts = append(parts, "s:"+hx.HexS(v))
		default:
			v := r.Intn(2) == 0
			vals = append(vals, v)
			parts = append(parts, "b:"+b01(v))
		}
	}
	if len(parts) == 0 {
		return vals, "-"
	}
	return vals, strings.Join(parts, ",")
}

func qShowValue(v interface{}) string {
	switch v := v.(type) {
	case string:
		return "str:" + hx.HexS(v)
	case bool:
		return "bool:" + b01(v)
	case nil:
		return "nil"
	case int:
		return fmt.Sprintf("boxed:%d", v)
	case error:
		return qShowError(v)
	}
	return fmt.Sprintf("other:%T", v)
}

// qShowError writes an error value the way the model and the reference semantics do: the errors a function of the
// accepted subset can hold come from strconv.Atoi, and are identified by their class (1 = syntax, 2 = out of range)
// and the operand; any other error is shown by its text.
func qShowError(e error) string {
	if ne, ok := e.(*strconv.NumError); ok && ne.Func == "Atoi" {
		switch ne.Err {
		case strconv.ErrSyntax:
			return "err:1:" + hx.HexS(ne.Num)
		case strconv.ErrRange:
			return "err:2:" + hx.HexS(ne.Num)
		}
	}
	return "err:?:" + hx.HexS(e.Error())
}

// qPlainParams: every parameter is an int, a string or a bool (the argument values the property quantifies over).
// A function with an object parameter (error, interface) is only reached through its callers.
func qPlainParams(sig *types.Signature) bool {
	for i := 0; i < sig.Params().Len(); i++ {
		switch qTyS(sig.Params().At(i).Type()) {
		case "int", "str", "bool":
		default:
			return false
		}
	}
	return true
}

// qCallReal runs quasigo.Call on one argument tuple.
func qCallReal(ee *quasigo.EvalEnv, fn *quasigo.Func, sig *types.Signature, args []interface{}) string {
	ee.Stack.Reset()
	nobj, nint := 0, 0
	for _, a := range args {
		if v, ok := a.(int); ok {
			ee.Stack.PushInt(v)
			nint++
		} else {
			ee.Stack.Push(a)
			nobj++
		}
	}
	out := hx.Safe(func() string {
		res := quasigo.Call(ee, fn)
		switch {
		case sig.Results().Len() == 0:
			return "void"
		case qTyS(sig.Results().At(0).Type()) == "int":
			return fmt.Sprintf("int:%d", res.IntValue())
		default:
			return qShowValue(res.Value())
		}
	})
	if strings.HasPrefix(out, "panic ") {
		out = "panic:" + strings.TrimPrefix(out, "panic ")
	} else if o, i := quasigo.VerifStackDepths(ee); o != nobj || i != nint {
		out += "!stack" // Call's contract: the stack is cut back to the arguments
	}
	ee.Stack.Reset()
	return out
}

// qGenTuples draws the argument tuples of every compiled function of the case and returns the items to evaluate.
func qGenTuples(c *qCase, r *rand.Rand, nTuples int) []qItem {
	var items []qItem
	for i := range c.funcs {
		if !qPlainParams(c.sigs[i]) {
			continue
		}
		var ts []string
		var as [][]interface{}
		for k := 0; k < nTuples; k++ {
			vals, s := qGenArgs(c.sigs[i], r)
			ts = append(ts, s)
			as = append(as, vals)
		}
		lo, hi := c.addTuples(i, ts, as)
		c.wideFrom[i] = hi
		if hi > lo {
			items = append(items, qItem{c, i, lo, hi})
		}
	}
	return items
}

// qItem is a range of argument tuples of one function of one program.
type qItem struct {
	qc     *qCase
	fi     int
	lo, hi int
}

// qFuncTokens splits a compile answer ("ok f0 f1 …" / "err N f0 …") into its status and the compiled functions.
func qFuncTokens(compile string) (string, []string) {
	var st, fs []string
	for _, t := range strings.Fields(compile) {
		if strings.Contains(t, "/") {
			fs = append(fs, t)
		} else {
			st = append(st, t)
		}
	}
	return strings.Join(st, " "), fs
}

// c04EvalItems: model first (op qeval), then the real VM in the child process, then the comparison.
// A real call is not made when the model (which agrees with the code on everything compared so far) outgrows
// its memory: the call would do the same.  Every other call is made, with the child's deadline as its step
// bound: the answers "timeout" / "memory" / "died" are results like any other (where the model runs out of
// fuel nothing is compared, but the reference semantics still judges the call's answer in c04Spec).
func c04EvalItems(c *Ctx, rr *qReal, items []qItem, suite string, bytesDiffer map[*qCase]map[int]bool) error {
	res := c.Res
	var ops []string
	for _, it := range items {
		ops = append(ops, fmt.Sprintf("qeval %s %d %d %s %s", c04Fixes, c04Fuel, it.fi, strings.Join(it.qc.tuples[it.fi][it.lo:it.hi], ";"), it.qc.sexp))
	}
	ans, err := askPar(c.Drv, ops, 8)
	if err != nil {
		return err
	}
	if dump := os.Getenv("C04_DUMP"); dump != "" {
		var sb strings.Builder
		for i := range ops {
			sb.WriteString(ops[i] + "\n=> " + ans[i] + "\n")
		}
		f, ferr := os.OpenFile(dump, os.O_APPEND|os.O_CREATE|os.O_WRONLY, 0o644)
		if ferr == nil {
			_, _ = f.WriteString(sb.String())
			_ = f.Close()
		}
	}
	for i, it := range items {
		model := strings.Split(ans[i], " | ")
		fill := ""
		switch {
		case ans[i] == "oom":
			// the whole op (all tuples of this function) died in the model: make none of the calls
			res.Dist("eval:model-out-of-memory")
			fill = "oom"
		case len(model) != it.hi-it.lo:
			res.Disagree(hx.Disagreement{Suite: suite, Op: ops[i], Impl: "-", Model: ans[i]})
			fill = "bad"
		}
		for k := it.lo; k < it.hi; k++ {
			if fill != "" {
				it.qc.model[it.fi][k] = fill
			} else {
				it.qc.model[it.fi][k] = model[k-it.lo]
			}
		}
	}
	tReal := time.Now()
	defer func() {
		if os.Getenv("C04_DEBUG") != "" {
			fmt.Fprintf(os.Stderr, "C04_DEBUG real+compare %s: %.1fs\n", suite, time.Since(tReal).Seconds())
		}
	}()
	for _, it := range items {
		qc, fi := it.qc, it.fi
		abandoned := false
		for k := it.lo; k < it.hi; k++ {
			m := qc.model[fi][k]
			switch {
			case m == "oom" || m == "bad":
				qc.evals[fi][k] = "skipped"
				continue
			case abandoned || (rr.Timeouts >= 12 && bytesDiffer[qc][fi]):
				// bounded cost of a failing run: one timeout per function and item, and after a dozen of them no
				// more calls of functions that are already reported (their bytes differ from the model's)
				qc.evals[fi][k] = "not-run"
				res.Dist(suite + ":not-run-after-timeout")
				continue
			}
			out, err := rr.Call(qc, fi, qc.tuples[fi][k])
			if err != nil {
				return err
			}
			if out == "timeout" && !rr.Confirmed {
				// until one is confirmed, a timeout is repeated in a fresh child with three times the deadline
				if out, err = rr.Confirm(qc, fi, qc.tuples[fi][k]); err != nil {
					return err
				}
				if out != "timeout" {
					rr.Timeouts--
					res.Notes = append(res.Notes, fmt.Sprintf("a quasigo.Call answered only on the second attempt (machine under load?): program %d func %d args %s", qc.id, fi, qc.tuples[fi][k]))
				} else {
					// a run with a confirmed non-terminating call fails anyway: the later ones get a third of the deadline
					rr.Confirmed = true
					rr.deadline = qCallDeadline / 3
				}
			}
			if out == "timeout" || out == "memory" || strings.HasPrefix(out, "died") {
				abandoned = true
				res.Dist(suite + ":real-call-" + out)
				if os.Getenv("C04_DEBUG") != "" {
					fmt.Fprintf(os.Stderr, "C04_DEBUG %s: program %d func %d args %s model %s\n%s\n", out, qc.id, fi, qc.tuples[fi][k], m, qc.file)
				}
			}
			qc.evals[fi][k] = out
		}
	}
	for _, it := range items {
		qc, fi := it.qc, it.fi
		src := qc.file
		nontrivial := strings.Contains(src, "if ") || strings.Contains(src, "for ") || strings.Contains(src, "_f")
		for k := it.lo; k < it.hi; k++ {
			m, im := qc.model[fi][k], qc.evals[fi][k]
			res.Count(suite, fmt.Sprintf("%d/%d/%s", qc.id, fi, qc.tuples[fi][k]), nontrivial)
			switch {
			case im == "not-run":
				continue
			case m == "fuel" || m == "unsup" || m == "oom" || m == "bad" || im == "skipped":
				res.Dist(suite + ":skipped-" + m)
				continue
			case strings.HasPrefix(im, "panic:"):
				res.Dist(suite + ":" + im)
			default:
				res.Dist(suite + ":" + strings.SplitN(im, ":", 2)[0])
			}
			if m != im {
				res.Disagree(hx.Disagreement{Suite: suite, Op: fmt.Sprintf("qeval %s %d %d %s <prog>", c04Fixes, c04Fuel, fi, qc.tuples[fi][k]),
					Impl: im, Model: m, Input: map[string]interface{}{"source": src, "func": fi, "args": qc.tuples[fi][k]}})
			}
		}
	}
	return nil
}

// qAskLimited pipes ops to one driver process whose address space is capped.  A miscompiled loop can
// double a string on every iteration: the model (like the real VM) would then eat all memory long before
// its fuel runs out.  When the driver dies the batch is bisected; the single op that kills it is answered
// "oom" (treated like "fuel": nothing is claimed, and the real call is not made either).
func qAskLimited(d *hx.Drv, ops []string) ([]string, error) {
	if len(ops) == 0 {
		return nil, nil
	}
	var in bytes.Buffer
	for _, l := range ops {
		if strings.ContainsAny(l, "\n\r") {
			return nil, fmt.Errorf("protocol line contains a newline")
		}
		in.WriteString(l)
		in.WriteByte('\n')
	}
	cmd := exec.Command(d.Path)
	cmd.Stdin = &in
	var out, errb bytes.Buffer
	cmd.Stdout, cmd.Stderr = &out, &errb
	err := cmd.Start()
	if err == nil {
		// resident-set watchdog: kill the driver when it grows beyond 2 GiB or runs for more than 5 minutes
		stop := make(chan struct{})
		go func() {
			t0 := time.Now()
			for {
				select {
				case <-stop:
					return
				case <-time.After(40 * time.Millisecond):
				}
				b, rerr := os.ReadFile(fmt.Sprintf("/proc/%d/statm", cmd.Process.Pid))
				if rerr == nil {
					f := strings.Fields(string(b))
					if len(f) > 1 {
						if pages, perr := strconv.Atoi(f[1]); perr == nil && pages*os.Getpagesize() > 2<<30 {
							_ = cmd.Process.Kill()
							return
						}
					}
				}
				if time.Since(t0) > 5*time.Minute {
					_ = cmd.Process.Kill()
					return
				}
			}
		}()
		err = cmd.Wait()
		close(stop)
	}
	if err == nil {
		res := strings.Split(strings.TrimRight(out.String(), "\n"), "\n")
		if len(res) != len(ops) {
			return nil, fmt.Errorf("driver answered %d lines for %d ops; stderr: %s", len(res), len(ops), errb.String())
		}
		return res, nil
	}
	if len(ops) == 1 {
		return []string{"oom"}, nil
	}
	a, err := qAskLimited(d, ops[:len(ops)/2])
	if err != nil {
		return nil, err
	}
	b, err := qAskLimited(d, ops[len(ops)/2:])
	if err != nil {
		return nil, err
	}
	return append(a, b...), nil
}

// askPar answers the ops with a pool of driver processes, a few hundred ops per process (small batches keep
// the bisection after an out-of-memory death cheap).
func askPar(d *hx.Drv, ops []string, workers int) ([]string, error) {
	return askParChunk(d, ops, workers, 300)
}

func askParChunk(d *hx.Drv, ops []string, workers, chunk int) ([]string, error) {
	if len(ops) == 0 {
		return nil, nil
	}
	if os.Getenv("C04_DEBUG") != "" {
		t0 := time.Now()
		_ = os.WriteFile(fmt.Sprintf("/tmp/c04ops-%s-%d.txt", strings.SplitN(ops[0], " ", 2)[0], len(ops)), []byte(strings.Join(ops, "\n")+"\n"), 0o644)
		defer func() {
			fmt.Fprintf(os.Stderr, "C04_DEBUG askPar %s x%d: %.1fs\n", strings.SplitN(ops[0], " ", 2)[0], len(ops), time.Since(t0).Seconds())
		}()
	}
	out := make([]string, len(ops))
	type job struct{ lo, hi int }
	jobs := make(chan job)
	var firstErr error
	var mu sync.Mutex
	var wg sync.WaitGroup
	for w := 0; w < workers; w++ {
		wg.Add(1)
		go func() {
			defer wg.Done()
			for j := range jobs {
				ans, err := qAskLimited(d, ops[j.lo:j.hi])
				if err != nil {
					mu.Lock()
					if firstErr == nil {
						firstErr = err
					}
					mu.Unlock()
					continue
				}
				copy(out[j.lo:j.hi], ans)
			}
		}()
	}
	for lo := 0; lo < len(ops); lo += chunk {
		hi := lo + chunk
		if hi > len(ops) {
			hi = len(ops)
		}
		jobs <- job{lo, hi}
	}
	close(jobs)
	wg.Wait()
	if firstErr != nil {
		return nil, firstErr
	}
	return out, nil
}

func runC04(c *Ctx) error {
	res := c.Res
	if os.Getenv("C04_ONLY_NATIVES") != "" {
		return c04Natives(c) // debugging aid: part 2 alone
	}
	nProg, nTuples := 400, 5
	if c.Thorough {
		nProg, nTuples = 15000, 8
	}
	res.Rule = fmt.Sprintf("%d generated programs (2-5 functions each: nested if/else with nested returns, loops with break, "+
		"nested loops followed by a way out of the outer loop (if/else/nested-if/bare break, counter advanced at the top, middle or end of the body; "+
		"one function in five starts with such a shape so that every argument tuple executes it), "+
		"&&/|| in every expression position, calls between functions, strings/strconv/fmt natives, slicing, up to 8 locals) "+
		"type-checked by go/types; real quasigo.Compile bytes+pools+frame sizes == model compile (op qcompile), real quasigo.Call (made in a child "+
		"process with a deadline as step bound and a memory cap) == model eval on %d argument tuples per function (op qeval); functions whose bytes or "+
		"answers differ from the model's, their callers and a sample of the others are run again over a structured argument set (boundary ints, all bool "+
		"combinations, strings of several lengths: suite eval-wide); every answer is judged by the reference semantics and go run; "+
		"a case is non-trivial when the function has a branch, loop or call; distinct by (program source, function, arguments).  "+
		"Focus stream (c04_focus.go): programs around nil object results between user functions (error / interface{} results compared with nil, "+
		"stored, formatted, passed on, returned again), the blank identifier in := and = forms with parameters and locals read afterwards, and the "+
		"natives at their corners (fmt.Sprintf over every verb/flag/width/index form with 0-4 unrelated operands incl. error operands and formats "+
		"taken from parameters; strings.Replace count classes; strconv at the ends of the int range), run on arguments from a domain of numeric and "+
		"format strings (suite eval-focus); where the reference semantics does not model a native call, quasigo.Call is compared with go run of the "+
		"same source directly (suite go-direct).  Part 2 (c04_natives.go, c04_api.go): hand-written mirrors on two targets (capture classes; defined "+
		"types over every kind of underlying type, aliases, pointers/slices/arrays of them), generated straight-line filters over the dsl/types API "+
		"against the same walk made with go/types, Do functions with several DoVar values alive in every read order", nProg, nTuples)

	rng := hx.Rng(c.Seed, "c04-programs")
	argRng := hx.Rng(c.Seed, "c04-args")
	feat := map[string]int{}
	var cases []*qCase
	rejected := map[string]int{}
	if src := os.Getenv("C04_SRC"); src != "" {
		// debugging aid: run the suites on one given source file instead of the generated stream
		b, err := os.ReadFile(src)
		if err != nil {
			return err
		}
		qc, err := qBuild(0, qProgram{Raw: string(b)}, rng)
		if err != nil {
			return err
		}
		cases = append(cases, qc)
		nProg = 0
	}
	for i := 0; len(cases) < nProg && i < nProg*3; i++ {
		p := genProgram(rng, fmt.Sprintf("p%d_", i), feat)
		qc, err := qBuild(i, p, rng)
		if err != nil {
			msg := err.Error()
			if j := strings.LastIndex(msg, ": "); j >= 0 {
				msg = msg[j+2:]
			}
			if len(msg) > 40 {
				msg = msg[:40]
			}
			rejected[msg]++
			if len(res.Notes) < 3 {
				res.Notes = append(res.Notes, "go/types rejected a generated program: "+err.Error())
			}
			res.Dist("gen:rejected-by-go/types")
			continue
		}
		cases = append(cases, qc)
	}
	// stress stream: encoding limits (constant pools beyond 256 entries, jumps beyond 16 bits in the thorough tier)
	stressArgs := map[*qCase][][]interface{}{}
	nStress := 1
	if c.Thorough {
		nStress = 3
	}
	// exactly at the limit: pools of 254 … 258 constants (the last operand that fits an 8-bit encoding is 255)
	boundary := []int{254, 255, 256, 257}
	for i := 0; i < nStress+len(boundary); i++ {
		arms := 0
		if i >= nStress {
			arms = boundary[i-nStress]
		}
		p, args := stressProgram(rng, fmt.Sprintf("st%d_", i), c.Thorough && i == 0, arms)
		qc, err := qBuild(1000000+i, p, rng)
		if err != nil {
			return fmt.Errorf("stress program rejected by go/types: %v", err)
		}
		cases = append(cases, qc)
		stressArgs[qc] = args
		res.Dist("gen:stress-program")
	}
	// focus stream: nil object results between user functions, the blank identifier, the natives at their corners
	focus := map[*qCase]bool{}
	nFocus, nFocusTuples := 60, 12
	if c.Thorough {
		nFocus, nFocusTuples = 900, 16
	}
	if os.Getenv("C04_SRC") != "" {
		nFocus = 0
	}
	focusRng := hx.Rng(c.Seed, "c04-focus")
	for i := 0; i < nFocus; i++ {
		p := genFocusProgram(focusRng, fmt.Sprintf("fo%d_", i), feat)
		qc, err := qBuild(2000000+i, p, focusRng)
		if err != nil {
			return fmt.Errorf("focus program rejected by go/types: %v\n%s", err, p.file("qprog"))
		}
		cases = append(cases, qc)
		focus[qc] = true
		res.Dist("gen:focus-program")
		// a focus program is meant to compile up to its (deliberately rejected) last function: anything else is counted
		st := strings.Fields(qc.compile)[0]
		early := st != "ok" && (len(qc.funcs) < len(qc.decls)-1 || !strings.Contains(qc.decls[len(qc.decls)-1].Name.Name, "_z"))
		if early {
			res.Dist("focus:program-not-compiled-to-its-end:" + st)
		}
		if show := os.Getenv("C04_FOCUS_SHOW"); show == "all" || (show != "" && early) {
			fmt.Fprintf(os.Stderr, "C04_FOCUS_SHOW %s: compiled %d of %d\n%s\n", st, len(qc.funcs), len(qc.decls), qc.file) // debugging aid
		}
	}
	for k, v := range feat {
		res.Distribution["gen:"+k] = v
	}

	// suite 1: bytecode equality
	var ops, impl []string
	var inputs []interface{}
	for _, qc := range cases {
		ops = append(ops, "qcompile "+c04Fixes+" "+qc.sexp)
		impl = append(impl, qc.compile)
		inputs = append(inputs, map[string]interface{}{"source": qc.file})
		st := strings.SplitN(qc.compile, " ", 2)[0]
		res.Dist("compile:" + st)
		res.Count("compile", qc.file, true)
	}
	ans, err := askPar(c.Drv, ops, 8)
	if err != nil {
		return err
	}
	for i := range ops {
		if ans[i] != impl[i] {
			res.Disagree(hx.Disagreement{Suite: "compile", Op: ops[i], Impl: impl[i], Model: ans[i], Input: inputs[i]})
		}
	}
	if len(cases) > 0 {
		res.Sample(map[string]interface{}{"source": cases[0].file, "impl": cases[0].compile})
	}

	// suite 1b: the structured compiler the simulation theorems are about produces the same functions as the
	// byte-level transcription (both for the code as it is and for the fully repaired variant)
	for _, fx := range []string{c04Fixes, "111111111"} {
		var sops []string
		for _, qc := range cases {
			sops = append(sops, "qstruct "+fx+" "+qc.sexp)
		}
		sans, err := askPar(c.Drv, sops, 8)
		if err != nil {
			return err
		}
		for i, a := range sans {
			res.Count("struct", fx+"/"+cases[i].file, true)
			if a != "same" {
				res.Disagree(hx.Disagreement{Suite: "struct", Op: "qstruct " + fx + " <prog>", Impl: "same", Model: a,
					Input: map[string]interface{}{"source": cases[i].file}})
			}
		}
	}

	// suite 2: quasigo.Call == model eval
	rr, err := newQReal()
	if err != nil {
		return err
	}
	defer rr.Close()
	var items, focusItems []qItem
	for _, qc := range cases {
		if focus[qc] {
			// arguments from the focus domain (numeric strings, format strings, the ends of the int range)
			for fi := range qc.funcs {
				if !qPlainParams(qc.sigs[fi]) {
					res.Dist("focus:function-with-object-parameter(reached through its callers)")
					continue
				}
				ts, as := focusTuples(qc.sigs[fi], focusRng, nFocusTuples)
				lo, hi := qc.addTuples(fi, ts, as)
				qc.wideFrom[fi] = hi
				if hi > lo {
					focusItems = append(focusItems, qItem{qc, fi, lo, hi})
				}
			}
			continue
		}
		if sa, ok := stressArgs[qc]; ok {
			// fixed arguments around the encoding limit for the first function, drawn ones for the others
			for fi := range qc.funcs {
				var ts []string
				var as [][]interface{}
				if fi == 0 {
					for _, a := range sa {
						ts = append(ts, fmt.Sprintf("i:%d", a[0].(int)))
					}
					as = sa
				} else {
					ts = []string{"b:1,i:5", "b:0,i:5"}
					as = [][]interface{}{{true, 5}, {false, 5}}
				}
				lo, hi := qc.addTuples(fi, ts, as)
				qc.wideFrom[fi] = hi
				items = append(items, qItem{qc, fi, lo, hi})
			}
		} else {
			items = append(items, qGenTuples(qc, argRng, nTuples)...)
		}
	}
	// functions whose compiled form differs from the model's (suite 1)
	bytesDiffer := map[*qCase]map[int]bool{}
	for i, qc := range cases {
		bytesDiffer[qc] = map[int]bool{}
		if ans[i] == impl[i] {
			continue
		}
		ist, ifs := qFuncTokens(impl[i])
		mst, mfs := qFuncTokens(ans[i])
		for fi := range qc.funcs {
			if ist != mst || fi >= len(ifs) || fi >= len(mfs) || ifs[fi] != mfs[fi] {
				bytesDiffer[qc][fi] = true
			}
		}
	}
	// … and the functions that call them (a function may call the functions before it)
	for _, qc := range cases {
		for fi := range qc.funcs {
			if bytesDiffer[qc][fi] {
				continue
			}
			body := qc.file[qc.declOffset(fi):qc.declEnd(fi)]
			for fj := 0; fj < fi; fj++ {
				if bytesDiffer[qc][fj] && strings.Contains(body, qc.decls[fj].Name.Name+"(") {
					bytesDiffer[qc][fi] = true
					res.Dist("compile:caller-of-a-function-that-differs")
					break
				}
			}
		}
	}
	if err := c04EvalItems(c, rr, items, "eval", bytesDiffer); err != nil {
		return err
	}
	if err := c04EvalItems(c, rr, focusItems, "eval-focus", bytesDiffer); err != nil {
		return err
	}
	// suite 2w: the wide argument search
	if err := c04Wide(c, rr, cases, stressArgs, bytesDiffer); err != nil {
		return err
	}
	if rr.Timeouts > 0 {
		res.Notes = append(res.Notes, fmt.Sprintf("%d real call(s) did not return within the deadline (%v; the first one repeated with %v)", rr.Timeouts, qCallDeadline, 3*qCallDeadline))
	}
	rr.Close()
	if err := c04Spec(c, cases, nTuples); err != nil {
		return err
	}
	var rej []string
	for k, v := range rejected {
		rej = append(rej, fmt.Sprintf("%s x%d", k, v))
	}
	sort.Strings(rej)
	if len(rej) > 0 {
		note := strings.Join(rej, "; ")
		if len(note) > 500 {
			note = note[:500] + " …"
		}
		res.Notes = append(res.Notes, fmt.Sprintf("%d generated programs rejected by go/types (constant folding makes a slice index or an int constant illegal): %s", res.Distribution["gen:rejected-by-go/types"], note))
	}
	// part 2 of the property: the dsl/types helper API inside custom filters and Do functions
	return c04Natives(c)
}

// ---------------------------------------------------------------------------------------------
// The property itself: quasigo.Call must return what the function means in Go.
// The reference answer is Lean's SpecC04 (op qsrc); `go run` of the same source checks that the
// reference semantics has Go's meaning (suite spec-vs-go) and is the observable the property names.

type qPoint struct {
	c    *qCase
	f, k int
	impl string
	spec string
	wide bool // the tuple comes from the wide argument search
	// direct: the reference semantics has no opinion (a native call outside its fragment: "unsup"); the call's
	// answer is compared with `go run` of the same source directly (suite go-direct)
	direct bool
}

func c04Spec(c *Ctx, cases []*qCase, nTuples int) error {
	res := c.Res
	var ops []string
	type ref struct{ c, f int }
	var refs []ref
	for ci, qc := range cases {
		if strings.HasPrefix(qc.compile, "panic") {
			class := "native-arg-call-without-signature"
			if k := len(qc.funcs); k < len(qc.decls) && qBlankAssign.MatchString(qc.file[qc.offsets[k][0]:qc.offsets[k][1]]) {
				class = "blank-identifier-assignment"
			}
			res.Violate(hx.Violation{Signature: "compile:" + strings.Join(strings.Fields(qc.compile)[:2], "-") + ":" + class,
				What:  "quasigo.Compile panics (instead of returning an error or compiling) on a function go/types accepts",
				Input: map[string]interface{}{"source": qc.file, "func": len(qc.funcs)}, Impl: strings.Join(strings.Fields(qc.compile)[:3], " "), Spec: "compiles or is rejected with an error"})
		}
		for fi := range qc.funcs {
			if len(qc.tuples[fi]) == 0 {
				continue
			}
			ops = append(ops, fmt.Sprintf("qsrc %d %d %s %s", c04Fuel, fi, strings.Join(qc.tuples[fi], ";"), qc.sexp))
			refs = append(refs, ref{ci, fi})
		}
	}
	ans, err := askPar(c.Drv, ops, 8)
	if err != nil {
		return err
	}
	var points, wrong []qPoint
	for i := range ops {
		qc := cases[refs[i].c]
		fi := refs[i].f
		spec := strings.Split(ans[i], " | ")
		if ans[i] == "oom" {
			res.Dist("spec:reference-out-of-memory")
			continue
		}
		if len(spec) != len(qc.evals[fi]) {
			return fmt.Errorf("qsrc answered %d results for %d tuples", len(spec), len(qc.evals[fi]))
		}
		for k, s := range spec {
			res.Count("spec", fmt.Sprintf("%d/%d/%s", qc.id, fi, qc.tuples[fi][k]), true)
			wide := k >= qc.wideFrom[fi]
			im := qc.evals[fi][k]
			if s == "fuel" || s == "unsup" || s == "stuck" {
				res.Dist("spec:skipped-" + s)
				// a native call the reference semantics does not model (a format verb, an operand count, an error operand):
				// the function still means something in Go, and `go run` says what
				// ("stuck": a form outside the reference semantics that the compiler nevertheless accepted)
				if (s == "unsup" || s == "stuck") && im != "" && im != "not-run" && im != "skipped" {
					if qOrPopPossible(qc) {
						res.Dist("go-direct:not-compared:program-has-||-or-&&(open finding orPop)")
					} else {
						points = append(points, qPoint{c: qc, f: fi, k: k, impl: im, spec: s, wide: wide, direct: true})
					}
				}
				continue
			}
			if im == "not-run" {
				res.Dist("spec:not-run-after-timeout")
				continue
			}
			if im == "skipped" {
				// the model predicts that quasigo.Call runs out of memory here although the function ends in Go
				res.Dist("spec:call-does-not-terminate")
				pt := qPoint{c: qc, f: fi, k: k, impl: "no result within the memory cap (model prediction; the call is not made)", spec: s, wide: wide}
				points = append(points, pt)
				wrong = append(wrong, pt)
				continue
			}
			pt := qPoint{c: qc, f: fi, k: k, impl: im, spec: s, wide: wide}
			if pt.impl != s {
				points = append(points, pt)
				wrong = append(wrong, pt)
				res.Dist("spec:call-differs")
				if wide {
					res.Dist("wide:call-differs")
				}
			} else {
				// `go run` sees every drawn tuple and every fifth agreeing tuple of the wide search
				if !wide || k%5 == 0 {
					points = append(points, pt)
				}
				res.Dist("spec:call-agrees")
				if wide {
					res.Dist("wide:call-agrees")
				}
			}
		}
	}
	if os.Getenv("C04_DEBUG") != "" {
		for _, qc := range cases {
			for fi := range qc.funcs {
				if qc.wideWhy[fi] == "" || qc.wideWhy[fi] == "sampled" {
					continue
				}
				cnt := map[string]int{}
				for k := range qc.tuples[fi] {
					cnt[strings.SplitN(qc.evals[fi][k], ":", 2)[0]+"/"+strings.SplitN(qc.model[fi][k], ":", 2)[0]]++
				}
				fmt.Fprintf(os.Stderr, "C04_DEBUG wide %s program %d func %d: impl/model %v\n%s\n", qc.wideWhy[fi], qc.id, fi, cnt, qc.file[qc.declOffset(fi):qc.declEnd(fi)])
			}
		}
	}
	// per function the first three wrong tuples (the wide search can make every tuple of a function wrong)
	{
		perFunc := map[[2]int]int{}
		var kept []qPoint
		for _, w := range wrong {
			key := [2]int{w.c.id, w.f}
			if perFunc[key] < 3 {
				perFunc[key]++
				kept = append(kept, w)
			}
		}
		wrong = kept
	}

	// `go run` of the same sources must print what the reference semantics says
	if err := c04GoRun(c, points); err != nil {
		return err
	}

	// A wrong answer on which the code also leaves its model (the model under c04Fixes computes something else than
	// quasigo.Call did) is a failing input of the property in its own right: no repair of the model explains it.
	// The signature names how the call fails; the witness is the first such tuple of the smallest function.
	var deviates, shared []qPoint
	for _, w := range wrong {
		// (the model answers "unsup" — a native the model VM does not execute — and "fuel" are no opinion)
		if m := w.c.model[w.f][w.k]; w.c.evals[w.f][w.k] != "skipped" && m != "unsup" && m != "fuel" && m != w.impl {
			deviates = append(deviates, w)
		} else {
			shared = append(shared, w)
		}
	}
	// witnesses in functions where the deviation originates (no callee of theirs deviates) come first, smallest first
	devFuncs := map[*qCase]map[int]bool{}
	for _, w := range deviates {
		if devFuncs[w.c] == nil {
			devFuncs[w.c] = map[int]bool{}
		}
		devFuncs[w.c][w.f] = true
	}
	derived := func(w qPoint) bool {
		body := w.c.file[w.c.declOffset(w.f):w.c.declEnd(w.f)]
		for fj := range devFuncs[w.c] {
			if fj != w.f && strings.Contains(body, w.c.decls[fj].Name.Name+"(") {
				return true
			}
		}
		return false
	}
	sort.SliceStable(deviates, func(i, j int) bool {
		a, b := deviates[i], deviates[j]
		if da, db := derived(a), derived(b); da != db {
			return db
		}
		return a.c.declEnd(a.f)-a.c.declOffset(a.f) < b.c.declEnd(b.f)-b.c.declOffset(b.f)
	})
	for _, w := range deviates {
		sig, what := qDeviationKind(w.impl, w.spec)
		res.Dist("deviation:" + sig)
		in := map[string]interface{}{"source": w.c.file, "func": w.c.decls[w.f].Name.Name, "args": w.c.tuples[w.f][w.k],
			"model": w.c.model[w.f][w.k], "found_by": "drawn arguments"}
		if w.wide {
			in["found_by"] = "wide argument search (" + w.c.wideWhy[w.f] + ")"
		}
		res.Violate(hx.Violation{Signature: sig, What: what + "; the model of the compiler and the VM computes " + w.c.model[w.f][w.k] +
			" here, so the code no longer behaves like its model either", Input: in, Impl: w.impl, Spec: w.spec})
	}
	wrong = shared

	// attribute each remaining wrong answer (shared by the code and its model) to the smallest set of repairs that
	// removes it (smallest programs first)
	sort.SliceStable(wrong, func(i, j int) bool {
		// the stress programs (encoding limits) first: they are large but each of them probes a specific defect
		si, sj := wrong[i].c.id >= 1000000, wrong[j].c.id >= 1000000
		if si != sj {
			return si
		}
		return len(wrong[i].c.file) < len(wrong[j].c.file)
	})
	limit := 120
	if c.Thorough {
		limit = 600
	}
	if len(wrong) > limit {
		// keep the smallest ones and an evenly spread sample of the rest
		rest := wrong[limit/2:]
		pick := wrong[:limit/2]
		step := len(rest) / (limit / 2)
		for i := 0; i < len(rest) && len(pick) < limit; i += step {
			pick = append(pick, rest[i])
		}
		wrong = pick
	}
	// The attribution is relative to the code as it is now: the candidates are sets of repairs that are still
	// missing in c04Fixes (the driver's qexplain starts from the code without any repair, where two defects can
	// cancel each other or a repaired defect gets the blame).  Smallest sets first; a set explains a wrong answer
	// when the model with c04Fixes plus that set gives the reference answer or rejects the program.
	ans = make([]string, len(wrong))
	var zeros []int
	for i, ch := range c04Fixes {
		if ch == '0' {
			zeros = append(zeros, i)
		}
	}
	var cands [][]int
	for size := 1; size <= 3 && size <= len(zeros); size++ {
		cands = append(cands, qSubsets(zeros, size)...)
	}
	if len(zeros) > 3 {
		cands = append(cands, zeros)
	}
	for _, cand := range cands {
		fx := []byte(c04Fixes)
		var names []string
		for _, i := range cand {
			fx[i] = '1'
			names = append(names, c04FixNames[i])
		}
		var idx []int
		ops = nil
		for i, w := range wrong {
			if ans[i] == "" {
				idx = append(idx, i)
				ops = append(ops, fmt.Sprintf("qeval %s %d %d %s %s", fx, c04Fuel, w.f, w.c.tuples[w.f][w.k], w.c.sexp))
			}
		}
		// one op per driver process: an attribution that runs to the end of the fuel holds nothing else up
		got, err := askParChunk(c.Drv, ops, 12, 1)
		if err != nil {
			return err
		}
		for j, i := range idx {
			switch {
			case got[j] == wrong[i].spec:
				ans[i] = strings.Join(names, "+")
			case got[j] == "cerr":
				ans[i] = strings.Join(names, "+") + ":rejected"
			}
		}
	}
	for i := range ans {
		if ans[i] == "" {
			ans[i] = "unexplained"
		}
	}
	// one finding per repair: a wrong answer that needs several repairs is a witness of each of them, but
	// witnesses with a single cause are preferred (they are reported first)
	for pass := 0; pass < 2; pass++ {
		for i, w := range wrong {
			if pass == 0 {
				res.Dist("explain:" + ans[i])
			}
			expl := strings.TrimSuffix(ans[i], ":rejected")
			parts := strings.Split(expl, "+")
			if (len(parts) == 1) != (pass == 0) {
				continue
			}
			for _, part := range parts {
				res.Violate(hx.Violation{Signature: "miscompile:" + part,
					What: "quasigo.Call returns something else than the function means in Go; the difference disappears in the model " +
						"under the repair(s) " + ans[i] + " (see verif/fixes)",
					Input: map[string]interface{}{"source": w.c.file, "func": w.c.decls[w.f].Name.Name, "args": w.c.tuples[w.f][w.k]},
					Impl:  w.impl, Spec: w.spec})
			}
		}
	}
	return nil
}

type qDirectBad struct {
	size int
	v    hx.Violation
}

// qBodySrc is the program text without the package clause and the imports (the generated main has its own).
func qBodySrc(c *qCase) string {
	if c.prog.Raw == "" {
		return c.prog.Src
	}
	if i := strings.Index(c.prog.Raw, "\nfunc "); i >= 0 {
		return c.prog.Raw[i+1:]
	}
	return c.prog.Raw
}

// qOrPopPossible: the program uses `||` or `&&` while the repair of the open finding orPop is not in the code.  A wrong
// answer of such a program can only be attributed to the finding by the model, which has no opinion where the
// reference semantics has none; the direct comparison with `go run` leaves these programs out.
func qOrPopPossible(c *qCase) bool {
	return c04Fixes[2] == '0' && (strings.Contains(c.file, "||") || strings.Contains(c.file, "&&"))
}

// qBlankAssign: a statement `_ = e` (an assignment, not a definition, to the blank identifier).
var qBlankAssign = regexp.MustCompile(`(?m)^\s*_ = `)

var c04FixNames = []string{"frame", "ifJump", "orPop", "range", "shadow", "forClause", "assignOp", "ifInit", "argSig"}

// qSubsets lists the subsets of xs with k elements, in lexicographic order.
func qSubsets(xs []int, k int) [][]int {
	if k == 0 {
		return [][]int{nil}
	}
	if len(xs) < k {
		return nil
	}
	var out [][]int
	for _, s := range qSubsets(xs[1:], k-1) {
		out = append(out, append([]int{xs[0]}, s...))
	}
	return append(out, qSubsets(xs[1:], k)...)
}

// qDeviationKind classifies how a real call fails against Go's meaning (impl and spec in the form of qCallReal / showSpec).
func qDeviationKind(impl, spec string) (string, string) {
	kind := func(s string) string { return strings.SplitN(strings.TrimSuffix(s, "!stack"), ":", 2)[0] }
	switch {
	case impl == "timeout":
		return "vm-does-not-terminate", "quasigo.Call does not return (killed at the deadline) on a call that terminates in Go"
	case impl == "memory":
		return "vm-out-of-memory", "quasigo.Call allocates without bound (killed at the memory cap) on a call that terminates in Go"
	case strings.HasPrefix(impl, "died"):
		return "vm-" + strings.ReplaceAll(impl, ":", "-"), "quasigo.Call kills the process (fatal error of the Go runtime) on a call that terminates in Go"
	case strings.HasPrefix(impl, "panic:") && !strings.HasPrefix(spec, "panic:"):
		return "vm-panics:" + strings.TrimPrefix(impl, "panic:"), "quasigo.Call panics where the function returns a value in Go"
	case strings.HasPrefix(spec, "panic:") && !strings.HasPrefix(impl, "panic:"):
		return "vm-misses-panic:" + strings.TrimPrefix(spec, "panic:"), "quasigo.Call returns a value where the function panics in Go"
	case strings.HasPrefix(impl, "panic:"):
		return "vm-wrong-panic", "quasigo.Call panics differently from Go"
	case strings.TrimSuffix(impl, "!stack") == spec:
		return "vm-stack-not-restored", "quasigo.Call returns the right value but does not cut the value stacks back to the arguments"
	}
	return "vm-wrong-result:" + kind(spec), "quasigo.Call returns something else than the function means in Go"
}

func qGoLit(v interface{}) string {
	switch v := v.(type) {
	case int:
		return strconv.Itoa(v)
	case string:
		return strconv.Quote(v)
	case bool:
		return b01s(v)
	}
	return "nil"
}

func b01s(b bool) string {
	if b {
		return "true"
	}
	return "false"
}

const qGoRunPrelude = `package main

import (
	"encoding/hex"
	"fmt"
	"os"
	"bufio"
	"runtime"
	"strconv"
	"strings"
)

var _ = strconv.Itoa
var _ = strings.HasPrefix
var out = bufio.NewWriter(os.Stdout)

func kind(r interface{}) string {
	e, ok := r.(runtime.Error)
	if !ok {
		return "explicit"
	}
	m := e.Error()
	switch {
	case strings.Contains(m, "slice bounds out of range"):
		return "slice"
	case strings.Contains(m, "index out of range"):
		return "index"
	case strings.Contains(m, "nil pointer"):
		return "nil"
	case strings.Contains(m, "interface conversion"):
		return "assert"
	}
	return "explicit"
}

func hx(s string) string {
	if s == "" {
		return "-"
	}
	return hex.EncodeToString([]byte(s))
}

func sh(v interface{}) string {
	switch v := v.(type) {
	case int:
		return "int:" + strconv.Itoa(v)
	case string:
		return "str:" + hx(v)
	case bool:
		if v {
			return "bool:1"
		}
		return "bool:0"
	case nil:
		return "nil"
	case error:
		if ne, ok := v.(*strconv.NumError); ok && ne.Func == "Atoi" {
			if ne.Err == strconv.ErrSyntax {
				return "err:1:" + hx(ne.Num)
			}
			if ne.Err == strconv.ErrRange {
				return "err:2:" + hx(ne.Num)
			}
		}
		return "err:?:" + hx(v.Error())
	}
	return "?"
}

func run(id int, f func() string) {
	defer func() {
		if r := recover(); r != nil {
			fmt.Fprintf(out, "%d panic:%s\n", id, kind(r))
		}
	}()
	fmt.Fprintf(out, "%d %s\n", id, f())
}
`

// c04GoRun compiles the generated sources with the Go toolchain (one main per batch of programs) and
// compares what they print with the reference semantics.
func c04GoRun(c *Ctx, points []qPoint) error {
	res := c.Res
	if len(points) == 0 {
		return nil
	}
	if os.Getenv("C04_DEBUG") != "" {
		t0 := time.Now()
		defer func() { fmt.Fprintf(os.Stderr, "C04_DEBUG go run: %.1fs\n", time.Since(t0).Seconds()) }()
	}
	dir, err := os.MkdirTemp("", "c04gorun")
	if err != nil {
		return err
	}
	defer os.RemoveAll(dir)
	const perBatch = 1500 // programs per generated main
	type batch struct {
		pts  []int
		seen map[*qCase]bool
		src  bytes.Buffer
		body bytes.Buffer
	}
	var batches []*batch
	cur := &batch{seen: map[*qCase]bool{}}
	for i, p := range points {
		if !cur.seen[p.c] {
			if len(cur.seen) == perBatch {
				batches = append(batches, cur)
				cur = &batch{seen: map[*qCase]bool{}}
			}
			cur.seen[p.c] = true
			cur.src.WriteString(qBodySrc(p.c))
			cur.src.WriteString("\n")
		}
		var args []string
		for _, a := range p.c.args[p.f][p.k] {
			args = append(args, qGoLit(a))
		}
		call := p.c.decls[p.f].Name.Name + "(" + strings.Join(args, ", ") + ")"
		if p.c.sigs[p.f].Results().Len() == 0 {
			fmt.Fprintf(&cur.body, "\trun(%d, func() string { %s; return \"void\" })\n", i, call)
		} else {
			fmt.Fprintf(&cur.body, "\trun(%d, func() string { return sh(%s) })\n", i, call)
		}
		cur.pts = append(cur.pts, i)
	}
	batches = append(batches, cur)
	got := make([]string, len(points))
	var mu sync.Mutex
	var firstErr error
	sem := make(chan struct{}, 4)
	var wg sync.WaitGroup
	for bi, b := range batches {
		wg.Add(1)
		go func(bi int, b *batch) {
			defer wg.Done()
			sem <- struct{}{}
			defer func() { <-sem }()
			d := filepath.Join(dir, fmt.Sprintf("b%d", bi))
			_ = os.MkdirAll(d, 0o755)
			var file bytes.Buffer
			file.WriteString(qGoRunPrelude)
			file.Write(b.src.Bytes())
			file.WriteString("\nfunc main() {\n")
			file.Write(b.body.Bytes())
			file.WriteString("\tout.Flush()\n}\n")
			if keep := os.Getenv("C04_KEEP"); keep != "" {
				_ = os.WriteFile(fmt.Sprintf("%s-%d.go", keep, bi), file.Bytes(), 0o644)
			}
			if err := os.WriteFile(filepath.Join(d, "main.go"), file.Bytes(), 0o644); err != nil {
				mu.Lock()
				firstErr = err
				mu.Unlock()
				return
			}
			cmd := exec.Command("go", "run", "main.go")
			cmd.Dir = d
			cmd.Env = append(os.Environ(), "GOFLAGS=", "GO111MODULE=off", "GOPROXY=off", "GOTOOLCHAIN=local")
			var stdout, stderr bytes.Buffer
			cmd.Stdout, cmd.Stderr = &stdout, &stderr
			timer := time.AfterFunc(10*time.Minute, func() { _ = cmd.Process.Kill() })
			err := cmd.Run()
			timer.Stop()
			if err != nil {
				keep := filepath.Join(os.TempDir(), fmt.Sprintf("c04-gorun-failed-%d.go", bi))
				_ = os.WriteFile(keep, file.Bytes(), 0o644)
				msg := stderr.String()
				if len(msg) > 1500 {
					msg = msg[:1500]
				}
				mu.Lock()
				firstErr = fmt.Errorf("go run of batch %d failed (%v; source kept in %s): %s", bi, err, keep, msg)
				mu.Unlock()
				return
			}
			mu.Lock()
			for _, line := range strings.Split(stdout.String(), "\n") {
				f := strings.SplitN(line, " ", 2)
				if len(f) != 2 {
					continue
				}
				if id, err := strconv.Atoi(f[0]); err == nil && id >= 0 && id < len(got) {
					got[id] = f[1]
				}
			}
			mu.Unlock()
		}(bi, b)
	}
	wg.Wait()
	if firstErr != nil {
		return firstErr
	}
	nDirect := 0
	var directBad []qDirectBad
	defer func() {
		// the witness of a signature is the smallest function (and shortest argument tuple) that shows it
		sort.SliceStable(directBad, func(i, j int) bool { return directBad[i].size < directBad[j].size })
		for _, b := range directBad {
			res.Violate(b.v)
		}
	}()
	for i, p := range points {
		if p.direct {
			// the property's own right-hand side: the same function compiled by the Go toolchain
			nDirect++
			res.Count("go-direct", fmt.Sprintf("%d/%d/%s", p.c.id, p.f, p.c.tuples[p.f][p.k]), true)
			in := map[string]interface{}{"source": p.c.file, "func": p.c.decls[p.f].Name.Name, "args": p.c.tuples[p.f][p.k],
				"model": p.c.model[p.f][p.k], "found_by": "go run of the same source (the reference semantics does not model a native call made here)"}
			switch {
			case got[i] == "":
				res.Disagree(hx.Disagreement{Suite: "go-direct", Op: "go run " + p.c.decls[p.f].Name.Name + " " + p.c.tuples[p.f][p.k],
					Impl: p.impl, Model: "go run printed nothing for this call", Input: in})
			case got[i] != p.impl:
				sig, what := qDeviationKind(p.impl, got[i])
				res.Dist("go-direct:call-differs")
				directBad = append(directBad, qDirectBad{size: p.c.declEnd(p.f) - p.c.declOffset(p.f) + len(p.c.tuples[p.f][p.k]),
					v: hx.Violation{Signature: "go-direct:" + sig, What: what + " (compared with `go run` of the same source)", Input: in, Impl: p.impl, Spec: got[i]}})
			default:
				res.Dist("go-direct:call-agrees")
				res.Dist("go-direct:" + strings.SplitN(got[i], ":", 2)[0])
			}
			continue
		}
		res.Count("spec-vs-go", fmt.Sprintf("%d/%d/%s", p.c.id, p.f, p.c.tuples[p.f][p.k]), true)
		if got[i] != p.spec {
			res.Disagree(hx.Disagreement{Suite: "spec-vs-go", Op: fmt.Sprintf("qsrc %d %d %s <prog>", c04Fuel, p.f, p.c.tuples[p.f][p.k]),
				Impl: "go run: " + got[i], Model: "SpecC04: " + p.spec,
				Input: map[string]interface{}{"source": p.c.file, "func": p.c.decls[p.f].Name.Name, "args": p.c.tuples[p.f][p.k]}})
		}
	}
	res.Notes = append(res.Notes, fmt.Sprintf("go run: %d batch(es), %d calls compared with the reference semantics, %d calls of quasigo.Call compared with go run directly", len(batches), len(points)-nDirect, nDirect))
	return nil
}
