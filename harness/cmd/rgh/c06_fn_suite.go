package main

// C06, function stream: the limits (size), the ways a rule refers to a function (use), functions over the
// standard-library natives and other imports (std), and the driver of the whole stream.

import (
	"fmt"
	"go/parser"
	"go/token"
	"math/rand"
	"os"
	"sort"
	"strconv"
	"strings"

	"verifharness/hx"
)

func c06fFilterFile(decls, fltBody string) string {
	return c06fPrelude + "\n" + decls + "\n\nfunc flt(ctx *dsl.VarFilterContext) bool {\n" + fltBody + "\n}\n\n" + c06fFilterRule
}

func c06fRep(n int, f func(i int) string) string {
	var sb strings.Builder
	for i := 0; i < n; i++ {
		sb.WriteString(f(i))
	}
	return sb.String()
}

// c06fSizeCases: around every limit of the compiler and the byte code
func c06fSizeCases(r *rand.Rand, thorough bool) []*c06fCase {
	var out []*c06fCase
	add := func(kind, src string) {
		out = append(out, &c06fCase{mode: "size", kind: kind, job: &c06xJob{Src: src}})
	}
	pick := func(quick, all []int) []int {
		if thorough {
			return all
		}
		return quick
	}
	for _, n := range pick([]int{256, 257}, []int{255, 256, 257, 300, 1000}) {
		add(fmt.Sprintf("string-constants=%d", n), c06fFilterFile("", "\ts := ctx.Type.String()\n"+c06fRep(n, func(i int) string { return fmt.Sprintf("\tif s == \"k%d\" {\n\t\treturn true\n\t}\n", i) })+"\treturn false"))
		add(fmt.Sprintf("int-constants=%d", n), c06fFilterFile("", "\tn := ctx.SizeOf(ctx.Type)\n"+c06fRep(n, func(i int) string { return fmt.Sprintf("\tif n == %d {\n\t\treturn true\n\t}\n", 1000+i) })+"\treturn false"))
		args := strings.TrimSuffix(c06fRep(n, func(i int) string { return fmt.Sprintf("%d, ", i) }), ", ")
		sargs := strings.TrimSuffix(c06fRep(n, func(i int) string { return fmt.Sprintf("\"%d\", ", i) }), ", ")
		add(fmt.Sprintf("int-params=%d", n), c06fFilterFile("func hlp("+strings.TrimSuffix(c06fRep(n, func(i int) string { return fmt.Sprintf("a%d, ", i) }), ", ")+" int) int {\n\treturn a"+fmt.Sprint(n-1)+"\n}", "\treturn hlp("+args+") == 1"))
		add(fmt.Sprintf("object-params=%d", n), c06fFilterFile("func hlp("+strings.TrimSuffix(c06fRep(n, func(i int) string { return fmt.Sprintf("a%d, ", i) }), ", ")+" string) string {\n\treturn a"+fmt.Sprint(n-1)+"\n}", "\treturn hlp("+sargs+") == \"\""))
	}
	for _, n := range pick([]int{8, 9}, []int{7, 8, 9, 40, 300}) {
		add(fmt.Sprintf("locals=%d", n), c06fFilterFile("", c06fRep(n, func(i int) string { return fmt.Sprintf("\tv%d := ctx.SizeOf(ctx.Type) + %d\n", i, i) })+c06fRep(n, func(i int) string { return fmt.Sprintf("\tif v%d == 0 {\n\t\treturn false\n\t}\n", i) })+"\treturn true"))
		add(fmt.Sprintf("mixed-locals=%d", n), c06fFilterFile("", c06fRep(n, func(i int) string {
			if i%2 == 0 {
				return fmt.Sprintf("\tv%d := ctx.SizeOf(ctx.Type) + %d\n", i, i)
			}
			return fmt.Sprintf("\tv%d := ctx.Type.String()\n", i)
		})+c06fRep(n, func(i int) string {
			if i%2 == 0 {
				return fmt.Sprintf("\tif v%d == 0 {\n\t\treturn false\n\t}\n", i)
			}
			return fmt.Sprintf("\tif v%d == \"\" {\n\t\treturn false\n\t}\n", i)
		})+"\treturn true"))
	}
	// jump distances: one `if s == "k" { return true }` is 9 bytes of code; 32767 / 9 = 3640
	ifs := func(n int) string {
		return c06fRep(n, func(i int) string { return fmt.Sprintf("\t\tif s == \"k%d\" {\n\t\t\treturn true\n\t\t}\n", i%50) })
	}
	for _, n := range pick([]int{3600, 3700}, []int{3000, 3600, 3630, 3640, 3641, 3645, 3700, 8000}) {
		add(fmt.Sprintf("jump-back-over-ifs=%d", n), c06fFilterFile("", "\ts := ctx.Type.String()\n\tfor s != \"\" {\n"+ifs(n)+"\t}\n\treturn false"))
		add(fmt.Sprintf("jump-forward-over-ifs=%d", n), c06fFilterFile("", "\ts := ctx.Type.String()\n\tif s != \"\" {\n"+ifs(n)+"\t}\n\treturn false"))
	}
	for _, n := range pick([]int{3700}, []int{3600, 3700, 8000}) {
		add(fmt.Sprintf("jump-else-over-ifs=%d", n), c06fFilterFile("", "\ts := ctx.Type.String()\n\tif s != \"\" {\n"+ifs(n)+"\t} else {\n"+ifs(n)+"\t}\n\treturn false"))
		add(fmt.Sprintf("jump-break-over-ifs=%d", n), c06fFilterFile("", "\ts := ctx.Type.String()\n\tfor {\n\t\tif s == \"\" {\n\t\t\tbreak\n\t\t}\n"+ifs(n)+"\t}\n\treturn false"))
		add(fmt.Sprintf("and-chain-right-nested=%d", n), c06fFilterFile("", "\ts := ctx.Type.String()\n\treturn "+c06fRep(n, func(i int) string { return fmt.Sprintf("s == \"k%d\" && (", i%50) })+"true"+strings.Repeat(")", n)))
		add(fmt.Sprintf("or-chain-left-nested=%d", n), c06fFilterFile("", "\ts := ctx.Type.String()\n\treturn "+c06fRep(n, func(i int) string { return fmt.Sprintf("s == \"k%d\" || ", i%50) })+"false"))
	}
	// nesting
	for _, n := range pick([]int{400}, []int{100, 400, 2000, 20000}) {
		add(fmt.Sprintf("nested-parens=%d", n), c06fFilterFile("", "\treturn "+strings.Repeat("(", n)+"hB(1)"+strings.Repeat(")", n)))
		add(fmt.Sprintf("nested-not=%d", n), c06fFilterFile("", "\treturn "+strings.Repeat("!", n)+"hB(1)"))
		add(fmt.Sprintf("nested-calls=%d", n), c06fFilterFile("", "\treturn "+strings.Repeat("hS(", n)+"\"a\""+strings.Repeat(")", n)+" == \"\""))
		add(fmt.Sprintf("concat-chain=%d", n), c06fFilterFile("", "\ts := ctx.Type.String()\n\treturn s"+strings.Repeat(" + s", n)+" == \"\""))
		add(fmt.Sprintf("add-chain-constants=%d", n), c06fFilterFile("", "\treturn ctx.SizeOf(ctx.Type) == 1"+strings.Repeat(" + 1", n)))
		add(fmt.Sprintf("selector-chain=%d", n), c06fFilterFile("", "\treturn ctx.Type"+strings.Repeat(".Underlying()", n)+" != nil"))
	}
	for _, n := range pick([]int{60}, []int{10, 60, 300, 1200}) {
		add(fmt.Sprintf("nested-if=%d", n), c06fFilterFile("", "\ts := ctx.Type.String()\n"+strings.Repeat("if s == \"a\" {\n", n)+"return true\n"+strings.Repeat("}\n", n)+"\treturn false"))
		add(fmt.Sprintf("nested-for=%d", n), c06fFilterFile("", "\ts := ctx.Type.String()\n"+strings.Repeat("for s == \"a\" {\n", n)+"break\n"+strings.Repeat("}\n", n)+"\treturn false"))
		add(fmt.Sprintf("nested-blocks=%d", n), c06fFilterFile("", strings.Repeat("{\n", n)+"hV(\"a\")\n"+strings.Repeat("}\n", n)+"\treturn false"))
		add(fmt.Sprintf("nested-else-if=%d", n), c06fFilterFile("", "\ts := ctx.Type.String()\n\tif s == \"\" {\n\t\treturn true\n\t}"+c06fRep(n, func(i int) string { return fmt.Sprintf(" else if s == \"k%d\" {\n\t\treturn true\n\t}", i) })+"\n\treturn false"))
		add(fmt.Sprintf("nested-funclit=%d", n), c06fFilterFile("", "\treturn "+strings.Repeat("func() bool { return ", n)+"true"+strings.Repeat(" }()", n)))
	}
	for _, n := range pick([]int{300}, []int{50, 300, 2000}) {
		add(fmt.Sprintf("functions=%d", n), c06fFilterFile("func h0(a int) int {\n\treturn a\n}\n"+c06fRep(n, func(i int) string { return fmt.Sprintf("\nfunc h%d(a int) int {\n\treturn h%d(a) + 1\n}\n", i+1, i) }), "\treturn h"+fmt.Sprint(n)+"(1) == 1"))
	}
	for _, n := range pick([]int{70000}, []int{1000, 70000, 1 << 20}) {
		add(fmt.Sprintf("string-constant-bytes=%d", n), c06fFilterFile("", "\treturn ctx.Type.String() == \""+strings.Repeat("x", n)+"\""))
		add(fmt.Sprintf("identifier-bytes=%d", n/10), c06fFilterFile("", "\t"+strings.Repeat("v", n/10)+" := ctx.Type.String()\n\treturn "+strings.Repeat("v", n/10)+" == \"\""))
	}
	add("unicode-names", strings.ReplaceAll(c06fFilterFile("func hlpλ(число int) int {\n\treturn число\n}", "\tстрока := ctx.Type.String()\n\treturn hlpλ(1) == 1 && строка == \"\""), "flt", "flté"))
	add("crlf-line-ends", strings.ReplaceAll(c06fFilterFile("", "\ts := ctx.Type.String()\n\tswitch s {\n\t}\n\treturn s == \"\""), "\n", "\r\n"))
	add("bom", "\uFEFF"+c06fFilterFile("", "\treturn true"))
	add("comments-inside-function", c06fFilterFile("// doc\n/* block */ func /* a */ hlp /* b */ (a int /* c */) int { // d\n\t// e\n\treturn /* f */ a // g\n\t/* h */\n}", "\treturn hlp(1) == 1 // tail\n\t// last"))
	add("one-line-function", c06fFilterFile("func hlp(a int) int { if a > 0 { return 1 }; for a < 0 { a := 2; _ = a }; return a }", "\treturn hlp(1) == 1"))
	_ = r
	return out
}

// c06fUseCases: how a rule refers to a custom function
func c06fUseCases() []*c06fCase {
	var out []*c06fCase
	add := func(kind, rest string) {
		out = append(out, &c06fCase{mode: "use", kind: kind, job: &c06xJob{Src: c06fPrelude + "\n" + rest}})
	}
	const flt = "func flt(ctx *dsl.VarFilterContext) bool {\n\treturn true\n}\n\n"
	const flt2 = "func flt2(ctx *dsl.VarFilterContext) bool {\n\treturn ctx.SizeOf(ctx.Type) > 1\n}\n\n"
	const bad = "func bad(ctx *dsl.VarFilterContext) bool {\n\tswitch {\n\t}\n\treturn true\n}\n\n"
	const act = "func act(ctx *dsl.DoContext) {\n\tctx.SetReport(`r`)\n}\n\n"
	rule := func(stmts ...string) string {
		return "func r(m dsl.Matcher) {\n\t" + strings.Join(stmts, "\n\t") + "\n}\n"
	}
	w := func(where string) string { return "m.Match(`f($x)`).Where(" + where + ").Report(`x`)" }
	add("filter-ident", flt+rule(w(`m["x"].Filter(flt)`)))
	add("filter-paren-ident", flt+rule(w(`m["x"].Filter((flt))`)))
	add("filter-var-holding-func", flt+"var fv = flt\n\n"+rule(w(`m["x"].Filter(fv)`)))
	add("filter-funclit", rule(w(`m["x"].Filter(func(ctx *dsl.VarFilterContext) bool { return true })`)))
	add("filter-nil", rule(w(`m["x"].Filter(nil)`)))
	add("filter-method-value", "type FT struct{}\n\nfunc (FT) flt(ctx *dsl.VarFilterContext) bool {\n\treturn true\n}\n\nvar ft FT\n\n"+rule(w(`m["x"].Filter(ft.flt)`)))
	add("filter-method-expr-name", "type FT struct{}\n\nfunc (FT) flt(ctx *dsl.VarFilterContext) bool {\n\treturn true\n}\n\n"+rule(w(`m["x"].Filter(flt)`))+"\n"+flt)
	add("filter-call-result", flt+"func mk() func(*dsl.VarFilterContext) bool {\n\treturn flt\n}\n\n"+rule(w(`m["x"].Filter(mk())`)))
	add("filter-generic-instance", "func fltg[X any](ctx *dsl.VarFilterContext) bool {\n\treturn true\n}\n\n"+rule(w(`m["x"].Filter(fltg[int])`)))
	add("filter-twice", flt+flt2+rule(w(`m["x"].Filter(flt) && !m["x"].Filter(flt2)`)))
	add("filter-compared", flt+rule(w(`m["x"].Filter(flt) == true`)))
	add("filter-on-whole-match", flt+rule(w(`m["$$"].Filter(flt)`)))
	add("filter-on-unbound-var", flt+rule(w(`m["zz"].Filter(flt)`)))
	add("filter-on-computed-var", flt+"const vn = \"x\"\n\n"+rule(w(`m[vn].Filter(flt)`)))
	add("filter-on-nonconst-var", flt+"var vn = \"x\"\n\n"+rule(w(`m[vn].Filter(flt)`)))
	add("filter-declared-after-group", rule(w(`m["x"].Filter(flt)`))+"\n"+flt)
	add("filter-declared-between-groups", rule(w(`m["x"].Filter(flt)`))+"\n"+flt+strings.Replace(rule(w(`m["x"].Filter(flt)`)), "func r(", "func r2(", 1))
	add("filter-in-two-rules", flt+rule(w(`m["x"].Filter(flt)`), "m.Match(`g($y)`).Where(m[\"y\"].Filter(flt) || m[\"y\"].Pure).Report(`y`)"))
	add("filter-in-local-helper", flt+rule("isF := func(v dsl.Var) bool { return v.Filter(flt) }", w(`isF(m["x"])`)))
	add("filter-in-comment-rule", flt+rule("m.MatchComment(`(?P<x>\\w+)`).Where(m[\"x\"].Filter(flt)).Report(`x`)"))
	add("filter-of-refused-function", bad+rule(w(`m["x"].Filter(bad)`)))
	add("refused-function-not-used", bad+flt+rule(w(`m["x"].Filter(flt)`)))
	add("refused-function-after-used", flt+rule(w(`m["x"].Filter(flt)`))+"\n"+bad)
	add("filter-is-a-matcher-group-name", flt+rule(w(`m["x"].Filter(flt)`))+"\nfunc flt2(m dsl.Matcher) {\n\tm.Match(`g($y)`).Report(`y`)\n}\n")
	add("filter-no-rule-group", flt)
	add("do-ident", act+rule("m.Match(`f($x)`).Do(act)"))
	add("do-paren-ident", act+rule("m.Match(`f($x)`).Do((act))"))
	add("do-nil", rule("m.Match(`f($x)`).Do(nil)"))
	add("do-funclit", rule("m.Match(`f($x)`).Do(func(ctx *dsl.DoContext) {})"))
	add("do-var-holding-func", act+"var av = act\n\n"+rule("m.Match(`f($x)`).Do(av)"))
	add("do-with-where-filter", act+flt+rule("m.Match(`f($x)`).Where(m[\"x\"].Filter(flt)).Do(act)"))
	add("do-with-report", act+rule("m.Match(`f($x)`).Report(`x`).Do(act)"))
	add("do-with-suggest", act+rule("m.Match(`f($x)`).Suggest(`x`).Do(act)"))
	add("do-twice", act+rule("m.Match(`f($x)`).Do(act).Do(act)"))
	add("do-with-comment-match", act+rule("m.MatchComment(`x`).Do(act)"))
	add("do-with-at", act+rule("m.Match(`f($x)`).At(m[\"x\"]).Do(act)"))
	add("do-of-refused-function", "func act(ctx *dsl.DoContext) {\n\tgo hV(`a`)\n}\n\n"+rule("m.Match(`f($x)`).Do(act)"))
	add("do-of-filter-typed-function-name", flt+act+rule("m.Match(`f($x)`).Do(act)", w(`m["x"].Filter(flt)`)))
	add("do-declared-after-group", rule("m.Match(`f($x)`).Do(act)")+"\n"+act)
	return out
}

// c06fStdCases: functions over strings / strconv / fmt and files with other imports (each import is type-checked from
// source by every fresh engine: these loads are slow, there are few of them and they are loaded once per entry point)
func c06fStdCases(thorough bool) []*c06fCase {
	var out []*c06fCase
	file := func(imports, decls, fltBody string) string {
		src := strings.Replace(c06fPrelude, "import (\n", "import (\n"+imports, 1)
		return src + "\n" + decls + "\n\nfunc flt(ctx *dsl.VarFilterContext) bool {\n" + fltBody + "\n}\n\n" + c06fFilterRule
	}
	add := func(kind, src string) {
		out = append(out, &c06fCase{mode: "std", kind: kind, job: &c06xJob{Src: src, Once: true}})
	}
	many := func(n int) string {
		return strings.TrimSuffix(c06fRep(n, func(i int) string { return fmt.Sprintf("%d, ", i) }), ", ")
	}
	add("strings-registered", file("\t\"strings\"\n", "", "\ts := ctx.Type.String()\n\treturn strings.Contains(s, \"a\") && strings.HasPrefix(strings.TrimSuffix(strings.ReplaceAll(s, \"a\", \"b\"), \"x\"), strings.Replace(s, \"a\", \"\", 1))"))
	add("strings-unregistered", file("\t\"strings\"\n", "", "\treturn strings.ToUpper(ctx.Type.String()) == \"\""))
	add("strings-func-value", file("\t\"strings\"\n", "", "\tf := strings.Contains\n\treturn f(\"a\", \"b\")"))
	add("strings-builder-method", file("\t\"strings\"\n", "var sb strings.Builder", "\treturn sb.Len() == 0"))
	add("strconv-tuple", file("\t\"strconv\"\n", "", "\tn, err := strconv.Atoi(ctx.Type.String())\n\tm, _ := strconv.Atoi(strconv.Itoa(n))\n\treturn err == nil && m == n"))
	add("strconv-tuple-as-argument", file("\t\"strconv\"\n\t\"fmt\"\n", "", "\treturn fmt.Sprint(strconv.Atoi(\"1\")) == \"\""))
	add("tuple-as-native-argument", file("\t\"strings\"\n", "var g2 func() (string, string)", "\treturn strings.Contains(g2())"))
	add("fmt-sprintf-variadic", file("\t\"fmt\"\n", "", "\treturn fmt.Sprintf(\"\") == \"\" && fmt.Sprintf(\"%d%s%v\", ctx.SizeOf(ctx.Type), \"a\", ctx.Type) == \"\""))
	add("fmt-sprintf-255-arguments", file("\t\"fmt\"\n", "", "\treturn fmt.Sprintf(\"\", "+many(255)+") == \"\""))
	add("fmt-sprintf-256-arguments", file("\t\"fmt\"\n", "", "\treturn fmt.Sprintf(\"\", "+many(256)+") == \"\""))
	add("fmt-sprintf-spread", file("\t\"fmt\"\n", "var gargs []interface{}", "\treturn fmt.Sprintf(\"\", gargs...) == \"\""))
	add("fmt-sprintf-float-complex-constants", file("\t\"fmt\"\n", "", "\treturn fmt.Sprintf(\"%v%v\", 1.5, 2i) == \"\""))
	add("fmt-sprintf-big-constant", file("\t\"fmt\"\n", "", "\treturn fmt.Sprintf(\"%v\", uint64(1<<63)) == \"\""))
	add("fmt-unregistered", file("\t\"fmt\"\n", "", "\treturn fmt.Sprint(1) == \"\" && fmt.Errorf(\"x\") != nil"))
	add("import-not-forwarded", file("\t\"errors\"\n", "", "\treturn errors.New(\"x\") != nil"))
	add("import-unsafe", file("\t\"unsafe\"\n", "", "\treturn unsafe.Sizeof(gi) == 8"))
	add("import-renamed-strings", file("\tstr \"strings\"\n", "", "\treturn str.Contains(\"a\", \"b\")"))
	add("import-blank", file("\t_ \"strings\"\n", "", "\treturn true"))
	add("import-dot-strings", file("\t. \"strings\"\n", "", "\treturn Contains(\"a\", \"b\")"))
	add("dsl-renamed", strings.NewReplacer("\"github.com/quasilyte/go-ruleguard/dsl\"", "d \"github.com/quasilyte/go-ruleguard/dsl\"", "dsl.", "d.").Replace(c06fFilterFile("", "\treturn true")))
	add("dsl-types-renamed", strings.NewReplacer("\"github.com/quasilyte/go-ruleguard/dsl/types\"", "ty \"github.com/quasilyte/go-ruleguard/dsl/types\"", "types.", "ty.").Replace(c06fFilterFile("", "\treturn ty.Identical(ctx.Type, ctx.Type)")))
	add("dsl-dot-import", strings.NewReplacer("\"github.com/quasilyte/go-ruleguard/dsl\"", ". \"github.com/quasilyte/go-ruleguard/dsl\"", "*dsl.", "*", "dsl.Matcher", "Matcher").Replace(c06fFilterFile("", "\treturn true")))
	if thorough {
		add("fmt-sprintf-2000-arguments", file("\t\"fmt\"\n", "", "\treturn fmt.Sprintf(\"\", "+many(2000)+") == \"\""))
		add("import-os", file("\t\"os\"\n", "", "\treturn os.Getenv(\"x\") == \"\""))
		add("import-math", file("\t\"math\"\n", "", "\treturn math.Sqrt(2) > 1"))
	}
	return out
}

// c06FuncCases: the function stream
func c06FuncCases(c *Ctx) []*c06fCase {
	r := hx.Rng(c.Seed, "c06-funcs")
	nSubset, perKind, nWild := 40, 1, 110
	if c.Thorough {
		nSubset, perKind, nWild = 400, 8, 3000
	}
	var cases []*c06fCase
	cases = append(cases, c06fSeedCases()...)
	for i := 0; i < nSubset; i++ {
		cases = append(cases, c06fSubsetCase(r))
	}
	// one file per production outside the subset (quick: per production once; thorough: perKind carriers each)
	for i := range c06fTable {
		p := &c06fTable[i]
		if p.flags&c06fSub != 0 {
			continue
		}
		for k := 0; k < perKind; k++ {
			cases = append(cases, c06fOneExprCase(r, p))
		}
	}
	for i := range c06fStmts {
		s := &c06fStmts[i]
		if s.sub {
			continue
		}
		for k := 0; k < 2*perKind; k++ {
			if cs := c06fOneStmtCase(r, s); cs != nil {
				cases = append(cases, cs)
			}
		}
	}
	cases = append(cases, c06fDeclCases(r, c.Thorough)...)
	for i := 0; i < nWild; i++ {
		cases = append(cases, c06fWildCase(r))
	}
	cases = append(cases, c06fSizeCases(r, c.Thorough)...)
	cases = append(cases, c06fUseCases()...)
	cases = append(cases, c06fStdCases(c.Thorough)...)

	return cases
}

// c06FuncJudge: the property on the answers of the function stream
func c06FuncJudge(c *Ctx, cases []*c06fCase, outs []*c06xOut) {
	res := c.Res
	sampled := false
	for i, cs := range cases {
		out := outs[i]
		src := cs.job.Src
		shown := src
		if len(shown) > 20000 {
			shown = shown[:8000] + "\n… (" + fmt.Sprint(len(src)) + " bytes; the file is regenerated from seed, mode and kind) …\n" + shown[len(shown)-3000:]
		}
		in := map[string]interface{}{"rules_src": shown, "mode": cs.mode, "kind": cs.kind}
		cls := c06xJudge(res, "fn", cs.job, out, in)
		res.Count("fn-"+cs.mode, src, true)
		switch cs.mode {
		case "wild":
			res.Dist("fn:wild:" + cs.kind + ":" + cls)
			sort.Strings(cs.kinds)
			for _, k := range cs.kinds {
				res.Dist("fn:wild-has:" + k)
			}
		default:
			res.Dist(c06fDist(cs.mode, cs.kind) + ":" + cls)
		}
		if out.Died != "" {
			continue
		}
		first := out.Load[0]
		if cls == "rejected-located" || cls == "rejected-unlocated" {
			res.Dist("fn:refusal:" + c06xErrKey(first))
		}
		if os.Getenv("VERIF_C06_DEBUG") != "" && (cls == "notgo" || out.Conv != "ok" && cls != "notgo" && cls != "rejected-located") {
			fmt.Fprintf(os.Stderr, "c06 fn %s/%s: %s / conv %s\n%s\n", cs.mode, cs.kind, clip(first), clip(out.Conv), src)
		}
		// where the refusal points: the line of the construct in rules.go, or some other line
		if cs.line > 0 && cls == "rejected-located" {
			if m := c06xLineRE.FindStringSubmatch(first); m != nil && m[1] == fmt.Sprint(cs.line) {
				res.Dist("fn:refusal-line:the-construct's-line")
			} else {
				res.Dist("fn:refusal-line:another-line")
			}
			// "names the file and line": the line named must at least lie inside the declaration the refusal is about
			if m := c06xLineRE.FindStringSubmatch(first); m != nil {
				got, _ := strconv.Atoi(m[1])
				if lo, hi, ok := c06fDeclSpan(src, cs.line); ok && (got < lo || got > hi) {
					res.Violate(hx.Violation{Signature: "load:error-names-a-line-outside-the-declaration-it-is-about",
						What:  fmt.Sprintf("the refusal of a construct at line %d (in the declaration at lines %d-%d of rules.go) names line %d", cs.line, lo, hi, got),
						Input: in, Impl: clip(first), Spec: fmt.Sprintf("an error that names rules.go and a line in %d..%d", lo, hi)})
					res.Dist("fn:refusal-line:OUTSIDE-THE-DECLARATION")
				}
			}
		}
		if !sampled && cs.mode == "wild" {
			sampled = true
			res.Sample(map[string]interface{}{"function_rules_src": src, "outcome": clip(first)})
		}
	}
}

// c06fSeedCases: the smallest file known for every defect the stream has found (they run first: a violation is
// reported with the first input that shows it)
func c06fSeedCases() []*c06fCase {
	var out []*c06fCase
	add := func(kind, src string, once bool) {
		out = append(out, &c06fCase{mode: "seed", kind: kind, job: &c06xJob{Src: src, Once: once}})
	}
	const rule = "func r(m dsl.Matcher) {\n\tm.Match(`f($x)`).Where(m[\"x\"].Filter(flt)).Report(`x`)\n}\n"
	flt := func(body string) string { return "func flt(ctx *dsl.VarFilterContext) bool {\n" + body + "\n}\n\n" }
	// a call statement whose callee is a value of a named func type / of a type parameter: its type is not a *types.Signature
	add("stmt-call-of-named-func-type-value", c06aHead+"type F func()\n\nvar gf F\n\n"+flt("\tgf()\n\treturn true")+rule, false)
	add("stmt-call-of-type-parameter-value", c06aHead+"func hlp[X func()](x X) {\n\tx()\n}\n\n"+flt("\treturn true")+rule, false)
	// more than 255 variadic arguments of a native function: the error is built for a nil node
	add("native-call-256-variadic-arguments", "package gorules\n\nimport (\n\t\"fmt\"\n\n\t\"github.com/quasilyte/go-ruleguard/dsl\"\n)\n\n"+
		flt("\treturn fmt.Sprintf(\"\", "+strings.TrimSuffix(c06fRep(256, func(i int) string { return "0, " }), ", ")+") == \"\"")+rule, true)
	// encoding limits of the byte code: refusals without file and line
	add("257-string-constants", c06aHead+flt("\ts := ctx.Type.String()\n"+c06fRep(257, func(i int) string { return fmt.Sprintf("\tif s == \"k%d\" {\n\t\treturn true\n\t}\n", i) })+"\treturn false")+rule, false)
	add("jump-over-3700-if-statements", c06aHead+flt("\ts := ctx.Type.String()\n\tfor s != \"\" {\n"+c06fRep(3700, func(i int) string { return "\t\tif s == \"k\" {\n\t\t\treturn true\n\t\t}\n" })+"\t}\n\treturn false")+rule, false)
	return out
}

// c06fDeclSpan: the first and last line of the top-level declaration of src that contains line.
func c06fDeclSpan(src string, line int) (lo, hi int, ok bool) {
	fset := token.NewFileSet()
	f, err := parser.ParseFile(fset, "rules.go", src, parser.SkipObjectResolution)
	if err != nil || f == nil {
		return 0, 0, false
	}
	for _, d := range f.Decls {
		a, b := fset.Position(d.Pos()).Line, fset.Position(d.End()).Line
		if a <= line && line <= b {
			return a, b, true
		}
	}
	return 0, 0, false
}
