package main

import (
	"fmt"
	"go/ast"
	"go/parser"
	"go/token"
	"go/types"
	"math/rand"
	"os"
	"regexp"
	"regexp/syntax"
	"sort"
	"strconv"
	"strings"
	"unicode"
	"unicode/utf8"

	"github.com/quasilyte/go-ruleguard/ruleguard/textmatch"
	"verifharness/hx"
)

func init() { register("C11", runC11) }

// c11Variant chooses the Lean variant of compileOptimized the correspondence compares the code with:
// "asis" = compile.go as it stands, "fixed" = after fixes/textmatch-foldcase.diff.
const c11DefaultVariant = "fixed"

// (VERIF_C11_VARIANT overrides the constant, for trying a fix without editing this file)
var c11Variant = func() string {
	if v := os.Getenv("VERIF_C11_VARIANT"); v == "asis" || v == "fixed" {
		return v
	}
	return c11DefaultVariant
}()

// ---------------------------------------------------------------- tree serialisation

var c11OpNames = map[syntax.Op]string{
	syntax.OpNoMatch: "nomatch", syntax.OpEmptyMatch: "empty", syntax.OpLiteral: "literal",
	syntax.OpCharClass: "class", syntax.OpAnyCharNotNL: "anynotnl", syntax.OpAnyChar: "any",
	syntax.OpBeginLine: "bol", syntax.OpEndLine: "eol", syntax.OpBeginText: "bot", syntax.OpEndText: "eot",
	syntax.OpWordBoundary: "wb", syntax.OpNoWordBoundary: "nwb", syntax.OpCapture: "capture",
	syntax.OpStar: "star", syntax.OpPlus: "plus", syntax.OpQuest: "quest", syntax.OpRepeat: "repeat",
	syntax.OpConcat: "concat", syntax.OpAlternate: "alt",
}

// c11Tree writes `(op,flags,(runes…),min,max,sub…)` (blanks replaced by commas for the line protocol).
func c11Tree(re *syntax.Regexp) string {
	var sb strings.Builder
	var rec func(re *syntax.Regexp)
	rec = func(re *syntax.Regexp) {
		name, ok := c11OpNames[re.Op]
		if !ok {
			name = "other"
		}
		fmt.Fprintf(&sb, "(%s,%d,(", name, re.Flags)
		for i, r := range re.Rune {
			if i > 0 {
				sb.WriteByte(',')
			}
			fmt.Fprintf(&sb, "%d", r)
		}
		fmt.Fprintf(&sb, "),%d,%d", re.Min, re.Max)
		for _, s := range re.Sub {
			sb.WriteByte(',')
			rec(s)
		}
		sb.WriteByte(')')
	}
	rec(re)
	return sb.String()
}

// c11Fold lists the case-folding orbit (unicode.SimpleFold) of every rune of a FoldCase literal of the
// tree: the oracle parameter `fold` of the Lean semantics.  "-" when there is none.
func c11Fold(re *syntax.Regexp) string {
	seen := map[rune]bool{}
	var parts []string
	var rec func(re *syntax.Regexp)
	rec = func(re *syntax.Regexp) {
		if re.Op == syntax.OpLiteral && re.Flags&syntax.FoldCase != 0 {
			for _, r := range re.Rune {
				if seen[r] {
					continue
				}
				seen[r] = true
				s := fmt.Sprintf("(%d", r)
				for f := unicode.SimpleFold(r); f != r; f = unicode.SimpleFold(f) {
					s += fmt.Sprintf(",%d", f)
				}
				parts = append(parts, s+")")
			}
		}
		for _, s := range re.Sub {
			rec(s)
		}
	}
	rec(re)
	if len(parts) == 0 {
		return "-"
	}
	return "(" + strings.Join(parts, ",") + ")"
}

func c11Copy(re *syntax.Regexp) *syntax.Regexp {
	out := &syntax.Regexp{Op: re.Op, Flags: re.Flags, Min: re.Min, Max: re.Max, Cap: re.Cap, Name: re.Name}
	out.Rune = append([]rune(nil), re.Rune...)
	for _, s := range re.Sub {
		out.Sub = append(out.Sub, c11Copy(s))
	}
	return out
}

func c11Nodes(re *syntax.Regexp) []*syntax.Regexp {
	out := []*syntax.Regexp{re}
	for _, s := range re.Sub {
		out = append(out, c11Nodes(s)...)
	}
	return out
}

func c11Literals(re *syntax.Regexp) []string {
	var out []string
	for _, n := range c11Nodes(re) {
		if n.Op == syntax.OpLiteral {
			out = append(out, string(n.Rune))
		}
	}
	return out
}

func c11HasSurrogate(re *syntax.Regexp) bool {
	for _, n := range c11Nodes(re) {
		if n.Op == syntax.OpLiteral {
			for _, r := range n.Rune {
				if r >= 0xD800 && r <= 0xDFFF {
					return true
				}
			}
		}
	}
	return false
}

// c11WF: every operator node has the operands the parser always gives it.
func c11WF(re *syntax.Regexp) bool {
	for _, n := range c11Nodes(re) {
		switch n.Op {
		case syntax.OpStar, syntax.OpPlus, syntax.OpQuest, syntax.OpRepeat, syntax.OpCapture:
			if len(n.Sub) != 1 {
				return false
			}
		}
	}
	return true
}

// c11Cause classifies why a fast path may differ from regexp, from the tree alone.
func c11Cause(re *syntax.Regexp) string {
	fold, unfaithful := false, false
	for _, n := range c11Nodes(re) {
		if n.Op != syntax.OpLiteral {
			continue
		}
		if n.Flags&syntax.FoldCase != 0 {
			for _, r := range n.Rune {
				if unicode.SimpleFold(r) != r {
					fold = true
				}
			}
		}
		for _, r := range n.Rune {
			if r == utf8.RuneError || !utf8.ValidRune(r) {
				unfaithful = true
			}
		}
	}
	switch {
	case fold:
		return "foldcase-literal"
	case unfaithful:
		return "unfaithful-rune-literal"
	}
	return "unexplained"
}

// ---------------------------------------------------------------- generators

var c11Words = []string{
	"foo", "Foo", "FOO", "a", "k", "K", "s", "x", "i", "ok", "fooBar", "foo bar", "1", "42", "_", "-", "a1",
	"é", "É", "ж", "Жук", "世界", "😀", "ǅ", "ǆ", "ß", "ſ", "K", "σ", "ς", "Σ", "İ", "ı",
	"x.y", "a+b", "$", "^", "\\", "(", ")", "[x]", "a|b", "*", "?", "{2}", "\t", "\x00", "~", " ", "�", "\U0010ffff",
}

var c11Flags = []string{"", "", "", "(?i)", "(?i)", "(?s)", "(?m)", "(?U)", "(?is)", "(?im)", "(?ms)", "(?iU)", "(?-i)", "(?i-s)", "(?smU)", "(?ism)"}

// rawUnits are pattern fragments that denote one literal rune but are not produced by QuoteMeta.
var c11RawUnits = []string{`\x{FFFD}`, `\x{D800}`, `\x{DFFF}`, `\x{10FFFF}`, `\x{0}`, `\x41`, `\x{e9}`, `\x{212A}`, `\n`, `\t`, `\a`, `\101`, "�"}

type c11Pat struct {
	src  string
	kind string   // generator shape, for the distribution
	lits []string // literal texts the generator used (for the inputs)
}

func c11Word(r *rand.Rand) string {
	if r.Intn(6) == 0 { // random short word
		alpha := "abcXYZkKsS019_ é"
		n := 1 + r.Intn(4)
		var sb strings.Builder
		for i := 0; i < n; i++ {
			rs := []rune(alpha)
			sb.WriteRune(rs[r.Intn(len(rs))])
		}
		return sb.String()
	}
	return c11Words[r.Intn(len(c11Words))]
}

// c11LitSyntax renders the literal text w in one of several pattern syntaxes.
func c11LitSyntax(r *rand.Rand, w string) string {
	switch r.Intn(12) {
	case 0:
		if !strings.Contains(w, `\E`) {
			return `\Q` + w + `\E`
		}
	case 1:
		var sb strings.Builder
		for _, c := range w {
			fmt.Fprintf(&sb, `\x{%x}`, c)
		}
		return sb.String()
	case 2:
		rs := []rune(w)
		if len(rs) > 0 && rs[0] != '^' && rs[0] != '\\' && rs[0] != ']' && rs[0] != '[' && rs[0] != '-' {
			return "[" + string(rs[0]) + "]" + regexp.QuoteMeta(string(rs[1:]))
		}
	case 3:
		return "(?:" + regexp.QuoteMeta(w) + ")"
	case 4:
		return "(?i:" + regexp.QuoteMeta(w) + ")"
	}
	return regexp.QuoteMeta(w)
}

func c11GenPattern(r *rand.Rand) c11Pat {
	w := c11Word(r)
	lit := c11LitSyntax(r, w)
	lits := []string{w}
	if r.Intn(10) == 0 {
		u := c11RawUnits[r.Intn(len(c11RawUnits))]
		switch r.Intn(3) {
		case 0:
			lit = u
		case 1:
			lit = lit + u
		default:
			lit = u + lit
		}
	}
	fl := c11Flags[r.Intn(len(c11Flags))]
	w2 := c11Word(r)
	lit2 := regexp.QuoteMeta(w2)
	k := r.Intn(100)
	mk := func(kind, s string, more ...string) c11Pat {
		return c11Pat{src: s, kind: kind, lits: append(lits, more...)}
	}
	switch {
	case k < 10:
		return mk("lit", fl+lit)
	case k < 20:
		return mk(".*lit.*", fl+".*"+lit+".*")
	case k < 30:
		return mk("^lit", fl+"^"+lit)
	case k < 40:
		return mk("lit$", fl+lit+"$")
	case k < 50:
		return mk("^lit$", fl+"^"+lit+"$")
	case k < 54:
		return mk("pred", []string{`^\p{Lu}`, `^\p{Ll}`}[r.Intn(2)])
	case k < 60:
		return mk("near-pred", []string{`^\p{Lu}` + lit, `\p{Lu}`, `^\pL`, `(?i)^\p{Lu}`, `^\p{Ll}$`, `^\p{Lu}\p{Ll}`, `^[\p{Lu}]`, `^\p{Lt}`, `^\P{Lu}`, `\A\p{Lu}`, `^\p{Lu}|x`, `(?m)^\p{Lu}`, ` ^\p{Lu}`}[r.Intn(13)])
	case k < 84:
		shapes := []string{
			"^^L", "L$$", ".*L", "L.*", ".+L.+", ".*?L.*?", "(L)", "^(L)$", `\AL\z`, `\AL`, `L\z`, `\bL\b`, "L+", "L*", "L?", "L{2}",
			"L|M", "^L|M$", "LF(?i)M", "[a-z]+L", ".L", "^.*L.*$", "(?s:.*)L.*", ".*L(?s:.*)", "^L.*", ".*L$", "(?m:^)L", "L(?m:$)",
			"^L$|M", ".*.*L.*", "L.*M", "(?P<n>L)", "^(?:L|M)$", ".*LM.*", "^LM$", "L(?-i)M", "(?i:L)M", `\BL`, ".?L", "^.L$", "(.*)L(.*)",
			"^(?i:L)$", "^L(?i)$", "(?U:.*)L.*", ".{0,}L.*", "[^\\n]*L.*", "^L\\z", "\\AL$", "(?:^)L", "(?:^L)", "(?:L$)", "^(?:L$)",
		}
		sh := shapes[r.Intn(len(shapes))]
		s := strings.NewReplacer("L", lit, "M", lit2, "F", "").Replace(sh)
		return mk("near:"+sh, fl+s, w2)
	case k < 88:
		return mk("trivial", fl+[]string{"", "^", "$", "^$", ".*", ".*.*", ".", "^.*$", "()", "(?:)", "x*", `\z`, `\A`, "|"}[r.Intn(14)])
	case k < 96:
		s, ls := c11RandomRegexp(r, 3)
		return c11Pat{src: fl + s, kind: "grammar", lits: ls}
	default:
		bad := []string{"(", ")", "[", "*", "+", "?", `\`, "(?P<n", "a{2,1}", `\x{110000}`, "a**", "(?z)", "[z-a]", `\p{Nope}`, "x{1001}", "\xff", "a\xc3", `\8`, "(?i", "a{1,1001}", "((((((((((a{100}){100}){100}){100}){100}){100}){100}){100}){100}){100})", `\Q` + "\xff"}
		return mk("malformed", bad[r.Intn(len(bad))]+[]string{"", lit}[r.Intn(2)])
	}
}

// c11RandomRegexp draws from a small grammar (depth-bounded); returns the literals used.
func c11RandomRegexp(r *rand.Rand, depth int) (string, []string) {
	if depth == 0 || r.Intn(3) == 0 {
		switch r.Intn(10) {
		case 0:
			return ".", nil
		case 1:
			return []string{"[a-z]", "[^a-z]", `\d`, `\w`, `\s`, `\pL`, `[[:upper:]]`, `[é-ж]`, `\PL`, `[^\n]`}[r.Intn(10)], nil
		case 2:
			return []string{"^", "$", `\b`, `\B`, `\A`, `\z`, "(?m:^)", "(?m:$)"}[r.Intn(8)], nil
		default:
			w := c11Word(r)
			return regexp.QuoteMeta(w), []string{w}
		}
	}
	a, la := c11RandomRegexp(r, depth-1)
	switch r.Intn(8) {
	case 0, 1, 2:
		b, lb := c11RandomRegexp(r, depth-1)
		return a + b, append(la, lb...)
	case 3:
		b, lb := c11RandomRegexp(r, depth-1)
		return a + "|" + b, append(la, lb...)
	case 4:
		return "(?:" + a + ")" + []string{"*", "+", "?", "*?", "{1,2}", "{2}", "{0,1}"}[r.Intn(7)], la
	case 5:
		return "(" + a + ")", la
	case 6:
		return "(?i:" + a + ")", la
	default:
		return ".*" + a + ".*", la
	}
}

func c11SwapCase(s string) string {
	return strings.Map(func(r rune) rune {
		if unicode.IsUpper(r) {
			return unicode.ToLower(r)
		}
		if unicode.IsLower(r) {
			return unicode.ToUpper(r)
		}
		return r
	}, s)
}

var c11GenericInputs = []string{
	"", "\n", " ", "A", "a", "Z", "z", "é", "É", "ǅ", "1", "_", "\xff", "\xc3", "\xe4\xb8", "�", "\xed\xa0\x80", "\xf4\x90\x80\x80",
	"Foo", "foo", "FOO", "foo bar", "Ünicode", "ünicode", "\nA", "\na", "A\n", "a\nB", "\xffA", "世", "Ж", "ж", "K", "ſ", "K", "k", "ß",
	"\xc0\x80", "\xe0\x80\x80", "A\xff", "\x00", "𝐀", "𝐚", "ǈ",
}

// c11Inputs derives inputs that discriminate the matcher kinds from the literals of a pattern.
func c11Inputs(r *rand.Rand, lits []string, budget int) []string {
	seen := map[string]bool{}
	var out []string
	add := func(s string) {
		if !seen[s] {
			seen[s] = true
			out = append(out, s)
		}
	}
	for _, l := range lits {
		if len(out) > budget/2 {
			break
		}
		add(l)
		add(strings.ToUpper(l))
		add(strings.ToLower(l))
		add(c11SwapCase(l))
		add("x" + l)
		add(l + "x")
		add("x" + l + "y")
		add(l + "\n")
		add("\n" + l)
		add("a\n" + l + "\nb")
		add(l + l)
		if len(l) > 0 {
			add(l[:len(l)-1])
			add(l[1:])
			add(l[:len(l)/2] + "\n" + l[len(l)/2:])
			_, w := utf8.DecodeRuneInString(l)
			add(l[w:])
			add("A" + l[w:])
		}
		add("\xff" + l)
		add(l + "\xff")
		add(" " + strings.ToUpper(l) + " ")
		add(strings.ReplaceAll(strings.ReplaceAll(strings.ToLower(l), "k", "K"), "s", "ſ"))
		add(strings.ReplaceAll(l, "�", "\xff"))
		add(strings.ReplaceAll(l, "�", "\xed\xa0\x80"))
	}
	perm := r.Perm(len(c11GenericInputs))
	for _, i := range perm {
		if len(out) >= budget-4 {
			break
		}
		add(c11GenericInputs[i])
	}
	for len(out) < budget {
		n := r.Intn(7)
		b := make([]byte, n)
		for i := range b {
			switch r.Intn(4) {
			case 0:
				b[i] = byte(r.Intn(256))
			case 1:
				b[i] = "\n \tAZaz09_"[r.Intn(10)]
			default:
				b[i] = byte('a' + r.Intn(26))
			}
		}
		if seen[string(b)] {
			b = append(b, byte('0'+len(out)%10), byte(r.Intn(256)))
		}
		add(string(b))
	}
	return out
}

// c11Mutate returns a copy of the tree with one or two small edits (possibly leaving the image of the parser).
func c11Mutate(r *rand.Rand, re *syntax.Regexp) *syntax.Regexp {
	out := c11Copy(re)
	for k := 0; k < 1+r.Intn(2); k++ {
		nodes := c11Nodes(out)
		n := nodes[r.Intn(len(nodes))]
		switch r.Intn(9) {
		case 0:
			n.Flags ^= syntax.FoldCase
		case 1:
			ops := []syntax.Op{syntax.OpLiteral, syntax.OpBeginText, syntax.OpEndText, syntax.OpBeginLine, syntax.OpEndLine, syntax.OpAnyChar,
				syntax.OpAnyCharNotNL, syntax.OpStar, syntax.OpPlus, syntax.OpConcat, syntax.OpAlternate, syntax.OpEmptyMatch, syntax.OpCapture, syntax.OpCharClass, syntax.OpQuest}
			n.Op = ops[r.Intn(len(ops))]
		case 2:
			if len(n.Sub) > 0 {
				i := r.Intn(len(n.Sub))
				n.Sub = append(n.Sub[:i:i], n.Sub[i+1:]...)
			}
		case 3:
			if len(n.Sub) > 0 {
				i := r.Intn(len(n.Sub))
				n.Sub = append(n.Sub, c11Copy(n.Sub[i]))
			}
		case 4:
			if len(n.Sub) > 1 {
				i, j := r.Intn(len(n.Sub)), r.Intn(len(n.Sub))
				n.Sub[i], n.Sub[j] = n.Sub[j], n.Sub[i]
			}
		case 5:
			n.Rune = []rune(c11Word(r))
		case 6:
			n.Sub = nil
		case 7:
			n.Sub = append([]*syntax.Regexp{{Op: syntax.OpBeginText}}, n.Sub...)
		case 8:
			n.Sub = append(n.Sub, &syntax.Regexp{Op: syntax.OpEndText})
		}
	}
	return out
}

func c11B(b bool) string {
	if b {
		return "1"
	}
	return "0"
}

// ---------------------------------------------------------------- the run

func runC11(c *Ctx) error {
	res := c.Res
	nPat, nIn, nTree := 500, 40, 1500
	if c.Thorough {
		nPat, nIn, nTree = 8000, 64, 30000
	}
	res.Rule = fmt.Sprintf("(1) utf8: DecodeRune/string(rune) mirror, exhaustive over all 1- and 2-byte prefixes and boundary runes; "+
		"(2) tree: %d parsed and mutated syntax trees through the hook VerifCompileOptimized vs model `compileOptimized` (nil-ness and Match/MatchString on literal-derived inputs); "+
		"(3) pattern: %d generated pattern strings x %d inputs through textmatch.Compile vs model `compile` fed with syntax.Parse's tree and regexp's answer; "+
		"(4) every implementation answer is compared with regexp.MustCompile(p).Match (the property) and with the Lean semantics `spec11`; "+
		"(5) e2e: Text.Matches / File().Name.Matches / File().PkgPath.Matches through Engine.Run. "+
		"A case is non-trivial when a fast path is taken or the pattern is a near miss of one; distinct by (suite, pattern, input).", nTree, nPat, nIn)

	if err := c11Utf8(c); err != nil {
		return err
	}
	pats := c11Patterns(c, nPat)
	if err := c11TreeSuite(c, pats, nTree); err != nil {
		return err
	}
	if err := c11PatternSuite(c, pats, nIn); err != nil {
		return err
	}
	return c11E2E(c, pats)
}

// c11Patterns: a fixed list of must-have patterns followed by generated ones (deterministic from the seed).
func c11Patterns(c *Ctx, n int) []c11Pat {
	r := hx.Rng(c.Seed, "c11-patterns")
	fixed := []c11Pat{
		{"foo", "lit", []string{"foo"}}, {".*foo.*", ".*lit.*", []string{"foo"}}, {"^foo", "^lit", []string{"foo"}},
		{"foo$", "lit$", []string{"foo"}}, {"^foo$", "^lit$", []string{"foo"}}, {`^\p{Lu}`, "pred", nil}, {`^\p{Ll}`, "pred", nil},
		{"(?i)foo", "lit", []string{"foo"}}, {"(?i)^foo$", "^lit$", []string{"foo"}}, {"(?i)^foo", "^lit", []string{"foo"}},
		{"(?i)foo$", "lit$", []string{"foo"}}, {"(?i).*foo.*", ".*lit.*", []string{"foo"}}, {"(?i)1", "lit", []string{"1"}},
		{`\x{FFFD}`, "lit", []string{"�"}}, {`^\x{FFFD}$`, "^lit$", []string{"�"}}, {`\x{D800}`, "lit", []string{"�"}},
		{`a\x{FFFD}$`, "lit$", []string{"a�"}}, {`^\x{D800}$`, "^lit$", []string{"�"}}, {"", "trivial", nil}, {"(?s).*foo.*", "near", []string{"foo"}},
		{"(?m)^foo$", "near", []string{"foo"}}, {"(?U).*foo.*", ".*lit.*", []string{"foo"}}, {"(?i)k", "lit", []string{"k"}},
	}
	out := append([]c11Pat(nil), fixed...)
	for len(out) < n {
		out = append(out, c11GenPattern(r))
	}
	return out
}

func c11Utf8(c *Ctx) error {
	res := c.Res
	var ops, impl []string
	dec := func(b []byte) {
		r, w := utf8.DecodeRune(b)
		ops = append(ops, "utf8dec "+hx.Hex(b))
		impl = append(impl, fmt.Sprintf("%d %d", r, w))
		rs, ws := utf8.DecodeRuneInString(string(b))
		if rs != r || ws != w {
			res.Errorf("utf8: DecodeRune and DecodeRuneInString differ on %x", b)
		}
		res.Count("utf8", "d"+string(b), w != 1 || r != utf8.RuneError)
	}
	dec(nil)
	for a := 0; a < 256; a++ {
		dec([]byte{byte(a)})
		for b := 0; b < 256; b++ {
			dec([]byte{byte(a), byte(b)})
		}
	}
	// 3- and 4-byte forms: every lead byte x boundary continuation bytes
	edge := []byte{0x00, 0x7f, 0x80, 0x8f, 0x90, 0x9f, 0xa0, 0xbf, 0xc0, 0xff}
	for a := 0xe0; a < 256; a++ {
		for _, b := range edge {
			for _, d := range edge {
				dec([]byte{byte(a), b, d})
				for _, e := range edge {
					dec([]byte{byte(a), b, d, e})
				}
			}
		}
	}
	r := hx.Rng(c.Seed, "c11-utf8")
	enc := func(x int) {
		ops = append(ops, fmt.Sprintf("utf8enc %d", x))
		impl = append(impl, hx.HexS(string(rune(x))))
		res.Count("utf8", fmt.Sprintf("e%d", x), true)
		dec(append([]byte(string(rune(x))), 'z'))
	}
	for _, x := range []int{0, 1, 0x7f, 0x80, 0x7ff, 0x800, 0xfff, 0x1000, 0xd7ff, 0xd800, 0xdfff, 0xe000, 0xfffd, 0xffff, 0x10000, 0x3ffff, 0x40000, 0x10ffff, 0x110000, 0x7fffffff} {
		enc(x)
	}
	n := 3000
	if c.Thorough {
		n = 60000
	}
	for i := 0; i < n; i++ {
		enc(r.Intn(0x110400))
	}
	res.Dist("utf8:ops")
	return res.Compare(c.Drv, "utf8", ops, impl, nil)
}

// c11Probe runs Match and MatchString.
func c11Probe(p textmatch.Pattern, in string) string {
	return hx.Safe(func() string { return c11B(p.Match([]byte(in))) + " " + c11B(p.MatchString(in)) })
}

func c11TreeSuite(c *Ctx, pats []c11Pat, nTree int) error {
	res := c.Res
	r := hx.Rng(c.Seed, "c11-trees")
	var ops, impl []string
	var inputs []interface{}
	predPats := []string{`^\p{Lu}`, `^\p{Ll}`}
	done := 0
	for i := 0; done < nTree; i++ {
		p := pats[i%len(pats)]
		if i >= len(pats) {
			p = c11GenPattern(r)
		}
		re, err := syntax.Parse(p.src, syntax.Perl)
		if err != nil {
			continue
		}
		done++
		s := p.src
		kind := "parsed"
		// (the two special-cased pattern strings keep their own tree: `switch s` assumes s and re belong together)
		if i%3 != 0 && s != predPats[0] && s != predPats[1] {
			re = c11Mutate(r, re)
			kind = "mutated"
		}
		tree := c11Tree(re)
		var pat textmatch.Pattern
		co := hx.Safe(func() string {
			pat = textmatch.VerifCompileOptimized(s, re)
			if pat == nil {
				return "none"
			}
			return "fast"
		})
		res.Dist("tree:" + kind)
		if co != "fast" {
			ops = append(ops, fmt.Sprintf("tmcorun %s %s %s -", c11Variant, hx.HexS(s), tree))
			impl = append(impl, co)
			inputs = append(inputs, map[string]interface{}{"src": s, "tree": tree, "fold": c11Fold(re), "cause": c11Cause(re), "wf": c11WF(re)})
			res.Count("tree", tree+"\x00"+s, co != "none")
			res.Dist("tree:impl:" + co)
			continue
		}
		res.Dist("tree:impl:" + strings.TrimPrefix(fmt.Sprintf("%T", pat), "*textmatch."))
		for _, in := range c11Inputs(r, append(c11Literals(re), p.lits...), 14) {
			ops = append(ops, fmt.Sprintf("tmcorun %s %s %s %s", c11Variant, hx.HexS(s), tree, hx.HexS(in)))
			impl = append(impl, "fast "+c11Probe(pat, in))
			inputs = append(inputs, map[string]interface{}{"src": s, "tree": tree, "input": in, "fold": c11Fold(re), "cause": c11Cause(re), "wf": c11WF(re)})
			res.Count("tree", tree+"\x00"+s+"\x00"+in, true)
		}
	}
	res.Sample(map[string]interface{}{"op": ops[len(ops)/2], "impl": impl[len(impl)/2]})
	return c11Compare(c, "tree", ops, impl, inputs)
}

func c11PatternSuite(c *Ctx, pats []c11Pat, nIn int) error {
	res := c.Res
	r := hx.Rng(c.Seed, "c11-inputs")
	var ops, impl, specOps []string
	var inputs []interface{}
	type meta struct {
		pat, in string
		re      *syntax.Regexp
		fast    bool
		oracle  bool
	}
	var metas []meta
	var kindOps []string
	for _, p := range pats {
		re, perr := syntax.Parse(p.src, syntax.Perl)
		oracle, oerr := regexp.Compile(p.src)
		var pat textmatch.Pattern
		var cerr error
		pk := hx.Safe(func() string { pat, cerr = textmatch.Compile(p.src); return "" })
		tree := "err"
		if perr == nil {
			tree = c11Tree(re)
			kindOps = append(kindOps, fmt.Sprintf("tmco %s %s %s", c11Variant, hx.HexS(p.src), tree))
		}
		res.Dist("gen:" + strings.SplitN(p.kind, ":", 2)[0])
		if pk != "" || cerr != nil || oerr != nil {
			// no pattern value: the model says the fallback (regexp.Compile) is reached and its error returned
			o := "E"
			if oerr == nil {
				o = "0"
			}
			out := "error"
			if pk != "" {
				out = pk
			} else if cerr == nil {
				out = "compiled"
			}
			ops = append(ops, fmt.Sprintf("tmrun %s %s %s - %s", c11Variant, hx.HexS(p.src), tree, o))
			impl = append(impl, out)
			specOps = append(specOps, "")
			inputs = append(inputs, map[string]interface{}{"pattern": p.src})
			metas = append(metas, meta{pat: p.src})
			res.Count("pattern", p.src, false)
			res.Dist("pattern:compile-error")
			if (cerr == nil) != (oerr == nil) || pk != "" {
				res.Violate(hx.Violation{Signature: "textmatch.Compile:error-differs-from-regexp.Compile", What: "textmatch.Compile and regexp.Compile disagree on whether the pattern is valid",
					Input: map[string]interface{}{"pattern": p.src}, Impl: fmt.Sprintf("%v %s", cerr, pk), Spec: fmt.Sprintf("%v", oerr)})
			}
			continue
		}
		isRe := textmatch.IsRegexp(pat)
		if isRe {
			res.Dist("pattern:impl:regexp")
		} else {
			res.Dist("pattern:impl:" + strings.TrimPrefix(fmt.Sprintf("%T", pat), "*textmatch."))
		}
		nontrivial := !isRe || strings.HasPrefix(p.kind, "near") || p.kind == "lit" || strings.Contains(p.kind, "lit")
		budget := nIn
		if isRe && !nontrivial {
			budget = nIn / 3
		}
		fold := c11Fold(re)
		for _, in := range c11Inputs(r, append(append([]string(nil), p.lits...), c11Literals(re)...), budget) {
			want := oracle.Match([]byte(in))
			if oracle.MatchString(in) != want {
				res.Errorf("regexp: Match and MatchString differ for %q on %q", p.src, in)
			}
			got := c11Probe(pat, in)
			pre := "fast "
			if isRe {
				pre = "regexp "
			}
			ops = append(ops, fmt.Sprintf("tmrun %s %s %s %s %s", c11Variant, hx.HexS(p.src), tree, hx.HexS(in), c11B(want)))
			impl = append(impl, pre+got)
			inputs = append(inputs, map[string]interface{}{"pattern": p.src, "input": in, "input_hex": hx.HexS(in)})
			metas = append(metas, meta{pat: p.src, in: in, re: re, fast: !isRe, oracle: want})
			specOps = append(specOps, fmt.Sprintf("spec11 %s %s %s %s", fold, tree, hx.HexS(in), c11ImplBit(got)))
			res.Count("pattern", p.src+"\x00"+in, nontrivial)
			// the property itself: the implementation's answer is regexp's answer
			if got != c11B(want)+" "+c11B(want) {
				cause := c11Cause(re)
				res.Violate(hx.Violation{
					Signature: "compileOptimized:" + cause,
					What:      "textmatch.Compile(p).Match/MatchString differs from regexp.MustCompile(p).Match",
					Input:     map[string]interface{}{"pattern": p.src, "input": in, "input_hex": hx.HexS(in), "matcher": fmt.Sprintf("%T", pat)},
					Impl:      "Match MatchString = " + got, Spec: "regexp: " + c11B(want)})
				res.Dist("violation:" + cause)
			}
		}
	}
	res.Sample(map[string]interface{}{"op": ops[len(ops)/2], "impl": impl[len(impl)/2]})
	res.Sample(map[string]interface{}{"op": ops[len(ops)/5], "impl": impl[len(impl)/5]})
	if err := c11Compare(c, "pattern", ops, impl, inputs); err != nil {
		return err
	}
	// which branch of the model each pattern exercises
	ans, err := c.Drv.Ask(kindOps)
	if err != nil {
		return err
	}
	for _, a := range ans {
		res.Dist("model:" + strings.SplitN(a, " ", 2)[0])
	}
	// the Lean semantics against regexp itself (validates the statement the theorems are about) ...
	var semOps, semImpl []string
	var semInputs []interface{}
	var specIdx []int
	var specAsk []string
	for i, m := range metas {
		if m.re == nil {
			continue
		}
		fold := c11Fold(m.re)
		semOps = append(semOps, fmt.Sprintf("search11 %s %s %s", fold, c11Tree(m.re), hx.HexS(m.in)))
		semImpl = append(semImpl, c11B(m.oracle))
		semInputs = append(semInputs, inputs[i])
		res.Count("semantics", m.pat+"\x00"+m.in, true)
		specIdx = append(specIdx, i)
		specAsk = append(specAsk, specOps[i])
	}
	// Known quirk of the oracle itself: for a literal containing a surrogate (\x{D800}..\x{DFFF}) Go's regexp
	// is not consistent with itself — its machines never match it (no decoded rune is a surrogate) but its
	// literal-prefix shortcut (onePassPrefix writes the rune with WriteRune, i.e. as U+FFFD) does, so
	// `\x{D800}` rejects "\uFFFD" while `^\x{D800}$` accepts it.  The Lean semantics is the machines'; such
	// differences are counted, not reported as a disagreement.
	sem, err := c.Drv.Ask(semOps)
	if err != nil {
		return err
	}
	for k := range semOps {
		if sem[k] == semImpl[k] {
			continue
		}
		if c11HasSurrogate(metas[specIdx[k]].re) {
			res.Dist("semantics:regexp-surrogate-literal-quirk")
			continue
		}
		res.Disagree(hx.Disagreement{Suite: "semantics(Lean M vs regexp)", Op: semOps[k], Impl: semImpl[k], Model: sem[k], Input: semInputs[k]})
	}
	// ... and the executable statement of the property on the implementation's own answers
	ans, err = c.Drv.Ask(specAsk)
	if err != nil {
		return err
	}
	for k, a := range ans {
		i := specIdx[k]
		res.Count("spec11", metas[i].pat+"\x00"+metas[i].in, metas[i].fast)
		if a == "holds" {
			continue
		}
		if metas[i].oracle == (c11ImplBit(strings.TrimPrefix(strings.TrimPrefix(impl[i], "fast "), "regexp ")) == "1") && c11HasSurrogate(metas[i].re) {
			// the implementation answers exactly what regexp answers (the property's own oracle); the Lean
			// semantics differs from regexp only through the surrogate-literal quirk described above
			res.Dist("spec11:regexp-surrogate-literal-quirk")
			continue
		}
		cause := c11Cause(metas[i].re)
		res.Violate(hx.Violation{Signature: "compileOptimized:" + cause, What: "SpecC11.specHolds is false of the implementation's answer",
			Input: inputs[i], Impl: impl[i], Spec: specAsk[k] + " -> " + a})
		res.Dist("spec11:violates:" + cause)
	}
	return nil
}

// c11Compare compares the model's and the implementation's *answers*.  Which path produced an answer
// (a specialised matcher or regexp) is internal: a path the code has and the model lacks (or the reverse)
// is not a disagreement as long as the answers agree — it is counted and noted; where no regexp oracle
// exists (hand-made trees) the answer of an unmodelled fast path is checked against the Lean semantics.
func c11Compare(c *Ctx, suite string, ops, impl []string, inputs []interface{}) error {
	res := c.Res
	ans, err := c.Drv.Ask(ops)
	if err != nil {
		return err
	}
	split := func(s string) (path, bits string) {
		if strings.HasPrefix(s, "fast ") {
			return "fast", s[5:]
		}
		if strings.HasPrefix(s, "regexp ") {
			return "regexp", s[7:]
		}
		return s, ""
	}
	var specOps []string
	var specIdx []int
	noted := map[string]bool{}
	note := func(kind string, i int) {
		res.Dist(suite + ":path-differs:" + kind)
		if !noted[kind] {
			noted[kind] = true
			res.Notes = append(res.Notes, fmt.Sprintf("%s: model and code take different paths (%s) with equal answers, first at %s", suite, kind, ops[i]))
		}
	}
	for i := range ops {
		if ans[i] == impl[i] {
			continue
		}
		mp, mb := split(ans[i])
		ip, ib := split(impl[i])
		switch {
		case mb != "" && ib != "" && mb == ib: // fast vs regexp, same answers
			note("code="+ip+",model="+mp, i)
		case ip == "none" && (mp == "fast" || strings.HasPrefix(mp, "panic")):
			note("code=none,model="+strings.SplitN(mp, " ", 2)[0], i) // an optimisation (or an unguarded index) the code no longer has
		case ip == "fast" && mp == "none":
			// an optimisation the model does not know: judge its answer by the semantics
			in := inputs[i].(map[string]interface{})
			if _, ok := in["input"]; !ok {
				note("code=fast,model=none", i)
				continue
			}
			specOps = append(specOps, fmt.Sprintf("spec11 %s %s %s %s", in["fold"], in["tree"], hx.HexS(in["input"].(string)), c11ImplBit(ib)))
			specIdx = append(specIdx, i)
		default:
			if in, ok := inputs[i].(map[string]interface{}); ok && in["wf"] == false && (strings.HasPrefix(ip, "panic") || strings.HasPrefix(mp, "panic")) {
				note("panic-on-a-tree-the-parser-cannot-produce", i) // an operator node without operand
				continue
			}
			res.Disagree(hx.Disagreement{Suite: suite, Op: ops[i], Impl: impl[i], Model: ans[i], Input: inputs[i]})
		}
	}
	sans, err := c.Drv.Ask(specOps)
	if err != nil {
		return err
	}
	for k, a := range sans {
		i := specIdx[k]
		if a == "holds" {
			note("code=fast,model=none", i)
			continue
		}
		sig := "compileOptimized:unmodelled-fast-path-differs-from-regexp-semantics"
		if cause, _ := inputs[i].(map[string]interface{})["cause"].(string); cause != "" && cause != "unexplained" {
			sig = "compileOptimized:" + cause
		}
		res.Violate(hx.Violation{Signature: sig,
			What: "a matcher chosen for a tree the model sends to regexp answers differently from the regexp semantics (SpecC11.searchB)", Input: inputs[i], Impl: impl[i], Spec: specOps[k] + " -> " + a})
		res.Disagree(hx.Disagreement{Suite: suite, Op: ops[i], Impl: impl[i], Model: ans[i], Input: inputs[i]})
	}
	return nil
}

func c11ImplBit(got string) string {
	switch got {
	case "1 1":
		return "1"
	case "0 0":
		return "0"
	}
	return "x"
}

// c11E2E: the three predicates through the public API.  One rules file with a group per (pattern,
// predicate); group i only matches calls of its own probe function so that groups do not shadow
// each other.  Text.Matches sees the source text of the argument; File().Name.Matches sees
// filepath.Base of the file name; File().PkgPath.Matches sees the package path.
func c11E2E(c *Ctx, pats []c11Pat) error {
	res := c.Res
	r := hx.Rng(c.Seed, "c11-e2e")
	nPat := 60
	if c.Thorough {
		nPat = 400
	}
	// patterns that compile, are non-empty and valid UTF-8 (a rules file is Go source)
	var use []c11Pat
	var res0 []*regexp.Regexp
	seen := map[string]bool{}
	for _, p := range pats {
		if len(use) >= nPat {
			break
		}
		re, err := regexp.Compile(p.src)
		if err != nil || p.src == "" || seen[p.src] {
			continue
		}
		seen[p.src] = true
		use = append(use, p)
		res0 = append(res0, re)
	}
	var rules strings.Builder
	for i, p := range use {
		q := strconv.Quote(p.src)
		fmt.Fprintf(&rules, "func t%d(m dsl.Matcher) { m.Match(`t%d($x)`).Where(m[\"x\"].Text.Matches(%s)).Report(\"T\") }\n", i, i, q)
		fmt.Fprintf(&rules, "func n%d(m dsl.Matcher) { m.Match(`n%d($x)`).Where(m.File().Name.Matches(%s)).Report(\"N\") }\n", i, i, q)
		fmt.Fprintf(&rules, "func q%d(m dsl.Matcher) { m.Match(`q%d($x)`).Where(m.File().PkgPath.Matches(%s)).Report(\"Q\") }\n", i, i, q)
	}
	e, err := hx.LoadRules(hx.RulesFile(rules.String()))
	if err != nil {
		return fmt.Errorf("c11 e2e load: %v", err)
	}

	// --- Text.Matches: node texts are identifiers, numbers, string literals, compound expressions
	idents := []string{"foo", "Foo", "FOO", "a", "k", "K", "s", "x", "i", "ok", "fooBar", "a1", "é", "É", "ж", "Жук", "世界", "ǅ", "ǆ", "ß", "ſ", "K", "σ", "Σ", "ı", "xfoo", "foox", "xfooy", "foofoo", "fo", "oo", "Ünicode", "ünicode", "_"}
	texts := append([]string(nil), idents...)
	texts = append(texts, "1", "42", `"foo"`, `"foo bar"`, "`foo`", "`a\nfoo\nb`", "`\nfoo`", "`foo\n`", "foo + x", "foo.x", `"�"`, `"x.y"`, `"a+b"`, `"$"`, `"😀"`, "`\\`", `"K"`, "'k'", "foo(x)", "-1", "Rec{}")
	for _, p := range use {
		for _, l := range p.lits {
			if c11IsIdent(l) && len(texts) < 90 {
				texts = append(texts, l)
			}
		}
	}
	texts = c11Uniq(texts)
	var src strings.Builder
	src.WriteString("package p\n\ntype T struct{ x int }\ntype Rec struct{}\nvar (\n")
	declared := map[string]bool{}
	for _, t := range texts {
		if c11IsIdent(t) && t != "_" && !declared[t] {
			declared[t] = true
			if t == "foo" {
				fmt.Fprintf(&src, "\tfoo T\n")
			} else {
				fmt.Fprintf(&src, "\t%s int\n", t)
			}
		}
	}
	src.WriteString(")\n")
	for i := range use {
		fmt.Fprintf(&src, "func t%d(...interface{}) {}\n", i)
	}
	src.WriteString("func probes() {\n")
	line := strings.Count(src.String(), "\n") + 1
	type cell struct{ pi, ti int }
	lineOf := map[int]cell{}
	for ti, t := range texts {
		if t == "_" || t == "foo + x" || t == "foo(x)" {
			continue // not valid with these declarations
		}
		for pi := range use {
			fmt.Fprintf(&src, "\tt%d(%s)\n", pi, t)
			lineOf[line] = cell{pi, ti}
			line += 1 + strings.Count(t, "\n")
		}
	}
	src.WriteString("}\n")
	t, err := hx.ParseTarget("c11_text.go", src.String())
	if err != nil {
		return fmt.Errorf("c11 e2e target: %v", err)
	}
	reports, pk, frame, err := hx.Run(e, t, hx.RunOpts{})
	if err != nil || pk != "" {
		return fmt.Errorf("c11 e2e run: %v %s %s", err, pk, frame)
	}
	hit := map[cell]bool{}
	for _, rep := range reports {
		cl, ok := lineOf[rep.Line]
		if !ok || rep.Message != "T" {
			res.Errorf("c11 e2e: unexpected report %v", rep)
			continue
		}
		hit[cl] = true
	}
	var ops, impl []string
	var inputs []interface{}
	check := func(site string, p c11Pat, re *regexp.Regexp, in string, got bool, direct func() bool) {
		want := re.MatchString(in)
		class := "" // Text.Matches[<capture class>]: the predicate on a capture of that class
		if i := strings.IndexByte(site, '['); i >= 0 {
			site, class = site[:i], site[i:]
		}
		res.Count("e2e", site+class+"\x00"+p.src+"\x00"+in, true)
		res.Dist("e2e:" + site + class)
		if site == "Text.Matches" {
			// model: the filter is textmatch.Compile(p).Match(node text)
			tree := "err"
			if st, err := syntax.Parse(p.src, syntax.Perl); err == nil {
				tree = c11Tree(st)
			}
			ops = append(ops, fmt.Sprintf("tmrun %s %s %s %s %s", c11Variant, hx.HexS(p.src), tree, hx.HexS(in), c11B(want)))
			b := c11B(got)
			pre := "fast "
			if pat, err := textmatch.Compile(p.src); err == nil && textmatch.IsRegexp(pat) {
				pre = "regexp "
			}
			impl = append(impl, pre+b+" "+b)
			inputs = append(inputs, map[string]interface{}{"site": site + class, "pattern": p.src, "input": in})
		}
		if got != want {
			sig := "e2e:" + site + class + ":differs-from-regexp"
			if site == "Text.Matches" && direct() == got {
				st, _ := syntax.Parse(p.src, syntax.Perl)
				sig = "compileOptimized:" + c11Cause(st) // same root cause as the direct observation
			}
			res.Violate(hx.Violation{Signature: sig, What: site + " through Engine.Run differs from regexp.MustCompile(p).MatchString",
				Input: map[string]interface{}{"pattern": p.src, "input": in, "site": site + class}, Impl: c11B(got), Spec: "regexp: " + c11B(want)})
			res.Dist("e2e:violation:" + site + class)
		}
	}
	for cl := range lineOf {
		_ = cl
	}
	cells := make([]cell, 0, len(lineOf))
	for _, cl := range lineOf {
		cells = append(cells, cl)
	}
	sort.Slice(cells, func(i, j int) bool {
		if cells[i].pi != cells[j].pi {
			return cells[i].pi < cells[j].pi
		}
		return cells[i].ti < cells[j].ti
	})
	for _, cl := range cells {
		p, in := use[cl.pi], texts[cl.ti]
		check("Text.Matches", p, res0[cl.pi], in, hit[cl], func() bool {
			pat, err := textmatch.Compile(p.src)
			return err == nil && pat.Match([]byte(in))
		})
	}
	if err := c11E2ECaptures(c, pats, check); err != nil {
		return err
	}
	if err := c11Compare(c, "e2e", ops, impl, inputs); err != nil {
		return err
	}

	// --- File().Name.Matches / File().PkgPath.Matches: one run per name / path
	var calls strings.Builder
	calls.WriteString("package p\n")
	for i := range use {
		fmt.Fprintf(&calls, "func n%d(int) {}\nfunc q%d(int) {}\n", i, i)
	}
	calls.WriteString("func probes() {\n")
	base := strings.Count(calls.String(), "\n") + 1
	for i := range use {
		fmt.Fprintf(&calls, "\tn%d(0); q%d(0)\n", i, i)
	}
	calls.WriteString("}\n")
	names := []string{"foo", "foo.go", "Foo.go", "FOO", "xfoo", "foox", "a\nfoo\nb.go", "é.go", "É", "ж", "K", "k", "K.go", "foo_test.go", "�", "\xff.go", "a\xffb", " ", "1", "42", "x.y", "a+b", "$", "ǅ", "Ünicode.go", "ünicode.go", "fo", "世界.go"}
	for _, p := range use {
		for _, l := range p.lits {
			if l != "" && !strings.ContainsAny(l, "/\x00") && l != "." && l != ".." && len(names) < 70 {
				names = append(names, l)
			}
		}
	}
	names = c11Uniq(names)
	nRuns := 24
	if c.Thorough {
		nRuns = len(names)
	}
	r.Shuffle(len(names)-3, func(i, j int) { names[i+3], names[j+3] = names[j+3], names[i+3] })
	for k, name := range names {
		if k >= nRuns {
			break
		}
		dir := []string{"", "dir/", "/abs/dir.d/", "a b/"}[k%4]
		pkgPath := name
		if k%3 == 1 {
			pkgPath = "example.com/" + name
		}
		tg, err := c11Target(dir+name, pkgPath, calls.String())
		if err != nil {
			return fmt.Errorf("c11 e2e target %q: %v", name, err)
		}
		reports, pk, frame, err := hx.Run(e, tg, hx.RunOpts{})
		if err != nil || pk != "" {
			return fmt.Errorf("c11 e2e run %q: %v %s %s", name, err, pk, frame)
		}
		gotN, gotQ := map[int]bool{}, map[int]bool{}
		for _, rep := range reports {
			i := rep.Line - base
			switch rep.Message {
			case "N":
				gotN[i] = true
			case "Q":
				gotQ[i] = true
			default:
				res.Errorf("c11 e2e: unexpected report %v", rep)
			}
		}
		for i, p := range use {
			check("File.Name.Matches", p, res0[i], name, gotN[i], nil)
			check("File.PkgPath.Matches", p, res0[i], pkgPath, gotQ[i], nil)
		}
	}

	// --- load-time treatment of the empty and of invalid patterns
	for _, tc := range []struct{ pred, pat string }{
		{`m["x"].Text.Matches`, ""}, {`m.File().Name.Matches`, ""}, {`m.File().PkgPath.Matches`, ""},
		{`m["x"].Text.Matches`, "("}, {`m.File().Name.Matches`, "("}, {`m.File().PkgPath.Matches`, "a{2,1}"},
	} {
		body := fmt.Sprintf("func r(m dsl.Matcher) { m.Match(`f($x)`).Where(%s(%s)).Report(\"R\") }\n", tc.pred, strconv.Quote(tc.pat))
		_, lerr := hx.LoadRules(hx.RulesFile(body))
		_, cerr := regexp.Compile(tc.pat)
		res.Count("e2e-load", tc.pred+tc.pat, true)
		res.Dist("e2e:load")
		switch {
		case lerr != nil && strings.HasPrefix(lerr.Error(), "PANIC"):
			res.Violate(hx.Violation{Signature: "e2e:load:" + tc.pred + ":panic", What: "Load panics on a regexp argument",
				Input: map[string]interface{}{"predicate": tc.pred, "pattern": tc.pat}, Impl: lerr.Error(), Spec: fmt.Sprintf("regexp.Compile: %v", cerr)})
		case (lerr == nil) != (cerr == nil):
			sig := "e2e:load:" + tc.pred + ":pattern-validity-differs-from-regexp.Compile"
			if tc.pat == "" && lerr != nil {
				// the loader documents "expected a non-empty regexp pattern argument": the rule is rejected with a
				// located error, no predicate exists whose answers could differ from regexp's — outside C11
				res.Dist("e2e:load:empty-pattern-rejected-with-error")
				continue
			}
			res.Violate(hx.Violation{Signature: sig,
				What:  "a pattern regexp.Compile accepts is rejected at load time (or the reverse), so the predicate cannot follow regexp on it",
				Input: map[string]interface{}{"predicate": tc.pred, "pattern": tc.pat}, Impl: fmt.Sprintf("Load: %v", lerr), Spec: fmt.Sprintf("regexp.Compile: %v", cerr)})
		}
	}
	return nil
}

func c11IsIdent(s string) bool {
	if s == "" {
		return false
	}
	for i, r := range s {
		if !(r == '_' || unicode.IsLetter(r) || (i > 0 && unicode.IsDigit(r))) {
			return false
		}
	}
	switch s {
	case "break", "case", "chan", "const", "continue", "default", "defer", "else", "fallthrough", "for", "func", "go", "goto", "if", "import",
		"interface", "map", "package", "range", "return", "select", "struct", "switch", "type", "var", "T", "p", "probes", "Rec", "nil", "true", "false", "iota", "int", "string", "len":
		return false
	}
	return !strings.HasPrefix(s, "t") || !c11Digits(s[1:])
}

func c11Digits(s string) bool {
	for _, r := range s {
		if r < '0' || r > '9' {
			return false
		}
	}
	return true
}

func c11Uniq(xs []string) []string {
	seen := map[string]bool{}
	var out []string
	for _, x := range xs {
		if !seen[x] {
			seen[x] = true
			out = append(out, x)
		}
	}
	return out
}

// c11Target parses and type-checks src under an arbitrary file name and package path.
func c11Target(filename, pkgPath, src string) (*hx.Target, error) {
	fset := token.NewFileSet()
	f, err := parser.ParseFile(fset, filename, src, parser.ParseComments)
	if err != nil {
		return nil, err
	}
	info := &types.Info{
		Types: map[ast.Expr]types.TypeAndValue{}, Uses: map[*ast.Ident]types.Object{}, Defs: map[*ast.Ident]types.Object{},
		Selections: map[*ast.SelectorExpr]*types.Selection{}, Implicits: map[ast.Node]types.Object{}, Scopes: map[ast.Node]*types.Scope{},
		Instances: map[*ast.Ident]types.Instance{},
	}
	pkg, err := (&types.Config{}).Check(pkgPath, fset, []*ast.File{f}, info)
	if err != nil {
		return nil, err
	}
	return &hx.Target{Fset: fset, File: f, Info: info, Pkg: pkg, Src: []byte(src), Name: filename}, nil
}

// ---------------------------------------------------------------- Text.Matches on every class of capture

// c11CapShape: one way a rule variable gets its text.  `find` enumerates, from the parsed target alone, the
// nodes the rule pattern matches and the nodes bound to the variable there; the text the predicate is about is
// the source text spanned by those nodes ("" when the variable is bound to nothing: `$*xs` that matched no
// node, an absent result list).
type c11CapShape struct {
	name    string // capture class
	pattern string
	varname string
	negate  bool // the rule uses !Text.Matches
	find    func(f *ast.File) []c11CapSite
}

type c11CapSite struct {
	at    ast.Node   // the node the rule reports
	nodes []ast.Node // what the variable is bound to
}

func c11CallSites(fun string, skip int) func(f *ast.File) []c11CapSite {
	return func(f *ast.File) []c11CapSite {
		var out []c11CapSite
		ast.Inspect(f, func(n ast.Node) bool {
			if call, ok := n.(*ast.CallExpr); ok {
				if id, ok := call.Fun.(*ast.Ident); ok && id.Name == fun && len(call.Args) >= skip {
					s := c11CapSite{at: call}
					for _, a := range call.Args[skip:] {
						s.nodes = append(s.nodes, a)
					}
					out = append(out, s)
				}
			}
			return true
		})
		return out
	}
}

var c11CapShapes = []c11CapShape{
	{"call-args:$*xs", "ca($*xs)", "xs", false, c11CallSites("ca", 0)},
	{"call-args:$*xs:negated", "cn($*xs)", "xs", true, c11CallSites("cn", 0)},
	{"call-args-tail:$*xs", "ct($_, $*xs)", "xs", false, c11CallSites("ct", 1)},
	{"call-arg:$x", "cx($x)", "x", false, c11CallSites("cx", 0)},
	{"return-values:$*xs", "return $*xs", "xs", false, func(f *ast.File) []c11CapSite {
		var out []c11CapSite
		ast.Inspect(f, func(n ast.Node) bool {
			if r, ok := n.(*ast.ReturnStmt); ok {
				s := c11CapSite{at: r}
				for _, x := range r.Results {
					s.nodes = append(s.nodes, x)
				}
				out = append(out, s)
			}
			return true
		})
		return out
	}},
	{"block-statements:$*xs", "if mark { $*xs }", "xs", false, func(f *ast.File) []c11CapSite {
		var out []c11CapSite
		ast.Inspect(f, func(n ast.Node) bool {
			if st, ok := n.(*ast.IfStmt); ok && st.Init == nil && st.Else == nil {
				if id, ok := st.Cond.(*ast.Ident); ok && id.Name == "mark" {
					s := c11CapSite{at: st}
					for _, x := range st.Body.List {
						s.nodes = append(s.nodes, x)
					}
					out = append(out, s)
				}
			}
			return true
		})
		return out
	}},
	{"literal-elements:$*xs", "[]int{$*xs}", "xs", false, func(f *ast.File) []c11CapSite {
		var out []c11CapSite
		ast.Inspect(f, func(n ast.Node) bool {
			if cl, ok := n.(*ast.CompositeLit); ok {
				if at, ok := cl.Type.(*ast.ArrayType); ok && at.Len == nil {
					if id, ok := at.Elt.(*ast.Ident); ok && id.Name == "int" {
						s := c11CapSite{at: cl}
						for _, x := range cl.Elts {
							s.nodes = append(s.nodes, x)
						}
						out = append(out, s)
					}
				}
			}
			return true
		})
		return out
	}},
	{"result-list:$x", "func $_() $x { $*_ }", "x", false, func(f *ast.File) []c11CapSite {
		var out []c11CapSite
		for _, d := range f.Decls {
			fd, ok := d.(*ast.FuncDecl)
			if !ok || fd.Recv != nil || fd.Body == nil || fd.Type.TypeParams != nil || len(fd.Type.Params.List) != 0 {
				continue
			}
			s := c11CapSite{at: fd}
			if fd.Type.Results != nil {
				s.nodes = []ast.Node{fd.Type.Results}
			}
			out = append(out, s)
		}
		return out
	}},
}

// argument lists / statement lists / result lists of the capture sites: every shape gets the empty one, one
// element, several elements, multi-line spans, texts that the must-have patterns below do and do not match
var c11CapArgLists = []string{"", "1", "1, 2", "10, 20, 3", "nil", "foo", "foo, 1", "x", "foo.x", `"foo"`, `""`, "1,\n\t\t2", "-1", "Foo, FOO", `"a b", 'k'`, "é", "x + 1", "(1)", "nil, nil"}
var c11CapStmtLists = []string{"", "x++", "x = 1", "x++\n\t\tx--", "_ = foo", "ca()", "return", "{\n\t\t}", "x = 1; x = 2", "var _ = 1"}
var c11CapResults = []struct{ res, ret string }{{"", ""}, {"int", "1"}, {"(int, error)", "1, nil"}, {"(n int)", "n"}, {"T", "foo"}, {"[]int", "nil"}, {"(a, b int)", "a, b"}, {"func() int", "nil"}}

// patterns every run uses: half of them match the empty text, half do not
var c11CapPatterns = []string{"^$", "x*", "^[0-9, ]*$", "(?s).*", `^\s*$`, "^(nil)?$", ".*", "$", "^", `\A\z`, "a|", "(?m)^$", "[^a]*", ".?", "(?i)^$", "()", `\z`,
	"^1", ".", ".+", "x", `^\S`, `\b`, "foo", "^foo$", "[0-9]", "nil", `^\d+(, \d+)*$`, "(?i)FOO", `\n`, "^.$", `\w`, `^[^,]*$`, "1$", `^"`}

func c11E2ECaptures(c *Ctx, pats []c11Pat, check func(site string, p c11Pat, re *regexp.Regexp, in string, got bool, direct func() bool)) error {
	res := c.Res
	// target: one capture site per line and shape
	var src strings.Builder
	src.WriteString("package p\n\ntype T struct{ x int }\n\nvar (\n\tfoo T\n\tFoo, FOO, x, é int\n\tmark bool\n)\n\n")
	src.WriteString("func ca(...interface{}) {}\nfunc cn(...interface{}) {}\nfunc ct(...interface{}) {}\nfunc cx(interface{}) {}\n\n")
	src.WriteString("func calls() {\n")
	for _, a := range c11CapArgLists {
		fmt.Fprintf(&src, "\tca(%s)\n\tcn(%s)\n", a, a)
		if a == "" {
			src.WriteString("\tct(0)\n")
		} else {
			fmt.Fprintf(&src, "\tct(0, %s)\n", a)
			if !strings.Contains(a, ",") {
				fmt.Fprintf(&src, "\tcx(%s)\n", a)
			}
		}
		fmt.Fprintf(&src, "\t_ = []int{%s}\n", map[bool]string{true: a, false: ""}[c11IntList(a)])
	}
	src.WriteString("}\n\nfunc blocks() {\n")
	for _, st := range c11CapStmtLists {
		if st == "" {
			src.WriteString("\tif mark {\n\t}\n\tif mark {}\n")
		} else {
			fmt.Fprintf(&src, "\tif mark {\n\t\t%s\n\t}\n", st)
		}
	}
	src.WriteString("}\n\n")
	for i, r := range c11CapResults {
		fmt.Fprintf(&src, "func res%d() %s {\n\treturn %s\n}\n\n", i, r.res, r.ret)
	}
	src.WriteString("func resLit() {\n\t_ = func() { return }\n\t_ = func() (int, string) {\n\t\treturn 1,\n\t\t\t\"s\"\n\t}\n}\n")
	t, err := hx.ParseTarget("c11_captures.go", src.String())
	if err != nil {
		return fmt.Errorf("c11 capture target: %v\n%s", err, src.String())
	}
	type site struct {
		line int
		text string
	}
	sites := make([][]site, len(c11CapShapes))
	lineOf := make([]map[int]int, len(c11CapShapes))
	for si, sh := range c11CapShapes {
		lineOf[si] = map[int]int{}
		for _, cs := range sh.find(t.File) {
			text := ""
			if len(cs.nodes) > 0 {
				text = string(t.Src[t.Fset.Position(cs.nodes[0].Pos()).Offset:t.Fset.Position(cs.nodes[len(cs.nodes)-1].End()).Offset])
			}
			line := t.Fset.Position(cs.at.Pos()).Line
			if _, dup := lineOf[si][line]; dup {
				return fmt.Errorf("c11 capture target: two %s sites on line %d", sh.name, line)
			}
			lineOf[si][line] = len(sites[si])
			sites[si] = append(sites[si], site{line, text})
		}
		if len(sites[si]) < 3 {
			return fmt.Errorf("c11 capture target: %d sites for %s", len(sites[si]), sh.name)
		}
	}
	// patterns: the must-have list, then generated ones
	nGen := 25
	if c.Thorough {
		nGen = 300
	}
	var use []c11Pat
	seen := map[string]bool{}
	for _, p := range c11CapPatterns {
		seen[p] = true
		use = append(use, c11Pat{src: p, kind: "capture-fixed"})
	}
	for _, p := range pats {
		if nGen == 0 {
			break
		}
		if _, err := regexp.Compile(p.src); err != nil || p.src == "" || seen[p.src] || !utf8.ValidString(p.src) {
			continue
		}
		seen[p.src] = true
		use = append(use, p)
		nGen--
	}
	for _, p := range use {
		re := regexp.MustCompile(p.src)
		var rules strings.Builder
		q := strconv.Quote(p.src)
		for si, sh := range c11CapShapes {
			neg := ""
			if sh.negate {
				neg = "!"
			}
			fmt.Fprintf(&rules, "func r%d(m dsl.Matcher) { m.Match(`%s`).Where(%sm[%q].Text.Matches(%s)).Report(\"%d\") }\n", si, sh.pattern, neg, sh.varname, q, si)
		}
		e, err := hx.LoadRules(hx.RulesFile(rules.String()))
		if err != nil {
			return fmt.Errorf("c11 capture rules for %q: %v", p.src, err)
		}
		reports, pk, frame, err := hx.Run(e, t, hx.RunOpts{})
		if err != nil {
			return fmt.Errorf("c11 capture run: %v", err)
		}
		if pk != "" {
			res.Violate(hx.Violation{Signature: "e2e:Text.Matches:" + pk + "@" + frame, What: "Run panics in a rule with Text.Matches",
				Input: map[string]interface{}{"pattern": p.src, "rules": rules.String()}, Impl: pk + " at " + frame, Spec: "regexp: no panic"})
			continue
		}
		hit := make([]map[int]bool, len(c11CapShapes))
		for i := range hit {
			hit[i] = map[int]bool{}
		}
		for _, rep := range reports {
			si, err := strconv.Atoi(rep.Message)
			if err != nil || si < 0 || si >= len(c11CapShapes) {
				res.Errorf("c11 captures: unexpected report %v", rep)
				continue
			}
			k, ok := lineOf[si][rep.Line]
			if !ok {
				res.Errorf("c11 captures: %s reported at line %d, which is not one of its sites (pattern %q)", c11CapShapes[si].name, rep.Line, p.src)
				continue
			}
			hit[si][k] = true
		}
		for si, sh := range c11CapShapes {
			for k, s := range sites[si] {
				accepted := hit[si][k] != sh.negate // the predicate's own verdict
				class := "nonempty-text"
				if s.text == "" {
					class = "empty-text"
				}
				p, text := p, s.text
				check("Text.Matches["+sh.name+":"+class+"]", p, re, text, accepted, func() bool {
					pat, err := textmatch.Compile(p.src)
					return err == nil && pat.Match([]byte(text))
				})
			}
		}
	}
	res.Dist("e2e:capture-patterns")
	return nil
}

// c11IntList: the text is a list of int-typed expressions of the capture target
func c11IntList(a string) bool {
	switch a {
	case "", "1", "1, 2", "10, 20, 3", "x", "foo.x", "1,\n\t\t2", "-1", "Foo, FOO", "é", "(1)", "x + 1":
		return true
	}
	return false
}
