package main

// Regenerates lean/Rg/Gen/WalkTables.lean by *probing* the real walker (ast_walker.go) through
// the VerifWalk hook: per go/ast node kind, which Node-typed fields it descends into and in what
// order, the tag it visits with; the same for ast.Inspect (the reference order) and
// nodetag.FromNode (the reference tag); admissible child kinds per field by reflection.

import (
	"fmt"
	"go/ast"
	"go/token"
	"go/types"
	"reflect"
	"sort"
	"strings"

	"github.com/quasilyte/go-ruleguard/ruleguard"
	"github.com/quasilyte/gogrep/nodetag"
	"verifharness/hx"
)

func init() { registerGen("WalkTables.lean", genWalkTables) }

var (
	exprT  = reflect.TypeOf((*ast.Expr)(nil)).Elem()
	stmtT  = reflect.TypeOf((*ast.Stmt)(nil)).Elem()
	declT  = reflect.TypeOf((*ast.Decl)(nil)).Elem()
	specT  = reflect.TypeOf((*ast.Spec)(nil)).Elem()
	nodeT  = reflect.TypeOf((*ast.Node)(nil)).Elem()
)

// sentinel builds a well-formed node of static type t that both the walker and ast.Inspect can
// traverse; wherever the type allows, it is (or contains) a node the walker visits with a tag.
func sentinel(t reflect.Type) ast.Node {
	paren := func() ast.Expr { return &ast.ParenExpr{X: &ast.BadExpr{}} }
	switch t {
	case exprT:
		return paren()
	case stmtT:
		return &ast.BranchStmt{Tok: token.BREAK}
	case declT:
		return &ast.GenDecl{Tok: token.VAR}
	case specT:
		return &ast.ValueSpec{}
	case reflect.TypeOf((*ast.Ident)(nil)):
		return &ast.Ident{Name: "x"}
	case reflect.TypeOf((*ast.BasicLit)(nil)):
		return &ast.BasicLit{Kind: token.STRING, Value: `"x"`}
	case reflect.TypeOf((*ast.FieldList)(nil)):
		return &ast.FieldList{List: []*ast.Field{{Type: paren()}}}
	case reflect.TypeOf((*ast.Field)(nil)):
		return &ast.Field{Type: paren()}
	case reflect.TypeOf((*ast.BlockStmt)(nil)):
		return &ast.BlockStmt{}
	case reflect.TypeOf((*ast.CallExpr)(nil)):
		return &ast.CallExpr{Fun: &ast.BadExpr{}}
	case reflect.TypeOf((*ast.FuncType)(nil)):
		return &ast.FuncType{Params: &ast.FieldList{}}
	case reflect.TypeOf((*ast.CommentGroup)(nil)):
		return &ast.CommentGroup{List: []*ast.Comment{{Text: "//x"}}}
	case reflect.TypeOf((*ast.Comment)(nil)):
		return &ast.Comment{Text: "//x"}
	case reflect.TypeOf((*ast.ImportSpec)(nil)):
		return &ast.ImportSpec{Path: &ast.BasicLit{Kind: token.STRING, Value: `"x"`}}
	}
	panic("verif: no sentinel for static type " + t.String())
}

// probe builds a node of kind k; fields in `skip` stay nil; returns the node and, for every node
// inside a sentinel, the slot of k it hangs under.
func probe(k int, skip map[int]bool) (ast.Node, map[ast.Node]int) {
	n := reflect.New(reflect.TypeOf(hx.ProtoOf(k)).Elem())
	owner := map[ast.Node]int{}
	mark := func(root ast.Node, slot int) {
		ast.Inspect(root, func(c ast.Node) bool {
			if c != nil {
				owner[c] = slot
			}
			return true
		})
	}
	for _, s := range hx.NodeSlots(k) {
		if skip[s] {
			continue
		}
		f := n.Elem().Field(s)
		if f.Kind() == reflect.Slice {
			sl := reflect.MakeSlice(f.Type(), 0, 2)
			for i := 0; i < 2; i++ {
				c := sentinel(f.Type().Elem())
				mark(c, s)
				sl = reflect.Append(sl, reflect.ValueOf(c))
			}
			f.Set(sl)
		} else {
			c := sentinel(f.Type())
			mark(c, s)
			f.Set(reflect.ValueOf(c))
		}
	}
	return n.Interface().(ast.Node), owner
}

// slotOrder reduces a visit sequence to the order in which slots were first reached and checks
// that each slot's visits are contiguous (the walker finishes one field before the next).
func slotOrder(seq []int) ([]int, bool) {
	var order []int
	seen := map[int]bool{}
	ok := true
	for i, s := range seq {
		if i > 0 && seq[i-1] == s {
			continue
		}
		if seen[s] {
			ok = false
			continue
		}
		seen[s] = true
		order = append(order, s)
	}
	return order, ok
}

type walkRow struct {
	tag      int // -1 = not visited
	order    []int
	visible  []int // slots whose sentinel contains a node the walker can show us (a visited kind)
	contig   bool
	nilCrash []int // slots that make the walker panic when nil although ast.Inspect accepts it
}

// selfProblems collects probes where the node's own visit is not the first event or is repeated.
var selfProblems []string

func probeWalker(k int, skip map[int]bool) (tag int, seq []int, panicked bool) {
	tag = -1
	selfCount, events := 0, 0
	defer func() {
		if skip == nil && selfCount > 1 {
			selfProblems = append(selfProblems, fmt.Sprintf("%s is visited %d times", hx.KindNames[k], selfCount))
		}
	}()
	n, owner := probe(k, skip)
	info := &types.Info{Types: map[ast.Expr]types.TypeAndValue{}}
	defer func() {
		if r := recover(); r != nil {
			panicked = true
		}
	}()
	ruleguard.VerifWalk(n, info, false, func(v ruleguard.VerifVisit) {
		events++
		if v.Node == n {
			tag = int(v.Tag)
			selfCount++
			if events != 1 && skip == nil {
				selfProblems = append(selfProblems, fmt.Sprintf("%s is visited after its children", hx.KindNames[k]))
			}
			return
		}
		if v.Node == nil {
			return
		}
		if s, ok := owner[v.Node]; ok {
			seq = append(seq, s)
		}
	})
	return
}

func probeInspect(k int, skip map[int]bool) (seq []int, panicked bool) {
	n, owner := probe(k, skip)
	defer func() {
		if r := recover(); r != nil {
			panicked = true
		}
	}()
	ast.Inspect(n, func(c ast.Node) bool {
		if c == nil || c == n {
			return true
		}
		if s, ok := owner[c]; ok {
			seq = append(seq, s)
		}
		return true
	})
	return
}

func leanNatList(xs []int) string {
	ss := make([]string, len(xs))
	for i, x := range xs {
		ss[i] = fmt.Sprint(x)
	}
	return "[" + strings.Join(ss, ", ") + "]"
}

func leanOptNat(x int) string {
	if x < 0 {
		return "none"
	}
	return fmt.Sprintf("some %d", x)
}

func genWalkTables() (string, error) {
	nk := len(hx.KindNames)
	var sb strings.Builder
	sb.WriteString("import Rg.Spec.Walk\n/-! REGENERATED by `rgh extract` from /repo on every run — do not edit.\n")
	sb.WriteString("Probed behaviour of ruleguard/ast_walker.go (through VerifWalk), of ast.Inspect, of nodetag.FromNode,\nand the static child kinds of every go/ast field. -/\nnamespace Gen\nopen Walk\n\n")
	// kind names
	sb.WriteString("def kindNames : List String := [")
	for i, s := range hx.KindNames {
		if i > 0 {
			sb.WriteString(", ")
		}
		fmt.Fprintf(&sb, "%q", s)
	}
	sb.WriteString("]\n\n")

	rows := make([]walkRow, nk)
	inspect := make([][]int, nk)
	tags := make([]int, nk)
	var problems []string
	selfProblems = nil
	for k := 0; k < nk; k++ {
		tag, seq, pan := probeWalker(k, nil)
		if pan {
			problems = append(problems, fmt.Sprintf("walker panics on a fully populated %s", hx.KindNames[k]))
		}
		order, contig := slotOrder(seq)
		rows[k] = walkRow{tag: tag, order: order, contig: contig}
		iseq, ipan := probeInspect(k, nil)
		if ipan {
			return "", fmt.Errorf("ast.Inspect panics on the probe of %s", hx.KindNames[k])
		}
		iorder, icontig := slotOrder(iseq)
		if !icontig {
			return "", fmt.Errorf("ast.Inspect order of %s is not per-field", hx.KindNames[k])
		}
		inspect[k] = iorder
		tags[k] = int(nodetag.FromNode(hx.ProtoOf(k)))
		if nodetag.FromNode(hx.ProtoOf(k)) == nodetag.Unknown {
			tags[k] = -1
		}
		// nil tolerance, one field at a time
		for _, s := range hx.NodeSlots(k) {
			_, ipan := probeInspect(k, map[int]bool{s: true})
			_, _, wpan := probeWalker(k, map[int]bool{s: true})
			if wpan && !ipan {
				rows[k].nilCrash = append(rows[k].nilCrash, s)
			}
		}
	}
	fmt.Fprintf(&sb, "/-- per kind: tag the walker visits the node with, slots it descends into (in order) -/\ndef walkRows : List Row := [\n")
	for k := 0; k < nk; k++ {
		sep := ","
		if k == nk-1 {
			sep = ""
		}
		fmt.Fprintf(&sb, "  { tag := %s, order := %s }%s  -- %d %s", leanOptNat(rows[k].tag), leanNatList(rows[k].order), sep, k, hx.KindNames[k])
		var names []string
		for _, s := range rows[k].order {
			names = append(names, hx.SlotName(k, s))
		}
		fmt.Fprintf(&sb, " %v\n", names)
	}
	sb.WriteString("]\n\n/-- per kind: slots in ast.Inspect order (the reference \"source order\") -/\ndef inspectOrder : List (List Nat) := [\n")
	for k := 0; k < nk; k++ {
		sep := ","
		if k == nk-1 {
			sep = ""
		}
		fmt.Fprintf(&sb, "  %s%s  -- %s\n", leanNatList(inspect[k]), sep, hx.KindNames[k])
	}
	sb.WriteString("]\n\n/-- per kind: nodetag.FromNode (none = the kind has no tag) -/\ndef nodeTags : List (Option Nat) := [")
	for k := 0; k < nk; k++ {
		if k > 0 {
			sb.WriteString(", ")
		}
		sb.WriteString(leanOptNat(tags[k]))
	}
	sb.WriteString("]\n\n")
	named := map[string]string{}
	for _, it := range []struct {
		name string
		t    reflect.Type
	}{{"exprKinds", exprT}, {"stmtKinds", stmtT}, {"declKinds", declT}, {"specKinds", specT}} {
		var ks []int
		for c := 0; c < nk; c++ {
			if reflect.TypeOf(hx.ProtoOf(c)).Implements(it.t) {
				ks = append(ks, c)
			}
		}
		named[leanNatList(ks)] = it.name
		fmt.Fprintf(&sb, "def %s : List Nat := %s\n", it.name, leanNatList(ks))
	}
	sb.WriteString("\n/-- per kind: (slot, kinds a child in that slot can have by static type), ast.Inspect slots only -/\ndef childKinds : List (List (Nat × List Nat)) := [\n")
	for k := 0; k < nk; k++ {
		sep := ","
		if k == nk-1 {
			sep = ""
		}
		var parts []string
		for _, s := range inspect[k] {
			lst := leanNatList(hx.AdmissibleKinds(k, s))
			if nm, ok := named[lst]; ok {
				lst = nm
			}
			parts = append(parts, fmt.Sprintf("(%d, %s)", s, lst))
		}
		fmt.Fprintf(&sb, "  [%s]%s\n", strings.Join(parts, ", "), sep)
	}
	sb.WriteString("]\n\n")
	// certificate: greatest set of kinds from which no tagged kind is reachable
	tagFree := map[int]bool{}
	for k := 0; k < nk; k++ {
		tagFree[k] = tags[k] < 0
	}
	for changed := true; changed; {
		changed = false
		for k := 0; k < nk; k++ {
			if !tagFree[k] {
				continue
			}
			for _, s := range inspect[k] {
				for _, c := range hx.AdmissibleKinds(k, s) {
					if !tagFree[c] {
						tagFree[k] = false
						changed = true
					}
				}
			}
		}
	}
	var tf []int
	for k := 0; k < nk; k++ {
		if tagFree[k] {
			tf = append(tf, k)
		}
	}
	fmt.Fprintf(&sb, "/-- certificate (checked in Lean, not trusted): kinds below which no tagged node can occur -/\ndef tagFreeKinds : List Nat := %s\n\n", leanNatList(tf))
	ifk := hx.KindByName("IfStmt")
	fmt.Fprintf(&sb, "def cfg : Cfg := { ifKind := %d, ifInit := %d, ifCond := %d, ifBody := %d, ifElse := %d, funcKind := %d }\n\n",
		ifk, hx.SlotByName(ifk, "Init"), hx.SlotByName(ifk, "Cond"), hx.SlotByName(ifk, "Body"), hx.SlotByName(ifk, "Else"), hx.KindByName("FuncDecl"))
	mm := ruleguard.VerifMultiMatch()
	var mmTags []int
	for t, b := range mm {
		if b {
			mmTags = append(mmTags, t)
		}
	}
	fmt.Fprintf(&sb, "/-- runner.go:multiMatchTags -/\ndef multiMatchTags : List Nat := %s\ndef numBuckets : Nat := %d\n\n", leanNatList(mmTags), len(mm))
	// walker problems seen while probing (informational; the harness reports them as violations)
	problems = append(problems, selfProblems...)
	for k := 0; k < nk; k++ {
		if !rows[k].contig {
			problems = append(problems, fmt.Sprintf("walker interleaves the fields of %s", hx.KindNames[k]))
		}
	}
	sort.Strings(problems)
	sb.WriteString("def probeProblems : List String := [")
	for i, p := range problems {
		if i > 0 {
			sb.WriteString(", ")
		}
		fmt.Fprintf(&sb, "%q", p)
	}
	sb.WriteString("]\n\n/-- (kind, slot) pairs where a nil field crashes the walker although go/ast allows nil there -/\ndef nilCrashes : List (Nat × Nat) := [")
	first := true
	for k := 0; k < nk; k++ {
		for _, s := range rows[k].nilCrash {
			if !first {
				sb.WriteString(", ")
			}
			first = false
			fmt.Fprintf(&sb, "(%d, %d)", k, s)
		}
	}
	sb.WriteString("]\n\ndef tables : Tables := { rows := walkRows, insp := inspectOrder, tags := nodeTags, kinds := childKinds, tagFreeKinds := tagFreeKinds }\n\nend Gen\n")
	return sb.String(), nil
}
