package main

import (
	"fmt"
	"sort"
	"strings"

	"github.com/quasilyte/stdinfo"
)

// StdPaths.lean: the name -> path defaults every import table starts with
// (`typematch.NewImportsTab(stdinfo.PathByName)` in engine.Load/LoadFromIR), as byte lists.
func init() {
	registerGen("StdPaths.lean", func() (string, error) {
		var names []string
		for n := range stdinfo.PathByName {
			names = append(names, n)
		}
		sort.Strings(names)
		lit := func(s string) string {
			var parts []string
			for _, c := range []byte(s) {
				parts = append(parts, fmt.Sprint(c))
			}
			return "[" + strings.Join(parts, ", ") + "]"
		}
		var sb strings.Builder
		sb.WriteString("import Rg.Base\n/-! REGENERATED on every run from `github.com/quasilyte/stdinfo.PathByName`, the defaults that\n`engine.Load` / `LoadFromIR` give every import table (`typematch.NewImportsTab(stdinfo.PathByName)`). -/\nnamespace Gen\n\ndef stdPaths : List (Bytes × Bytes) := [\n")
		for i, n := range names {
			sep := ","
			if i == len(names)-1 {
				sep = ""
			}
			fmt.Fprintf(&sb, "  (%s, %s)%s  -- %s -> %s\n", lit(n), lit(stdinfo.PathByName[n]), sep, n, stdinfo.PathByName[n])
		}
		sb.WriteString("]\n\nend Gen\n")
		return sb.String(), nil
	})
}
