package main

// Shared loader for the structural extractors (tie c): the repository's packages are loaded with
// go/packages (syntax + types of the whole dependency closure), turned into SSA and a CHA call
// graph.  Hook files (`//go:build verif`) are NOT part of the program: the tag is not passed.

import (
	"crypto/sha1"
	"encoding/hex"
	"fmt"
	"go/token"
	"go/types"
	"os"
	"os/exec"
	"path/filepath"
	"sort"
	"strings"
	"sync"

	"golang.org/x/tools/go/callgraph"
	"golang.org/x/tools/go/callgraph/cha"
	"golang.org/x/tools/go/callgraph/vta"
	"golang.org/x/tools/go/packages"
	"golang.org/x/tools/go/ssa"
	"golang.org/x/tools/go/ssa/ssautil"
)

const repoModule = "github.com/quasilyte/go-ruleguard"

type program struct {
	fset    *token.FileSet
	pkgs    []*packages.Package
	prog    *ssa.Program
	cg      *callgraph.Graph
	repoDir string
	// all SSA functions (incl. anonymous ones and methods) that belong to the repository module
	repoFuncs []*ssa.Function
}

var (
	progOnce sync.Once
	progVal  *program
	progErr  error
)

func inRepo(pkgPath string) bool {
	if pkgPath != repoModule && !strings.HasPrefix(pkgPath, repoModule+"/") {
		return false
	}
	// the dsl packages are a separate module (declarations only, nothing runs)
	return !strings.HasPrefix(pkgPath, repoModule+"/dsl") && !strings.HasPrefix(pkgPath, repoModule+"/rules")
}

func loadProgram() (*program, error) {
	progOnce.Do(func() {
		cfg := &packages.Config{Mode: packages.NeedName | packages.NeedFiles | packages.NeedCompiledGoFiles |
			packages.NeedImports | packages.NeedDeps | packages.NeedTypes | packages.NeedSyntax |
			packages.NeedTypesInfo | packages.NeedTypesSizes | packages.NeedModule}
		pkgs, err := packages.Load(cfg, repoModule+"/ruleguard", repoModule+"/analyzer")
		if err != nil {
			progErr = err
			return
		}
		for _, p := range pkgs {
			if len(p.Errors) > 0 {
				progErr = fmt.Errorf("package %s does not type-check: %v", p.PkgPath, p.Errors[0])
				return
			}
		}
		p := &program{pkgs: pkgs, fset: pkgs[0].Fset}
		if pkgs[0].Module != nil {
			p.repoDir = pkgs[0].Module.Dir
		}
		p.prog, _ = ssautil.AllPackages(pkgs, ssa.InstantiateGenerics)
		p.prog.Build()
		// call graph: VTA (type-propagation) refinement of CHA, iterated twice as its documentation advises;
		// CHA alone resolves every `func()` value and every `String()`/`Error()` call to everything
		all := ssautil.AllFunctions(p.prog)
		p.cg = vta.CallGraph(all, vta.CallGraph(all, cha.CallGraph(p.prog)))
		for fn := range all {
			if fn.Pkg != nil && inRepo(fn.Pkg.Pkg.Path()) && fn.Blocks != nil {
				p.repoFuncs = append(p.repoFuncs, fn)
			}
		}
		sort.Slice(p.repoFuncs, func(i, j int) bool { return fnKey(p.repoFuncs[i]) < fnKey(p.repoFuncs[j]) })
		progVal = p
	})
	return progVal, progErr
}

// fnKey orders functions deterministically (String() of anonymous functions is parent$N).
func fnKey(f *ssa.Function) string { return f.String() }

// shortFn is a readable, stable name: "ruleguard.(*engineState).FindType", "analyzer.prepareEngine$1".
func shortFn(f *ssa.Function) string {
	s := f.String()
	s = strings.ReplaceAll(s, repoModule+"/ruleguard/", "")
	s = strings.ReplaceAll(s, repoModule+"/internal/", "")
	s = strings.ReplaceAll(s, repoModule+"/", "")
	return s
}

func shortPkg(p *types.Package) string {
	if p == nil {
		return "_"
	}
	return p.Name()
}

func (p *program) pos(pos token.Pos) string {
	if !pos.IsValid() {
		return "-"
	}
	q := p.fset.Position(pos)
	f := q.Filename
	if p.repoDir != "" {
		if rel, err := filepath.Rel(p.repoDir, f); err == nil && !strings.HasPrefix(rel, "..") {
			f = rel
		}
	}
	return fmt.Sprintf("%s:%d", f, q.Line)
}

// sourceHash identifies the analysed sources (all non-test .go files of the module's packages that were loaded).
func (p *program) sourceHash() string {
	h := sha1.New()
	var files []string
	packages.Visit(p.pkgs, nil, func(pk *packages.Package) {
		if inRepo(pk.PkgPath) {
			files = append(files, pk.CompiledGoFiles...)
		}
	})
	sort.Strings(files)
	for _, f := range files {
		b, _ := os.ReadFile(f)
		h.Write([]byte(filepath.Base(f)))
		h.Write(b)
	}
	return hex.EncodeToString(h.Sum(nil))[:16]
}

// ---- result cache ------------------------------------------------------------------------------
//
// Loading + SSA + VTA costs ~7 s; `rgh extract` runs before every check of every property.  The
// generated text is a function of the analysed sources and of the extractor, so it is cached under
// the user cache directory, keyed by a hash of the repository's non-test .go files (of the packages
// the extractor can reach), go.mod, and the extractor's own version string.

const extractorVersion = "c08-extract-v4"

func repoDirQuick() (string, error) {
	cmd := exec.Command("go", "list", "-m", "-f", "{{.Dir}}", repoModule)
	out, err := cmd.Output()
	if err != nil {
		return "", err
	}
	return strings.TrimSpace(string(out)), nil
}

func quickSourceHash() (string, error) {
	dir, err := repoDirQuick()
	if err != nil || dir == "" {
		return "", fmt.Errorf("cannot locate %s: %v", repoModule, err)
	}
	h := sha1.New()
	h.Write([]byte(extractorVersion))
	var files []string
	for _, sub := range []string{"ruleguard", "analyzer", "internal"} {
		_ = filepath.Walk(filepath.Join(dir, sub), func(p string, info os.FileInfo, err error) error {
			if err != nil {
				return nil
			}
			if info.IsDir() {
				if info.Name() == "testdata" {
					return filepath.SkipDir
				}
				return nil
			}
			if strings.HasSuffix(p, ".go") && !strings.HasSuffix(p, "_test.go") {
				files = append(files, p)
			}
			return nil
		})
	}
	files = append(files, filepath.Join(dir, "go.mod"))
	sort.Strings(files)
	for _, f := range files {
		b, err := os.ReadFile(f)
		if err != nil {
			return "", err
		}
		rel, _ := filepath.Rel(dir, f)
		h.Write([]byte(rel))
		h.Write([]byte{0})
		h.Write(b)
	}
	return hex.EncodeToString(h.Sum(nil))[:20], nil
}

// cachedGen wraps a generator with the on-disk cache (disabled by RGH_NO_EXTRACT_CACHE=1).
func cachedGen(name string, gen func() (string, error)) func() (string, error) {
	return func() (string, error) {
		if os.Getenv("RGH_NO_EXTRACT_CACHE") == "1" {
			return gen()
		}
		key, err := quickSourceHash()
		cdir, cerr := os.UserCacheDir()
		if err != nil || cerr != nil {
			return gen()
		}
		path := filepath.Join(cdir, "rgh-extract", key+"."+name)
		if b, err := os.ReadFile(path); err == nil && len(b) > 0 {
			return string(b), nil
		}
		s, err := gen()
		if err != nil {
			return "", err
		}
		if os.MkdirAll(filepath.Dir(path), 0o755) == nil {
			tmp := path + fmt.Sprintf(".%d", os.Getpid())
			if os.WriteFile(tmp, []byte(s), 0o644) == nil {
				_ = os.Rename(tmp, path)
			}
		}
		return s, nil
	}
}

func leanStr(s string) string {
	s = strings.ReplaceAll(s, `\`, `\\`)
	s = strings.ReplaceAll(s, `"`, `\"`)
	return `"` + s + `"`
}

// derefNamed returns "pkg.Type" for a (pointer to a) named type, "" otherwise.
func derefNamed(t types.Type) string {
	for {
		t = types.Unalias(t)
		if pt, ok := t.(*types.Pointer); ok {
			t = pt.Elem()
			continue
		}
		break
	}
	if n, ok := t.(*types.Named); ok {
		o := n.Obj()
		return shortPkg(o.Pkg()) + "." + o.Name()
	}
	return ""
}

func structOf(t types.Type) *types.Struct {
	for {
		t = types.Unalias(t)
		if pt, ok := t.(*types.Pointer); ok {
			t = pt.Elem()
			continue
		}
		break
	}
	s, _ := t.Underlying().(*types.Struct)
	return s
}

// ---- repository-level call graph -------------------------------------------------------------
//
// VTA is context-insensitive: every function ever passed to go/ast.Inspect, sort.Slice, … is a
// possible callee of every call of these.  For reachability questions (which mutexes can be locked
// below this call, which writes are reachable from Run) paths through non-repository code are
// therefore summarised: a repository function F that calls non-repository code is connected to
// the repository functions that code may call back (per VTA), restricted to the callbacks F itself
// hands out — closures it creates, function values it mentions, methods of repository types it
// converts to interfaces — plus callbacks registered in package-level variables.  If F passes on a
// function or interface value of unknown origin, no restriction is applied.

func (p *program) isRepoFn(f *ssa.Function) bool {
	if f == nil {
		return false
	}
	if f.Pkg != nil {
		return inRepo(f.Pkg.Pkg.Path())
	}
	if o := f.Origin(); o != nil && o != f {
		return p.isRepoFn(o)
	}
	if obj := f.Object(); obj != nil && obj.Pkg() != nil {
		return inRepo(obj.Pkg().Path())
	}
	if f.Parent() != nil {
		return p.isRepoFn(f.Parent())
	}
	return false
}

type repoGraph struct {
	adj    map[*ssa.Function]map[*ssa.Function]bool
	cb     map[*ssa.Function]map[*ssa.Function]bool // non-repository function -> repository callbacks below it
	global map[*ssa.Function]bool
	ment   map[*ssa.Function]mentionInfo
}

type mentionInfo struct {
	set       map[*ssa.Function]bool
	imprecise bool
}

// targets: the repository functions a call edge of f may lead to (the callee itself, or the callbacks
// non-repository code may make).
func (g *repoGraph) targets(p *program, f, callee *ssa.Function) []*ssa.Function {
	if p.isRepoFn(callee) {
		return []*ssa.Function{callee}
	}
	if len(g.cb[callee]) == 0 {
		return nil
	}
	mi, ok := g.ment[f]
	if !ok {
		set, imp := p.mentioned(f)
		mi = mentionInfo{set, imp}
		g.ment[f] = mi
	}
	var res []*ssa.Function
	for t := range g.cb[callee] {
		if mi.imprecise || mi.set[t] || g.global[t] {
			res = append(res, t)
		}
	}
	sort.Slice(res, func(i, j int) bool { return fnKey(res[i]) < fnKey(res[j]) })
	return res
}

var (
	rgOnce sync.Once
	rgVal  *repoGraph
)

func (p *program) mentioned(f *ssa.Function) (set map[*ssa.Function]bool, imprecise bool) {
	set = map[*ssa.Function]bool{}
	addMethods := func(t types.Type) {
		ms := p.prog.MethodSets.MethodSet(t)
		for i := 0; i < ms.Len(); i++ {
			if m := p.prog.MethodValue(ms.At(i)); m != nil {
				set[m] = true
			}
		}
	}
	for _, b := range f.Blocks {
		for _, in := range b.Instrs {
			switch in := in.(type) {
			case *ssa.MakeClosure:
				if fn, ok := in.Fn.(*ssa.Function); ok {
					set[fn] = true
				}
			case *ssa.MakeInterface:
				addMethods(in.X.Type())
			}
			var ops []*ssa.Value
			ops = in.Operands(ops)
			for i, op := range ops {
				if op == nil || *op == nil {
					continue
				}
				if fn, ok := (*op).(*ssa.Function); ok {
					if ci, isCall := in.(ssa.CallInstruction); isCall && i == 0 && ci.Common().Value == fn {
						continue // the callee itself
					}
					set[fn] = true
				}
			}
			if ci, ok := in.(ssa.CallInstruction); ok {
				c := ci.Common()
				callee := c.StaticCallee()
				if callee != nil && p.isRepoFn(callee) {
					continue
				}
				if _, isBuiltin := c.Value.(*ssa.Builtin); isBuiltin {
					continue
				}
				for _, a := range c.Args {
					switch types.Unalias(a.Type()).Underlying().(type) {
					case *types.Signature, *types.Interface:
						switch a.(type) {
						case *ssa.MakeClosure, *ssa.Function, *ssa.MakeInterface, *ssa.Const:
						default:
							imprecise = true
						}
					}
				}
			}
		}
	}
	return set, imprecise
}

func (p *program) repoGraph() *repoGraph {
	rgOnce.Do(func() {
		g := &repoGraph{adj: map[*ssa.Function]map[*ssa.Function]bool{}, ment: map[*ssa.Function]mentionInfo{}}
		// callbacks reachable from non-repository functions through non-repository code
		cb := map[*ssa.Function]map[*ssa.Function]bool{}
		var work []*ssa.Function
		for f, n := range p.cg.Nodes {
			if f == nil || p.isRepoFn(f) {
				continue
			}
			for _, e := range n.Out {
				if c := e.Callee.Func; p.isRepoFn(c) {
					if cb[f] == nil {
						cb[f] = map[*ssa.Function]bool{}
						work = append(work, f)
					}
					cb[f][c] = true
				}
			}
		}
		for len(work) > 0 {
			f := work[len(work)-1]
			work = work[:len(work)-1]
			for _, e := range p.cg.Nodes[f].In {
				x := e.Caller.Func
				if x == nil || p.isRepoFn(x) {
					continue
				}
				changed := false
				if cb[x] == nil {
					cb[x] = map[*ssa.Function]bool{}
				}
				for c := range cb[f] {
					if !cb[x][c] {
						cb[x][c] = true
						changed = true
					}
				}
				if changed {
					work = append(work, x)
				}
			}
		}
		// callbacks registered in package-level variables anywhere in the repository
		global := map[*ssa.Function]bool{}
		for f := range p.cg.Nodes {
			if f == nil || !p.isRepoFn(f) {
				continue
			}
			for _, b := range f.Blocks {
				for _, in := range b.Instrs {
					st, ok := in.(*ssa.Store)
					if !ok {
						continue
					}
					root := st.Addr
					for {
						if fa, ok := root.(*ssa.FieldAddr); ok {
							root = fa.X
							continue
						}
						break
					}
					if _, isGlobal := root.(*ssa.Global); !isGlobal {
						continue
					}
					switch v := st.Val.(type) {
					case *ssa.MakeClosure:
						if fn, ok := v.Fn.(*ssa.Function); ok {
							global[fn] = true
						}
					case *ssa.Function:
						global[v] = true
					}
				}
			}
		}
		g.cb, g.global = cb, global
		for f, n := range p.cg.Nodes {
			if f == nil || !p.isRepoFn(f) {
				continue
			}
			set := map[*ssa.Function]bool{}
			for _, e := range n.Out {
				for _, t := range g.targets(p, f, e.Callee.Func) {
					set[t] = true
				}
			}
			g.adj[f] = set
		}
		rgVal = g
	})
	return rgVal
}

// reachableFrom: repository functions reachable from the roots over the repository-level graph.
func (g *repoGraph) reachableFrom(roots ...*ssa.Function) map[*ssa.Function]bool {
	seen := map[*ssa.Function]bool{}
	work := append([]*ssa.Function{}, roots...)
	for _, r := range roots {
		seen[r] = true
	}
	for len(work) > 0 {
		f := work[len(work)-1]
		work = work[:len(work)-1]
		for c := range g.adj[f] {
			if !seen[c] {
				seen[c] = true
				work = append(work, c)
			}
		}
	}
	return seen
}
