package main

import (
	"fmt"
	"math/rand"
	"os"
	"strings"
	"time"

	"github.com/quasilyte/go-ruleguard/ruleguard"
	"verifharness/hx"
)

// Suite "state": every run setting crossed with a caller-provided RunContext.State made by ruleguard.NewRunnerState —
// absent, fresh for each run, and one object reused across all files and runs of an engine — for rules whose match
// needs node slices while a filter runs a second match inside it: list patterns (statement, expression, declaration
// lists) and patterns with `$*` captures, under Contains() filters whose sub-patterns need node slices themselves
// (argument lists with `$*_`, `return`, composite literals, blocks, list sub-patterns, sub-patterns that name the outer
// captures), with messages that interpolate the list captures, At() on them and Suggest() from them.

type c07StShape struct {
	name    string
	pattern string
	vars    []string
}

var c07StShapes = []c07StShape{
	// list patterns: the matcher walks a list node and keeps going after each match
	{"stmt-list:lock-next", "$x.Lock(); $y", []string{"x", "y"}},
	{"stmt-list:any-two", "$x; $y", []string{"x", "y"}},
	{"stmt-list:three", "$x; $_; $y", []string{"x", "y"}},
	{"stmt-list:head-then-return", "$*x; return $y", []string{"x", "y"}},
	{"stmt-list:between-probes", "probe($x); $*y; probe($_)", []string{"x", "y"}},
	{"stmt-list:call-then-rest", "$x($*_); $*y", []string{"x", "y"}},
	{"stmt-list:if-then-next", "if $x { $*_ }; $y", []string{"x", "y"}},
	{"stmt-list:decl-then-next", "var $x = $_; $y", []string{"x", "y"}},
	{"stmt-list:rest-after-lock", "mu.Lock(); $*x", []string{"x"}},
	{"expr-list:any-two", "$x, $y", []string{"x", "y"}},
	{"expr-list:head-tail", "$x, $*y", []string{"x", "y"}},
	{"expr-list:three", "$x, $_, $y", []string{"x", "y"}},
	{"expr-list:call-then-rest", "f($*x), $*y", []string{"x", "y"}},
	{"decl-list:two-funcs", "func $x($*_) $_ { $*y }; func $_($*_) $_ { $*_ }", []string{"x", "y"}},
	{"decl-list:func-bodies", "func $_() { $*x }; func $_($*_) $_ { $*y }", []string{"x", "y"}},
	{"decl-list:empty-funcs", "func $x() {}; func $y() {}", []string{"x", "y"}},
	{"decl-list:var-then-func", "var $x = $y; func $_($*_) $_ { $*_ }", []string{"x", "y"}},
	// single-node patterns with $* captures: the captures are node slices of the matcher state
	{"call-args", "probeN($*x)", []string{"x"}},
	{"any-call-args", "$y($*x)", []string{"x", "y"}},
	{"call-args-split", "probeN($*x, f($*y), $*_)", []string{"x", "y"}},
	{"composite-elems", "$y{$*x}", []string{"x", "y"}},
	{"slice-lit-elems", "[]$y{$*x}", []string{"x", "y"}},
	{"block", "{ $*x }", []string{"x"}},
	{"for-body", "for $*_; $*_; $*_ { $*x }", []string{"x"}},
	{"for-clauses", "for $*x; $_; $*y { $*_ }", []string{"x", "y"}},
	{"range-clause", "range $x", []string{"x"}},
	{"range-header", "for $x, $y := range $_", []string{"x", "y"}},
	{"range-body", "for $_, $y := range $_ { $*x }", []string{"x", "y"}},
	{"if-else-bodies", "if $_ { $*x } else { $*y }", []string{"x", "y"}},
	{"func-decl-body", "func $y($*_) $_ { $*x }", []string{"x", "y"}},
	{"func-decl-params", "func $_($*x) $_ { $*y }", []string{"x", "y"}},
	{"func-lit", "func($*y) $_ { $*x }", []string{"x", "y"}},
	{"return-list", "return $*x", []string{"x"}},
	{"append-args", "append($y, $*x)", []string{"x", "y"}},
	{"defer-call-args", "defer $y($*x)", []string{"x", "y"}},
	{"go-call-args", "go $y($*x)", []string{"x", "y"}},
	{"case-clause", "switch $*_ { $*_; case $*x: $*y }", []string{"x", "y"}},
	{"switch-body", "switch $*_ { $*x }", []string{"x"}},
	{"select-body", "select { $*x }", []string{"x"}},
	{"assign-lists", "$*x = $*y", []string{"x", "y"}},
	{"var-spec-lists", "var $*x = $*y", []string{"x", "y"}},
	{"struct-fields", "struct { $*x }", []string{"x"}},
}

// Contains() sub-patterns.  `%v` is replaced by the name of a capture of the outer pattern (the sub-match then starts
// with that capture preset).
var c07StSubs = []struct {
	pat   string
	slice bool // the sub-match takes node slices from its matcher state
}{
	{"$_($*_)", true},
	{"f($*_)", true},
	{"$_.Unlock($*_)", true},
	{"%v.Unlock($*_)", true},
	{"$_($*_, %v, $*_)", true},
	{"$_($*%v)", true},
	{"return $_", true},
	{"return $*_", true},
	{"[]int{$*_}", true},
	{"$_{$*_}", true},
	{"{ $*_ }", true},
	{"func($*_) $_ { $*_ }", true},
	{"$_; $_", true},
	{"$_; $*_; return $*_", true},
	{"$_, $_", true},
	{"$_, f($*_)", true},
	{"if $_ { $*_ }", true},
	{"for $*_; $*_; $*_ { $*_ }", true},
	{"var $_ = $_", true},
	{"switch $*_ { $*_; case $*_: $*_ }", true},
	{"range $_", false},
	{"$*_ = $*_", true},
	{"%v", false},
	{"$_ + $_", false},
	{"probe($_)", false},
}

const c07StPrelude = `package p

type Mu struct{ n int }

func (m *Mu) Lock()            {}
func (m *Mu) Unlock(xs ...int) {}

type T struct {
	a, b int
	g    func()
}

var mu, mu2 Mu
var counter int
var ch = make(chan int, 1)

func probe(xs ...interface{}) int { return 0 }
func probeN(xs ...interface{})    {}
func f(xs ...int) int             { return len(xs) }
func pair() (int, error)          { return 0, nil }
`

const c07StFixed = c07StPrelude + `
func bump(n int) int {
	mu.Lock()
	counter += n
	mu.Unlock()
	mu.Lock()
	defer mu.Unlock()
	counter++
	return counter
}

func first() {}
func second() {}

var top = probeN

func third() {}

func body(x int, s []int, t T) int {
	probe(x)
	probeN()
	probeN(x)
	probeN(x, 2, f(3))
	probeN(f(), f(1), f(1, 2), x)
	probe(1, x)
	x = f(1, 2)
	x, counter = counter, x
	_ = []int{1, f(3)}
	_ = []int{}
	_ = T{a: f(1)}
	_ = T{1, f(), nil}
	_ = [][]int{{1}, {f(2), 3}}
	s = append(s, x, f(x))
	var loc = f(0)
	_ = loc
	go probe(x, f(1))
	defer probe(f(2), x)
	ch <- f(1)
	func() { probe(1); probe(2) }()
	_ = func(a, b int) int { return f(a, b) }
	{
		probe(x)
		probe(s)
	}
	if x > 0 {
		probe(x)
		return f(x)
	}
	if x > 1 {
		mu.Lock()
		probe(1)
		mu.Unlock(1, f(2))
	} else {
		probe(2)
		probe(3)
	}
	for i := 0; i < 3; i++ {
		probeN(i, i)
		counter++
	}
	for range s {
	}
	for i, v := range s {
		probe(i, v)
		probeN(v, f(i))
	}
	for {
		probe(1)
		break
	}
	switch x {
	case 1, f(2):
		probe(x)
		mu.Lock()
		probe(1)
	default:
		probe(0)
	}
	switch {
	case x > 2:
		return 1
	}
	switch v := interface{}(x).(type) {
	case int, string:
		probe(v)
		probe(1)
	}
	select {
	case v := <-ch:
		probe(v)
		probe(v, v)
	default:
	}
	mu2.Lock()
	return x
}

func results() (int, error) {
	probe(1)
	return f(1), nil
}

func last() {}
`

var c07StStmtMenu = []string{
	"mu.Lock()", "mu.Unlock()", "mu2.Lock()", "defer mu.Unlock()", "mu.Unlock(1, f(2))",
	"counter += x", "counter++", "probe(x)", "probe(1, x)", "probeN()", "probeN(x, 2, f(3))", "probeN(f(), f(1), f(1, 2))",
	"x = f(1, 2)", "x, counter = counter, x", "_ = []int{1, f(3)}", "_ = []int{}", "_ = T{a: f(1)}", "_ = T{1, f(), nil}", "_ = [][]int{{1}, {f(2), 3}}",
	"s = append(s, x, f(x))", "var loc%d = f(0)", "go probe(x, f(1))", "defer probe(f(2), x)", "ch <- f(1)",
	"func() { probe(1); probe(2) }()", "_ = func(a, b int) int { return f(a, b) }",
	"{\n\tprobe(x)\n\tprobe(s)\n}",
	"if x > 0 {\n\tprobe(x)\n\treturn f(x)\n}",
	"if x > 1 {\n\tmu.Lock()\n\tprobe(1)\n\tmu.Unlock()\n} else {\n\tprobe(2)\n\tprobe(3)\n}",
	"for i := 0; i < 3; i++ {\n\tprobeN(i, i)\n\tcounter++\n}",
	"for range s {\n}",
	"for i, v := range s {\n\tprobe(i, v)\n\tprobeN(v, f(i))\n}",
	"for {\n\tprobe(1)\n\tbreak\n}",
	"switch x {\ncase 1, f(2):\n\tprobe(x)\n\tmu.Lock()\n\tprobe(1)\ndefault:\n\tprobe(0)\n}",
	"switch {\ncase x > 2:\n\treturn 1\n}",
	"switch v := interface{}(x).(type) {\ncase int, string:\n\tprobe(v)\n\tprobe(1)\n}",
	"select {\ncase v := <-ch:\n\tprobe(v)\n\tprobe(v, v)\ndefault:\n}",
	"return f(x, 1)",
	"t.g()", "t = T{b: x}", "var _ struct {\n\tp, q int\n\tr    string\n}",
}

func c07StGenFile(rng *rand.Rand, nFuncs int) string {
	var sb strings.Builder
	sb.WriteString(c07StPrelude)
	serial := 0
	for i := 0; i < nFuncs; i++ {
		sb.WriteString("\n")
		switch rng.Intn(5) {
		case 0:
			// adjacent empty functions, sometimes a variable in between
			k := 2 + rng.Intn(2)
			for j := 0; j < k; j++ {
				serial++
				fmt.Fprintf(&sb, "func e%d() {}\n", serial)
			}
			if rng.Intn(2) == 0 {
				serial++
				fmt.Fprintf(&sb, "var v%d = f(%d)\n", serial, serial)
			}
			continue
		}
		serial++
		fmt.Fprintf(&sb, "func g%d(x int, s []int, t T) int {\n", serial)
		n := rng.Intn(9)
		for j := 0; j < n; j++ {
			st := c07StStmtMenu[rng.Intn(len(c07StStmtMenu))]
			serial++
			st = strings.ReplaceAll(st, "%d", fmt.Sprint(serial))
			if strings.HasPrefix(st, "var loc") {
				st += fmt.Sprintf("\n_ = loc%d", serial)
			}
			for _, ln := range strings.Split(st, "\n") {
				sb.WriteString("\t" + ln + "\n")
			}
		}
		sb.WriteString("\treturn x\n}\n")
	}
	return sb.String()
}

func c07StTargets(c *Ctx) ([]*c07xTarget, error) {
	type spec struct {
		label, src string
		mem        bool
	}
	specs := []spec{{"fixed: every statement kind, lists of every length", c07StFixed, false}}
	rng := hx.Rng(c.Seed, "c07-state-files")
	nGen := 2
	if c.Thorough {
		nGen = 8
	}
	for i := 0; i < nGen; i++ {
		n := 3 + rng.Intn(6)
		specs = append(specs, spec{fmt.Sprintf("generated-%d(%d functions)", i, n), c07StGenFile(rng, n), i%2 == 1})
	}
	if c.Thorough {
		specs = append(specs, spec{"fixed:not-on-disk", c07StFixed, true})
	}
	var out []*c07xTarget
	for i, s := range specs {
		t, err := c07xParse(s.label, fmt.Sprintf("c07state%d.go", i), s.src, s.mem)
		if err != nil {
			return nil, err
		}
		out = append(out, t)
	}
	return out, nil
}

func runC07State(c *Ctx) error {
	res := c.Res
	const suite = "state"
	targets, err := c07StTargets(c)
	if err != nil {
		return err
	}
	seedRot := int(c.Seed % 97)
	if seedRot < 0 {
		seedRot = -seedRot
	}
	var cells []c07xCell
	probeCell := map[string]int{}
	subOf := map[int]int{}
	for si, sh := range c07StShapes {
		probeCell[sh.name] = len(cells)
		subOf[len(cells)] = -1
		// the pattern alone: does the shape match anything (then the Contains() filters of the other cells run)
		cells = append(cells, c07xCell{shape: sh.name, pattern: sh.pattern, filter: "", action: `Report("` + c07StVarsText(sh.vars) + `|$$")`})
		vs := append(append([]string{}, sh.vars...), "$$")
		for vi, v := range vs {
			for ui, sub := range c07StSubs {
				// the filter form and the payload rotate with the seed
				rot := si + vi + ui + seedRot
				outerVar := sh.vars[(vi+ui)%len(sh.vars)]
				pat := strings.ReplaceAll(sub.pat, "%v", "$"+outerVar)
				pat = strings.ReplaceAll(pat, "$*$", "$*")
				base := `m["` + v + `"].Contains(` + "`" + pat + "`" + `)`
				other := c07StSubs[(ui+5)%len(c07StSubs)].pat
				other = strings.ReplaceAll(strings.ReplaceAll(other, "%v", "$"+outerVar), "$*$", "$*")
				var filter string
				switch rot % 5 {
				case 0:
					filter = base
				case 1:
					filter = "!" + base
				case 2:
					filter = base + ` || m["$$"].Contains(` + "`" + other + "`" + `)`
				case 3:
					filter = `m.GoVersion().GreaterEqThan("1.18") && !` + base
				default:
					filter = `!(m["` + sh.vars[0] + `"].Contains(` + "`" + other + "`" + `) && ` + base + `)`
				}
				all := c07StVarsText(sh.vars)
				loc := v
				if loc == "$$" {
					loc = sh.vars[len(sh.vars)-1]
				}
				var action string
				switch (rot / 5) % 5 {
				case 0:
					action = `Report("` + all + `")`
				case 1:
					action = `Report("$` + loc + `").At(m["` + loc + `"])`
				case 2:
					action = `Report("r $$").Suggest("` + all + `")`
				case 3:
					action = `Report("` + all + `").At(m["` + loc + `"]).Suggest("s($` + loc + `)")`
				default:
					action = `Suggest("` + all + ` $$")`
				}
				subOf[len(cells)] = ui
				cells = append(cells, c07xCell{shape: sh.name, pattern: sh.pattern, filter: filter, action: action})
				if c.Thorough && rot%2 == 0 {
					// a second (filter form, payload) for the same triple
					subOf[len(cells)] = ui
					cells = append(cells, c07xCell{shape: sh.name, pattern: sh.pattern, filter: "!" + base, action: `Report("` + all + `|$$").At(m["` + loc + `"]).Suggest("` + all + `")`})
				}
			}
		}
	}
	tConv := time.Now()
	batch := c07xConvert(cells)
	dConv := time.Since(tConv)
	var dLoad, dRun time.Duration
	res.Distribution[suite+":cells"] = len(cells)
	res.Distribution[suite+":files"] = len(targets)
	res.Distribution[suite+":irconv-runs"] = batch.runs

	type ctxCfg struct {
		trunc int
		gover string
	}
	ctxs := []ctxCfg{{0, ""}, {-1, "1.17"}, {1, "1.21"}, {3, ""}, {5, "1.18"}, {60, "1.9"}}
	if !c.Thorough {
		ctxs = ctxs[:3]
	}
	shapeMatches := map[string]bool{}
	differ := 0
	for i, cl := range cells {
		res.Dist(suite + ":shape:" + cl.shape)
		if ui := subOf[i]; ui >= 0 {
			if c07StSubs[ui].slice {
				res.Dist(suite + ":cells:sub-pattern-needs-node-slices")
			} else {
				res.Dist(suite + ":cells:sub-pattern-without-node-slices")
			}
		}
		tLoad := time.Now()
		e, fromIR, lerr := batch.load(cells, i, i%31 == 0)
		dLoad += time.Since(tLoad)
		tRun := time.Now()
		if fromIR {
			res.Dist(suite + ":cells:loaded-from-IR")
		}
		if lerr != nil {
			c07xLoadViolation(res, cl, lerr)
			res.Count(suite, fmt.Sprint(i), false)
			res.Dist(suite + ":cell:load-error")
			if os.Getenv("VERIF_C07_ALL") != "" {
				fmt.Fprintf(os.Stderr, "LOADERR\t%s\t%s\t%s\t%s\t%v\n", suite, cl.pattern, cl.filter, cl.action, lerr)
			}
			continue
		}
		reused := ruleguard.NewRunnerState(e)
		reports := 0
		order := make([]int, 0, 2*len(targets))
		for ti := range targets {
			order = append(order, ti)
		}
		// the reused state sees every file again, in reverse order (state left behind by a later file meets an earlier one)
		for ti := len(targets) - 1; ti >= 0 && c.Thorough; ti-- {
			order = append(order, ti)
		}
	runs:
		for oi, ti := range order {
			t := targets[ti]
			for _, cx := range ctxs {
				keys := [3]string{}
				oks := [3]bool{}
				for mode := 0; mode < 3; mode++ {
					if oi >= len(targets) && mode != 2 {
						continue // the second pass is there for the reused state only
					}
					opts := hx.RunOpts{TruncateLen: cx.trunc, GoVersion: cx.gover}
					st := "nil"
					switch mode {
					case 1:
						opts.State = ruleguard.NewRunnerState(e)
						st = "NewRunnerState(engine), fresh for this run"
					case 2:
						opts.State = reused
						st = "NewRunnerState(engine), reused across files and runs"
					}
					res.Dist(suite + ":runs:state=" + strings.SplitN(st, ",", 2)[0] + map[int]string{0: "", 1: ":fresh", 2: ":reused"}[mode])
					rs, ok := c07xRun(res, suite, cl, e, t.t, opts, c07xInput(cl, t, cx.trunc, cx.gover, st))
					oks[mode] = ok
					if !ok {
						// the cell is a witness already (a panic costs a stack dump; thousands of them cost minutes)
						res.Dist(suite + ":cells-abandoned-after-a-panic")
						break runs
					}
					if ok {
						keys[mode] = c07xReportsKey(rs)
						reports += len(rs)
						if len(rs) > 0 && i == probeCell[cl.shape] {
							shapeMatches[cl.shape] = true
						}
						if len(rs) > 0 && mode > 0 {
							res.Dist(suite + ":runs-with-reports:caller-provided-state")
						}
					}
				}
				// not part of the property (C09 owns "a run depends only on its inputs"): recorded as a note, never a violation
				if oks[0] && ((oks[1] && keys[1] != keys[0]) || (oks[2] && keys[2] != keys[0])) {
					differ++
					res.Dist(suite + ":NOTE:reports-differ-between-nil-and-caller-provided-state")
					if differ <= 3 {
						res.Notes = append(res.Notes, fmt.Sprintf("state: reports differ between State=nil and a NewRunnerState state (not a C07 violation; see C09): pattern=%q filter=%q action=%q file=%s: nil=%q fresh=%q reused=%q",
							cl.pattern, cl.filter, cl.action, t.label, clip(keys[0]), clip(keys[1]), clip(keys[2])))
					}
				}
			}
		}
		dRun += time.Since(tRun)
		res.Count(suite, fmt.Sprint(i), shapeMatches[cl.shape])
		if reports > 0 {
			res.Dist(suite + ":cells-with-reports")
		}
		if i == 1 {
			res.Sample(c07xInput(cl, targets[0], 0, "", "NewRunnerState(engine), reused across files and runs"))
		}
	}
	res.Notes = append(res.Notes, fmt.Sprintf("state: %d cells on %d files: irconv %.1fs, loads %.1fs, runs %.1fs", len(cells), len(targets), dConv.Seconds(), dLoad.Seconds(), dRun.Seconds()))
	for _, sh := range c07StShapes {
		if !shapeMatches[sh.name] {
			res.Notes = append(res.Notes, "state: shape "+sh.name+" (`"+sh.pattern+"`) matched in no file (or did not load): its cells are trivial")
		}
	}
	return nil
}

func c07StVarsText(vars []string) string {
	parts := make([]string, len(vars))
	for i, v := range vars {
		parts[i] = v + "=$" + v
	}
	return strings.Join(parts, " ")
}

const c07ExtraRule = "; suite top: patterns matched against the *ast.File itself (declaration lists, `package $p`), top-level declarations, specs, the package name, import paths and " +
	"package-level initializers x every $$-level predicate (Node.Parent().Is / Node.Is over the node kinds of the top of a file, SinkType.Is, Contains, Text, Line, Type.*, Object.*, custom filters, " +
	"negations and connectives) and every per-capture predicate x payloads (Report, At, Suggest) x the same context settings, on an empty package, imports-only, one-declaration, " +
	"every-declaration-kind and seeded files of shuffled top-level declarations, on disk and not; non-trivial = the rule loads and its pattern matches in some file (so the filter ran with the " +
	"ancestor stack that shape implies); suite state: RunContext.State absent / NewRunnerState fresh per run / one NewRunnerState reused across all files and runs x TruncateLen x GoVersion x " +
	"list patterns (statement, expression, declaration lists) and patterns with $* captures x Contains() filters (plain, negated, in connectives) whose sub-patterns need node slices " +
	"(argument lists, return, composite literals, blocks, list sub-patterns, sub-patterns naming outer captures) x payloads interpolating the list captures, At() on them, Suggest() from them, " +
	"on a fixed file with every statement kind and seeded files; same oracle"
