package main

import (
	"fmt"
	"math"
	"strings"

	"github.com/quasilyte/go-ruleguard/ruleguard"
	"verifharness/hx"
)

func init() { register("C15", runC15) }

// text of length n whose bytes are pairwise distinguishable in position (so that a wrong
// prefix/suffix split is visible)
func c15Text(n int) []byte {
	b := make([]byte, n)
	for i := range b {
		b[i] = byte('a' + i%26)
		if (i/26)%2 == 1 {
			b[i] = byte('A' + i%26)
		}
	}
	return b
}

func runC15(c *Ctx) error {
	N := 80
	if c.Thorough {
		N = 400
	}
	res := c.Res
	res.Rule = fmt.Sprintf("exhaustive grid |s| in 0..%d x limit in -3..%d through VerifTruncateText (model op `trunc`), "+
		"plus end-to-end Report/Suggest(\"$x\") runs through Engine.Run with RunContext.TruncateLen over string literals of every length; "+
		"a case is non-trivial when |s| > limit-8 (at or beyond the elision threshold band) and distinct by (suite,|s|,limit)", N, N+6)
	res.Exhaustive = true

	// suite 1: the function itself, exhaustive grid, model + spec
	var ops, impl, specOps []string
	var inputs []interface{}
	for n := 0; n <= N; n++ {
		s := c15Text(n)
		limits := make([]int, 0, N+32)
		for L := -3; L <= N+6; L++ {
			limits = append(limits, L)
		}
		// the ends of the int range: arithmetic on the limit must not wrap around
		limits = append(limits, math.MinInt64, math.MinInt64+1, math.MinInt64+4, math.MinInt64+5, math.MinInt64+6, -1<<62, -1<<31, 1<<31, 1<<62, math.MaxInt64-1, math.MaxInt64)
		for _, L := range limits {
			L := L
			out := hx.Safe(func() string { return "ok " + hx.Hex(ruleguard.VerifTruncateText(s, L)) })
			ops = append(ops, fmt.Sprintf("trunc %s %d", hx.Hex(s), L))
			impl = append(impl, out)
			inputs = append(inputs, map[string]interface{}{"len": n, "maxLen": L})
			if L != 0 { // spec is stated on the configured value; 0 means default and is covered end-to-end
				specOps = append(specOps, fmt.Sprintf("spec15 1 %s %d %s", hx.Hex(s), L, out))
			} else {
				specOps = append(specOps, "")
			}
			res.Count("trunc-grid", fmt.Sprintf("%d/%d", n, L), n > L-8)
			switch {
			case strings.HasPrefix(out, "panic"):
				res.Dist("grid:panic")
			case n <= L:
				res.Dist("grid:fits")
			case L < 5:
				res.Dist("grid:limit<5")
			default:
				res.Dist("grid:elide")
			}
		}
	}
	res.Sample(map[string]interface{}{"op": ops[len(ops)/2], "impl": impl[len(impl)/2]})
	if err := res.Compare(c.Drv, "trunc-grid", ops, impl, inputs); err != nil {
		return err
	}
	if err := c15Spec(c, specOps, impl, inputs, "truncateText"); err != nil {
		return err
	}

	// suite 2: end to end through the public API
	e, err := hx.LoadRules(hx.RulesFile(`
func r(m dsl.Matcher) {
	m.Match("probe($x)").Report("$x")
	m.Match("sugg($x)").Report("M").Suggest("$x")
	m.MatchComment("LONG (?P<body>[a-zA-Z]+)").Report("$body").Suggest("$body")
	m.Match("addr($x)").Report("$x.Reset()")
}`))
	if err != nil {
		return fmt.Errorf("load: %v", err)
	}
	M := 70
	if c.Thorough {
		M = 140
	}
	var sb strings.Builder
	sb.WriteString("package p\nfunc probe(string){}\nfunc sugg(string){}\ntype R struct{}\nfunc (*R) Reset() {}\nfunc addr(*R) {}\nfunc f() {\n")
	for n := 2; n <= M; n++ {
		lit := `"` + string(c15Text(n-2)) + `"`
		fmt.Fprintf(&sb, "\tprobe(%s)\n\tsugg(%s)\n", lit, lit)
	}
	for n := 2; n <= M; n++ {
		fmt.Fprintf(&sb, "\t// LONG %s\n", string(c15Text(n)))
	}
	sb.WriteString("}\n")
	// `$x.` in a template with $x bound to `&v` is rendered as `v.`: the text that is interpolated (and measured) is `v`
	c15Ident := func(n int) string { return "Z" + string(c15Text(n-1)) }
	for n := 2; n <= M; n++ {
		fmt.Fprintf(&sb, "var %s R\n", c15Ident(n))
	}
	sb.WriteString("func g() {\n")
	for n := 2; n <= M; n++ {
		fmt.Fprintf(&sb, "\taddr(&%s)\n", c15Ident(n))
	}
	sb.WriteString("}\n")
	t, err := hx.ParseTarget("c15.go", sb.String())
	if err != nil {
		return fmt.Errorf("target: %v", err)
	}
	cfgs := []int{-7, -1, 0, 1, 2, 3, 4, 5, 6, 7, 8, 9, 10, 11, 20, 33, 59, 60, 61, 64, 65, 66, 100, 1000, math.MinInt64, math.MinInt64 + 3, math.MinInt64 + 5, math.MaxInt64}
	if c.Thorough {
		cfgs = nil
		for L := -8; L <= M+8; L++ {
			cfgs = append(cfgs, L)
		}
		cfgs = append(cfgs, 1000, 1<<40, math.MinInt64, math.MinInt64+1, math.MinInt64+4, math.MinInt64+5, math.MaxInt64)
	}
	ops, impl, specOps, inputs = nil, nil, nil, nil
	// every limit twice: with a fresh RunContext and no state, and the way a driver does that keeps ONE RunContext and ONE
	// RunnerState for all its runs and only changes TruncateLen in between (the effective limit is per run)
	sharedCtx := &ruleguard.RunContext{}
	sharedState := ruleguard.NewRunnerState(e)
	for pass := 0; pass < 2*len(cfgs); pass++ {
		cfg := cfgs[pass%len(cfgs)]
		opts := hx.RunOpts{TruncateLen: cfg}
		if pass >= len(cfgs) {
			opts.Ctx, opts.State = sharedCtx, sharedState
			res.Dist("e2e:one-RunContext-and-state-for-all-limits")
		}
		reports, pk, frame, err := hx.Run(e, t, opts)
		if err != nil {
			return err
		}
		if pk != "" {
			// the whole run failed: attribute it to the first literal long enough to be cut
			ops = append(ops, fmt.Sprintf("interp 1 %s %d", hx.Hex([]byte(`"`+string(c15Text(M-2))+`"`)), cfg))
			impl = append(impl, pk)
			inputs = append(inputs, map[string]interface{}{"TruncateLen": cfg, "frame": frame, "run": "whole file"})
			specOps = append(specOps, fmt.Sprintf("spec15 1 %s %d panic", hx.Hex([]byte(`"`+string(c15Text(M-2))+`"`)), cfg))
			res.Count("e2e", fmt.Sprintf("panic/%d", cfg), true)
			res.Dist("e2e:panic")
			continue
		}
		if len(reports) != 4*(M-1) {
			res.Errorf("e2e: expected %d reports, got %d (cfg=%d)", 4*(M-1), len(reports), cfg)
			continue
		}
		// g() follows f(): reports 2(M-1) .. 3(M-1) are the `$x.Reset()` ones
		for i, r := range reports[2*(M-1) : 3*(M-1)] {
			n := 2 + i
			src := []byte(c15Ident(n))
			got := r.Message
			if strings.HasSuffix(got, ".Reset()") {
				got = strings.TrimSuffix(got, ".Reset()")
			}
			ops = append(ops, fmt.Sprintf("interp 1 %s %d", hx.Hex(src), cfg))
			impl = append(impl, "ok "+hx.HexS(got))
			specOps = append(specOps, fmt.Sprintf("spec15 1 %s %d ok %s", hx.Hex(src), cfg, hx.HexS(got)))
			inputs = append(inputs, map[string]interface{}{"TruncateLen": cfg, "len": n, "template": "$x.Reset()", "capture": "&" + string(src), "message": r.Message})
			res.Dist("e2e:report-address-of-operand-before-a-dot")
			res.Count("e2e", fmt.Sprintf("a%d/%d", n, cfg), true)
		}
		reports = append(reports[:2*(M-1):2*(M-1)], reports[3*(M-1):]...)
		// comment rules are run after the syntax walk: the last M-1 reports are the comment ones
		for i, r := range reports[2*(M-1):] {
			n := 2 + i
			src := c15Text(n)
			ops = append(ops, fmt.Sprintf("interp 1 %s %d", hx.Hex(src), cfg), fmt.Sprintf("interp 0 %s %d", hx.Hex(src), cfg))
			impl = append(impl, "ok "+hx.HexS(r.Message), "ok "+hx.HexS(r.Repl))
			specOps = append(specOps, fmt.Sprintf("spec15 1 %s %d ok %s", hx.Hex(src), cfg, hx.HexS(r.Message)), fmt.Sprintf("spec15 0 %s %d ok %s", hx.Hex(src), cfg, hx.HexS(r.Repl)))
			inputs = append(inputs, map[string]interface{}{"TruncateLen": cfg, "len": n, "comment_rule": true, "suggest": false},
				map[string]interface{}{"TruncateLen": cfg, "len": n, "comment_rule": true, "suggest": true})
			res.Dist("e2e:comment-report")
			res.Dist("e2e:comment-suggest")
			res.Count("e2e", fmt.Sprintf("c%d/%d", n, cfg), true)
		}
		reports = reports[:2*(M-1)]
		for i, r := range reports {
			n := 2 + i/2
			src := []byte(`"` + string(c15Text(n-2)) + `"`)
			if i%2 == 0 {
				ops = append(ops, fmt.Sprintf("interp 1 %s %d", hx.Hex(src), cfg))
				impl = append(impl, "ok "+hx.HexS(r.Message))
				specOps = append(specOps, fmt.Sprintf("spec15 1 %s %d ok %s", hx.Hex(src), cfg, hx.HexS(r.Message)))
				res.Dist("e2e:report")
			} else {
				ops = append(ops, fmt.Sprintf("interp 0 %s %d", hx.Hex(src), cfg))
				impl = append(impl, "ok "+hx.HexS(r.Repl))
				specOps = append(specOps, fmt.Sprintf("spec15 0 %s %d ok %s", hx.Hex(src), cfg, hx.HexS(r.Repl)))
				res.Dist("e2e:suggest")
			}
			inputs = append(inputs, map[string]interface{}{"TruncateLen": cfg, "len": n, "suggest": i%2 == 1})
			eff := cfg
			if eff == 0 {
				eff = 60
			}
			res.Count("e2e", fmt.Sprintf("%d/%d/%d", n, cfg, i%2), n > eff-8)
		}
	}
	if len(ops) > 0 {
		res.Sample(map[string]interface{}{"op": ops[len(ops)/3], "impl": impl[len(impl)/3]})
	}
	if err := res.Compare(c.Drv, "e2e", ops, impl, inputs); err != nil {
		return err
	}
	return c15Spec(c, specOps, impl, inputs, "Engine.Run")
}

// c15Spec evaluates the executable statement of the property (Lean `SpecC15.specHolds`) on the
// implementation's outputs; a failing one is a property violation with a concrete input.
func c15Spec(c *Ctx, specOps, impl []string, inputs []interface{}, site string) error {
	var ops []string
	var idx []int
	for i, o := range specOps {
		if o != "" {
			ops = append(ops, o)
			idx = append(idx, i)
		}
	}
	ans, err := c.Drv.Ask(ops)
	if err != nil {
		return err
	}
	for k, a := range ans {
		if a == "holds" {
			continue
		}
		i := idx[k]
		in := inputs[i].(map[string]interface{})
		sig := site + ":"
		if strings.HasPrefix(impl[i], "panic") {
			sig += impl[i]
		} else {
			sig += "wrong-text"
		}
		c.Res.Violate(hx.Violation{Signature: sig, What: "interpolated text not allowed by C15", Input: in, Impl: impl[i], Spec: ops[k]})
	}
	return nil
}
